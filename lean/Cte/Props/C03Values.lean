/-
C03 / C02 — the values the conversion gives to windows, spaces and thermal bridges.
-/
import Cte.Model.ConvValues
import Mathlib.Order.Basic
namespace Cte.C03V
open Cte Cte.Bdl Cte.BdlData Cte.ConvV

/-- **windows keep their size, offset and set-back within their wall**: the five numbers are the written ones -/
theorem window_keeps_geometry (w : Window) :
    (convWindow w).x = w.x ∧ (convWindow w).y = w.y ∧ (convWindow w).width = w.width ∧
    (convWindow w).height = w.height ∧ (convWindow w).setback = w.setback := ⟨rfl, rfl, rfl, rfl, rfl⟩

/-- a space takes the storey's height (to the centimetre), its own level, and the product of its multiplier and the storey's -/
theorem space_values (s : Space) :
    (convSpace s).height = s.height.map round2 ∧ (convSpace s).z = s.z ∧
    (convSpace s).multiplier = tmul s.multiplier s.floorMultiplier ∧ (convSpace s).insideTenv = s.insidete := ⟨rfl, rfl, rfl, rfl⟩

/-- the three space types -/
theorem kind_cases (t : Str) :
    (spaceKindOf t = .conditioned ↔ t = "CONDITIONED".toList) ∧
    (spaceKindOf t = .uninhabited ↔ t = "UNHABITED".toList) := by
  unfold spaceKindOf
  constructor
  · by_cases h : t = "CONDITIONED".toList
    · simp [h]
    · have h' : (t == "CONDITIONED".toList) = false := by simpa using h
      simp only [h', Bool.false_eq_true, if_false, h, iff_false]
      split <;> simp
  · by_cases h : t = "UNHABITED".toList
    · subst h; decide
    · have h' : (t == "UNHABITED".toList) = false := by simpa using h
      simp only [h', Bool.false_eq_true, if_false, h, iff_false]
      split <;> simp

/-- no illuminance is reported without a positive VEEI objective -/
theorem illuminance_needs_veei (p v : TNum) (h : ∀ x, v = some x → x ≤ f32Eps) : illuminanceOf p v = none := by
  unfold illuminanceOf
  cases v with
  | none => rfl
  | some x =>
    have := h x rfl
    have hn : ¬ x > f32Eps := fun hgt => absurd this (Rat.not_le.mpr hgt)
    simp [hn]

/-- the record of computed lengths never becomes a thermal bridge, every other block does, in order -/
theorem tbs_exact (tbs : List ThermalBridge) :
    (convTbs tbs).map (·.name) = (tbs.map (·.name)).filter (fun n => n != "LONGITUDES_CALCULADAS".toList) := by
  unfold convTbs
  induction tbs with
  | nil => rfl
  | cons a t ih =>
    by_cases h : a.name != "LONGITUDES_CALCULADAS".toList
    · simp only [List.filter_cons, h, if_true, List.map_cons]
      exact congrArg _ ih
    · simp only [List.filter_cons, h, Bool.false_eq_true, if_false, List.map_cons]
      exact ih

/-- a bridge without a written length has length 0; the kind depends on the name only -/
theorem tb_values (tb : ThermalBridge) (h : (tb.name != "LONGITUDES_CALCULADAS".toList) = true) :
    convTbs [tb] = [{ name := tb.name, kind := tbKindOf tb.name, l := (tb.length.getD (some 0)).map round2, psi := tb.psi }] := by
  unfold convTbs
  rw [List.filter_cons, if_pos h]
  rfl

/-- internal gains per unit area: the gain per person divided by the area per person, to two decimals; nobody in the space, no gain -/
theorem per_area_values (g a : Rat) (ha : a ≠ 0) : perArea (some g) (some a) = some (round2 (g / a)) := by
  simp [perArea, ha]
theorem per_area_empty (g : TNum) : perArea g (some 0) = some 0 := by simp [perArea]

/-- a layer construction keeps as many layers as it has both a material and a thickness for, with the written thicknesses in order -/
theorem wallcons_layers (c : WallCons) :
    (convWallCons c).thickness = c.thickness.take (min c.material.length c.thickness.length) ∧
    (convWallCons c).absorptance = c.absorptance := by
  refine ⟨?_, rfl⟩
  unfold convWallCons
  simp only
  generalize c.material = ms
  generalize c.thickness = ts
  induction ms generalizing ts with
  | nil => simp
  | cons m mt ih =>
    cases ts with
    | nil => simp
    | cons t tt =>
      simp only [List.zip_cons_cons, List.map_cons, List.length_cons]
      rw [ih tt]
      simp [Nat.add_min_add_right]

/-- window constructions, glazing and frames carry the written figures under their new names -/
theorem wincons_values (c : WinCons) :
    (convWinCons c).fF = c.framefrac ∧ (convWinCons c).deltaU = c.deltau ∧ (convWinCons c).gGlshwi = c.gglshwi ∧
    (convWinCons c).c100 = c.infcoeff := ⟨rfl, rfl, rfl, rfl⟩
theorem glass_frame_values (g : Glass) (f : Frame) :
    (convGlass g).uValue = g.conductivity ∧ (convGlass g).gGln = g.gGln ∧
    (convFrame f).uValue = f.conductivity ∧ (convFrame f).absorptivity = f.absorptivity := ⟨rfl, rfl, rfl, rfl⟩

example : tbKindOf "FRENTE_FORJADO".toList = .intermediatefloor ∧ tbKindOf "HUECO_JAMBA".toList = .window ∧
    tbKindOf "OTRO".toList = .generic := by decide

example : illuminanceOf (some (44 / 10)) (some 7) = some (some (6286 / 100)) := by decide +kernel

end Cte.C03V
