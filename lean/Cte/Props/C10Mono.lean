/-
C10 (sign and monotonicity) — consequences of the formula that a reader of the indicator relies on:
with physically meaningful inputs (0 ≤ F_sh,obst, 0 ≤ g, F_f ≤ 1, 0 ≤ A, 0 ≤ H_sol;jul) the gains of a
window, their total and q_sol;jul are non-negative; a window's gains grow with its obstruction factor,
so a window in full shade (F_sh,obst = 0) contributes nothing and an unobstructed one (F_sh,obst = 1)
contributes the most a factor in [0,1] allows.
-/
import Cte.Props.C10
import Mathlib.Tactic.Positivity
import Mathlib.Algebra.Order.Field.Basic
namespace Cte.C10

/-- the physically meaningful range of one window's inputs -/
def SaneTerm (t : QTerm) : Prop := 0 ≤ t.fsh ∧ 0 ≤ t.g ∧ t.fF ≤ 1 ∧ 0 ≤ t.area ∧ 0 ≤ t.rad

theorem gains_nonneg (t : QTerm) (h : SaneTerm t) : 0 ≤ t.gains := by
  obtain ⟨h1, h2, h3, h4, h5⟩ := h
  have h3' : 0 ≤ 1 - t.fF := by linarith
  unfold QTerm.gains
  exact mul_nonneg (mul_nonneg (mul_nonneg (mul_nonneg h1 h2) h3') h4) h5

/-- gains are monotone in the obstruction factor, all else equal -/
theorem gains_mono_fsh (t : QTerm) (f : Rat) (h : SaneTerm t) (hf : t.fsh ≤ f) :
    t.gains ≤ ({ t with fsh := f } : QTerm).gains := by
  obtain ⟨_, h2, h3, h4, h5⟩ := h
  have h3' : 0 ≤ 1 - t.fF := by linarith
  unfold QTerm.gains
  simp only
  have hk : 0 ≤ t.g * (1 - t.fF) * t.area * t.rad := mul_nonneg (mul_nonneg (mul_nonneg h2 h3') h4) h5
  have : f * t.g * (1 - t.fF) * t.area * t.rad - t.fsh * t.g * (1 - t.fF) * t.area * t.rad
      = (f - t.fsh) * (t.g * (1 - t.fF) * t.area * t.rad) := by ring
  have h0 : 0 ≤ (f - t.fsh) * (t.g * (1 - t.fF) * t.area * t.rad) := mul_nonneg (by linarith) hk
  linarith

/-- a fully shaded window contributes nothing -/
theorem gains_zero_of_fsh_zero (t : QTerm) (h : t.fsh = 0) : t.gains = 0 := by
  unfold QTerm.gains; rw [h]; ring

/-- with a factor in [0,1] the gains never exceed those of the unobstructed window -/
theorem gains_le_unobstructed (t : QTerm) (h : SaneTerm t) (h1 : t.fsh ≤ 1) :
    t.gains ≤ t.g * (1 - t.fF) * t.area * t.rad := by
  have := gains_mono_fsh t 1 h h1
  unfold QTerm.gains at this ⊢
  simp only at this
  linarith

/-- totals: Q_sol;jul and q_sol;jul are non-negative when every window's inputs are sane -/
theorem qsol_nonneg (wins : List WinP) (wc : List WinConsP) (rad : Orient → Option Rat) (aRef : Rat)
    (h : ∀ t ∈ (qTerms wins wc rad).filterMap id, SaneTerm t) :
    0 ≤ (qSolJul wins wc rad aRef).qSum ∧ 0 ≤ (qSolJul wins wc rad aRef).q ∧ 0 ≤ (qSolJul wins wc rad aRef).aWp := by
  have hq : 0 ≤ rsum (((qTerms wins wc rad).filterMap id).map QTerm.gains) := by
    apply rsum_nonneg
    intro x hx
    obtain ⟨t, ht, rfl⟩ := List.mem_map.1 hx
    exact gains_nonneg t (h t ht)
  have ha : 0 ≤ rsum (((qTerms wins wc rad).filterMap id).map (·.area)) := by
    apply rsum_nonneg
    intro x hx
    obtain ⟨t, ht, rfl⟩ := List.mem_map.1 hx
    exact (h t ht).2.2.2.1
  refine ⟨hq, ?_, ha⟩
  show 0 ≤ (if aRef > 0 then rsum (((qTerms wins wc rad).filterMap id).map QTerm.gains) / aRef else 0)
  split
  · next hpos => exact div_nonneg hq (le_of_lt hpos)
  · exact le_refl 0

/-! ## non-vacuity -/
example : SaneTerm { orient := .s, area := 2, g := 1 / 2, fF := 1 / 5, fsh := 3 / 4, rad := 100 } := by
  unfold SaneTerm; norm_num
example : ({ orient := .s, area := 2, g := 1 / 2, fF := 1 / 5, fsh := 3 / 4, rad := 100 } : QTerm).gains = 60 := by
  decide +kernel

end Cte.C10
