/-
C16 — Purging removes exactly the unreachable items and changes no indicator.
Property theorems; model `Cte/Model/Purge.lean`, closed forms in `Cte/Lemmas/Purge.lean`.
(The indicator-invariance part lives in `Cte/Props/C16Indicators.lean`.)
-/
import Cte.Lemmas.Purge
import Cte.Props.C15
namespace Cte.C16

theorem filter_idem {α} (p : α → Bool) (l : List α) : (l.filter p).filter p = l.filter p := by
  rw [List.filter_filter]; simp

/-! ## purge_exact: what is kept, kind by kind -/

/-- elements are never touched -/
theorem purge_elements (m : Model) :
    (purge m).walls = m.walls ∧ (purge m).windows = m.windows ∧ (purge m).shades = m.shades ∧
    (purge m).info = m.info ∧ (purge m).overrides = m.overrides := ⟨rfl, rfl, rfl, rfl, rfl⟩

theorem purge_exact_spaces (m : Model) (s : Space) :
    s ∈ (purge m).spaces ↔
      s ∈ m.spaces ∧ ∃ w ∈ m.walls, w.space = s.id ∨ w.nextTo = some s.id := by
  rw [purge_spaces]; unfold pSpaces spacesUsed
  simp only [List.mem_filter, List.contains_eq_mem, decide_eq_true_eq, List.mem_flatMap,
    List.mem_cons, Option.mem_toList]
  constructor
  · rintro ⟨h, w, hw, hc⟩
    exact ⟨h, w, hw, hc.imp Eq.symm (fun h => by simpa using h)⟩
  · rintro ⟨h, w, hw, hc⟩
    exact ⟨h, w, hw, hc.imp Eq.symm (fun h => by simpa using h)⟩

theorem purge_exact_bridges (m : Model) (tb : ThermalBridge) :
    tb ∈ (purge m).thermalBridges ↔ tb ∈ m.thermalBridges ∧ rabs tb.l > f32Eps := by
  rw [purge_bridges]; unfold pBridges; simp

theorem purge_exact_wallcons (m : Model) (c : WallCons) :
    c ∈ (purge m).cons.wallcons ↔ c ∈ m.cons.wallcons ∧ ∃ w ∈ m.walls, w.cons = c.id := by
  rw [purge_wallcons]; unfold pWallcons; simp

theorem purge_exact_wincons (m : Model) (c : WinCons) :
    c ∈ (purge m).cons.wincons ↔ c ∈ m.cons.wincons ∧ ∃ w ∈ m.windows, w.cons = c.id := by
  rw [purge_wincons]; unfold pWincons; simp

/-- materials: kept iff used by a layer of a *remaining* wall construction -/
theorem purge_exact_materials (m : Model) (x : Material) :
    x ∈ (purge m).cons.materials ↔
      x ∈ m.cons.materials ∧ ∃ c ∈ (purge m).cons.wallcons, ∃ l ∈ c.layers, l.material = x.id := by
  rw [purge_materials, purge_wallcons]; unfold pMaterials matsUsed; simp

theorem purge_exact_glasses (m : Model) (x : Glass) :
    x ∈ (purge m).cons.glasses ↔
      x ∈ m.cons.glasses ∧ ∃ c ∈ (purge m).cons.wincons, c.glass = x.id := by
  rw [purge_glasses, purge_wincons]; unfold pGlasses; simp

theorem purge_exact_frames (m : Model) (x : Frame) :
    x ∈ (purge m).cons.frames ↔
      x ∈ m.cons.frames ∧ ∃ c ∈ (purge m).cons.wincons, c.frame = x.id := by
  rw [purge_frames, purge_wincons]; unfold pFrames; simp

theorem purge_exact_loads (m : Model) (x : SpaceLoads) :
    x ∈ (purge m).loads ↔ x ∈ m.loads ∧ ∃ s ∈ (purge m).spaces, s.loads = some x.id := by
  rw [purge_loads, purge_spaces]; unfold pLoads; simp

theorem purge_exact_thermostats (m : Model) (x : Thermostat) :
    x ∈ (purge m).thermostats ↔
      x ∈ m.thermostats ∧ ∃ s ∈ (purge m).spaces, s.thermostat = some x.id := by
  rw [purge_thermostats, purge_spaces]; unfold pThermostats; simp

theorem purge_exact_year (m : Model) (x : Schedule) :
    x ∈ (purge m).schedules.year ↔
      x ∈ m.schedules.year ∧
      ((∃ l ∈ (purge m).loads, l.peopleSchedule = some x.id ∨ l.equipmentSchedule = some x.id ∨
          l.lightingSchedule = some x.id) ∨
       (∃ t ∈ (purge m).thermostats, t.tempMax = some x.id ∨ t.tempMin = some x.id)) := by
  rw [purge_year, purge_loads, purge_thermostats]; unfold pYear yearUsed
  simp only [List.mem_filter, List.contains_eq_mem, decide_eq_true_eq, List.mem_append,
    List.mem_flatMap, Option.mem_toList]
  constructor
  · rintro ⟨h, hh⟩
    refine ⟨h, hh.imp ?_ ?_⟩
    · rintro ⟨l, hl, hc⟩; exact ⟨l, hl, by simpa [or_assoc] using hc⟩
    · rintro ⟨l, hl, hc⟩; exact ⟨l, hl, by simpa using hc⟩
  · rintro ⟨h, hh⟩
    refine ⟨h, hh.imp ?_ ?_⟩
    · rintro ⟨l, hl, hc⟩; exact ⟨l, hl, by simpa [or_assoc] using hc⟩
    · rintro ⟨l, hl, hc⟩; exact ⟨l, hl, by simpa using hc⟩

theorem purge_exact_week (m : Model) (x : Schedule) :
    x ∈ (purge m).schedules.week ↔
      x ∈ m.schedules.week ∧ ∃ y ∈ (purge m).schedules.year, ∃ e ∈ y.values, e.1 = x.id := by
  rw [purge_week, purge_year]; unfold pWeek weeksUsed; simp

theorem purge_exact_day (m : Model) (x : ScheduleDay) :
    x ∈ (purge m).schedules.day ↔
      x ∈ m.schedules.day ∧ ∃ w ∈ (purge m).schedules.week, ∃ e ∈ w.values, e.1 = x.id := by
  rw [purge_day, purge_week]; unfold pDay weeksUsed; simp

/-! ## purge_sublist: the relative order of what remains is kept -/

theorem purge_sublist (m : Model) :
    (purge m).spaces.Sublist m.spaces ∧
    (purge m).thermalBridges.Sublist m.thermalBridges ∧
    (purge m).cons.wallcons.Sublist m.cons.wallcons ∧
    (purge m).cons.wincons.Sublist m.cons.wincons ∧
    (purge m).cons.materials.Sublist m.cons.materials ∧
    (purge m).cons.glasses.Sublist m.cons.glasses ∧
    (purge m).cons.frames.Sublist m.cons.frames ∧
    (purge m).loads.Sublist m.loads ∧
    (purge m).thermostats.Sublist m.thermostats ∧
    (purge m).schedules.year.Sublist m.schedules.year ∧
    (purge m).schedules.week.Sublist m.schedules.week ∧
    (purge m).schedules.day.Sublist m.schedules.day :=
  ⟨List.filter_sublist, List.filter_sublist, List.filter_sublist, List.filter_sublist,
   List.filter_sublist, List.filter_sublist, List.filter_sublist, List.filter_sublist,
   List.filter_sublist, List.filter_sublist, List.filter_sublist, List.filter_sublist⟩

/-! ## purge_idempotent -/

theorem pSpaces_purge (m : Model) : pSpaces (purge m) = pSpaces m := by
  show ((purge m).spaces).filter _ = _
  rw [purge_spaces]; exact filter_idem _ _
theorem pBridges_purge (m : Model) : pBridges (purge m) = pBridges m := by
  show ((purge m).thermalBridges).filter _ = _
  rw [purge_bridges]; exact filter_idem _ _
theorem pWallcons_purge (m : Model) : pWallcons (purge m) = pWallcons m := by
  show ((purge m).cons.wallcons).filter _ = _
  rw [purge_wallcons]; exact filter_idem _ _
theorem pWincons_purge (m : Model) : pWincons (purge m) = pWincons m := by
  show ((purge m).cons.wincons).filter _ = _
  rw [purge_wincons]; exact filter_idem _ _
theorem pMaterials_purge (m : Model) : pMaterials (purge m) = pMaterials m := by
  unfold pMaterials; rw [pWallcons_purge, purge_materials]; exact filter_idem _ _
theorem pGlasses_purge (m : Model) : pGlasses (purge m) = pGlasses m := by
  unfold pGlasses; rw [pWincons_purge, purge_glasses]; exact filter_idem _ _
theorem pFrames_purge (m : Model) : pFrames (purge m) = pFrames m := by
  unfold pFrames; rw [pWincons_purge, purge_frames]; exact filter_idem _ _
theorem pLoads_purge (m : Model) : pLoads (purge m) = pLoads m := by
  unfold pLoads; rw [pSpaces_purge, purge_loads]; exact filter_idem _ _
theorem pThermostats_purge (m : Model) : pThermostats (purge m) = pThermostats m := by
  unfold pThermostats; rw [pSpaces_purge, purge_thermostats]; exact filter_idem _ _
theorem pYear_purge (m : Model) : pYear (purge m) = pYear m := by
  unfold pYear; rw [pLoads_purge, pThermostats_purge, purge_year]; exact filter_idem _ _
theorem pWeek_purge (m : Model) : pWeek (purge m) = pWeek m := by
  unfold pWeek; rw [pYear_purge, purge_week]; exact filter_idem _ _
theorem pDay_purge (m : Model) : pDay (purge m) = pDay m := by
  unfold pDay; rw [pWeek_purge, purge_day]; exact filter_idem _ _

/-- purging twice equals purging once -/
theorem purge_idempotent (m : Model) : purge (purge m) = purge m := by
  rw [purge_eq (purge m), pSpaces_purge, pBridges_purge, pWallcons_purge, pWincons_purge,
    pMaterials_purge, pGlasses_purge, pFrames_purge, pLoads_purge, pThermostats_purge,
    pYear_purge, pWeek_purge, pDay_purge]
  rfl

/-! ## purge introduces no broken link -/

theorem wall_space_kept (m : Model) (w : Wall) (hw : w ∈ m.walls) (x : Id)
    (hx : x = w.space ∨ w.nextTo = some x) :
    x ∈ (purge m).spaceIds ↔ x ∈ m.spaceIds := by
  unfold Model.spaceIds
  rw [purge_spaces]; unfold pSpaces spacesUsed
  simp only [List.mem_map, List.mem_filter, List.contains_eq_mem, decide_eq_true_eq,
    List.mem_flatMap, List.mem_cons, Option.mem_toList]
  constructor
  · rintro ⟨s, ⟨hs, _⟩, rfl⟩; exact ⟨s, hs, rfl⟩
  · rintro ⟨s, hs, rfl⟩
    refine ⟨s, ⟨hs, w, hw, ?_⟩, rfl⟩
    rcases hx with h | h
    · exact Or.inl h
    · exact Or.inr (by simpa using h)

theorem wall_cons_kept (m : Model) (w : Wall) (hw : w ∈ m.walls) :
    w.cons ∈ (purge m).wallConsIds ↔ w.cons ∈ m.wallConsIds := by
  unfold Model.wallConsIds
  rw [purge_wallcons]; unfold pWallcons
  simp only [List.mem_map, List.mem_filter, List.contains_eq_mem, decide_eq_true_eq]
  constructor
  · rintro ⟨c, ⟨hc, _⟩, h⟩; exact ⟨c, hc, h⟩
  · rintro ⟨c, hc, h⟩; exact ⟨c, ⟨hc, w, hw, h.symm⟩, h⟩

theorem win_cons_kept (m : Model) (w : Window) (hw : w ∈ m.windows) :
    w.cons ∈ (purge m).winConsIds ↔ w.cons ∈ m.winConsIds := by
  unfold Model.winConsIds
  rw [purge_wincons]; unfold pWincons
  simp only [List.mem_map, List.mem_filter, List.contains_eq_mem, decide_eq_true_eq]
  constructor
  · rintro ⟨c, ⟨hc, _⟩, h⟩; exact ⟨c, hc, h⟩
  · rintro ⟨c, hc, h⟩; exact ⟨c, ⟨hc, w, hw, h.symm⟩, h⟩

/-- every warning after purging was a warning before: purging introduces no broken link -/
theorem purge_no_new_broken_link (m : Model) (x : Warn) (h : x ∈ check (purge m)) :
    x ∈ check m := by
  rw [C15.check_mem_iff] at h ⊢
  have hwi : (purge m).wallIds = m.wallIds := rfl
  rcases h with h | h | h | h | h | h
  · obtain ⟨w, hw, rfl, hb⟩ := h
    exact Or.inl ⟨w, hw, rfl, fun hc => hb ((wall_space_kept m w hw _ (Or.inl rfl)).2 hc)⟩
  · obtain ⟨w, hw, rfl, hb⟩ := h
    exact Or.inr (Or.inl ⟨w, hw, rfl, fun hc => hb ((wall_cons_kept m w hw).2 hc)⟩)
  · obtain ⟨w, hw, n, rfl, hn, hb⟩ := h
    exact Or.inr (Or.inr (Or.inl ⟨w, hw, n, rfl, hn,
      fun hc => hb ((wall_space_kept m w hw n (Or.inr hn)).2 hc)⟩))
  · obtain ⟨w, hw, rfl, hb⟩ := h
    exact Or.inr (Or.inr (Or.inr (Or.inl ⟨w, hw, rfl, by rwa [hwi] at hb⟩)))
  · obtain ⟨w, hw, rfl, hb⟩ := h
    exact Or.inr (Or.inr (Or.inr (Or.inr (Or.inl ⟨w, hw, rfl,
      fun hc => hb ((win_cons_kept m w hw).2 hc)⟩))))
  · obtain ⟨tb, htb, rfl, hb⟩ := h
    rw [purge_bridges] at htb
    exact Or.inr (Or.inr (Or.inr (Or.inr (Or.inr ⟨tb, (List.mem_filter.1 htb).1, rfl, hb⟩))))

/-- conversely only warnings about removed (near-zero negative) bridges can disappear -/
theorem purge_keeps_link_warnings (m : Model) (x : Warn) (h : x ∈ check m)
    (hk : x.kind ≠ .tbNegative) : x ∈ check (purge m) := by
  rw [C15.check_mem_iff] at h ⊢
  have hwi : (purge m).wallIds = m.wallIds := rfl
  rcases h with h | h | h | h | h | h
  · obtain ⟨w, hw, rfl, hb⟩ := h
    exact Or.inl ⟨w, hw, rfl, fun hc => hb ((wall_space_kept m w hw _ (Or.inl rfl)).1 hc)⟩
  · obtain ⟨w, hw, rfl, hb⟩ := h
    exact Or.inr (Or.inl ⟨w, hw, rfl, fun hc => hb ((wall_cons_kept m w hw).1 hc)⟩)
  · obtain ⟨w, hw, n, rfl, hn, hb⟩ := h
    exact Or.inr (Or.inr (Or.inl ⟨w, hw, n, rfl, hn,
      fun hc => hb ((wall_space_kept m w hw n (Or.inr hn)).1 hc)⟩))
  · obtain ⟨w, hw, rfl, hb⟩ := h
    exact Or.inr (Or.inr (Or.inr (Or.inl ⟨w, hw, rfl, by rwa [hwi]⟩)))
  · obtain ⟨w, hw, rfl, hb⟩ := h
    exact Or.inr (Or.inr (Or.inr (Or.inr (Or.inl ⟨w, hw, rfl,
      fun hc => hb ((win_cons_kept m w hw).1 hc)⟩))))
  · obtain ⟨tb, _, rfl, _⟩ := h; exact absurd rfl hk

/-! ## Non-vacuity -/

def exModel : Model :=
  { Model.dflt with
    spaces := [{ id := "s1", height := 3, loads := some "l1" }, { id := "s2", height := 3, loads := some "l2" }]
    walls := [{ id := "w1", bounds := .exterior, cons := "c1", space := "s1",
                geometry := { tilt := 90, azimuth := 0 } }]
    thermalBridges := [{ id := "t1", l := 0 }, { id := "t2", l := 2 }]
    cons := { wallcons := [{ id := "c1", absorptance := 0.6, layers := [{ material := "m2", e := 0.1 }] },
                           { id := "c2", absorptance := 0.6, layers := [{ material := "m1", e := 0.1 }] }],
              materials := [{ id := "m1", properties := .resistance 1 none },
                            { id := "m2", properties := .resistance 2 none }] }
    loads := [{ id := "l1", areaPerPerson := 10, peopleSensible := 1, peopleLatent := 1, equipment := 1,
                lighting := 1, peopleSchedule := some "y1" },
              { id := "l2", areaPerPerson := 10, peopleSensible := 1, peopleLatent := 1, equipment := 1,
                lighting := 1, peopleSchedule := some "y2" }]
    schedules := { year := [{ id := "y1", values := [("k1", 365)] }, { id := "y2", values := [("k2", 365)] }],
                   week := [{ id := "k1", values := [("d1", 7)] }, { id := "k2", values := [("d2", 7)] }],
                   day := [{ id := "d1", values := [1] }, { id := "d2", values := [0] }] } }

example : (purge exModel).spaces.map (·.id) = ["s1"] ∧
    (purge exModel).thermalBridges.map (·.id) = ["t2"] ∧
    (purge exModel).cons.wallcons.map (·.id) = ["c1"] ∧
    (purge exModel).cons.materials.map (·.id) = ["m2"] ∧
    (purge exModel).loads.map (·.id) = ["l1"] ∧
    (purge exModel).schedules.year.map (·.id) = ["y1"] ∧
    (purge exModel).schedules.week.map (·.id) = ["k1"] ∧
    (purge exModel).schedules.day.map (·.id) = ["d1"] := by decide +kernel

end Cte.C16
