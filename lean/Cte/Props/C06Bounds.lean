/-
C06 (bounds) — what the surface resistances alone guarantee for an air-contact element, whatever its
layers: with a non-negative stack resistance the unrounded U-value is positive, never exceeds the
value of the bare surfaces (1 / (R_si + R_se): 7.14 for roofs, 5.88 for walls, 4.76 for floors) and
is strictly below 1 / R for a stack of resistance R > 0.
-/
import Cte.Props.C06
import Mathlib.Algebra.Order.Field.Basic
import Mathlib.Tactic.Linarith
namespace Cte.C06

theorem surfaces_pos (t : TiltC) : 0 < rsiOf t + RSE := by
  cases t <;> norm_num [rsiOf, RSI_DESC, RSI_ASC, RSI_HOR, RSE]

theorem uExteriorRaw_pos (t : TiltC) (r : Rat) (h0 : 0 ≤ r) : 0 < uExteriorRaw t r := by
  unfold uExteriorRaw
  have := surfaces_pos t
  apply one_div_pos.2; linarith

/-- never above the bare-surfaces value -/
theorem uExteriorRaw_le_bare (t : TiltC) (r : Rat) (h0 : 0 ≤ r) : uExteriorRaw t r ≤ uExteriorRaw t 0 :=
  uExteriorRaw_antitone t (le_refl 0) h0

/-- the bare-surfaces values of the three classes -/
theorem bare_values :
    uExteriorRaw .top 0 = 1 / (RSI_ASC + RSE) ∧ uExteriorRaw .side 0 = 1 / (RSI_HOR + RSE) ∧
    uExteriorRaw .bottom 0 = 1 / (RSI_DESC + RSE) := by
  unfold uExteriorRaw rsiOf
  simp

/-- strictly below the conductance of the layers alone -/
theorem uExteriorRaw_lt_inv (t : TiltC) (r : Rat) (hr : 0 < r) : uExteriorRaw t r < 1 / r := by
  unfold uExteriorRaw
  have := surfaces_pos t
  apply one_div_lt_one_div_of_lt hr; linarith

/-- one bound for every class: no air-contact element with non-negative layers reaches 7.15 W/m²K -/
theorem uExteriorRaw_lt_cap (t : TiltC) (r : Rat) (h0 : 0 ≤ r) : uExteriorRaw t r < 715 / 100 := by
  have h := uExteriorRaw_le_bare t r h0
  have : uExteriorRaw t 0 < 715 / 100 := by
    cases t <;> norm_num [uExteriorRaw, rsiOf, RSI_DESC, RSI_ASC, RSI_HOR, RSE]
  linarith

/-! ## non-vacuity -/
example : uExteriorRaw .side (1 / 2) = 1 / (1 / 2 + RSI_HOR + RSE) := rfl
example : 0 < uExteriorRaw .top 3 ∧ uExteriorRaw .top 3 < 1 / 3 := by decide +kernel

end Cte.C06
