/-
C04 — The JSON model format is lossless, idempotent and stable (format logic, struct by struct).
-/
import Cte.Model.Codec
import Cte.Lemmas.Codec
namespace Cte.C04
open Cte.Codec

theorem lookup_append (k : String) (a b : List (String × J)) :
    lookup k (a ++ b) = (lookup k a).orElse (fun _ => lookup k b) := by
  induction a with
  | nil => simp [lookup]
  | cons h t ih => obtain ⟨k', v⟩ := h; by_cases e : k' = k <;> simp [lookup, e, ih]

theorem lookup_none_of_keys (k : String) (a : List (String × J)) (h : ∀ kv ∈ a, kv.1 ≠ k) : lookup k a = none := by
  induction a with
  | nil => rfl
  | cons hd t ih =>
    obtain ⟨k', v⟩ := hd
    have : k' ≠ k := h (k', v) (by simp)
    simp only [lookup, this, if_false]
    exact ih (fun kv hkv => h kv (by simp [hkv]))

/-- a field writes zero or one pair, under its own key -/
theorem put_keys (f : Field) (v : J) : ∀ kv ∈ f.put v, kv.1 = f.key := by
  intro kv h
  unfold Field.put at h
  cases hr : f.rule with
  | req => simp [hr] at h; simp [h]
  | optNull => simp [hr] at h; simp [h]
  | dfltKeep d => simp [hr] at h; simp [h]
  | optSkip =>
    simp only [hr] at h
    cases v <;> simp at h <;> simp [h]
  | dfltSkip d =>
    simp only [hr] at h
    by_cases hb : J.beq v d <;> simp [hb] at h
    simp [h]

/-- reading back what a field wrote gives the value it held -/
theorem get_put (f : Field) (v : J) : f.get (lookup f.key (f.put v)) = some v := by
  unfold Field.put Field.get
  cases hr : f.rule with
  | req => simp [lookup]
  | optNull => simp [lookup]
  | dfltKeep d => simp [lookup]
  | optSkip => cases v <;> simp [lookup]
  | dfltSkip d =>
    by_cases hb : J.beq v d
    · have := J.beq_sound v d hb
      subst this
      simp [hb, lookup]
    · simp [hb, lookup]

theorem encode_keys (fs : List Field) (vs : List J) : ∀ kv ∈ encodeFields fs vs, kv.1 ∈ fs.map (·.key) := by
  induction fs generalizing vs with
  | nil => intro kv h; simp [encodeFields] at h
  | cons f t ih =>
    intro kv h
    cases vs with
    | nil => simp [encodeFields] at h
    | cons v vs' =>
      simp only [encodeFields, List.mem_append] at h
      rcases h with h | h
      · simp [put_keys f v kv h]
      · have := ih vs' kv h
        simp only [List.map_cons, List.mem_cons]; exact Or.inr this

theorem mapM_congr_lookup (fs : List Field) (o1 o2 : List (String × J))
    (h : ∀ f ∈ fs, lookup f.key o1 = lookup f.key o2) : decodeFields fs o1 = decodeFields fs o2 := by
  unfold decodeFields
  induction fs with
  | nil => rfl
  | cons f t ih =>
    simp only [List.mapM_cons]
    rw [h f (by simp), ih (fun g hg => h g (by simp [hg]))]

/-- `model_roundtrip` (one struct level): with pairwise distinct keys, decoding what was encoded
returns every field value — optional, defaulted and skipped fields included -/
theorem roundtrip (fs : List Field) (vs : List J) (hlen : vs.length = fs.length)
    (hk : (fs.map (·.key)).Nodup) : decodeFields fs (encodeFields fs vs) = some vs := by
  induction fs generalizing vs with
  | nil =>
    cases vs with
    | nil => rfl
    | cons _ _ => simp at hlen
  | cons f t ih =>
    cases vs with
    | nil => simp at hlen
    | cons v vs' =>
      simp only [List.map_cons, List.nodup_cons] at hk
      simp only [List.length_cons, Nat.add_right_cancel_iff] at hlen
      have hrest : lookup f.key (encodeFields t vs') = none :=
        lookup_none_of_keys _ _ (fun kv hkv heq => hk.1 (heq ▸ encode_keys t vs' kv hkv))
      have hself : f.get (lookup f.key (f.put v ++ encodeFields t vs')) = some v := by
        rw [lookup_append, hrest]
        have := get_put f v
        cases hl : lookup f.key (f.put v) <;> simp [hl] at this ⊢ <;> exact this
      have htail : decodeFields t (f.put v ++ encodeFields t vs') = decodeFields t (encodeFields t vs') := by
        apply mapM_congr_lookup
        intro g hg
        rw [lookup_append]
        have : lookup g.key (f.put v) = none :=
          lookup_none_of_keys _ _ (fun kv hkv heq => hk.1 (by
            rw [put_keys f v kv hkv] at heq
            rw [heq]; exact List.mem_map.2 ⟨g, hg, rfl⟩))
        simp [this]
      show decodeFields (f :: t) (encodeFields (f :: t) (v :: vs')) = some (v :: vs')
      simp only [encodeFields]
      unfold decodeFields
      simp only [List.mapM_cons]
      rw [hself]
      have := ih vs' hlen hk.2
      unfold decodeFields at this htail
      rw [htail, this]
      rfl

/-- `model_idempotent`: serialising what was loaded from a serialisation gives the same JSON -/
theorem idempotent (fs : List Field) (vs : List J) (hlen : vs.length = fs.length)
    (hk : (fs.map (·.key)).Nodup) :
    (decodeFields fs (encodeFields fs vs)).map (encodeFields fs) = some (encodeFields fs vs) := by
  rw [roundtrip fs vs hlen hk]; rfl

/-- `omitted_default`: a field that is omitted loads exactly as if its default had been written -/
theorem omitted_default (f : Field) (d : J) (h : f.rule = .dfltSkip d ∨ f.rule = .dfltKeep d) :
    f.get none = f.get (some d) := by
  rcases h with h | h <;> simp [Field.get, h]

theorem omitted_option (f : Field) (h : f.rule = .optSkip ∨ f.rule = .optNull) :
    f.get none = f.get (some .null) := by
  rcases h with h | h <;> simp [Field.get, h]

/-- a field holding its default is not written, and only then -/
theorem default_is_skipped (f : Field) (d v : J) (h : f.rule = .dfltSkip d) :
    f.put v = [] ↔ J.beq v d = true := by
  unfold Field.put
  simp only [h]
  by_cases hb : J.beq v d <;> simp [hb]

/-- `unknown_keys_ignored`: a key that no field uses does not change what is loaded -/
theorem unknown_keys_ignored (fs : List Field) (obj : List (String × J)) (k : String) (v : J)
    (h : k ∉ fs.map (·.key)) : decodeFields fs ((k, v) :: obj) = decodeFields fs obj := by
  apply mapM_congr_lookup
  intro f hf
  have : k ≠ f.key := fun e => h (e ▸ List.mem_map.2 ⟨f, hf, rfl⟩)
  simp [lookup, this]

/-- a missing required field is an error, not a default -/
theorem required_missing (f : Field) (h : f.rule = .req) : f.get none = none := by
  simp [Field.get, h]

/-! ### the untagged alternative of material properties: told apart by a required key -/

/-- decoding tries the first alternative, then the second -/
def decodeEither (a b : List Field) (obj : List (String × J)) : Option (Bool × List J) :=
  match decodeFields a obj with
  | some v => some (true, v)
  | none => (decodeFields b obj).map (fun v => (false, v))

/-- the second alternative is never mistaken for the first when the first has a required key that the
second never writes -/
theorem untagged_second (a b : List Field) (vs : List J) (hlen : vs.length = b.length)
    (hk : (b.map (·.key)).Nodup) (f : Field) (hf : f ∈ a) (hreq : f.rule = .req)
    (hnot : f.key ∉ b.map (·.key)) :
    decodeEither a b (encodeFields b vs) = some (false, vs) := by
  unfold decodeEither
  have hnone : decodeFields a (encodeFields b vs) = none := by
    unfold decodeFields
    have hl : lookup f.key (encodeFields b vs) = none :=
      lookup_none_of_keys _ _ (fun kv hkv heq => hnot (heq ▸ encode_keys b vs kv hkv))
    have hget : f.get (lookup f.key (encodeFields b vs)) = none := by
      rw [hl]; exact required_missing f hreq
    induction a with
    | nil => simp at hf
    | cons g t ih =>
      simp only [List.mapM_cons]
      simp only [List.mem_cons] at hf
      rcases hf with rfl | hf
      · rw [hget]; rfl
      · cases g.get (lookup g.key (encodeFields b vs)) with
        | none => rfl
        | some x => simp [ih hf]
  rw [hnone, roundtrip b vs hlen hk]; rfl

theorem untagged_first (a b : List Field) (vs : List J) (hlen : vs.length = a.length)
    (hk : (a.map (·.key)).Nodup) : decodeEither a b (encodeFields a vs) = some (true, vs) := by
  unfold decodeEither
  rw [roundtrip a vs hlen hk]

end Cte.C04
