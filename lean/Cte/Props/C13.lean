/-
C13 — Ray casting: accelerated queries equal exhaustive ones and match exact geometry.
Part 1: the tree logic (any element, box and ray types) and its instance with exact boxes.
-/
import Cte.Model.Bvh
import Cte.Model.Box
import Cte.Lemmas.Box
namespace Cte.C13
open Cte.Bvh

variable {E Box Ray : Type}

theorem foldl_hit (o : Ops E Box Ray) (L : Laws o) (r : Ray) (es : List E) (b : Box)
    (h : o.boxHit r b = true ∨ es.any (o.hit r) = true) :
    o.boxHit r (es.foldl (fun b e => o.join b (o.box e)) b) = true := by
  induction es generalizing b with
  | nil => simpa using h
  | cons a t ih =>
    simp only [List.foldl_cons]
    apply ih
    rcases h with h | h
    · exact Or.inl (L.mono_l r b (o.box a) h)
    · simp only [List.any_cons, Bool.or_eq_true] at h
      rcases h with h | h
      · exact Or.inl (L.sound r a b h)
      · exact Or.inr h

theorem boxOf_hit (o : Ops E Box Ray) (L : Laws o) (r : Ray) (es : List E)
    (h : es.any (o.hit r) = true) : o.boxHit r (boxOf o es) = true :=
  foldl_hit o L r es o.empty (Or.inr h)

/-- every stored box is met by the ray whenever something below it is hit -/
def WF (o : Ops E Box Ray) (r : Ray) : Tree E Box → Prop
  | .leaf b es => es.any (o.hit r) = true → o.boxHit r b = true
  | .node b l rt => WF o r l ∧ WF o r rt ∧ ((items l ++ items rt).any (o.hit r) = true → o.boxHit r b = true)

theorem query_eq_any (o : Ops E Box Ray) (r : Ray) (t : Tree E Box) (h : WF o r t) :
    query o r t = (items t).any (o.hit r) := by
  induction t with
  | leaf b es =>
    simp only [query, items]
    cases hh : es.any (o.hit r) with
    | false => simp
    | true => simp [h hh]
  | node b l rt ihl ihr =>
    obtain ⟨hl, hr, hb⟩ := h
    simp only [query, items, ihl hl, ihr hr, List.any_append]
    cases hh : ((items l).any (o.hit r) || (items rt).any (o.hit r)) with
    | false => simp
    | true =>
      have : (items l ++ items rt).any (o.hit r) = true := by simpa [List.any_append] using hh
      simp [hb this]

theorem any_partition (p q : E → Bool) (es : List E) :
    ((es.partition p).1.any q || (es.partition p).2.any q) = es.any q := by
  induction es with
  | nil => rfl
  | cons a t ih =>
    simp only [List.partition_eq_filter_filter] at ih ⊢
    by_cases h : p a <;> simp [List.filter_cons, h, ← ih] <;> cases q a <;> simp [Bool.or_comm, Bool.or_left_comm]

/-- the tree holds exactly the input elements (as far as any-hit queries can tell) -/
theorem items_any_build (o : Ops E Box Ray) (k : Nat) (q : E → Bool) (es : List E) :
    (items (build o k es)).any q = es.any q := by
  fun_induction build o k es with
  | case1 es h => simp [items]
  | case2 es h lr hd => simp [items]
  | case3 es h lr hd l r ihl ihr =>
    have ihl' : (items l).any q = lr.1.any q := ihl
    have ihr' : (items r).any q = lr.2.any q := ihr
    simp only [items, List.any_append, ihl', ihr']
    exact any_partition (o.sel es) q es

theorem tree_box_hit (o : Ops E Box Ray) (L : Laws o) (k : Nat) (r : Ray) (es : List E) :
    WF o r (build o k es) ∧
    ((items (build o k es)).any (o.hit r) = true → o.boxHit r (build o k es).box = true) := by
  fun_induction build o k es with
  | case1 es h =>
    refine ⟨?_, ?_⟩ <;> simp only [WF, items, Tree.box] <;> exact boxOf_hit o L r es
  | case2 es h lr hd =>
    refine ⟨?_, ?_⟩ <;> simp only [WF, items, Tree.box] <;> exact boxOf_hit o L r es
  | case3 es h lr hd l rt ihl ihr =>
    have key : (items l ++ items rt).any (o.hit r) = true → o.boxHit r (o.join l.box rt.box) = true := by
      intro hh
      simp only [List.any_append, Bool.or_eq_true] at hh
      rcases hh with hh | hh
      · exact L.mono_l r _ _ (ihl.2 hh)
      · exact L.mono_r r _ _ (ihr.2 hh)
    exact ⟨⟨ihl.1, ihr.1, key⟩, key⟩

/-- `bvh_eq_exhaustive`: for every element list (none, one, many, coinciding centres), every leaf
size and every ray, the accelerated "is this ray blocked" equals testing every element one by one.
`bvh_build_terminates` is part of the statement: `build` is a total function (its recursion is
accepted by Lean on the measure `es.length`, using that a partition with an empty side is a leaf). -/
theorem bvh_eq_exhaustive (o : Ops E Box Ray) (L : Laws o) (k : Nat) (r : Ray) (es : List E) :
    query o r (build o k es) = es.any (o.hit r) := by
  rw [query_eq_any o r _ (tree_box_hit o L k r es).1, items_any_build]

/-- **the explicit-stack traversal of the code is the recursive pre-order query**: for every stack of subtrees, `PreorderIter` +
    `BVH::intersects` answer "some subtree on the stack is hit" -/
theorem walk_eq_any (o : Ops E Box Ray) (r : Ray) (st : List (Tree E Box)) :
    walk o r st = st.any (query o r) := by
  fun_induction walk o r st with
  | case1 => rfl
  | case2 b es st hb he => simp [query, hb, he]
  | case3 b es st hb he ih => simp [query, hb, he, ih]
  | case4 b es st hb ih => simp [query, hb, ih]
  | case5 b l rt st hb ih => simp [query, hb, ih, Bool.or_assoc]
  | case6 b l rt st hb ih => simp [query, hb, ih]

theorem walk_eq_query (o : Ops E Box Ray) (r : Ray) (t : Tree E Box) : walk o r [t] = query o r t := by
  rw [walk_eq_any]; simp

/-- hence the code's traversal of the code's tree equals testing every element -/
theorem walk_eq_exhaustive (o : Ops E Box Ray) (L : Laws o) (k : Nat) (r : Ray) (es : List E) :
    walk o r [build o k es] = es.any (o.hit r) := by
  rw [walk_eq_query]; exact bvh_eq_exhaustive o L k r es

/-- a list that fits in a leaf is one leaf holding all of it — in particular the whole input when it
has at most `k` elements (the defect of the pinned commit: that leaf was dropped) -/
theorem build_small (o : Ops E Box Ray) (k : Nat) (es : List E) (h : es.length ≤ k) :
    build o k es = .leaf (boxOf o es) es := by
  rw [build]; simp [h]

/-- the empty set answers "not blocked" -/
theorem bvh_empty (o : Ops E Box Ray) (k : Nat) (r : Ray) : query o r (build o k []) = false := by
  rw [build_small o k [] (Nat.zero_le _)]; simp [query]

/-! ## instance: exact boxes with the slab test -/

/-- the concrete statement for boxes: every set of boxes, every leaf size, every ray -/
theorem bvh_boxes_eq_exhaustive (k : Nat) (r : RayQ) (es : List Box3) :
    query boxOps r (build boxOps k es) = es.any (fun e => e.hit r) :=
  bvh_eq_exhaustive boxOps boxLaws k r es

/-- and the slab test itself is exact geometry: it answers whether the half line meets the box -/
theorem slab_test_exact (r : RayQ) (b : Box3) : b.hit r = true ↔ ∃ t, 0 ≤ t ∧ b.contains r t := hit_iff r b

/-- `aabb_contains_corners` (box level): the joint box contains both boxes, point by point -/
theorem join_contains (a b : Box3) (r : RayQ) (t : Rat) :
    (a.contains r t → (a.join b).contains r t) ∧ (b.contains r t → (a.join b).contains r t) :=
  ⟨contains_join_left a b r t, contains_join_right a b r t⟩

/-! ## the bounding box of a polygon contains all its corners -/

def _root_.Cte.Box3.hasPoint (b : Box3) (p : V3) : Prop :=
  b.lo.x ≤ p.x ∧ p.x ≤ b.hi.x ∧ b.lo.y ≤ p.y ∧ p.y ≤ b.hi.y ∧ b.lo.z ≤ p.z ∧ p.z ≤ b.hi.z

theorem hasPoint_join_left (a b : Box3) (p : V3) (h : a.hasPoint p) : (a.join b).hasPoint p := by
  obtain ⟨h1, h2, h3, h4, h5, h6⟩ := h
  refine ⟨le_trans (rmin_le_left _ _) h1, le_trans h2 (le_rmax_left _ _), le_trans (rmin_le_left _ _) h3,
    le_trans h4 (le_rmax_left _ _), le_trans (rmin_le_left _ _) h5, le_trans h6 (le_rmax_left _ _)⟩

theorem hasPoint_join_right (a b : Box3) (p : V3) (h : b.hasPoint p) : (a.join b).hasPoint p := by
  obtain ⟨h1, h2, h3, h4, h5, h6⟩ := h
  refine ⟨le_trans (rmin_le_right _ _) h1, le_trans h2 (le_rmax_right _ _), le_trans (rmin_le_right _ _) h3,
    le_trans h4 (le_rmax_right _ _), le_trans (rmin_le_right _ _) h5, le_trans h6 (le_rmax_right _ _)⟩

theorem ofPoint_hasPoint (p : V3) : (Box3.ofPoint p).hasPoint p :=
  ⟨le_refl _, le_refl _, le_refl _, le_refl _, le_refl _, le_refl _⟩

/-- the running box keeps every point it already had and takes in the points still to come -/
theorem foldl_box_hasPoint (pts : List V3) (acc : Option Box3) (p : V3)
    (h : (∃ a, acc = some a ∧ a.hasPoint p) ∨ p ∈ pts) :
    ∃ b, pts.foldl (fun acc q => joinOpt acc (some (Box3.ofPoint q))) acc = some b ∧ b.hasPoint p := by
  induction pts generalizing acc with
  | nil =>
    rcases h with ⟨a, ha, hp⟩ | h
    · exact ⟨a, by simpa using ha, hp⟩
    · cases h
  | cons q t ih =>
    simp only [List.foldl_cons]
    apply ih
    rcases h with ⟨a, ha, hp⟩ | h
    · left; subst ha
      exact ⟨a.join (Box3.ofPoint q), rfl, hasPoint_join_left _ _ _ hp⟩
    · rcases List.mem_cons.mp h with rfl | h
      · left
        cases acc with
        | none => exact ⟨Box3.ofPoint p, rfl, ofPoint_hasPoint p⟩
        | some a => exact ⟨a.join (Box3.ofPoint p), rfl, hasPoint_join_right _ _ _ (ofPoint_hasPoint p)⟩
      · right; exact h

/-- `aabb_contains_corners`: for any list of corners — any polygon, position, tilt and azimuth — the box
`WallGeom::aabb` computes exists as soon as there is a corner and contains every corner -/
theorem aabb_contains_corners (pts : List V3) (p : V3) (hp : p ∈ pts) :
    ∃ b, aabbOfPoints pts = some b ∧ b.hasPoint p :=
  foldl_box_hasPoint pts none p (Or.inr hp)

/-- and it is no larger than needed: each of its six faces passes through a corner -/
theorem aabb_faces_touch (pts : List V3) (b : Box3) (h : aabbOfPoints pts = some b) :
    (∃ p ∈ pts, p.x = b.lo.x) ∧ (∃ p ∈ pts, p.x = b.hi.x) ∧ (∃ p ∈ pts, p.y = b.lo.y) ∧
    (∃ p ∈ pts, p.y = b.hi.y) ∧ (∃ p ∈ pts, p.z = b.lo.z) ∧ (∃ p ∈ pts, p.z = b.hi.z) := by
  unfold aabbOfPoints at h
  suffices H : ∀ (pts seen : List V3) (acc : Option Box3),
      (∀ a, acc = some a → (∃ p ∈ seen, p.x = a.lo.x) ∧ (∃ p ∈ seen, p.x = a.hi.x) ∧ (∃ p ∈ seen, p.y = a.lo.y) ∧
        (∃ p ∈ seen, p.y = a.hi.y) ∧ (∃ p ∈ seen, p.z = a.lo.z) ∧ (∃ p ∈ seen, p.z = a.hi.z)) →
      ∀ b, pts.foldl (fun acc q => joinOpt acc (some (Box3.ofPoint q))) acc = some b →
        (∃ p ∈ seen ++ pts, p.x = b.lo.x) ∧ (∃ p ∈ seen ++ pts, p.x = b.hi.x) ∧ (∃ p ∈ seen ++ pts, p.y = b.lo.y) ∧
        (∃ p ∈ seen ++ pts, p.y = b.hi.y) ∧ (∃ p ∈ seen ++ pts, p.z = b.lo.z) ∧ (∃ p ∈ seen ++ pts, p.z = b.hi.z) by
    simpa using H pts [] none (by intro a ha; cases ha) b h
  intro pts
  induction pts with
  | nil =>
    intro seen acc hacc b hb
    simp only [List.foldl_nil] at hb
    simpa using hacc b hb
  | cons q t ih =>
    intro seen acc hacc b hb
    simp only [List.foldl_cons] at hb
    have := ih (seen ++ [q]) (joinOpt acc (some (Box3.ofPoint q))) (by
      intro a ha
      cases acc with
      | none =>
        simp only [joinOpt, Option.some.injEq] at ha; subst ha
        simp [Box3.ofPoint]
      | some a0 =>
        simp only [joinOpt, Option.some.injEq] at ha; subst ha
        obtain ⟨h1, h2, h3, h4, h5, h6⟩ := hacc a0 rfl
        have mn : ∀ (u v : Rat), rmin u v = u ∨ rmin u v = v := by intro u v; unfold rmin; split <;> simp
        have mx : ∀ (u v : Rat), rmax u v = u ∨ rmax u v = v := by intro u v; unfold rmax; split <;> simp
        have lift : ∀ (f : V3 → Rat) (c : Rat), (∃ p ∈ seen, f p = c) → ∃ p ∈ seen ++ [q], f p = c := by
          intro f c ⟨p, hp, e⟩; exact ⟨p, by simp [hp], e⟩
        have last : ∀ (f : V3 → Rat), ∃ p ∈ seen ++ [q], f p = f q := fun f => ⟨q, by simp, rfl⟩
        simp only [Box3.join, Box3.ofPoint]
        refine ⟨?_, ?_, ?_, ?_, ?_, ?_⟩
        · rcases mn a0.lo.x q.x with e | e <;> rw [e]
          exacts [lift (·.x) _ h1, last (·.x)]
        · rcases mx a0.hi.x q.x with e | e <;> rw [e]
          exacts [lift (·.x) _ h2, last (·.x)]
        · rcases mn a0.lo.y q.y with e | e <;> rw [e]
          exacts [lift (·.y) _ h3, last (·.y)]
        · rcases mx a0.hi.y q.y with e | e <;> rw [e]
          exacts [lift (·.y) _ h4, last (·.y)]
        · rcases mn a0.lo.z q.z with e | e <;> rw [e]
          exacts [lift (·.z) _ h5, last (·.z)]
        · rcases mx a0.hi.z q.z with e | e <;> rw [e]
          exacts [lift (·.z) _ h6, last (·.z)]) b hb
    simpa [List.append_assoc] using this

example : aabbOfPoints [⟨1, 5, 0⟩, ⟨-2, 7, 3⟩, ⟨0, 6, -1⟩] = some { lo := ⟨-2, 5, -1⟩, hi := ⟨1, 7, 3⟩ } := by decide +kernel

/-! ## non-vacuity: 40 identical boxes (coinciding centres) and a ray through them -/
def unitBox : Box3 := { lo := ⟨0, 0, 0⟩, hi := ⟨1, 1, 1⟩ }
def rayThrough : RayQ := { o := ⟨-1, 1 / 2, 1 / 2⟩, d := ⟨1, 0, 0⟩ }
def rayAway : RayQ := { o := ⟨-1, 1 / 2, 1 / 2⟩, d := ⟨-1, 0, 0⟩ }
example : query boxOps rayThrough (build boxOps 30 (List.replicate 40 unitBox)) = true := by
  rw [bvh_boxes_eq_exhaustive]; decide +kernel
example : query boxOps rayAway (build boxOps 30 [unitBox]) = false := by
  rw [bvh_boxes_eq_exhaustive]; decide +kernel

end Cte.C13
