/-
  C03 — Conversion preserves the building's geometry and orientation conventions.

  Every statement is about `Place.wallCorners` / `Place.toGlobal`, the model of `wall_geometry` followed by
  `to_global_coords_matrix`, against `Place.placeSpec`, the source convention.  Angles are (cos, sin) pairs; the
  identities hold for all rational pairs, unit or not, except where `Unit` is assumed.
-/
import Cte.Model.Placement
import Mathlib.Tactic.Ring
import Mathlib.Tactic.LinearCombination

namespace Cte.Props.C03
open Cte Cte.Place

theorem vec3_ext {a b : Vec3} (hx : a.x = b.x) (hy : a.y = b.y) (hz : a.z = b.z) : a = b := by
  cases a; cases b; simp_all

/-- the position the code computes is the source convention's -/
theorem wallPosition_spec (g : Ang) (sp : SpaceP) (p : Vec3) : wallPosition g sp p = placeSpec g sp p := by
  unfold wallPosition placeSpec vadd
  apply vec3_ext <;> simp [rotZ] <;> ring

/-- **a wall on an outline edge spans exactly that edge over the storey height**: for the edge that starts at `p1`
    with direction `(dx, dy)` — whose outward normal `(dy, −dx)` has clockwise-from-north angle θ, i.e.
    (cos θ, sin θ) = (−dx, dy) — the wall-coordinate point `(u, v)` lands on `p1 + u·(dx, dy)` at height `v`,
    placed by the source convention, whatever the space angle, the space offset and the global deviation -/
theorem edge_wall_spans_edge (g : Ang) (sp : SpaceP) (b : Vec3) (dx dy u v : Rat) :
    toGlobal (wallPosition g sp b) (azimuth52016 g sp.ang ⟨-dx, dy⟩) Ang.half u v =
      placeSpec g sp ⟨b.x + u * dx, b.y + u * dy, b.z + v⟩ := by
  rw [wallPosition_spec]
  unfold toGlobal placeSpec azimuth52016 vadd Ang.add Ang.neg Ang.pi Ang.half
  apply vec3_ext <;> simp [rotZ, rotX] <;> ring

/-- its outward normal is the edge's outward normal `(dy, −dx)`, placed by the source convention: it points
    away from the space -/
theorem edge_wall_normal (g : Ang) (sp : SpaceP) (dx dy : Rat) :
    rotZ (azimuth52016 g sp.ang ⟨-dx, dy⟩) (rotX Ang.half ⟨0, 0, 1⟩) =
      rotZ (Ang.neg g) (rotZ (Ang.neg sp.ang) ⟨dy, -dx, 0⟩) := by
  unfold azimuth52016 Ang.add Ang.neg Ang.pi Ang.half
  apply vec3_ext <;> simp [rotZ, rotX] <;> ring

/-- **a ceiling taken from the space outline reproduces the outline at ceiling level** (wall azimuth `w`, unit) -/
theorem top_outline_reproduced (g w : Ang) (hw : Ang.Unit w) (sp : SpaceP) (ws : Vec3) (p : Rat × Rat) :
    toGlobal (wallPosition g sp ⟨ws.x, ws.y, ws.z + sp.height⟩) (azimuth52016 g sp.ang w) Ang.zero
        (rot2 (Ang.add w Ang.pi) p).1 (rot2 (Ang.add w Ang.pi) p).2 =
      placeSpec g sp ⟨p.1 + ws.x, p.2 + ws.y, ws.z + sp.height⟩ := by
  rw [wallPosition_spec]
  unfold Ang.Unit at hw
  unfold toGlobal placeSpec azimuth52016 vadd Ang.add Ang.neg Ang.pi Ang.zero rot2
  apply vec3_ext
  · simp [rotZ, rotX]
    linear_combination (g.c * sp.ang.c * p.1 - g.s * sp.ang.s * p.1 + g.c * sp.ang.s * p.2 + g.s * sp.ang.c * p.2) * hw
  · simp [rotZ, rotX]
    linear_combination (-(g.s * sp.ang.c * p.1) - g.c * sp.ang.s * p.1 + g.c * sp.ang.c * p.2 - g.s * sp.ang.s * p.2) * hw
  · simp [rotZ, rotX]

/-- **a floor taken from the space outline reproduces the outline at floor level**: BOTTOM elements carry the
    wall azimuth 180° and tilt 180°, their polygon is the mirrored outline -/
theorem bottom_outline_reproduced (g : Ang) (sp : SpaceP) (ws : Vec3) (p : Rat × Rat) :
    toGlobal (wallPosition g sp ws) (azimuth52016 g sp.ang Ang.pi) Ang.pi
        (rot2 (Ang.add Ang.pi Ang.pi) p).1 (-(rot2 (Ang.add Ang.pi Ang.pi) p).2) =
      placeSpec g sp ⟨p.1 + ws.x, p.2 + ws.y, ws.z⟩ := by
  rw [wallPosition_spec]
  unfold toGlobal placeSpec azimuth52016 vadd Ang.add Ang.neg Ang.pi rot2
  apply vec3_ext <;> simp [rotZ, rotX] <;> ring

/-- **a surface given by its own polygon, azimuth `A` and tilt `t`**: the polygon point `(u, v)` lands on
    origin + u·x̂ + v·ŷ with x̂ = (−cos A, sin A, 0) (to the right seen from outside) and
    ŷ = (−cos t·sin A, −cos t·cos A, sin t) (up the slope), placed by the source convention -/
theorem own_polygon_surface (g A t : Ang) (sp : SpaceP) (o : Vec3) (u v : Rat) :
    toGlobal (wallPosition g sp o) (azimuth52016 g sp.ang A) t u v =
      placeSpec g sp ⟨o.x + u * (-A.c) + v * (-(t.c * A.s)), o.y + u * A.s + v * (-(t.c * A.c)), o.z + v * t.s⟩ := by
  rw [wallPosition_spec]
  unfold toGlobal placeSpec azimuth52016 vadd Ang.add Ang.neg Ang.pi
  apply vec3_ext <;> simp [rotZ, rotX] <;> ring

/-- **turning the whole building** by δ turns every placed point by δ (clockwise) -/
theorem turn_positions (g d : Ang) (sp : SpaceP) (p : Vec3) :
    placeSpec (Ang.add g d) sp p = rotZ (Ang.neg d) (placeSpec g sp p) := by
  unfold placeSpec vadd Ang.add Ang.neg
  apply vec3_ext <;> simp [rotZ] <;> ring

/-- … and shifts every azimuth by −δ -/
theorem turn_azimuth (g d a w : Ang) :
    azimuth52016 (Ang.add g d) a w = Ang.add (azimuth52016 g a w) (Ang.neg d) := by
  unfold azimuth52016 Ang.add Ang.neg Ang.pi
  simp only [Ang.mk.injEq]
  constructor <;> ring

/-- … so every corner of every wall turns with the building -/
theorem turn_corners (g d w t : Ang) (sp : SpaceP) (loc : Vec3) (u v : Rat) :
    toGlobal (wallPosition (Ang.add g d) sp loc) (azimuth52016 (Ang.add g d) sp.ang w) t u v =
      rotZ (Ang.neg d) (toGlobal (wallPosition g sp loc) (azimuth52016 g sp.ang w) t u v) := by
  unfold toGlobal wallPosition azimuth52016 vadd Ang.add Ang.neg Ang.pi
  apply vec3_ext <;> simp [rotZ, rotX] <;> ring

/-! ### areas -/

/-- the shoelace term is invariant under rotation -/
theorem cross2_rot (a : Ang) (ha : Ang.Unit a) (p q : Rat × Rat) : cross2 (rot2 a p) (rot2 a q) = cross2 p q := by
  unfold Ang.Unit at ha
  unfold cross2 rot2
  simp only
  linear_combination (p.1 * q.2 - q.1 * p.2) * ha

theorem shoelaceFrom_rot (a : Ang) (ha : Ang.Unit a) (f : Rat × Rat) (l : List (Rat × Rat)) :
    shoelaceFrom (rot2 a f) (l.map (rot2 a)) = shoelaceFrom f l := by
  induction l with
  | nil => rfl
  | cons p t ih =>
    cases t with
    | nil => simp [shoelaceFrom, cross2_rot a ha]
    | cons q r =>
      simp only [List.map_cons, shoelaceFrom, cross2_rot a ha] at ih ⊢
      rw [ih]

/-- **areas are preserved**: turning an outline does not change its (signed) area -/
theorem area_rot (a : Ang) (ha : Ang.Unit a) (l : List (Rat × Rat)) : shoelace2 (l.map (rot2 a)) = shoelace2 l := by
  cases l with
  | nil => rfl
  | cons p t =>
    simp only [List.map_cons, shoelace2]
    exact shoelaceFrom_rot a ha p (p :: t)

/-- the wall on an edge of length `w` of a storey of height `h` has area `w·h` -/
theorem edge_wall_area (w h : Rat) : shoelace2 [(0, 0), (w, 0), (w, h), (0, h)] = 2 * (w * h) := by
  simp [shoelace2, shoelaceFrom, cross2]; ring

/-! ### the hypotheses are met by concrete buildings (3-4-5 angles are exact rational unit pairs) -/

def a345 : Ang := ⟨3/5, 4/5⟩
example : Ang.Unit a345 := by unfold Ang.Unit a345; norm_num
example : Ang.Unit (Ang.add a345 Ang.pi) := by unfold Ang.Unit Ang.add Ang.pi a345; norm_num

/-- a space turned by the 3-4-5 angle and offset by (10, 2, 3) in a building deviated by the same angle: the wall on
    the edge from (0,0) to (4,0) -/
example : wallCorners a345 ⟨-1, 0⟩ Ang.half ⟨⟨10, 2, 3⟩, a345, 3⟩ [(0,0),(4,0),(4,5),(0,5)] ⟨.edge (0,0) 4, 0, 0, 0⟩ =
    [placeSpec a345 ⟨⟨10, 2, 3⟩, a345, 3⟩ ⟨0, 0, 0⟩, placeSpec a345 ⟨⟨10, 2, 3⟩, a345, 3⟩ ⟨4, 0, 0⟩,
     placeSpec a345 ⟨⟨10, 2, 3⟩, a345, 3⟩ ⟨4, 0, 3⟩, placeSpec a345 ⟨⟨10, 2, 3⟩, a345, 3⟩ ⟨0, 0, 3⟩] := by
  decide +kernel


/-! ## rectangular shades -/

/-- **a rectangular shade keeps its corner points**: for every deviation of the building, every azimuth and tilt of the shade and every
    origin, the converted surface maps `(u, v)` to the point the source convention gives — in particular the four corners
    `(0,0), (w,0), (w,h), (0,h)` -/
theorem rect_shade_point (g a t : Ang) (o : Vec3) (u v : Rat) :
    toGlobal (rotZ (Ang.neg g) o) (azimuth52016 g Ang.zero a) t u v = rectShadeSpec g a t o u v := by
  unfold toGlobal rectShadeSpec azimuth52016 vadd vsmul Ang.add Ang.neg Ang.pi Ang.zero
  apply vec3_ext <;> simp [rotZ, rotX] <;> ring

theorem rect_shade_corners (g a t : Ang) (o : Vec3) (w h : Rat) :
    rectShadeCorners g a t o w h =
      [rectShadeSpec g a t o 0 0, rectShadeSpec g a t o w 0, rectShadeSpec g a t o w h, rectShadeSpec g a t o 0 h] := by
  simp [rectShadeCorners, rect_shade_point]

/-- its area is `w · h` whatever the pose (the polygon is the rectangle itself) -/
theorem rect_shade_area (w h : Rat) : shoelace2 [(0, 0), (w, 0), (w, h), (0, h)] = 2 * (w * h) := by
  simp [shoelace2, shoelaceFrom, cross2]
  ring


/-! ## shades given by their vertices -/

/-- **a vertex-defined shade keeps its corner points**: whatever azimuth `a` and tilt `t` the conversion derives for the shade (unit
    pairs), a vertex that lies in the plane those angles describe through the first vertex — its local z is 0, which is what dropping
    that coordinate assumes — comes back, in global coordinates, as the source vertex turned by the building's deviation -/
theorem vert_shade_corner (g a t : Ang) (ha : Ang.Unit a) (ht : Ang.Unit t) (v0 v : Vec3)
    (hplane : (vertShadeLocal a t v0 v).z = 0) :
    vertShadeCorner g a t v0 v = rotZ (Ang.neg g) v := by
  unfold Ang.Unit at ha ht
  unfold vertShadeLocal at hplane
  simp only [rotX, rotZ, Ang.neg] at hplane
  unfold vertShadeCorner vertShadeLocal toGlobal vadd Ang.add Ang.neg
  apply vec3_ext
  · simp only [rotZ, rotX]
    linear_combination (-(a.s * g.c - a.c * g.s) * t.s) * hplane
      + (-(a.s * g.c - a.c * g.s) * (-a.s * (v.x - v0.x) + a.c * (v.y - v0.y))) * ht
      + (g.c * (v.x - v0.x) + g.s * (v.y - v0.y)) * ha
  · simp only [rotZ, rotX]
    linear_combination ((a.c * g.c + a.s * g.s) * t.s) * hplane
      + ((a.c * g.c + a.s * g.s) * (-a.s * (v.x - v0.x) + a.c * (v.y - v0.y))) * ht
      + (-g.s * (v.x - v0.x) + g.c * (v.y - v0.y)) * ha
  · simp only [rotZ, rotX]
    linear_combination (-t.c) * hplane + (v.z - v0.z) * ht


/-- the first vertex is the origin of the converted shade, for any derived angles -/
theorem vert_shade_first_vertex (g a t : Ang) (ha : Ang.Unit a) (ht : Ang.Unit t) (v0 : Vec3) :
    vertShadeCorner g a t v0 v0 = rotZ (Ang.neg g) v0 :=
  vert_shade_corner g a t ha ht v0 v0 (by simp [vertShadeLocal, rotX, rotZ, Ang.neg])

/-- the plane hypothesis is met, e.g., by a horizontal canopy (tilt 0: all vertices at the height of the first one) whatever azimuth
    the code assigns to it, and by a vertical screen facing (3/5, 4/5) -/
example (g a : Ang) (ha : Ang.Unit a) (v0 : Vec3) (x y : Rat) :
    vertShadeCorner g a Ang.zero v0 ⟨x, y, v0.z⟩ = rotZ (Ang.neg g) ⟨x, y, v0.z⟩ :=
  vert_shade_corner g a Ang.zero ha (by simp [Ang.Unit, Ang.zero]) v0 ⟨x, y, v0.z⟩ (by simp [vertShadeLocal, rotX, rotZ, Ang.neg, Ang.zero])

example : (vertShadeLocal ⟨3 / 5, 4 / 5⟩ Ang.half ⟨1, 2, 0⟩ ⟨1 + 3, 2 + 4, 7⟩).z = 0 ∧ Ang.Unit ⟨3 / 5, 4 / 5⟩ ∧ Ang.Unit Ang.half := by
  refine ⟨by decide +kernel, by unfold Ang.Unit; norm_num, by unfold Ang.Unit Ang.half; norm_num⟩

end Cte.Props.C03
