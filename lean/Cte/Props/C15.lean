/-
C15 — The model checker reports exactly the broken links.
Property theorems only; the model is `Cte/Model/Check.lean`.
-/
import Cte.Model.Check
namespace Cte.C15

/-! ## Specification: the multiset of broken links, kind by kind -/

def Closed (m : Model) : Prop :=
  (∀ w ∈ m.walls, w.space ∈ m.spaceIds ∧ w.cons ∈ m.wallConsIds ∧
      ∀ n, w.nextTo = some n → n ∈ m.spaceIds) ∧
  (∀ w ∈ m.windows, w.wall ∈ m.wallIds ∧ w.cons ∈ m.winConsIds) ∧
  (∀ tb ∈ m.thermalBridges, ¬ tb.l < 0)

def brokenLinks (m : Model) : List Warn :=
  (m.walls.filter (fun w => !m.spaceIds.contains w.space)).map (fun w => ⟨w.id, .wallSpace⟩) ++
  (m.walls.filter (fun w => !m.wallConsIds.contains w.cons)).map (fun w => ⟨w.id, .wallCons⟩) ++
  (m.walls.filter (nextToBroken m.spaceIds)).map (fun w => ⟨w.id, .wallNextTo⟩) ++
  (m.windows.filter (fun w => !m.wallIds.contains w.wall)).map (fun w => ⟨w.id, .winWall⟩) ++
  (m.windows.filter (fun w => !m.winConsIds.contains w.cons)).map (fun w => ⟨w.id, .winCons⟩) ++
  (m.thermalBridges.filter (fun tb => decide (tb.l < 0))).map (fun tb => ⟨tb.id, .tbNegative⟩)

/-! ## Helper lemmas (local; pure list facts) -/

theorem flatMap_append_perm {α β} (l : List α) (f g : α → List β) :
    (l.flatMap (fun x => f x ++ g x)).Perm (l.flatMap f ++ l.flatMap g) := by
  induction l with
  | nil => simp
  | cons a t ih =>
    simp only [List.flatMap_cons]
    have h1 : (f a ++ g a ++ List.flatMap (fun x => f x ++ g x) t).Perm
        (f a ++ g a ++ (List.flatMap f t ++ List.flatMap g t)) := List.Perm.append_left _ ih
    refine h1.trans ?_
    have h2 : (g a ++ (List.flatMap f t ++ List.flatMap g t)).Perm
        (List.flatMap f t ++ (g a ++ List.flatMap g t)) := by
      rw [← List.append_assoc, ← List.append_assoc]
      exact List.Perm.append_right _ List.perm_append_comm
    simpa [List.append_assoc] using List.Perm.append_left (f a) h2

theorem flatMap_ite_eq {α β} (l : List α) (p : α → Bool) (f : α → β) :
    l.flatMap (fun x => if p x then [f x] else []) = (l.filter p).map f := by
  induction l with
  | nil => rfl
  | cons a t ih =>
    by_cases h : p a <;> simp [List.flatMap_cons, h, ih]

/-! ## Property theorems -/

/-- `check_exact`: the checker's output is, as a multiset, exactly the broken links — one
warning per broken link, nothing else. -/
theorem check_exact (m : Model) : (check m).Perm (brokenLinks m) := by
  unfold check brokenLinks
  have hw : (m.walls.flatMap (wallWarns m.spaceIds m.wallConsIds)).Perm
      ((m.walls.filter (fun w => !m.spaceIds.contains w.space)).map (fun w => ⟨w.id, .wallSpace⟩) ++
       (m.walls.filter (fun w => !m.wallConsIds.contains w.cons)).map (fun w => ⟨w.id, .wallCons⟩) ++
       (m.walls.filter (nextToBroken m.spaceIds)).map (fun w => ⟨w.id, .wallNextTo⟩)) := by
    unfold wallWarns
    refine (flatMap_append_perm _ _ _).trans ?_
    refine List.Perm.append ((flatMap_append_perm _ _ _).trans ?_) ?_
    · rw [flatMap_ite_eq, flatMap_ite_eq]
    · rw [flatMap_ite_eq]
  have hn : (m.windows.flatMap (winWarns m.wallIds m.winConsIds)).Perm
      ((m.windows.filter (fun w => !m.wallIds.contains w.wall)).map (fun w => ⟨w.id, .winWall⟩) ++
       (m.windows.filter (fun w => !m.winConsIds.contains w.cons)).map (fun w => ⟨w.id, .winCons⟩)) := by
    unfold winWarns
    refine (flatMap_append_perm _ _ _).trans ?_
    rw [flatMap_ite_eq, flatMap_ite_eq]
  have ht : m.thermalBridges.flatMap tbWarns =
      (m.thermalBridges.filter (fun tb => decide (tb.l < 0))).map (fun tb => ⟨tb.id, .tbNegative⟩) := by
    unfold tbWarns
    simpa using flatMap_ite_eq m.thermalBridges (fun tb => decide (tb.l < 0)) (fun tb => (⟨tb.id, .tbNegative⟩ : Warn))
  rw [ht]
  simpa [List.append_assoc] using (hw.append hn).append_right _

/-- membership form of `check_exact`, kind by kind -/
theorem check_mem_iff (m : Model) (x : Warn) :
    x ∈ check m ↔
      (∃ w ∈ m.walls, x = ⟨w.id, .wallSpace⟩ ∧ w.space ∉ m.spaceIds) ∨
      (∃ w ∈ m.walls, x = ⟨w.id, .wallCons⟩ ∧ w.cons ∉ m.wallConsIds) ∨
      (∃ w ∈ m.walls, ∃ n, x = ⟨w.id, .wallNextTo⟩ ∧ w.nextTo = some n ∧ n ∉ m.spaceIds) ∨
      (∃ w ∈ m.windows, x = ⟨w.id, .winWall⟩ ∧ w.wall ∉ m.wallIds) ∨
      (∃ w ∈ m.windows, x = ⟨w.id, .winCons⟩ ∧ w.cons ∉ m.winConsIds) ∨
      (∃ tb ∈ m.thermalBridges, x = ⟨tb.id, .tbNegative⟩ ∧ tb.l < 0) := by
  rw [(check_exact m).mem_iff]
  unfold brokenLinks
  simp only [List.mem_append, List.mem_map, List.mem_filter, Bool.not_eq_true',
    List.contains_eq_mem, decide_eq_false_iff_not, decide_eq_true_eq]
  constructor
  · rintro (((((h | h) | h) | h) | h) | h)
    · obtain ⟨w, ⟨hw, hb⟩, rfl⟩ := h; exact Or.inl ⟨w, hw, rfl, hb⟩
    · obtain ⟨w, ⟨hw, hb⟩, rfl⟩ := h; exact Or.inr (Or.inl ⟨w, hw, rfl, hb⟩)
    · obtain ⟨w, ⟨hw, hb⟩, rfl⟩ := h
      unfold nextToBroken at hb
      cases hn : w.nextTo with
      | none => simp [hn] at hb
      | some n =>
        have hb' : n ∉ m.spaceIds := by simpa [hn] using hb
        exact Or.inr (Or.inr (Or.inl ⟨w, hw, n, rfl, hn, hb'⟩))
    · obtain ⟨w, ⟨hw, hb⟩, rfl⟩ := h; exact Or.inr (Or.inr (Or.inr (Or.inl ⟨w, hw, rfl, hb⟩)))
    · obtain ⟨w, ⟨hw, hb⟩, rfl⟩ := h
      exact Or.inr (Or.inr (Or.inr (Or.inr (Or.inl ⟨w, hw, rfl, hb⟩))))
    · obtain ⟨w, ⟨hw, hb⟩, rfl⟩ := h
      exact Or.inr (Or.inr (Or.inr (Or.inr (Or.inr ⟨w, hw, rfl, hb⟩))))
  · rintro (h | h | h | h | h | h)
    · obtain ⟨w, hw, rfl, hb⟩ := h; exact Or.inl (Or.inl (Or.inl (Or.inl (Or.inl ⟨w, ⟨hw, hb⟩, rfl⟩))))
    · obtain ⟨w, hw, rfl, hb⟩ := h; exact Or.inl (Or.inl (Or.inl (Or.inl (Or.inr ⟨w, ⟨hw, hb⟩, rfl⟩))))
    · obtain ⟨w, hw, n, rfl, hn, hb⟩ := h
      refine Or.inl (Or.inl (Or.inl (Or.inr ⟨w, ⟨hw, ?_⟩, rfl⟩)))
      simp [nextToBroken, hn, hb]
    · obtain ⟨w, hw, rfl, hb⟩ := h; exact Or.inl (Or.inl (Or.inr ⟨w, ⟨hw, hb⟩, rfl⟩))
    · obtain ⟨w, hw, rfl, hb⟩ := h; exact Or.inl (Or.inr ⟨w, ⟨hw, hb⟩, rfl⟩)
    · obtain ⟨w, hw, rfl, hb⟩ := h; exact Or.inr ⟨w, ⟨hw, hb⟩, rfl⟩

/-- `check_closed_silent`: nothing is reported for a closed model, and conversely. -/
theorem check_closed_silent (m : Model) : check m = [] ↔ Closed m := by
  constructor
  · intro h
    have hm : ∀ x, x ∉ check m := by simp [h]
    refine ⟨fun w hw => ⟨?_, ?_, ?_⟩, fun w hw => ⟨?_, ?_⟩, fun tb htb hl => ?_⟩
    · apply Classical.byContradiction; intro hb
      exact hm ⟨w.id, .wallSpace⟩ ((check_mem_iff m _).2 (Or.inl ⟨w, hw, rfl, hb⟩))
    · apply Classical.byContradiction; intro hb
      exact hm ⟨w.id, .wallCons⟩ ((check_mem_iff m _).2 (Or.inr (Or.inl ⟨w, hw, rfl, hb⟩)))
    · intro n hn
      apply Classical.byContradiction; intro hb
      exact hm ⟨w.id, .wallNextTo⟩
        ((check_mem_iff m _).2 (Or.inr (Or.inr (Or.inl ⟨w, hw, n, rfl, hn, hb⟩))))
    · apply Classical.byContradiction; intro hb
      exact hm ⟨w.id, .winWall⟩
        ((check_mem_iff m _).2 (Or.inr (Or.inr (Or.inr (Or.inl ⟨w, hw, rfl, hb⟩)))))
    · apply Classical.byContradiction; intro hb
      exact hm ⟨w.id, .winCons⟩
        ((check_mem_iff m _).2 (Or.inr (Or.inr (Or.inr (Or.inr (Or.inl ⟨w, hw, rfl, hb⟩))))))
    · exact hm ⟨tb.id, .tbNegative⟩
        ((check_mem_iff m _).2 (Or.inr (Or.inr (Or.inr (Or.inr (Or.inr ⟨tb, htb, rfl, hl⟩))))))
  · rintro ⟨hw, hn, ht⟩
    apply List.eq_nil_iff_forall_not_mem.2
    intro x hx
    rcases (check_mem_iff m x).1 hx with h | h | h | h | h | h
    · obtain ⟨w, hw', _, hb⟩ := h; exact hb (hw w hw').1
    · obtain ⟨w, hw', _, hb⟩ := h; exact hb (hw w hw').2.1
    · obtain ⟨w, hw', n, _, hnn, hb⟩ := h; exact hb ((hw w hw').2.2 n hnn)
    · obtain ⟨w, hw', _, hb⟩ := h; exact hb (hn w hw').1
    · obtain ⟨w, hw', _, hb⟩ := h; exact hb (hn w hw').2
    · obtain ⟨tb, htb, _, hb⟩ := h; exact ht tb htb hb

/-- every warning carries the id of an element of the model of the right kind -/
theorem check_ids (m : Model) (x : Warn) (h : x ∈ check m) :
    x.id ∈ m.wallIds ∨ x.id ∈ m.windows.map (·.id) ∨ x.id ∈ m.thermalBridges.map (·.id) := by
  rcases (check_mem_iff m x).1 h with h | h | h | h | h | h
  · obtain ⟨w, hw, rfl, _⟩ := h; exact Or.inl (List.mem_map.2 ⟨w, hw, rfl⟩)
  · obtain ⟨w, hw, rfl, _⟩ := h; exact Or.inl (List.mem_map.2 ⟨w, hw, rfl⟩)
  · obtain ⟨w, hw, n, rfl, _, _⟩ := h; exact Or.inl (List.mem_map.2 ⟨w, hw, rfl⟩)
  · obtain ⟨w, hw, rfl, _⟩ := h; exact Or.inr (Or.inl (List.mem_map.2 ⟨w, hw, rfl⟩))
  · obtain ⟨w, hw, rfl, _⟩ := h; exact Or.inr (Or.inl (List.mem_map.2 ⟨w, hw, rfl⟩))
  · obtain ⟨tb, hw, rfl, _⟩ := h; exact Or.inr (Or.inr (List.mem_map.2 ⟨tb, hw, rfl⟩))

/-- at most three warnings per wall, two per window, one per bridge: the total is bounded by
the number of links, so "one warning per broken link" cannot be met by flooding -/
theorem check_length_le (m : Model) :
    (check m).length ≤ 3 * m.walls.length + 2 * m.windows.length + m.thermalBridges.length := by
  rw [(check_exact m).length_eq]
  unfold brokenLinks
  simp only [List.length_append, List.length_map]
  have h1 := List.length_filter_le (fun w : Wall => !m.spaceIds.contains w.space) m.walls
  have h2 := List.length_filter_le (fun w : Wall => !m.wallConsIds.contains w.cons) m.walls
  have h3 := List.length_filter_le (nextToBroken m.spaceIds) m.walls
  have h4 := List.length_filter_le (fun w : Window => !m.wallIds.contains w.wall) m.windows
  have h5 := List.length_filter_le (fun w : Window => !m.winConsIds.contains w.cons) m.windows
  have h6 := List.length_filter_le (fun tb : ThermalBridge => decide (tb.l < 0)) m.thermalBridges
  omega

/-! ## Non-vacuity: a concrete broken model and a concrete closed one -/

def exWall : Wall :=
  { id := "w1", bounds := .exterior, cons := "c1", space := "s9", nextTo := some "s8"
    geometry := { tilt := 90, azimuth := 0 } }
def exModel : Model :=
  { Model.dflt with
    walls := [exWall]
    spaces := [{ id := "s1", height := 3 }]
    thermalBridges := [{ id := "t1", l := -1, lSign := true }, { id := "t2", l := 0, lSign := true }] }

example : check exModel =
    [⟨"w1", .wallSpace⟩, ⟨"w1", .wallCons⟩, ⟨"w1", .wallNextTo⟩, ⟨"t1", .tbNegative⟩] := by decide

example : Closed Model.dflt := by
  refine ⟨?_, ?_, ?_⟩ <;> intro w hw <;> simp [Model.dflt] at hw

end Cte.C15
