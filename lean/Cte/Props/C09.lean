/-
C09 — n50 follows the DB-HE air-permeability formula.
-/
import Cte.Model.Energy
import Cte.Lemmas.Sum
import Mathlib.Tactic.FieldSimp
namespace Cte.C09

/-- envelope elements in contact with outside air -/
abbrev inScope (w : WallP) : Bool := w.inN50Scope
def scope (walls : List WallP) : List WallP := walls.filter WallP.inN50Scope
abbrev winsOf (wins : List WinP) (w : WallP) : List WinP := winsOfWall wins w
/-- C_h of a window: its construction's permeability, 100 when it has none -/
abbrev winC (wc : List WinConsP) (x : WinP) : Rat := winC100 wc x

/-- A_o: net opaque area with space multipliers -/
def aO (walls : List WallP) : Rat := rsum ((scope walls).map (fun w => w.areaNet * w.multiplier))
/-- Σ A_h and Σ C_h·A_h -/
def aH (walls : List WallP) (wins : List WinP) : Rat :=
  rsum ((scope walls).map (fun w => rsum ((winsOf wins w).map (·.area)) * w.multiplier))
def cAH (walls : List WallP) (wins : List WinP) (wc : List WinConsP) : Rat :=
  rsum ((scope walls).map (fun w => rsum ((winsOf wins w).map (fun x => x.area * winC wc x)) * w.multiplier))

/-- the DB-HE formula -/
def n50Formula (cO aO cAH vol : Rat) : Rat := 629 / 1000 * (cO * aO + cAH) / vol

/-- what the data record holds, branch by branch -/
theorem n50_fields (walls : List WallP) (wins : List WinP) (wc : List WinConsP) (vol cO : Rat) (test : Option Rat) :
    let d := n50Data walls wins wc vol cO test
    d.wallsA = aO walls ∧ d.windowsA = aH walls wins ∧ d.windowsCA = cAH walls wins wc ∧
    d.vol = vol ∧ d.wallsCRef = cO ∧ d.wallsCARef = aO walls * cO ∧
    d.n50Ref = (if vol > 1 / 1000 then n50Formula cO (aO walls) (cAH walls wins wc) vol else 0) := by
  unfold n50Data
  cases test with
  | none =>
    refine ⟨rfl, rfl, rfl, rfl, rfl, rfl, ?_⟩
    simp only [n50Formula, aO, cAH, scope]
    split <;> [skip; rfl]
    congr 2; ring
  | some t =>
    dsimp only
    split <;> refine ⟨rfl, rfl, rfl, rfl, rfl, rfl, ?_⟩ <;>
      simp only [n50Formula, aO, cAH, scope] <;>
      (split <;> [skip; rfl]) <;> (congr 2; ring)

/-- `n50ref_eq_spec` -/
theorem n50ref_eq_spec (walls : List WallP) (wins : List WinP) (wc : List WinConsP) (vol cO : Rat)
    (test : Option Rat) (hv : vol > 1 / 1000) :
    (n50Data walls wins wc vol cO test).n50Ref = n50Formula cO (aO walls) (cAH walls wins wc) vol := by
  have := (n50_fields walls wins wc vol cO test).2.2.2.2.2.2
  rw [this, if_pos hv]

/-- `n50_zero_volume` -/
theorem n50_zero_volume (walls : List WallP) (wins : List WinP) (wc : List WinConsP) (vol cO : Rat)
    (test : Option Rat) (hv : vol ≤ 1 / 1000) :
    (n50Data walls wins wc vol cO test).n50Ref = 0 := by
  have := (n50_fields walls wins wc vol cO test).2.2.2.2.2.2
  have hv' : ¬ vol > 1 / 1000 := not_lt.mpr hv
  rw [this, if_neg hv']

/-- without a blower-door result: n50 is the reference value and the wall permeability is C_o -/
theorem n50_no_test (walls : List WallP) (wins : List WinP) (wc : List WinConsP) (vol cO : Rat) :
    let d := n50Data walls wins wc vol cO none
    d.n50 = d.n50Ref ∧ d.wallsC = cO ∧ d.wallsCA = d.wallsCARef := ⟨rfl, rfl, rfl⟩

/-- `n50_test_branch`: with a blower-door result n50 equals it, and the reported wall permeability
is the one that satisfies the same equation -/
theorem n50_test_branch (walls : List WallP) (wins : List WinP) (wc : List WinConsP) (vol cO t : Rat)
    (ha : aO walls > 1 / 1000) (hv : vol ≠ 0) :
    let d := n50Data walls wins wc vol cO (some t)
    d.n50 = t ∧ n50Formula d.wallsC (aO walls) (cAH walls wins wc) vol = t ∧ d.wallsCA = aO walls * d.wallsC := by
  obtain ⟨h1, _, h3, _, _, _, _⟩ := n50_fields walls wins wc vol cO (some t)
  have ha' : rsum ((walls.filter WallP.inN50Scope).map (fun w => w.areaNet * w.multiplier)) > 1 / 1000 := ha
  have hne : aO walls ≠ 0 := by linarith [ha]
  simp only [n50Data, ha', if_true] at h1 h3 ⊢
  refine ⟨trivial, ?_, rfl⟩
  unfold n50Formula
  rw [← h1, ← h3] at *
  field_simp
  ring

/-- with a test value but no exposed opaque area the reference permeability is reported -/
theorem n50_test_no_walls (walls : List WallP) (wins : List WinP) (wc : List WinConsP) (vol cO t : Rat)
    (ha : ¬ aO walls > 1 / 1000) :
    let d := n50Data walls wins wc vol cO (some t)
    d.n50 = t ∧ d.wallsC = cO := by
  have ha' : ¬ rsum ((walls.filter WallP.inN50Scope).map (fun w => w.areaNet * w.multiplier)) > 1 / 1000 := ha
  simp only [n50Data, ha', if_false]
  exact ⟨trivial, trivial⟩

/-- `n50_scope`: ground, adiabatic and interior elements, and elements outside the envelope, do not
contribute -/
theorem n50_scope (walls : List WallP) (wins : List WinP) (wc : List WinConsP) (vol cO : Rat) (test : Option Rat) :
    n50Data walls wins wc vol cO test = n50Data (walls.filter inScope) wins wc vol cO test := by
  have h : (walls.filter inScope).filter WallP.inN50Scope = walls.filter WallP.inN50Scope := by
    rw [List.filter_filter]; congr 1; funext w; simp [inScope]
  unfold n50Data
  rw [h]

/-- `co_by_age`: C_o = 16 m³/h·m² for new buildings, 29 for existing ones -/
theorem co_by_age (F : Fns) (m : Model) :
    (m.globalProps F).cO100 = if m.info.isNewBuilding then 16 else 29 := rfl

/-- a window whose construction is not found gets C_h = 100 -/
theorem window_default_c (x : WinP) : winC [] x = 100 := rfl

/-! ## non-vacuity -/
def exWalls : List WallP :=
  [{ id := "a", bounds := .exterior, tilt := .side, orient := .s, areaGross := 12, areaNet := 10, multiplier := 2,
     isTenv := true, u := none, uOverride := none },
   { id := "g", bounds := .ground, tilt := .bottom, orient := .hz, areaGross := 20, areaNet := 20, multiplier := 1,
     isTenv := true, u := none, uOverride := none }]
def exWins : List WinP :=
  [{ id := "x", wall := "a", cons := "k", orient := .s, tilt := .side, area := 2, multiplier := 2, bounds := .exterior,
     isTenv := true, u := none, uOverride := none, fShobst := none, fShobstOverride := none }]
example : aO exWalls = 20 ∧ aO exWalls > 1 / 1000 := by decide +kernel
example : (n50Data exWalls exWins [] 100 16 none).n50Ref = 629 / 1000 * (16 * 20 + 400) / 100 := by decide +kernel

end Cte.C09
