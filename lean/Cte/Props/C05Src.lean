/-
C05 — the process model is the one the source gives.
`Cte/Gen/LockSites.lean` is regenerated from /repo on every run (tools/gen_lock_sites.py): the `static` items of the library crates,
every `.lock()` site with its guard's extent, and the lock program of each function that locks.  The obligations below are
re-checked by the kernel against that inventory: the three tables are the only shared mutable state, nothing writes through a
guard, every function takes one lock at a time, and the program `indicatorsProg` the theorems of `Props/C05.lean` are about has
exactly the lock events of the two functions of the source that lock.
-/
import Cte.Gen.LockSites
import Cte.Props.C05
namespace Cte.C05Src
open Cte.Proc

/-- the lock and unlock events of a program -/
def lockEvents (p : Prog) : Prog := p.filter (fun a => a != .work)

def progOf (f : String) : Prog := ((Gen.lockProgs.find? (fun p => p.1 == f)).map (·.2)).getD []

/-- **the only shared mutable state of the library crates is the three read-only tables**: every `static` that is not immutable
    is a `Mutex`-guarded table, and these are exactly `JULYRADDATA`, `MONTHLYRADDATA`, `CLIMATEMETADATA` -/
theorem repo_shared_state :
    (Gen.staticItems.filter (fun s => s.kind != "immutable")).map (fun s => (s.name, s.kind)) =
      [("JULYRADDATA", "table"), ("MONTHLYRADDATA", "table"), ("CLIMATEMETADATA", "table")] := by decide +kernel

/-- **the machine has no write transition because the code has none**: no statement holding a guard calls a mutating method on it
    or binds it mutably -/
theorem repo_no_guard_writes : Gen.lockSites.all (fun s => !s.writes) = true := by decide +kernel

/-- every function of the source that locks takes one lock at a time and releases what it took -/
theorem repo_lock_progs_wf : Gen.lockProgs.all (fun p => wfFrom none p.2) = true := by decide +kernel

/-- the functions that lock are the two the model knows -/
theorem repo_locking_functions :
    Gen.lockProgs.map (·.1) = ["compute_fshobst", "total_radiation_in_july_by_orientation"] := by decide +kernel

/-- **the modelled program of `EnergyIndicators::compute` has the lock events of the source**: the monthly table inside
    `total_radiation_in_july_by_orientation` (temporary guard), then in `compute_fshobst` the metadata table (temporary guard) and the
    July table (guard held to the end of the function) -/
theorem indicatorsProg_matches_source :
    lockEvents indicatorsProg = lockEvents (progOf "total_radiation_in_july_by_orientation" ++ progOf "compute_fshobst") := by
  decide +kernel

end Cte.C05Src
