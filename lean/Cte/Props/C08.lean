/-
C08 — K is the area-weighted mean transmittance of the thermal envelope.
The code accumulates in a loop (`kStep` folded over the envelope walls); the theorems identify
every accumulated figure with the sum the definition names.
-/
import Cte.Model.Energy
import Cte.Lemmas.Sum
namespace Cte.C08

/-! ## the definition (sums over the envelope) -/

/-- an element contributes iff it belongs to the envelope and is in contact with air or ground -/
abbrev inScope (w : WallP) : Bool := w.inKScope

/-- U used for an element: user override, else computed, else 5.7 W/m²K -/
def wallU (w : WallP) : Rat := (w.uOverride.orElse (fun _ => w.u.map (·.v))).getD U_DEFAULT
def winU (x : WinP) : Rat := (x.uOverride.orElse (fun _ => x.u)).getD U_DEFAULT

def winsOf (wins : List WinP) (w : WallP) : List WinP := wins.filter (fun x => x.wall = w.id)

inductive Cat | ground | roofs | floors | walls
  deriving DecidableEq, Repr

/-- category by `(bounds, tilt)` -/
def catOf (w : WallP) : Cat :=
  match w.bounds, w.tilt with
  | .ground, _ => .ground
  | _, .top => .roofs
  | _, .bottom => .floors
  | _, .side => .walls

def accGet (a : KAcc) : Cat → KElem
  | .ground => a.ground
  | .roofs => a.roofs
  | .floors => a.floors
  | .walls => a.walls

def scope (walls : List WallP) : List WallP := walls.filter inScope

/-- Σ A over the opaque parts of category `c` (net areas, space multipliers) -/
def opaqueA (walls : List WallP) (c : Cat) : Rat :=
  rsum (((scope walls).filter (fun w => catOf w = c)).map (fun w => w.multiplier * w.areaNet))
def opaqueAU (walls : List WallP) (c : Cat) : Rat :=
  rsum (((scope walls).filter (fun w => catOf w = c)).map (fun w => w.multiplier * w.areaNet * wallU w))
/-- Σ A and Σ A·U over the windows of envelope elements -/
def windowsA (walls : List WallP) (wins : List WinP) : Rat :=
  rsum ((scope walls).map (fun w => rsum ((winsOf wins w).map (fun x => w.multiplier * x.area))))
def windowsAU (walls : List WallP) (wins : List WinP) : Rat :=
  rsum ((scope walls).map (fun w => rsum ((winsOf wins w).map (fun x => w.multiplier * x.area * winU x))))
/-- Σ ψ·L over bridges of non-negative length -/
def bridgesPsiL (tbs : List ThermalBridge) : Rat :=
  rsum ((tbs.filter (fun tb => ¬ tb.l < 0)).map (fun tb => tb.psi * tb.l))

/-! ## the inner loop over the windows of one wall -/

def winStep (m : Rat) (a : KAcc) (win : WinP) : KAcc :=
  { a with windows := a.windows.add (m * win.area) (winU win) }

theorem winFold_spec (m : Rat) (ws : List WinP) (acc : KAcc) :
    let r := ws.foldl (winStep m) acc
    r.windows.a = acc.windows.a + rsum (ws.map (fun x => m * x.area)) ∧
    r.windows.au = acc.windows.au + rsum (ws.map (fun x => m * x.area * winU x)) ∧
    r.walls = acc.walls ∧ r.roofs = acc.roofs ∧ r.floors = acc.floors ∧ r.ground = acc.ground := by
  induction ws generalizing acc with
  | nil => simp
  | cons x t ih =>
    simp only [List.foldl_cons, List.map_cons, rsum_cons]
    obtain ⟨h1, h2, h3, h4, h5, h6⟩ := ih (winStep m acc x)
    refine ⟨?_, ?_, h3, h4, h5, h6⟩
    · rw [h1]; simp [winStep, KElem.add]; ring
    · rw [h2]; simp [winStep, KElem.add]; ring

theorem kStep_eq (wins : List WinP) (acc : KAcc) (w : WallP) :
    kStep wins acc w =
      (let acc1 := (winsOf wins w).foldl (winStep w.multiplier) acc
       match catOf w with
       | .ground => { acc1 with ground := acc1.ground.add (w.multiplier * w.areaNet) (wallU w) }
       | .roofs => { acc1 with roofs := acc1.roofs.add (w.multiplier * w.areaNet) (wallU w) }
       | .floors => { acc1 with floors := acc1.floors.add (w.multiplier * w.areaNet) (wallU w) }
       | .walls => { acc1 with walls := acc1.walls.add (w.multiplier * w.areaNet) (wallU w) }) := by
  unfold kStep catOf winsOf wallU
  cases hb : w.bounds <;> cases ht : w.tilt <;> rfl

/-- one step of the loop: what it adds to each figure -/
theorem kStep_spec (wins : List WinP) (acc : KAcc) (w : WallP) :
    (kStep wins acc w).windows.a =
      acc.windows.a + rsum ((winsOf wins w).map (fun x => w.multiplier * x.area)) ∧
    (kStep wins acc w).windows.au =
      acc.windows.au + rsum ((winsOf wins w).map (fun x => w.multiplier * x.area * winU x)) ∧
    (∀ c, (accGet (kStep wins acc w) c).a =
      (accGet acc c).a + if catOf w = c then w.multiplier * w.areaNet else 0) ∧
    (∀ c, (accGet (kStep wins acc w) c).au =
      (accGet acc c).au + if catOf w = c then w.multiplier * w.areaNet * wallU w else 0) := by
  rw [kStep_eq]
  obtain ⟨h1, h2, h3, h4, h5, h6⟩ := winFold_spec w.multiplier (winsOf wins w) acc
  cases hc : catOf w <;> dsimp only <;>
    refine ⟨h1, h2, fun c => ?_, fun c => ?_⟩ <;>
    cases c <;> (first | simp [accGet, KElem.add, h3, h4, h5, h6] | skip)

/-- the whole loop -/
theorem kFold_spec (wins : List WinP) (ws : List WallP) (acc : KAcc) :
    let r := ws.foldl (kStep wins) acc
    r.windows.a = acc.windows.a + rsum (ws.map (fun w => rsum ((winsOf wins w).map (fun x => w.multiplier * x.area)))) ∧
    r.windows.au = acc.windows.au + rsum (ws.map (fun w => rsum ((winsOf wins w).map (fun x => w.multiplier * x.area * winU x)))) ∧
    (∀ c, (accGet r c).a = (accGet acc c).a + rsum ((ws.filter (fun w => catOf w = c)).map (fun w => w.multiplier * w.areaNet))) ∧
    (∀ c, (accGet r c).au = (accGet acc c).au + rsum ((ws.filter (fun w => catOf w = c)).map (fun w => w.multiplier * w.areaNet * wallU w))) := by
  induction ws generalizing acc with
  | nil => simp
  | cons w t ih =>
    simp only [List.foldl_cons, List.map_cons, rsum_cons]
    obtain ⟨s1, s2, s3, s4⟩ := kStep_spec wins acc w
    obtain ⟨h1, h2, h3, h4⟩ := ih (kStep wins acc w)
    refine ⟨by rw [h1, s1]; ring, by rw [h2, s2]; ring, fun c => ?_, fun c => ?_⟩
    · rw [h3 c, s3 c]
      by_cases hc : catOf w = c <;> simp [List.filter_cons, hc] <;> ring
    · rw [h4 c, s4 c]
      by_cases hc : catOf w = c <;> simp [List.filter_cons, hc] <;> ring

/-! ## k_eq_spec -/

theorem empty_acc (c : Cat) : ((accGet ({} : KAcc) c).a = 0) ∧ ((accGet ({} : KAcc) c).au = 0) := by
  cases c <;> exact ⟨rfl, rfl⟩

/-- every category figure of `K_data` is the sum the definition names -/
theorem k_categories (walls : List WallP) (wins : List WinP) (tbs : List ThermalBridge) :
    let k := kData walls wins tbs
    k.ground.a = opaqueA walls .ground ∧ k.ground.au = opaqueAU walls .ground ∧
    k.roofs.a = opaqueA walls .roofs ∧ k.roofs.au = opaqueAU walls .roofs ∧
    k.floors.a = opaqueA walls .floors ∧ k.floors.au = opaqueAU walls .floors ∧
    k.walls.a = opaqueA walls .walls ∧ k.walls.au = opaqueAU walls .walls ∧
    k.windows.a = windowsA walls wins ∧ k.windows.au = windowsAU walls wins := by
  obtain ⟨h1, h2, h3, h4⟩ := kFold_spec wins (scope walls) {}
  simp only at h1 h2 h3 h4
  have e := empty_acc
  have wm : ∀ e : KElem, e.withMean.a = e.a ∧ e.withMean.au = e.au := by
    intro e; unfold KElem.withMean; split <;> exact ⟨rfl, rfl⟩
  have g := h3 .ground; have g' := h4 .ground
  have r := h3 .roofs; have r' := h4 .roofs
  have f := h3 .floors; have f' := h4 .floors
  have w := h3 .walls; have w' := h4 .walls
  simp only [accGet, (e .ground).1, (e .ground).2, (e .roofs).1, (e .roofs).2, (e .floors).1,
    (e .floors).2, (e .walls).1, (e .walls).2, zero_add] at g g' r r' f f' w w'
  simp only [zero_add] at h1 h2
  simp only [kData, (wm _).1, (wm _).2, opaqueA, opaqueAU, windowsA, windowsAU]
  exact ⟨g, g', r, r', f, f', w, w', h1, h2⟩

/-- the four opaque categories partition the envelope -/
theorem cat_partition (ws : List WallP) (f : WallP → Rat) :
    rsum ((ws.filter (fun w => catOf w = .roofs)).map f) + rsum ((ws.filter (fun w => catOf w = .floors)).map f) +
    rsum ((ws.filter (fun w => catOf w = .walls)).map f) + rsum ((ws.filter (fun w => catOf w = .ground)).map f) =
    rsum (ws.map f) := by
  induction ws with
  | nil => simp
  | cons a t ih =>
    rw [List.map_cons, rsum_cons, ← ih]
    cases hc : catOf a <;> simp [List.filter_cons, hc] <;> ring

/-- bridges: summing the nine kinds gives Σ ψ·L over the bridges of non-negative length -/
theorem tb_partition (tbs : List ThermalBridge) (f : ThermalBridge → Rat) :
    rsum (allTbKinds.map (fun k => rsum ((tbs.filter (fun tb => tb.kind = k && ¬ tb.l < 0)).map f))) =
    rsum ((tbs.filter (fun tb => ¬ tb.l < 0)).map f) := by
  induction tbs with
  | nil => simp [allTbKinds]
  | cons a t ih =>
    simp only [allTbKinds, List.map_cons, List.map_nil, rsum_cons, rsum_nil] at ih ⊢
    by_cases hl : a.l < 0
    · simpa [List.filter_cons, hl] using ih
    · have e : List.filter (fun tb => decide ¬tb.l < 0) (a :: t) = a :: List.filter (fun tb => decide ¬tb.l < 0) t := by
        simp [List.filter_cons, hl]
      rw [e, List.map_cons, rsum_cons, ← ih]
      have hl' : 0 ≤ a.l := not_lt.mp hl
      cases hk : a.kind <;> simp [List.filter_cons, hk, hl'] <;> ring

/-- `k_eq_spec`: the totals are the definition's sums and K is their quotient -/
theorem k_eq_spec (walls : List WallP) (wins : List WinP) (tbs : List ThermalBridge) :
    let k := kData walls wins tbs
    k.opaquesA = rsum ((scope walls).map (fun w => w.multiplier * w.areaNet)) ∧
    k.opaquesAu = rsum ((scope walls).map (fun w => w.multiplier * w.areaNet * wallU w)) ∧
    k.windowsA = windowsA walls wins ∧ k.windowsAu = windowsAU walls wins ∧
    k.tbsPsil = bridgesPsiL tbs ∧
    k.a = k.opaquesA + k.windowsA ∧
    k.au = k.opaquesAu + k.windowsAu + k.tbsPsil ∧
    k.k = if k.a < 1 / 100 then 0 else k.au / k.a := by
  obtain ⟨g, g', r, r', f, f', w, w', h1, h2⟩ := k_categories walls wins tbs
  have wm : ∀ e : KElem, e.withMean.a = e.a ∧ e.withMean.au = e.au := by
    intro e; unfold KElem.withMean; split <;> exact ⟨rfl, rfl⟩
  simp only [kData, (wm _).1, (wm _).2] at g g' r r' f f' w w' h1 h2
  refine ⟨?_, ?_, ?_, ?_, ?_, rfl, rfl, rfl⟩
  · simp only [kData]; rw [r, f, w, g]; exact cat_partition _ _
  · simp only [kData]; rw [r', f', w', g']; exact cat_partition _ _
  · simp only [kData]; exact h1
  · simp only [kData]; exact h2
  · simp only [kData, bridgesPsiL, List.map_map]
    exact tb_partition tbs (fun tb => tb.psi * tb.l)

/-- `k_breakdown_sums`: walls + roofs + floors + ground = opaques; opaques + windows = A;
the bridge kinds add up to the bridge totals -/
theorem k_breakdown_sums (walls : List WallP) (wins : List WinP) (tbs : List ThermalBridge) :
    let k := kData walls wins tbs
    k.opaquesA = k.roofs.a + k.floors.a + k.walls.a + k.ground.a ∧
    k.opaquesAu = k.roofs.au + k.floors.au + k.walls.au + k.ground.au ∧
    k.windowsA = k.windows.a ∧ k.windowsAu = k.windows.au ∧
    k.a = k.opaquesA + k.windowsA ∧ k.au = k.opaquesAu + k.windowsAu + k.tbsPsil ∧
    k.tbsL = rsum (k.tbs.map (·.2.1)) ∧ k.tbsPsil = rsum (k.tbs.map (·.2.2)) := by
  have wm : ∀ e : KElem, e.withMean.a = e.a ∧ e.withMean.au = e.au := by
    intro e; unfold KElem.withMean; split <;> exact ⟨rfl, rfl⟩
  refine ⟨?_, ?_, ?_, ?_, ?_, ?_, ?_, ?_⟩ <;> simp [kData, (wm _).1, (wm _).2]

/-- `k_scope`: only envelope elements in contact with air or ground (and their windows) count -/
theorem k_scope (walls : List WallP) (wins : List WinP) (tbs : List ThermalBridge) :
    kData walls wins tbs = kData (walls.filter inScope) wins tbs := by
  have h : (walls.filter inScope).filter WallP.inKScope = walls.filter WallP.inKScope := by
    rw [List.filter_filter]; congr 1; funext w; simp [inScope]
  unfold kData
  rw [h]

/-- `k_override_precedence` -/
theorem k_override_precedence (w : WallP) :
    wallU w = match w.uOverride, w.u with
      | some o, _ => o
      | none, some u => u.v
      | none, none => 57 / 10 := by
  unfold wallU U_DEFAULT
  cases w.uOverride <;> cases w.u <;> rfl

/-- bridges of negative length are skipped -/
theorem k_negative_bridge_ignored (tbs : List ThermalBridge) (tb : ThermalBridge) (h : tb.l < 0) :
    bridgesPsiL (tb :: tbs) = bridgesPsiL tbs := by
  simp [bridgesPsiL, List.filter_cons, h]

/-! ## order independence -/

/-- the totals are invariant under any reordering of walls, windows and bridges -/
theorem k_perm_invariant (walls walls' : List WallP) (wins wins' : List WinP)
    (tbs tbs' : List ThermalBridge) (hw : walls.Perm walls') (hn : wins.Perm wins')
    (ht : tbs.Perm tbs') :
    let k := kData walls wins tbs
    let k' := kData walls' wins' tbs'
    k.a = k'.a ∧ k.au = k'.au ∧ k.k = k'.k := by
  obtain ⟨a1, a2, a3, a4, a5, a6, a7, a8⟩ := k_eq_spec walls wins tbs
  obtain ⟨b1, b2, b3, b4, b5, b6, b7, b8⟩ := k_eq_spec walls' wins' tbs'
  have hs : (scope walls).Perm (scope walls') := hw.filter _
  have e1 : (kData walls wins tbs).opaquesA = (kData walls' wins' tbs').opaquesA := by
    rw [a1, b1]; exact rsum_perm (hs.map _)
  have e2 : (kData walls wins tbs).opaquesAu = (kData walls' wins' tbs').opaquesAu := by
    rw [a2, b2]; exact rsum_perm (hs.map _)
  have winsEq : ∀ (w : WallP) (f : WinP → Rat), rsum ((winsOf wins w).map f) = rsum ((winsOf wins' w).map f) :=
    fun w f => rsum_perm ((hn.filter _).map _)
  have e3 : (kData walls wins tbs).windowsA = (kData walls' wins' tbs').windowsA := by
    rw [a3, b3]; unfold windowsA
    rw [rsum_perm (hs.map _)]
    congr 2; funext w; exact winsEq w _
  have e4 : (kData walls wins tbs).windowsAu = (kData walls' wins' tbs').windowsAu := by
    rw [a4, b4]; unfold windowsAU
    rw [rsum_perm (hs.map _)]
    congr 2; funext w; exact winsEq w _
  have e5 : (kData walls wins tbs).tbsPsil = (kData walls' wins' tbs').tbsPsil := by
    rw [a5, b5]; unfold bridgesPsiL; exact rsum_perm ((ht.filter _).map _)
  have ea : (kData walls wins tbs).a = (kData walls' wins' tbs').a := by rw [a6, b6, e1, e3]
  have eau : (kData walls wins tbs).au = (kData walls' wins' tbs').au := by rw [a7, b7, e2, e4, e5]
  exact ⟨ea, eau, by rw [a8, b8, ea, eau]⟩

/-! ## each category mean lies between its minimum and maximum -/

/-- invariant of an accumulator built from non-negative areas -/
def Bounded (e : KElem) : Prop :=
  e.uMean = none ∧ 0 ≤ e.a ∧ ((e.uMin = none ∧ e.uMax = none ∧ e.a = 0 ∧ e.au = 0) ∨
    ∃ lo hi, e.uMin = some lo ∧ e.uMax = some hi ∧ lo * e.a ≤ e.au ∧ e.au ≤ hi * e.a)

theorem bounded_empty : Bounded {} := ⟨rfl, le_refl _, Or.inl ⟨rfl, rfl, rfl, rfl⟩⟩

theorem bounded_add (e : KElem) (area u : Rat) (h : Bounded e) (ha : 0 ≤ area) : Bounded (e.add area u) := by
  obtain ⟨hm, h0, h⟩ := h
  refine ⟨by simpa [KElem.add] using hm, by simp only [KElem.add]; linarith, Or.inr ?_⟩
  rcases h with ⟨h1, h2, h3, h4⟩ | ⟨lo, hi, h1, h2, h3, h4⟩
  · refine ⟨u, u, by simp [KElem.add, h1], by simp [KElem.add, h2], ?_, ?_⟩ <;>
      simp only [KElem.add, h3, h4] <;> linarith
  · refine ⟨rmin lo u, rmax hi u, by simp [KElem.add, h1], by simp [KElem.add, h2], ?_, ?_⟩
    · simp only [KElem.add]
      have hm1 : rmin lo u ≤ lo := by unfold rmin; split <;> linarith
      have hm2 : rmin lo u ≤ u := by unfold rmin; split <;> linarith
      nlinarith
    · simp only [KElem.add]
      have hm1 : hi ≤ rmax hi u := by unfold rmax; split <;> linarith
      have hm2 : u ≤ rmax hi u := by unfold rmax; split <;> linarith
      nlinarith

/-- `k_mean_between` for one accumulator: with non-negative weights the reported mean lies between
the reported minimum and maximum -/
theorem mean_between (e : KElem) (h : Bounded e) (lo hi mean : Rat)
    (hlo : e.withMean.uMin = some lo) (hhi : e.withMean.uMax = some hi)
    (hm : e.withMean.uMean = some mean) : lo ≤ mean ∧ mean ≤ hi := by
  unfold KElem.withMean at hlo hhi hm
  obtain ⟨hmean, _, h⟩ := h
  by_cases ha : e.a > 1 / 1000
  · simp only [ha, if_true] at hlo hhi hm
    have hpos : 0 < e.a := by linarith
    rcases h with ⟨h1, _, _, _⟩ | ⟨lo', hi', h1, h2, h3, h4⟩
    · rw [h1] at hlo; cases hlo
    · rw [h1] at hlo; rw [h2] at hhi; cases hlo; cases hhi; cases hm
      constructor
      · rw [le_div_iff₀ hpos]; linarith
      · rw [div_le_iff₀ hpos]; linarith
  · simp only [ha, if_false] at hm
    rw [hmean] at hm; cases hm

/-- the window accumulator of the loop satisfies the invariant when multipliers and areas are ≥ 0 -/
theorem winFold_bounded (m : Rat) (hm : 0 ≤ m) (ws : List WinP) (hw : ∀ x ∈ ws, 0 ≤ x.area) (acc : KAcc)
    (h : Bounded acc.windows) : Bounded (ws.foldl (winStep m) acc).windows := by
  induction ws generalizing acc with
  | nil => exact h
  | cons x t ih =>
    simp only [List.foldl_cons]
    apply ih (fun y hy => hw y (by simp [hy]))
    exact bounded_add _ _ _ h (mul_nonneg hm (hw x (by simp)))

/-! ## non-vacuity -/
def exWalls : List WallP :=
  [{ id := "a", bounds := .exterior, tilt := .side, orient := .s, areaGross := 12, areaNet := 10, multiplier := 2,
     isTenv := true, u := some { v := 1 / 2 }, uOverride := none },
   { id := "b", bounds := .ground, tilt := .bottom, orient := .hz, areaGross := 20, areaNet := 20, multiplier := 1,
     isTenv := true, u := none, uOverride := some (3 / 10) },
   { id := "c", bounds := .interior, tilt := .side, orient := .n, areaGross := 9, areaNet := 9, multiplier := 1,
     isTenv := true, u := some { v := 1 }, uOverride := none }]
def exWins : List WinP :=
  [{ id := "x", wall := "a", cons := "k", orient := .s, tilt := .side, area := 2, multiplier := 2, bounds := .exterior,
     isTenv := true, u := none, uOverride := none, fShobst := none, fShobstOverride := none }]
example : (kData exWalls exWins [{ id := "t", l := 10, psi := 1 / 10 }, { id := "u", l := -5, psi := 1 }]).k
    = (20 * (1 / 2) + 20 * (3 / 10) + 4 * (57 / 10) + 1) / 44 := by decide +kernel


/-- **net opaque area does not depend on the order of the window list**: the windows of a wall are found by their `wall` link wherever
    they stand in the list (interleaved with the windows of other walls or not) -/
theorem areaNet_perm (F : Fns) (w : Wall) (wins wins2 : List Window) (h : wins.Perm wins2) :
    w.areaNet F wins = w.areaNet F wins2 := by
  unfold Wall.areaNet Wall.areaNetRaw
  rw [rsum_perm ((h.filter _).map _)]

end Cte.C08
