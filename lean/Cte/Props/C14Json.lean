/-
C14, last clause — "every reported number is finite and the result serialises to JSON that loads back":
the two halves are one fact about the format.  serde_json writes a non-finite `f32` as `null`; a field of type
`f32` refuses `null` when loading, a field of type `Option<f32>` reads it as `None`.  Hence a record of numbers
loads back exactly when all of them are finite, and a non-finite optional number is silently lost.
-/
import Cte.Model.Codec
namespace Cte.C14J
open Cte.Codec

theorem f32_loads_back_iff (x : F32J) : F32J.dec x.enc = some x ↔ x ≠ .nonfinite := by
  cases x <;> simp [F32J.enc, F32J.dec]

/-- a non-finite required number makes the whole document unloadable -/
theorem f32_nonfinite_rejected : F32J.dec F32J.nonfinite.enc = none := rfl

/-- an optional number loads back exactly when it is absent or finite; a non-finite one comes back as `None` -/
theorem opt_f32_loads_back_iff (x : Option F32J) : F32J.decOpt (F32J.encOpt x) = some x ↔ x ≠ some .nonfinite := by
  cases x with
  | none => simp [F32J.encOpt, F32J.decOpt]
  | some v => cases v <;> simp [F32J.encOpt, F32J.enc, F32J.decOpt]

theorem opt_f32_nonfinite_lost : F32J.decOpt (F32J.encOpt (some .nonfinite)) = some none := rfl

/-- **a record of required numbers loads back iff every one of them is finite** (the indicator records
`KData`, `N50Data`, `QSolJulData`… are such records, field by field) -/
theorem record_loads_back_iff (xs : List F32J) :
    (xs.map F32J.enc).mapM F32J.dec = some xs ↔ ∀ x ∈ xs, x ≠ .nonfinite := by
  induction xs with
  | nil => simp
  | cons a t ih =>
    simp only [List.map_cons, List.mapM_cons, List.mem_cons, forall_eq_or_imp]
    cases a with
    | nonfinite => simp [F32J.enc, F32J.dec]
    | fin n m e =>
      simp only [F32J.enc, F32J.dec, ne_eq, reduceCtorEq, not_false_eq_true, true_and]
      rw [← ih]
      cases h : (t.map F32J.enc).mapM F32J.dec with
      | none => simp [h]
      | some l => simp [h]

example : ([F32J.fin false 57 (-1), .nonfinite].map F32J.enc).mapM F32J.dec = none := by decide
example : ([F32J.fin false 57 (-1), .fin true 1 0].map F32J.enc).mapM F32J.dec = some [.fin false 57 (-1), .fin true 1 0] := by decide

end Cte.C14J
