/-
C17 — "HULC schedules given as end dates are converted into periods that partition the 365-day year exactly at those dates,
weekly schedules into runs covering 7 days and daily ones into 24 values": the three clauses on the conversion of the typed schedules.
-/
import Cte.Model.ConvSched
import Cte.Props.C17
namespace Cte.C17C
open Cte Cte.Bdl Cte.BdlData Cte.ConvS Cte.C17

/-- **daily schedules come out with 24 values**: a single written value is repeated over the day, 24 written values are kept, anything
else is rejected -/
theorem day_24_values (name kind : Str) (vs : List TNum) (n : Str) (out : List TNum)
    (h : convSched (.day name kind vs) = some (.day n out)) :
    out.length = 24 ∧ n = name ∧ ((∃ v, vs = [v] ∧ out = List.replicate 24 v) ∨ (vs.length = 24 ∧ out = vs)) := by
  simp only [convSched] at h
  split at h
  · rename_i v
    simp only [Option.some.injEq, SchedV.day.injEq] at h
    obtain ⟨rfl, rfl⟩ := h
    exact ⟨by simp, rfl, Or.inl ⟨v, rfl, rfl⟩⟩
  · split at h
    · rename_i hl
      simp only [Option.some.injEq, SchedV.day.injEq] at h
      obtain ⟨rfl, rfl⟩ := h
      exact ⟨hl, rfl, Or.inr ⟨hl, rfl⟩⟩
    · cases h

/-- **weekly schedules come out as runs covering 7 days**, in the written order -/
theorem week_runs_cover_7 (name kind : Str) (ds : List Str) (n : Str) (runs : List (String × Nat))
    (h : convSched (.week name kind ds) = some (.week n runs)) :
    (runs.map (·.2)).sum = 7 ∧
    (ds.length = 7 → runs.flatMap (fun e => List.replicate e.2 e.1) = ds.map String.ofList) := by
  simp only [convSched] at h
  split at h
  · simp only [Option.some.injEq, SchedV.week.injEq] at h
    obtain ⟨_, rfl⟩ := h
    exact ⟨by simp, by intro hl; simp at hl⟩
  · split at h
    · rename_i hl
      simp only [Option.some.injEq, SchedV.week.injEq] at h
      obtain ⟨_, rfl⟩ := h
      exact ⟨by rw [week_runs_total]; simpa using hl, fun _ => week_runs_expand _⟩
    · cases h

/-- **yearly schedules come out as periods that partition the year at the written end dates**: one period per written week, the lengths
are the differences of consecutive day numbers (so they add up to the day number of the last date: 365 for 31 December) -/
theorem year_periods_partition (name kind : Str) (days months : List Nat) (weeks : List Str) (n : Str) (ps : List (Str × Nat))
    (h : convSched (.year name kind days months weeks) = some (.year n ps)) :
    ps.map (·.1) = weeks ∧
    periodLengths ((days.zip months).map (fun dm => dayOfYear dm.1 dm.2)) = some (ps.map (·.2)) ∧
    (((days.zip months).map (fun dm => dayOfYear dm.1 dm.2)).getLast? = some 365 → (ps.map (·.2)).sum = 365) := by
  simp only [convSched] at h
  split at h
  · cases h
  · rename_i counts hc
    split at h
    · rename_i hl
      simp only [Bool.and_eq_true, decide_eq_true_eq] at hl
      simp only [Option.some.injEq, SchedV.year.injEq] at h
      obtain ⟨_, rfl⟩ := h
      have e1 : (weeks.zip counts).map (·.1) = weeks := by
        apply List.map_fst_zip; omega
      have e2 : (weeks.zip counts).map (·.2) = counts := by
        apply List.map_snd_zip; omega
      refine ⟨e1, by rw [e2]; exact hc, ?_⟩
      intro hlast
      rw [e2]
      exact (periods_partition _ counts hc hlast).1
    · cases h

example : (match convSched (.year "A".toList "FRACTION".toList [31, 30, 31] [5, 9, 12] ["w1".toList, "w2".toList, "w1".toList]) with
    | some (.year _ ps) => ps.map (·.2)
    | _ => []) = [151, 122, 92] := by decide +kernel

end Cte.C17C
