/-
  C18 — KyGananciasSolares.txt and NewBDL_O.tbl: every written row is recovered.
  Row-level statements about `Aux.parseElement`, `Aux.parseSpace` (tbl) and `Aux.kygLine` (KyG), for rows printed
  with any blank padding between fields.
-/
import Cte.Model.HulcAux
import Cte.Lemmas.BdlNum

namespace Cte.Props.C18Aux
open Cte.Bdl Cte.Aux

/-- no character of the token satisfies `p` -/
def Free (p : Char → Bool) (t : Str) : Prop := ∀ c ∈ t, p c = false

theorem splitBy_token (p : Char → Bool) (tok : Str) (sep : Char) (rest : Str) (ht : Free p tok) (hs : p sep = true) :
    splitBy p (tok ++ sep :: rest) = tok :: splitBy p rest := by
  induction tok with
  | nil => simp [splitBy, hs]
  | cons a t ih =>
    have ha : p a = false := ht a (by simp)
    have := ih (fun c hc => ht c (by simp [hc]))
    simp [splitBy, ha, this]

theorem splitBy_last (p : Char → Bool) (tok : Str) (ht : Free p tok) : splitBy p tok = [tok] := by
  induction tok with
  | nil => rfl
  | cons a t ih =>
    have ha : p a = false := ht a (by simp)
    simp [splitBy, ha, ih (fun c hc => ht c (by simp [hc]))]

/-- fields separated by `;` (no `;` inside a field) are split back into the fields -/
theorem splitChar_fields (c : Char) (fs : List Str) (hne : fs ≠ []) (hf : ∀ f ∈ fs, c ∉ f) :
    splitChar c (joinWith [c] fs) = fs := by
  unfold splitChar
  induction fs with
  | nil => exact absurd rfl hne
  | cons a t ih =>
    have hfree : Free (· == c) a := by
      intro x hx
      have : x ≠ c := fun e => hf a (by simp) (e ▸ hx)
      simpa using this
    cases t with
    | nil => simpa [joinWith] using splitBy_last _ a hfree
    | cons b r =>
      have hj : joinWith [c] (a :: b :: r) = a ++ c :: joinWith [c] (b :: r) := by simp [joinWith]
      rw [hj, splitBy_token _ a c _ hfree (by simp), ih (by simp) (fun f hf' => hf f (by simp [hf']))]

/-- a padded list of tokens: blanks, token, blanks, token, … blanks -/
def padded : List (Str × Str) → Str → Str
  | [], trailing => trailing
  | (pad, tok) :: t, trailing => pad ++ tok ++ padded t trailing

theorem splitBy_ws_pad (w rest : Str) (hw : ∀ c ∈ w, isWs c = true) :
    (splitBy isWs (w ++ rest)).filter (fun x => !x.isEmpty) = (splitBy isWs rest).filter (fun x => !x.isEmpty) := by
  induction w with
  | nil => rfl
  | cons a t ih =>
    have ha : isWs a = true := hw a (by simp)
    simp only [List.cons_append, splitBy, ha, if_true, List.filter_cons, List.isEmpty_nil, Bool.not_true, Bool.false_eq_true, if_false]
    exact ih (fun c hc => hw c (by simp [hc]))

/-- `split_whitespace` of padded tokens gives the tokens: any run of blanks between them, at the start and at the end -/
theorem splitWs_padded (items : List (Str × Str)) (trailing : Str)
    (hpad : ∀ it ∈ items, ∀ c ∈ it.1, isWs c = true) (htr : ∀ c ∈ trailing, isWs c = true)
    (htok : ∀ it ∈ items, it.2 ≠ [] ∧ Free isWs it.2)
    (hsep : ∀ i, ∀ h : i + 1 < items.length, (items[i + 1]).1 ≠ []) :
    splitWs (padded items trailing) = items.map (·.2) := by
  unfold splitWs
  induction items with
  | nil =>
    simp only [padded, List.map_nil]
    have := splitBy_ws_pad trailing [] htr
    simpa [splitBy] using this
  | cons it t ih =>
    obtain ⟨pad, tok⟩ := it
    have hp := hpad (pad, tok) (by simp)
    obtain ⟨hne, hfree⟩ := htok (pad, tok) (by simp)
    simp only [padded, List.map_cons, List.append_assoc]
    rw [splitBy_ws_pad pad _ hp]
    have ih' := ih (fun x hx => hpad x (by simp [hx])) (fun x hx => htok x (by simp [hx]))
      (fun i h => by
        have := hsep (i + 1) (by simpa using h)
        simpa [List.getElem_cons_succ] using this)
    -- what follows the token starts with a blank, or is empty
    cases t with
    | nil =>
      simp only [padded] at ih' ⊢
      cases trailing with
      | nil =>
        rw [List.append_nil, splitBy_last isWs tok hfree]
        cases tok with
        | nil => exact absurd rfl hne
        | cons a r => simp
      | cons s rest =>
        have hs : isWs s = true := htr s (by simp)
        rw [splitBy_token isWs tok s rest hfree hs]
        have hrest := splitBy_ws_pad rest [] (fun c hc => htr c (by simp [hc]))
        cases tok with
        | nil => exact absurd rfl hne
        | cons a r =>
          simp only [List.filter_cons, List.isEmpty_cons, Bool.not_false, if_true]
          simp only [List.append_nil] at hrest
          rw [hrest]
          simp [splitBy]
    | cons it2 t2 =>
      obtain ⟨pad2, tok2⟩ := it2
      have hp2ne : pad2 ≠ [] := by simpa using hsep 0 (by simp)
      have hp2 := hpad (pad2, tok2) (by simp)
      cases pad2 with
      | nil => exact absurd rfl hp2ne
      | cons s ps =>
        have hs : isWs s = true := hp2 s (by simp)
        have hshape : tok ++ padded ((s :: ps, tok2) :: t2) trailing = tok ++ s :: (ps ++ tok2 ++ padded t2 trailing) := by
          simp [padded, List.append_assoc]
        rw [hshape, splitBy_token isWs tok s _ hfree hs]
        cases tok with
        | nil => exact absurd rfl hne
        | cons a r =>
          simp only [List.filter_cons, List.isEmpty_cons, Bool.not_false, if_true]
          congr 1
          have hrec : padded ((s :: ps, tok2) :: t2) trailing = s :: (ps ++ tok2 ++ padded t2 trailing) := by
            simp [padded, List.append_assoc]
          rw [hrec] at ih'
          have hdrop := splitBy_ws_pad [s] (ps ++ tok2 ++ padded t2 trailing) (by intro c hc; simp at hc; subst hc; exact hs)
          simp only [List.cons_append, List.nil_append] at hdrop
          rw [← hdrop]
          exact ih'

/-! ### NewBDL_O.tbl rows -/

/-- an element row: the name (one token, quotes already removed) followed by the values line with any padding -/
theorem parseElement_row (name : Str) (toks : List Str) (pads : List Str) (trailing : Str) (nums : List Num) (a b : Int)
    (hlen : toks.length = 10) (hplen : pads.length = 10)
    (hname : name ≠ [] ∧ Free isWs name)
    (htoks : ∀ t ∈ toks, t ≠ [] ∧ Free isWs t)
    (hpads : ∀ p ∈ pads, p ≠ [] ∧ ∀ c ∈ p, isWs c = true) (htr : ∀ c ∈ trailing, isWs c = true)
    (hnums : (toks.take 7).mapM parseF32 = some nums)
    (htype : elemTypes.any (fun t => t.toList == toks.getD 7 []) = true)
    (ha : parseI32 (toks.getD 8 []) = some a) (hb : parseI32 (toks.getD 9 []) = some b) :
    parseElement (padded (([], name) :: pads.zip toks) trailing) =
      some { name := name, nums := nums, etype := toks.getD 7 [], idSurf := a, idSpace := b } := by
  have hitems : splitWs (padded (([], name) :: pads.zip toks) trailing) = name :: toks := by
    rw [splitWs_padded]
    · have : (pads.zip toks).map (·.2) = toks := by
        rw [List.map_snd_zip]; omega
      simp [this]
    · intro it hit c hc
      rcases List.mem_cons.mp hit with rfl | hit
      · simp at hc
      · exact (hpads it.1 (List.of_mem_zip hit).1).2 c hc
    · exact htr
    · intro it hit
      rcases List.mem_cons.mp hit with rfl | hit
      · exact hname
      · exact htoks it.2 (List.of_mem_zip hit).2
    · intro i h
      have hi : i < (pads.zip toks).length := by simpa using h
      have : ((([] : Str), name) :: pads.zip toks)[i + 1] = (pads.zip toks)[i] := by simp
      rw [this]
      have hmem : (pads.zip toks)[i] ∈ pads.zip toks := List.getElem_mem hi
      exact (hpads _ (List.of_mem_zip hmem).1).1
  unfold parseElement
  simp only [hitems]
  have h11 : ((name :: toks).length != 11) = false := by simp [hlen]
  simp only [h11, Bool.false_eq_true, if_false, List.drop_succ_cons, List.drop_zero, nth, List.getD_cons_succ, List.getD_cons_zero]
  simp only [hnums, ha, hb, htype, if_true]

/-! ### KyG rows -/

/-- a `PPTT` row printed as `PPTT;length;psi;name[;system]` with either decimal separator is read back -/
theorem kyg_pptt_row (st : Kyg) (l psi name : Str) (ln pn : Num)
    (hl : ';' ∉ l ∧ Clean l) (hp : ';' ∉ psi ∧ Clean psi) (hn : ';' ∉ name ∧ Clean name)
    (hln : commaNum l = some ln) (hpn : commaNum psi = some pn) :
    kygLine st (joinWith [';'] ["PPTT".toList, l, psi, name]) =
      .ok { st with tbs := st.tbs ++ [{ name := name, l := ln, psi := pn, sisdim := [] }] } := by
  have hfields : splitChar ';' (joinWith [';'] ["PPTT".toList, l, psi, name]) = ["PPTT".toList, l, psi, name] := by
    apply splitChar_fields
    · simp
    · intro f hf
      simp only [List.mem_cons, List.mem_nil_iff, or_false] at hf
      rcases hf with rfl | rfl | rfl | rfl
      · decide
      · exact hl.1
      · exact hp.1
      · exact hn.1
  have hline : joinWith [';'] ["PPTT".toList, l, psi, name] = 'P' :: 'P' :: 'T' :: 'T' :: ';' :: (l ++ ';' :: (psi ++ ';' :: name)) := by
    simp [joinWith]
  unfold kygLine
  rw [hfields]
  rw [hline]
  simp only [startsWith, List.isPrefixOf, List.isEmpty_cons]
  have ht : trim ['P', 'P', 'T', 'T'] = ['P', 'P', 'T', 'T'] := by decide
  simp [nth, trim_clean _ hl.2, trim_clean _ hp.2, trim_clean _ hn.2, hln, hpn, ht]

/-- a `Muro` row in the old layout `Muro;name;area;U;b` is read back -/
theorem kyg_muro_row (st : Kyg) (name a u b : Str) (an un bn : Num)
    (hn : ';' ∉ name ∧ Clean name) (ha : ';' ∉ a ∧ Clean a) (hu : ';' ∉ u ∧ Clean u) (hb : ';' ∉ b ∧ Clean b)
    (han : commaNum a = some an) (hun : commaNum u = some un) (hbn : commaNum b = some bn) :
    kygLine st (joinWith [';'] ["Muro".toList, name, a, u, b]) =
      .ok { st with walls := st.walls ++ [{ name := name, a := an, u := un, btrx := bn, extra := none }] } := by
  have hfields : splitChar ';' (joinWith [';'] ["Muro".toList, name, a, u, b]) = ["Muro".toList, name, a, u, b] := by
    apply splitChar_fields
    · simp
    · intro f hf
      simp only [List.mem_cons, List.mem_nil_iff, or_false] at hf
      rcases hf with rfl | rfl | rfl | rfl | rfl
      · decide
      · exact hn.1
      · exact ha.1
      · exact hu.1
      · exact hb.1
  have hline : joinWith [';'] ["Muro".toList, name, a, u, b] = 'M' :: 'u' :: 'r' :: 'o' :: ';' :: (name ++ ';' :: (a ++ ';' :: (u ++ ';' :: b))) := by
    simp [joinWith]
  have ht : trim ['M', 'u', 'r', 'o'] = ['M', 'u', 'r', 'o'] := by decide
  unfold kygLine
  rw [hfields, hline]
  simp only [startsWith, List.isPrefixOf, List.isEmpty_cons]
  simp [nth, trim_clean _ hn.2, trim_clean _ ha.2, trim_clean _ hu.2, trim_clean _ hb.2, han, hun, hbn, ht]

/-- a `Ventana` row in the old layout `Ventana;name;area;U;orientation;frame %` is read back (O → W in the orientation) -/
theorem kyg_ventana_row (st : Kyg) (name a u o ff : Str) (an un fn : Num)
    (hn : ';' ∉ name ∧ Clean name) (ha : ';' ∉ a ∧ Clean a) (hu : ';' ∉ u ∧ Clean u) (ho : ';' ∉ o ∧ Clean o) (hf : ';' ∉ ff ∧ Clean ff)
    (han : commaNum a = some an) (hun : commaNum u = some un) (hfn : commaNum ff = some fn) :
    kygLine st (joinWith [';'] ["Ventana".toList, name, a, u, o, ff]) =
      .ok { st with windows := st.windows ++ [{ name := name, orientation := replaceOW o, a := an, u := un, ff := fn, extra := none }] } := by
  have hfields : splitChar ';' (joinWith [';'] ["Ventana".toList, name, a, u, o, ff]) = ["Ventana".toList, name, a, u, o, ff] := by
    apply splitChar_fields
    · simp
    · intro f hf'
      simp only [List.mem_cons, List.mem_nil_iff, or_false] at hf'
      rcases hf' with rfl | rfl | rfl | rfl | rfl | rfl
      · decide
      · exact hn.1
      · exact ha.1
      · exact hu.1
      · exact ho.1
      · exact hf.1
  have hline : joinWith [';'] ["Ventana".toList, name, a, u, o, ff] =
      'V' :: 'e' :: 'n' :: 't' :: 'a' :: 'n' :: 'a' :: ';' :: (name ++ ';' :: (a ++ ';' :: (u ++ ';' :: (o ++ ';' :: ff)))) := by
    simp [joinWith]
  have ht : trim ['V', 'e', 'n', 't', 'a', 'n', 'a'] = ['V', 'e', 'n', 't', 'a', 'n', 'a'] := by decide
  unfold kygLine
  rw [hfields, hline]
  simp only [startsWith, List.isPrefixOf, List.isEmpty_cons]
  simp [nth, trim_clean _ hn.2, trim_clean _ ha.2, trim_clean _ hu.2, trim_clean _ ho.2, trim_clean _ hf.2, han, hun, hfn, ht]

example : commaNum "54,14".toList = some (Num.fin false 5414 (-2)) := by decide
example : commaNum "0.960".toList = some (Num.fin false 960 (-3)) := by decide
example : (kygLine {} "PPTT;54,14;0,960;UNION_CUBIERTA;SDINT".toList).toOption.map (fun k => k.tbs.map (fun t => (String.ofList t.name, t.l, String.ofList t.sisdim))) =
    some [("UNION_CUBIERTA", Num.fin false 5414 (-2), "SDINT")] := by decide
example : (parseElement "P01_E01_PE001  28.000000 1.715771 209.800003 0.000000 0.000000 180.000000 90.000000 0 1 -1".toList).map
    (fun e => (String.ofList e.name, e.nums.length, String.ofList e.etype, e.idSurf, e.idSpace)) = some ("P01_E01_PE001", 7, "0", 1, -1) := by decide

end Cte.Props.C18Aux
