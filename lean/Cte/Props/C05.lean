/-
C05 — Export and indicators are deterministic, reproducible and history-independent
(state-machine part: tables are never written, locks are taken one at a time, poisoning needs a panic).
-/
import Cte.Model.Process
namespace Cte.C05
open Cte.Proc

/-! ## the tables never change: whatever was computed before, a computation reads the same data -/

theorem step_content (s : St) (i : Nat) : (stepAt s i).content = s.content := by
  unfold stepAt; split <;> rfl

theorem panic_content (s : St) (i : Nat) : (panicAt s i).content = s.content := by
  unfold panicAt; split <;> rfl

/-- `history_independent` (data part): after any history of steps and panics of any threads, in any
interleaving, every table holds what it held initially — so a computation, being a function of its
argument and the tables, returns what it returns in a fresh process -/
theorem content_const (s : St) (evs : List Ev) : (s.run evs).content = s.content := by
  induction evs generalizing s with
  | nil => rfl
  | cons e r ih =>
    cases e with
    | step i => simp only [St.run]; rw [ih, step_content]
    | panic i => simp only [St.run]; rw [ih, panic_content]

/-- a result computed as a function of the argument and the table contents is the same after any history -/
theorem history_independent {α β : Type} (f : α → (Tbl → Nat) → β) (s : St) (evs : List Ev) (a : α) :
    f a (s.run evs).content = f a s.content := by rw [content_const]

/-! ## poisoning -/

theorem step_poisoned (s : St) (i : Nat) : (stepAt s i).poisoned = s.poisoned := by
  unfold stepAt; split <;> rfl

def noPanic : List Ev → Bool
  | [] => true
  | .step _ :: r => noPanic r
  | .panic _ :: _ => false

/-- `no_poison_without_panic`: if no computation panics, no lock is ever poisoned -/
theorem no_poison_without_panic (s : St) (evs : List Ev) (h : noPanic evs = true) :
    (s.run evs).poisoned = s.poisoned := by
  induction evs generalizing s with
  | nil => rfl
  | cons e r ih =>
    cases e with
    | step i => simp only [St.run]; rw [ih _ (by simpa [noPanic] using h), step_poisoned]
    | panic i => simp [noPanic] at h

/-- poison is for ever -/
theorem poison_sticky (s : St) (evs : List Ev) (t : Tbl) (h : s.poisoned t = true) :
    (s.run evs).poisoned t = true := by
  induction evs generalizing s with
  | nil => exact h
  | cons e r ih =>
    cases e with
    | step i => simp only [St.run]; exact ih _ (by rw [step_poisoned]; exact h)
    | panic i =>
      simp only [St.run]
      apply ih
      unfold panicAt; split
      · exact h
      · simp [h]

/-- `poison_propagates`: a panic of a thread that holds a table's lock poisons that table, and every
later computation that needs it fails -/
theorem poison_propagates (s : St) (i : Nat) (th : Thread) (t : Tbl) (evs : List Ev)
    (hi : s.threads[i]? = some th) (hh : th.held = some t) :
    canLock ((panicAt s i).run evs) t = false := by
  have : (panicAt s i).poisoned t = true := by
    unfold panicAt; simp [hi, hh]
  simp [canLock, poison_sticky _ evs t this]

/-- `failure_isolated`: a panic of a thread that holds no lock leaves no trace in the shared state -/
theorem failure_isolated (s : St) (i : Nat) (th : Thread) (hi : s.threads[i]? = some th) (hh : th.held = none) :
    (panicAt s i).poisoned = s.poisoned ∧ (panicAt s i).content = s.content := by
  constructor
  · unfold panicAt; simp only [hi]; funext t; simp [hh]
  · exact panic_content s i

/-! ## lock discipline: one lock at a time, hence no deadlock -/

theorem indicators_one_lock_at_a_time : wfFrom none indicatorsProg = true := by decide
theorem convert_takes_no_lock : wfFrom none convertProg = true ∧ convertProg.all (fun a => a == .work) = true := by decide

/-- a well-formed thread stays well-formed when it steps -/
theorem step_ok (th : Thread) (h : th.ok = true) : th.step.ok = true := by
  unfold Thread.ok at *
  unfold Thread.step
  cases hr : th.rest with
  | nil => simpa [hr] using h
  | cons a r =>
    cases hh : th.held with
    | none =>
      cases a with
      | lock t => simp only [hr, hh, wfFrom] at h ⊢; exact h
      | unlock t => simp [hr, hh, wfFrom] at h
      | work => simp only [hr, hh, wfFrom] at h ⊢; simpa [hh] using h
    | some x =>
      cases a with
      | lock t => simp [hr, hh, wfFrom] at h
      | unlock t => simp only [hr, hh, wfFrom, Bool.and_eq_true] at h ⊢; exact h.2
      | work => simp only [hr, hh, wfFrom] at h ⊢; simpa [hh] using h

/-- a well-formed thread that holds a lock has a next step, and it is not a lock request -/
theorem holder_can_step (th : Thread) (t : Tbl) (h : th.ok = true) (hh : th.held = some t) (others : List Thread) :
    enabled others th = true := by
  unfold Thread.ok at h
  unfold enabled
  rw [hh] at h
  cases hr : th.rest with
  | nil => simp [hr, wfFrom] at h
  | cons a r =>
    cases a with
    | lock x => simp [hr, wfFrom] at h
    | unlock x => rfl
    | work => rfl

/-- `no_deadlock`: if every thread follows the one-lock-at-a-time discipline and some thread is not
finished, some thread can take a step -/
theorem no_deadlock (ths : List Thread) (hok : ∀ th ∈ ths, th.ok = true)
    (hunf : ∃ th ∈ ths, th.rest ≠ []) :
    ∃ th ∈ ths, enabled (ths.filter (· ≠ th)) th = true := by
  obtain ⟨th, hth, hne⟩ := hunf
  cases hr : th.rest with
  | nil => exact absurd hr hne
  | cons a r =>
    cases a with
    | unlock x => exact ⟨th, hth, by simp [enabled, hr]⟩
    | work => exact ⟨th, hth, by simp [enabled, hr]⟩
    | lock t =>
      by_cases hheld : holds (ths.filter (· ≠ th)) t = true
      · -- somebody else holds t: that thread can step
        unfold holds at hheld
        rw [List.any_eq_true] at hheld
        obtain ⟨u, hu, huh⟩ := hheld
        have hu' : u ∈ ths := (List.mem_filter.1 hu).1
        exact ⟨u, hu', holder_can_step u t (hok u hu') (by simpa using huh) _⟩
      · refine ⟨th, hth, ?_⟩
        have hf : holds (ths.filter (· ≠ th)) t = false := by simpa using hheld
        simp only [enabled, hr, hf, Bool.not_false]

/-! ## observed lock traces are runs of the machine -/

theorem runWork_is_run (fuel : Nat) (s : St) (i : Nat) :
    ∃ evs, noPanic evs = true ∧ s.run evs = runWork fuel s i := by
  induction fuel generalizing s with
  | zero => exact ⟨[], rfl, rfl⟩
  | succ n ih =>
    unfold runWork
    split
    · split
      · obtain ⟨evs, h1, h2⟩ := ih (stepAt s i)
        exact ⟨.step i :: evs, by simpa [noPanic] using h1, by simpa [St.run] using h2⟩
      · exact ⟨[], rfl, rfl⟩
    · exact ⟨[], rfl, rfl⟩

theorem run_append (s : St) (a b : List Ev) : s.run (a ++ b) = (s.run a).run b := by
  induction a generalizing s with
  | nil => rfl
  | cons e r ih => cases e <;> simp only [List.cons_append, St.run] <;> exact ih _

theorem noPanic_append (a b : List Ev) : noPanic (a ++ b) = (noPanic a && noPanic b) := by
  induction a with
  | nil => simp [noPanic]
  | cons e r ih => cases e <;> simp [noPanic, ih]

theorem replayOne_is_run (fuel : Nat) (s s1 : St) (o : Obs) (h : replayOne fuel s o = some s1) :
    ∃ evs, noPanic evs = true ∧ s.run evs = s1 := by
  unfold replayOne at h
  obtain ⟨evs, h1, h2⟩ := runWork_is_run fuel s o.thread
  simp only at h
  split at h
  · split at h
    · split at h
      · simp only [Option.some.injEq] at h
        refine ⟨evs ++ [.step o.thread], ?_, ?_⟩
        · rw [noPanic_append, h1]; rfl
        · rw [run_append, h2]; simpa [St.run] using h
      · cases h
    · cases h
  · cases h

/-- **trace inclusion**: a lock trace that `replay` accepts is a run of the machine without panics — so what is proved of
every run (tables never written, no poisoning without a panic) holds of the observed execution, and the replay itself checks that
every acquisition was granted by the machine (`enabled`: nobody else held the table) -/
theorem replay_is_run (fuel : Nat) (s s1 : St) (tr : List Obs) (h : replay fuel s tr = some s1) :
    ∃ evs, noPanic evs = true ∧ s.run evs = s1 := by
  induction tr generalizing s with
  | nil => simp only [replay, Option.some.injEq] at h; exact ⟨[], rfl, h⟩
  | cons o r ih =>
    simp only [replay] at h
    cases h0 : replayOne fuel s o with
    | none => simp [h0] at h
    | some s0 =>
      simp only [h0, Option.bind_some] at h
      obtain ⟨e1, a1, b1⟩ := replayOne_is_run fuel s s0 o h0
      obtain ⟨e2, a2, b2⟩ := ih s0 h
      exact ⟨e1 ++ e2, by rw [noPanic_append, a1, a2]; rfl, by rw [run_append, b1, b2]⟩

/-- an accepted trace leaves the tables as they were and poisons nothing -/
theorem replay_preserves (fuel : Nat) (s s1 : St) (tr : List Obs) (h : replay fuel s tr = some s1) :
    s1.content = s.content ∧ s1.poisoned = s.poisoned := by
  obtain ⟨evs, h1, h2⟩ := replay_is_run fuel s s1 tr h
  rw [← h2]; exact ⟨content_const s evs, no_poison_without_panic s evs h1⟩

/-- the trace of one computation on one thread is accepted and finishes the program; an acquisition of the July table while another
thread holds it is not -/
example : ((replay 16 (indicatorThreads 1 1)
    [⟨0, .lock .monthly⟩, ⟨0, .unlock .monthly⟩, ⟨0, .lock .meta_⟩, ⟨0, .unlock .meta_⟩, ⟨0, .lock .july⟩, ⟨0, .unlock .july⟩]).map St.finished)
    = some true := by decide
example : (replay 16 (indicatorThreads 2 1)
    [⟨0, .lock .monthly⟩, ⟨0, .unlock .monthly⟩, ⟨0, .lock .meta_⟩, ⟨0, .unlock .meta_⟩, ⟨0, .lock .july⟩,
     ⟨1, .lock .monthly⟩, ⟨1, .unlock .monthly⟩, ⟨1, .lock .meta_⟩, ⟨1, .unlock .meta_⟩, ⟨1, .lock .july⟩]).isNone = true := by decide

/-! ## ids depend only on the element -/

/-- `id_local`: ids are computed element by element (`uuid_from_obj` of the element's own Debug text),
so the id of an element is the same in any two projects that contain it, whatever else they define -/
theorem id_local {E Id : Type} [DecidableEq E] (idOf : E → Id) (defs defs' : List E) (e : E)
    (h : e ∈ defs) (h' : e ∈ defs') :
    ((defs.map (fun x => (x, idOf x))).lookup e) = ((defs'.map (fun x => (x, idOf x))).lookup e) := by
  have key : ∀ l : List E, e ∈ l → (l.map (fun x => (x, idOf x))).lookup e = some (idOf e) := by
    intro l hl
    induction l with
    | nil => simp at hl
    | cons a t ih =>
      by_cases ha : e = a
      · subst ha; simp [List.lookup]
      · have : e ∈ t := by simpa [ha] using hl
        simp only [List.map_cons, List.lookup]
        have hne : (e == a) = false := by simpa using ha
        rw [hne]; exact ih this
  rw [key defs h, key defs' h']

/-! ## non-vacuity: two threads computing indicators concurrently -/
def exThreads : List Thread := [{ held := none, rest := indicatorsProg }, { held := some .july, rest := [.work, .unlock .july] }]
example : ∀ th ∈ exThreads, th.ok = true := by decide
example : enabled [exThreads[1]] exThreads[0] = true := by decide

end Cte.C05
