/-
C05 — Export and indicators are deterministic, reproducible and history-independent
(state-machine part: tables are never written, locks are taken one at a time, poisoning needs a panic).
-/
import Cte.Model.Process
namespace Cte.C05
open Cte.Proc

/-! ## the tables never change: whatever was computed before, a computation reads the same data -/

theorem step_content (s : St) (i : Nat) : (stepAt s i).content = s.content := by
  unfold stepAt; split <;> rfl

theorem panic_content (s : St) (i : Nat) : (panicAt s i).content = s.content := by
  unfold panicAt; split <;> rfl

/-- `history_independent` (data part): after any history of steps and panics of any threads, in any
interleaving, every table holds what it held initially — so a computation, being a function of its
argument and the tables, returns what it returns in a fresh process -/
theorem content_const (s : St) (evs : List Ev) : (s.run evs).content = s.content := by
  induction evs generalizing s with
  | nil => rfl
  | cons e r ih =>
    cases e with
    | step i => simp only [St.run]; rw [ih, step_content]
    | panic i => simp only [St.run]; rw [ih, panic_content]

/-- a result computed as a function of the argument and the table contents is the same after any history -/
theorem history_independent {α β : Type} (f : α → (Tbl → Nat) → β) (s : St) (evs : List Ev) (a : α) :
    f a (s.run evs).content = f a s.content := by rw [content_const]

/-! ## poisoning -/

theorem step_poisoned (s : St) (i : Nat) : (stepAt s i).poisoned = s.poisoned := by
  unfold stepAt; split <;> rfl

def noPanic : List Ev → Bool
  | [] => true
  | .step _ :: r => noPanic r
  | .panic _ :: _ => false

/-- `no_poison_without_panic`: if no computation panics, no lock is ever poisoned -/
theorem no_poison_without_panic (s : St) (evs : List Ev) (h : noPanic evs = true) :
    (s.run evs).poisoned = s.poisoned := by
  induction evs generalizing s with
  | nil => rfl
  | cons e r ih =>
    cases e with
    | step i => simp only [St.run]; rw [ih _ (by simpa [noPanic] using h), step_poisoned]
    | panic i => simp [noPanic] at h

/-- poison is for ever -/
theorem poison_sticky (s : St) (evs : List Ev) (t : Tbl) (h : s.poisoned t = true) :
    (s.run evs).poisoned t = true := by
  induction evs generalizing s with
  | nil => exact h
  | cons e r ih =>
    cases e with
    | step i => simp only [St.run]; exact ih _ (by rw [step_poisoned]; exact h)
    | panic i =>
      simp only [St.run]
      apply ih
      unfold panicAt; split
      · exact h
      · simp [h]

/-- `poison_propagates`: a panic of a thread that holds a table's lock poisons that table, and every
later computation that needs it fails -/
theorem poison_propagates (s : St) (i : Nat) (th : Thread) (t : Tbl) (evs : List Ev)
    (hi : s.threads[i]? = some th) (hh : th.held = some t) :
    canLock ((panicAt s i).run evs) t = false := by
  have : (panicAt s i).poisoned t = true := by
    unfold panicAt; simp [hi, hh]
  simp [canLock, poison_sticky _ evs t this]

/-- `failure_isolated`: a panic of a thread that holds no lock leaves no trace in the shared state -/
theorem failure_isolated (s : St) (i : Nat) (th : Thread) (hi : s.threads[i]? = some th) (hh : th.held = none) :
    (panicAt s i).poisoned = s.poisoned ∧ (panicAt s i).content = s.content := by
  constructor
  · unfold panicAt; simp only [hi]; funext t; simp [hh]
  · exact panic_content s i

/-! ## lock discipline: one lock at a time, hence no deadlock -/

theorem indicators_one_lock_at_a_time : wfFrom none indicatorsProg = true := by decide
theorem convert_takes_no_lock : wfFrom none convertProg = true ∧ convertProg.all (fun a => a == .work) = true := by decide

/-- a well-formed thread stays well-formed when it steps -/
theorem step_ok (th : Thread) (h : th.ok = true) : th.step.ok = true := by
  unfold Thread.ok at *
  unfold Thread.step
  cases hr : th.rest with
  | nil => simpa [hr] using h
  | cons a r =>
    cases hh : th.held with
    | none =>
      cases a with
      | lock t => simp only [hr, hh, wfFrom] at h ⊢; exact h
      | unlock t => simp [hr, hh, wfFrom] at h
      | work => simp only [hr, hh, wfFrom] at h ⊢; simpa [hh] using h
    | some x =>
      cases a with
      | lock t => simp [hr, hh, wfFrom] at h
      | unlock t => simp only [hr, hh, wfFrom, Bool.and_eq_true] at h ⊢; exact h.2
      | work => simp only [hr, hh, wfFrom] at h ⊢; simpa [hh] using h

/-- a well-formed thread that holds a lock has a next step, and it is not a lock request -/
theorem holder_can_step (th : Thread) (t : Tbl) (h : th.ok = true) (hh : th.held = some t) (others : List Thread) :
    enabled others th = true := by
  unfold Thread.ok at h
  unfold enabled
  rw [hh] at h
  cases hr : th.rest with
  | nil => simp [hr, wfFrom] at h
  | cons a r =>
    cases a with
    | lock x => simp [hr, wfFrom] at h
    | unlock x => rfl
    | work => rfl

/-- `no_deadlock`: if every thread follows the one-lock-at-a-time discipline and some thread is not
finished, some thread can take a step -/
theorem no_deadlock (ths : List Thread) (hok : ∀ th ∈ ths, th.ok = true)
    (hunf : ∃ th ∈ ths, th.rest ≠ []) :
    ∃ th ∈ ths, enabled (ths.filter (· ≠ th)) th = true := by
  obtain ⟨th, hth, hne⟩ := hunf
  cases hr : th.rest with
  | nil => exact absurd hr hne
  | cons a r =>
    cases a with
    | unlock x => exact ⟨th, hth, by simp [enabled, hr]⟩
    | work => exact ⟨th, hth, by simp [enabled, hr]⟩
    | lock t =>
      by_cases hheld : holds (ths.filter (· ≠ th)) t = true
      · -- somebody else holds t: that thread can step
        unfold holds at hheld
        rw [List.any_eq_true] at hheld
        obtain ⟨u, hu, huh⟩ := hheld
        have hu' : u ∈ ths := (List.mem_filter.1 hu).1
        exact ⟨u, hu', holder_can_step u t (hok u hu') (by simpa using huh) _⟩
      · refine ⟨th, hth, ?_⟩
        have hf : holds (ths.filter (· ≠ th)) t = false := by simpa using hheld
        simp only [enabled, hr, hf, Bool.not_false]

/-! ## ids depend only on the element -/

/-- `id_local`: ids are computed element by element (`uuid_from_obj` of the element's own Debug text),
so the id of an element is the same in any two projects that contain it, whatever else they define -/
theorem id_local {E Id : Type} [DecidableEq E] (idOf : E → Id) (defs defs' : List E) (e : E)
    (h : e ∈ defs) (h' : e ∈ defs') :
    ((defs.map (fun x => (x, idOf x))).lookup e) = ((defs'.map (fun x => (x, idOf x))).lookup e) := by
  have key : ∀ l : List E, e ∈ l → (l.map (fun x => (x, idOf x))).lookup e = some (idOf e) := by
    intro l hl
    induction l with
    | nil => simp at hl
    | cons a t ih =>
      by_cases ha : e = a
      · subst ha; simp [List.lookup]
      · have : e ∈ t := by simpa [ha] using hl
        simp only [List.map_cons, List.lookup]
        have hne : (e == a) = false := by simpa using ha
        rw [hne]; exact ih this
  rw [key defs h, key defs' h']

/-! ## non-vacuity: two threads computing indicators concurrently -/
def exThreads : List Thread := [{ held := none, rest := indicatorsProg }, { held := some .july, rest := [.work, .unlock .july] }]
example : ∀ th ∈ exThreads, th.ok = true := by decide
example : enabled [exThreads[1]] exThreads[0] = true := by decide

end Cte.C05
