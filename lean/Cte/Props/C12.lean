/-
C12 — Obstruction factors are bounded, monotone and ≈ 1 for unobstructed windows.
-/
import Cte.Model.Fshobst
import Cte.Lemmas.Sum
import Cte.Lemmas.Round
import Mathlib.Tactic.FieldSimp
namespace Cte.C12

/-! ## sunlit fraction -/

theorem filter_length_le_of_imp {α} (l : List α) (p q : α → Bool) (h : ∀ x, p x = true → q x = true) :
    (l.filter p).length ≤ (l.filter q).length := by
  induction l with
  | nil => simp
  | cons a t ih =>
    by_cases hp : p a
    · simp [List.filter_cons, hp, h a hp]; exact ih
    · by_cases hq : q a
      · simp [List.filter_cons, hp, hq]; omega
      · simp [List.filter_cons, hp, hq]; exact ih

/-- `f_in_unit`: the sunlit fraction lies in [0, 1] -/
theorem f_in_unit (hp : Bool) (ndot : Rat) (origins : List V3) (dir : V3) (occ : List Occ) :
    0 ≤ sunlitFraction hp ndot origins dir occ ∧ sunlitFraction hp ndot origins dir occ ≤ 1 := by
  unfold sunlitFraction
  split
  · norm_num
  · split
    · norm_num
    · split
      · norm_num
      · rename_i _ _ hne
        have hlen : 0 < origins.length := by
          cases origins with
          | nil => simp at hne
          | cons a t => simp
        have hpos : (0 : Rat) < (origins.length : Nat) := by exact_mod_cast hlen
        have hle : ((origins.filter (blocked occ dir)).length : Rat) ≤ (origins.length : Nat) := by
          exact_mod_cast List.length_filter_le _ _
        have h0 : (0 : Rat) ≤ ((origins.filter (blocked occ dir)).length : Nat) := by positivity
        constructor
        · rw [sub_nonneg, div_le_one hpos]; exact hle
        · have : 0 ≤ ((origins.filter (blocked occ dir)).length : Rat) / (origins.length : Nat) :=
            div_nonneg h0 (le_of_lt hpos)
          push_cast at this ⊢
          linarith

/-- more occluders hide at least the same sample points -/
theorem blocked_mono (occ occ' : List Occ) (h : ∀ o ∈ occ, o ∈ occ') (dir o : V3) :
    blocked occ dir o = true → blocked occ' dir o = true := by
  unfold blocked
  simp only [List.any_eq_true]
  rintro ⟨x, hx, hb⟩
  exact ⟨x, h x hx, hb⟩

/-- `f_antitone_occluders`: adding any wall or shade never increases the sunlit fraction -/
theorem f_antitone_occluders (hp : Bool) (ndot : Rat) (origins : List V3) (dir : V3) (occ occ' : List Occ)
    (h : ∀ o ∈ occ, o ∈ occ') :
    sunlitFraction hp ndot origins dir occ' ≤ sunlitFraction hp ndot origins dir occ := by
  unfold sunlitFraction
  split
  · exact le_refl _
  · split
    · exact le_refl _
    · split
      · exact le_refl _
      · rename_i _ _ hne
        have hlen : 0 < origins.length := by
          cases origins with
          | nil => simp at hne
          | cons a t => simp
        have hpos : (0 : Rat) < (origins.length : Nat) := by exact_mod_cast hlen
        have hle := filter_length_le_of_imp origins (blocked occ dir) (blocked occ' dir) (blocked_mono occ occ' h dir)
        have hle' : ((origins.filter (blocked occ dir)).length : Rat) ≤ ((origins.filter (blocked occ' dir)).length : Nat) := by
          exact_mod_cast hle
        have := div_le_div_of_nonneg_right hle' (le_of_lt hpos)
        push_cast at this ⊢
        linarith

/-- `unobstructed`: with no candidate occluder the fraction is 0 (sun behind the window) or 1 -/
theorem unobstructed (hp : Bool) (ndot : Rat) (origins : List V3) (dir : V3) :
    sunlitFraction hp ndot origins dir [] = (if hp && decide (ndot < 1 / 100) then 0 else 1) := by
  unfold sunlitFraction blocked
  cases hp
  · simp
  · by_cases h : ndot < 1 / 100
    · simp [h]
    · simp only [Bool.not_true, Bool.false_eq_true, if_false, h, Bool.true_and, decide_false]
      split
      · rfl
      · simp

/-- `no_position_is_one` -/
theorem no_position_is_one (ndot : Rat) (origins : List V3) (dir : V3) (occ : List Occ) :
    sunlitFraction false ndot origins dir occ = 1 := by
  simp [sunlitFraction]

/-- a window without sample points (no position of its own) is fully sunlit when the sun is in front -/
theorem no_origins_is_one (ndot : Rat) (dir : V3) (occ : List Occ) (h : ¬ ndot < 1 / 100) :
    sunlitFraction true ndot [] dir occ = 1 := by
  unfold sunlitFraction
  rw [if_neg (by simp), if_neg h, if_pos (by rfl)]

/-! ## the factor as a mean over the hours -/

/-- `fshobst_is_mean` (definition) -/
theorem fshobst_is_mean (F : Fns) (hb : F.bias = 0) (hs : List HourIn) :
    fshobst F hs = round2 (rsum (hs.map (fun h => (h.f * h.dir + h.dif) / (h.dir + h.dif))) / (hs.length : Nat)) := by
  simp only [fshobst, fshobstRaw, Fns.r2_unbiased F hb]
  rfl

/-- each hourly term lies in [0,1] -/
theorem term_in_unit (h : HourIn) (hf0 : 0 ≤ h.f) (hf1 : h.f ≤ 1) (hd : 0 ≤ h.dir) (hi : 0 ≤ h.dif)
    (hpos : 0 < h.dir + h.dif) : 0 ≤ fshTerm h ∧ fshTerm h ≤ 1 := by
  unfold fshTerm
  constructor
  · apply div_nonneg _ (le_of_lt hpos); nlinarith
  · rw [div_le_one hpos]; nlinarith

theorem rsum_le_length {l : List Rat} (h0 : ∀ x ∈ l, 0 ≤ x ∧ x ≤ 1) : 0 ≤ rsum l ∧ rsum l ≤ (l.length : Nat) := by
  induction l with
  | nil => simp
  | cons a t ih =>
    have ha := h0 a (by simp)
    have := ih (fun x hx => h0 x (by simp [hx]))
    simp only [rsum_cons, List.length_cons]
    push_cast
    constructor <;> linarith [this.1, this.2, ha.1, ha.2]

/-- `fshobst_in_unit`: with fractions in [0,1], non-negative irradiances and some radiation at every
hour, the factor lies in [0,1] — before and after rounding -/
theorem fshobst_in_unit (F : Fns) (hb : F.bias = 0) (hs : List HourIn) (hne : hs ≠ [])
    (h : ∀ x ∈ hs, 0 ≤ x.f ∧ x.f ≤ 1 ∧ 0 ≤ x.dir ∧ 0 ≤ x.dif ∧ 0 < x.dir + x.dif) :
    (0 ≤ fshobstRaw hs ∧ fshobstRaw hs ≤ 1) ∧ (0 ≤ fshobst F hs ∧ fshobst F hs ≤ 1) := by
  have hterms : ∀ t ∈ hs.map fshTerm, 0 ≤ t ∧ t ≤ 1 := by
    intro t ht
    obtain ⟨x, hx, rfl⟩ := List.mem_map.1 ht
    obtain ⟨a, b, c, d, e⟩ := h x hx
    exact term_in_unit x a b c d e
  have hs' := rsum_le_length hterms
  rw [List.length_map] at hs'
  have hlen : 0 < hs.length := List.length_pos_iff.mpr hne
  have hpos : (0 : Rat) < (hs.length : Nat) := by exact_mod_cast hlen
  have raw : 0 ≤ fshobstRaw hs ∧ fshobstRaw hs ≤ 1 := by
    unfold fshobstRaw
    exact ⟨div_nonneg hs'.1 (le_of_lt hpos), by rw [div_le_one hpos]; exact hs'.2⟩
  refine ⟨raw, ?_⟩
  unfold fshobst
  rw [Fns.r2_unbiased F hb]
  constructor
  · exact round2_nonneg raw.1
  · have := round2_mono raw.2
    have h1 : round2 1 = 1 := by decide +kernel
    rwa [h1] at this

/-- the hourly term grows with the sunlit fraction -/
theorem term_mono (a b : HourIn) (hd : a.dir = b.dir) (hi : a.dif = b.dif) (hf : a.f ≤ b.f) (hdir : 0 ≤ a.dir)
    (hpos : 0 < a.dir + a.dif) : fshTerm a ≤ fshTerm b := by
  unfold fshTerm
  rw [← hd, ← hi]
  apply div_le_div_of_nonneg_right _ (le_of_lt hpos)
  nlinarith

theorem rsum_le_rsum {α} (l : List α) (f g : α → Rat) (h : ∀ x ∈ l, f x ≤ g x) :
    rsum (l.map f) ≤ rsum (l.map g) := by
  induction l with
  | nil => simp
  | cons a t ih =>
    simp only [List.map_cons, rsum_cons]
    have := h a (by simp)
    have := ih (fun x hx => h x (by simp [hx]))
    linarith

/-- `fshobst_antitone_occluders`: if at every hour the sunlit fraction does not increase (which
`f_antitone_occluders` gives when obstacles are added), the factor does not increase -/
theorem fshobst_monotone (F : Fns) (hb : F.bias = 0) (hs : List HourIn) (f' : HourIn → Rat)
    (hle : ∀ x ∈ hs, f' x ≤ x.f) (h : ∀ x ∈ hs, 0 ≤ x.dir ∧ 0 < x.dir + x.dif) :
    fshobst F (hs.map (fun x => { x with f := f' x })) ≤ fshobst F hs := by
  unfold fshobst
  rw [Fns.r2_unbiased F hb, Fns.r2_unbiased F hb]
  apply round2_mono
  unfold fshobstRaw
  rw [List.length_map, List.map_map]
  have hnn : (0 : Rat) ≤ (hs.length : Nat) := by positivity
  apply div_le_div_of_nonneg_right _ hnn
  apply rsum_le_rsum
  intro x hx
  exact term_mono _ _ rfl rfl (hle x hx) (h x hx).1 (h x hx).2

/-- `fully_hidden`: a window hidden at every hour has the diffuse share only -/
theorem fully_hidden (hs : List HourIn) (h : ∀ x ∈ hs, x.f = 0) :
    fshobstRaw hs = rsum (hs.map (fun x => x.dif / (x.dir + x.dif))) / (hs.length : Nat) := by
  unfold fshobstRaw
  congr 1
  congr 1
  apply List.map_congr_left
  intro x hx
  simp [fshTerm, h x hx]

theorem rsum_map_const {α} (l : List α) (c : Rat) : rsum (l.map (fun _ => c)) = c * (l.length : Nat) := by
  induction l with
  | nil => simp
  | cons a t ih =>
    simp only [List.map_cons, rsum_cons, ih, List.length_cons]
    push_cast
    ring

/-- a window fully sunlit at every hour with some radiation has factor 1 -/
theorem fully_sunlit (hs : List HourIn) (hne : hs ≠ []) (h : ∀ x ∈ hs, x.f = 1 ∧ x.dir + x.dif ≠ 0) :
    fshobstRaw hs = 1 := by
  unfold fshobstRaw
  have : hs.map fshTerm = hs.map (fun _ => (1 : Rat)) := by
    apply List.map_congr_left
    intro x hx
    obtain ⟨h1, h2⟩ := h x hx
    simp [fshTerm, h1, div_self h2]
  rw [this]
  rw [rsum_map_const, one_mul]
  have hlen : 0 < hs.length := List.length_pos_iff.mpr hne
  have hpos : (0 : Rat) < (hs.length : Nat) := by exact_mod_cast hlen
  exact div_self (ne_of_gt hpos)

/-- `unobstructed` (factor): if the only hours at which the sun is behind the window (f = 0) carry a
beam share of at most ε, the factor is at least 1 − ε -/
theorem unobstructed_bound (hs : List HourIn) (hne : hs ≠ []) (eps : Rat)
    (h : ∀ x ∈ hs, 0 ≤ x.dir ∧ 0 ≤ x.dif ∧ 0 < x.dir + x.dif ∧ (x.f = 1 ∨ (x.f = 0 ∧ x.dir ≤ eps * (x.dir + x.dif)))) :
    1 - eps ≤ fshobstRaw hs ∨ eps < 0 := by
  by_cases he : eps < 0
  · exact Or.inr he
  · left
    have he' : 0 ≤ eps := not_lt.mp he
    unfold fshobstRaw
    have hlen : 0 < hs.length := List.length_pos_iff.mpr hne
    have hpos : (0 : Rat) < (hs.length : Nat) := by exact_mod_cast hlen
    rw [le_div_iff₀ hpos]
    rw [← rsum_map_const hs (1 - eps)]
    apply rsum_le_rsum
    intro x hx
    obtain ⟨hd, hi, hp, hc⟩ := h x hx
    unfold fshTerm
    rw [le_div_iff₀ hp]
    rcases hc with h1 | ⟨h0, hb⟩
    · rw [h1]; nlinarith
    · rw [h0]; nlinarith

/-! ## non-vacuity -/
def exHours : List HourIn := [{ f := 1, dir := 300, dif := 100 }, { f := 0, dir := 0, dif := 80 }, { f := 1 / 2, dir := 200, dif := 200 }]
example : fshobstRaw exHours = (1 + 1 + 3 / 4) / 3 := by decide +kernel
example : ∀ x ∈ exHours, 0 ≤ x.f ∧ x.f ≤ 1 ∧ 0 ≤ x.dir ∧ 0 ≤ x.dif ∧ 0 < x.dir + x.dif := by decide +kernel

end Cte.C12
