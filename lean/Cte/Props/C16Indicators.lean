/-
C16, last clause — purging "leaves the reference area, volumes, K, n50 and q_sol;jul unchanged".

The proof goes through an agreement relation between two models: same elements (walls, windows,
meta data, overrides), the spaces of the second are those of the first that some wall refers to,
and every lookup the indicator pipeline performs from an element gives the same answer in both.
`purge_agree` shows that `purge m` agrees with `m`; the `*_agree` lemmas push the relation through
every function of `Cte/Model/Energy.lean` (U-values included).
-/
import Cte.Lemmas.Purge
import Cte.Lemmas.Sum
import Cte.Model.Indicators
import Cte.Props.C11
namespace Cte.C16I

/-! ## generic list lemmas -/

theorem find?_filter_keep {α} (l : List α) (p q : α → Bool)
    (h : ∀ x ∈ l, p x = true → q x = true) : (l.filter q).find? p = l.find? p := by
  induction l with
  | nil => rfl
  | cons a t ih =>
    have iht := ih (fun x hx => h x (List.mem_cons_of_mem _ hx))
    cases hq : q a with
    | true =>
      simp only [List.filter_cons, hq, if_true, List.find?_cons]
      cases p a <;> simp [iht]
    | false =>
      have hp : p a = false := by
        cases hpa : p a with
        | false => rfl
        | true => have := h a (by simp) hpa; rw [hq] at this; cases this
      simp [List.filter_cons, hq, List.find?_cons, hp, iht]

theorem rsum_map_filter_zero {α} (l : List α) (q : α → Bool) (f : α → Rat)
    (h : ∀ x ∈ l, q x = false → f x = 0) : rsum ((l.filter q).map f) = rsum (l.map f) := by
  induction l with
  | nil => rfl
  | cons a t ih =>
    have iht := ih (fun x hx => h x (List.mem_cons_of_mem _ hx))
    cases hq : q a with
    | true => simp [List.filter_cons, hq, iht]
    | false => simp [List.filter_cons, hq, iht, h a (by simp) hq]

theorem rsum_map_congr {α} (l : List α) (f g : α → Rat) (h : ∀ x ∈ l, f x = g x) :
    rsum (l.map f) = rsum (l.map g) := by
  rw [List.map_congr_left h]

theorem foldl_congr_mem {α β} (l : List α) (f g : β → α → β) (b : β)
    (h : ∀ x ∈ l, ∀ acc, f acc x = g acc x) : l.foldl f b = l.foldl g b := by
  induction l generalizing b with
  | nil => rfl
  | cons a t ih =>
    simp only [List.foldl_cons]
    rw [h a (by simp) b]
    exact ih _ (fun x hx => h x (List.mem_cons_of_mem _ hx))

theorem any_congr_mem {α} (l : List α) (f g : α → Bool) (h : ∀ x ∈ l, f x = g x) : l.any f = l.any g := by
  induction l with
  | nil => rfl
  | cons a t ih =>
    simp only [List.any_cons, h a (by simp), ih (fun x hx => h x (List.mem_cons_of_mem _ hx))]

theorem find?_map_id {α β} (l : List α) (g : α → β) (ida : α → Id) (idb : β → Id) (hid : ∀ a, idb (g a) = ida a)
    (i : Id) : (l.map g).find? (fun b => idb b = i) = (l.find? (fun a => ida a = i)).map g := by
  induction l with
  | nil => rfl
  | cons a t ih =>
    simp only [List.map_cons, List.find?_cons, hid]
    cases decide (ida a = i) <;> simp [ih]

/-- `lastById` keeps a sublist -/
theorem lastById_go_subset {α} (id : α → Id) (l : List α) : ∀ x ∈ lastById.go id l, x ∈ l := by
  induction l with
  | nil => intro x hx; simp [lastById.go] at hx
  | cons a t ih =>
    intro x hx
    simp only [lastById.go] at hx
    split at hx
    · exact List.mem_cons_of_mem _ (ih x hx)
    · rcases List.mem_cons.mp hx with rfl | hx
      · simp
      · exact List.mem_cons_of_mem _ (ih x hx)

theorem lastById_subset {α} (id : α → Id) (l : List α) : ∀ x ∈ lastById id l, x ∈ l :=
  lastById_go_subset id l

theorem any_filter_id {α} (id : α → Id) (q : Id → Bool) (a : Id) (ha : q a = true) (t : List α) :
    (t.filter (fun x => q (id x))).any (fun y => decide (id y = a)) = t.any (fun y => decide (id y = a)) := by
  induction t with
  | nil => rfl
  | cons b t ih =>
    by_cases hb : id b = a
    · subst hb
      simp [List.filter_cons, ha]
    · cases hq : q (id b) <;> simp [List.filter_cons, hq, hb, ih]

/-- filtering by a predicate on the id commutes with `lastById` -/
theorem lastById_go_filter {α} (id : α → Id) (q : Id → Bool) (l : List α) :
    lastById.go id (l.filter (fun x => q (id x))) = (lastById.go id l).filter (fun x => q (id x)) := by
  induction l with
  | nil => rfl
  | cons a t ih =>
    cases hq : q (id a) with
    | true =>
      simp only [List.filter_cons, hq, if_true, lastById.go, any_filter_id id q (id a) hq t]
      split
      · exact ih
      · simp [List.filter_cons, hq, ih]
    | false =>
      simp only [List.filter_cons, hq, lastById.go, Bool.false_eq_true, if_false]
      split
      · exact ih
      · simp [List.filter_cons, hq, ih]

theorem lastById_filter {α} (id : α → Id) (q : Id → Bool) (l : List α) :
    lastById id (l.filter (fun x => q (id x))) = (lastById id l).filter (fun x => q (id x)) :=
  lastById_go_filter id q l

/-! ## agreement of two models on everything the indicators look at -/

def usedSpace (m : Model) (i : Id) : Bool := (spacesUsed m).contains i
def usedWinCons (m : Model) (i : Id) : Bool := (m.windows.map (·.cons)).contains i

structure Agree (m m' : Model) : Prop where
  walls : m'.walls = m.walls
  windows : m'.windows = m.windows
  info : m'.info = m.info
  overrides : m'.overrides = m.overrides
  spaces : m'.spaces = m.spaces.filter (fun s => usedSpace m s.id)
  wallcons : ∀ w ∈ m.walls, m'.cons.getWallCons w.cons = m.cons.getWallCons w.cons
  res : ∀ w ∈ m.walls, ∀ c, m.cons.getWallCons w.cons = some c →
    c.resistance m'.cons = c.resistance m.cons
  wincons : m'.cons.wincons = m.cons.wincons.filter (fun c => usedWinCons m c.id)
  glass : ∀ c ∈ m'.cons.wincons, m'.cons.getGlass c.glass = m.cons.getGlass c.glass
  frame : ∀ c ∈ m'.cons.wincons, m'.cons.getFrame c.frame = m.cons.getFrame c.frame

variable {m m' : Model}

theorem used_space_of_wall {w : Wall} (hw : w ∈ m.walls) : usedSpace m w.space = true := by
  unfold usedSpace spacesUsed
  simp only [List.contains_eq_mem, List.mem_flatMap, decide_eq_true_eq]
  exact ⟨w, hw, by simp⟩

theorem used_space_of_next {w : Wall} {n : Id} (hw : w ∈ m.walls) (hn : w.nextTo = some n) :
    usedSpace m n = true := by
  unfold usedSpace spacesUsed
  simp only [List.contains_eq_mem, List.mem_flatMap, decide_eq_true_eq]
  exact ⟨w, hw, by simp [hn]⟩

theorem Agree.find_space (A : Agree m m') {i : Id} (hi : usedSpace m i = true) :
    m'.spaces.find? (·.id = i) = m.spaces.find? (·.id = i) := by
  rw [A.spaces]
  apply find?_filter_keep
  intro x _ hx
  have : x.id = i := by simpa using hx
  rw [this]; exact hi

theorem Agree.getSpace_eq (A : Agree m m') {i : Id} (hi : usedSpace m i = true) :
    m'.getSpace i = m.getSpace i := A.find_space hi

/-- a space no wall refers to has no floor -/
theorem area_zero (s : Space) (h : usedSpace m s.id = false) : s.area m.walls = 0 := by
  unfold Space.area
  have : m.walls.filter (fun w => w.space = s.id && w.tiltC = .bottom) = [] := by
    rw [List.filter_eq_nil_iff]
    intro w hw hc
    have hs : w.space = s.id := by
      simp only [Bool.and_eq_true, decide_eq_true_eq] at hc; exact hc.1
    have := used_space_of_wall hw
    rw [hs, h] at this; cases this
  rw [this]; rfl

theorem Agree.heightNet_eq (A : Agree m m') (F : Fns) (s : Space) :
    s.heightNet F m'.walls m'.cons = s.heightNet F m.walls m.cons := by
  unfold Space.heightNet
  rw [A.walls]
  cases h : s.topWall m.walls with
  | none => rfl
  | some w =>
    have hw : w ∈ m.walls := by unfold Space.topWall at h; exact List.mem_of_find?_eq_some h
    simp only [Option.bind_some, A.wallcons w hw]

theorem Agree.heightNet_eq2 (A : Agree m m') (F : Fns) (s : Space) :
    s.heightNet F m.walls m'.cons = s.heightNet F m.walls m.cons := by
  have := A.heightNet_eq F s; rw [A.walls] at this; exact this

theorem Agree.volEnvInhNetU_eq (A : Agree m m') (F : Fns) : m'.volEnvInhNetU F = m.volEnvInhNetU F := by
  unfold Model.volEnvInhNetU
  congr 1
  rw [A.spaces, A.walls, List.filter_filter]
  have e : m.spaces.filter (fun a => (a.insideTenv && a.kind != .uninhabited) && usedSpace m a.id)
      = (m.spaces.filter (fun s => s.insideTenv && s.kind != .uninhabited)).filter (fun s => usedSpace m s.id) := by
    rw [List.filter_filter]; congr 1; funext a; exact Bool.and_comm _ _
  rw [e]
  rw [rsum_map_filter_zero]
  · apply rsum_map_congr; intro s _
    have := A.heightNet_eq F s; rw [A.walls] at this; rw [this]
  · intro s _ hs
    rw [area_zero s hs]; simp

theorem Agree.globalVentilationU_eq (A : Agree m m') (F : Fns) :
    m'.globalVentilationU F = m.globalVentilationU F := by
  unfold Model.globalVentilationU; rw [A.info, A.volEnvInhNetU_eq]

theorem mem_wallsOf {s : Space} {w : Wall} {ws : List Wall} (h : w ∈ s.wallsOf ws) : w ∈ ws := by
  unfold Space.wallsOf at h; exact (List.mem_filter.mp h).1

/-- construction resistance seen from a wall -/
theorem Agree.wallRes_eq (A : Agree m m') {w : Wall} (hw : w ∈ m.walls) :
    ((m'.cons.getWallCons w.cons).bind (fun c => c.resistance m'.cons))
      = ((m.cons.getWallCons w.cons).bind (fun c => c.resistance m.cons)) := by
  rw [A.wallcons w hw]
  cases h : m.cons.getWallCons w.cons with
  | none => rfl
  | some c => simp only [Option.bind_some, A.res w hw c h]

theorem Agree.slabDt_eq (A : Agree m m') (s : Space) :
    s.slabDt m'.walls m'.cons = s.slabDt m.walls m.cons := by
  unfold Space.slabDt
  rw [A.walls]
  have e : ∀ w ∈ (s.wallsOf m.walls).filter (fun w => w.tiltC = .bottom && w.bounds = .ground),
      w.area * (3 / 10 + LAMBDA_GND * (RSI_DESC + ((m'.cons.getWallCons w.cons).bind (fun c => c.resistance m'.cons)).getD 0 + RSE))
      = w.area * (3 / 10 + LAMBDA_GND * (RSI_DESC + ((m.cons.getWallCons w.cons).bind (fun c => c.resistance m.cons)).getD 0 + RSE)) := by
    intro w hw
    rw [A.wallRes_eq (mem_wallsOf (List.mem_filter.mp hw).1)]
  simp only [rsum_map_congr _ _ _ e]

theorem Agree.slabPsi_eq (A : Agree m m') (F : Fns) (dt : Rat) : slabPsi F m' dt = slabPsi F m dt := by
  unfold Cte.slabPsi; rw [A.info]

theorem Agree.sideAreas_eq (A : Agree m m') (s : Space) (sw : List Wall) (hsw : ∀ w ∈ sw, w ∈ m.walls) :
    sideAreas s m'.spaces sw = sideAreas s m.spaces sw := by
  unfold Cte.sideAreas
  apply foldl_congr_mem
  intro w hw acc
  have hwm : w ∈ m.walls := hsw w (List.mem_filter.mp hw).1
  have e : (w.nextTo.bind (fun n => m'.spaces.find? (·.id = n))) = (w.nextTo.bind (fun n => m.spaces.find? (·.id = n))) := by
    cases hn : w.nextTo with
    | none => rfl
    | some n => simp only [Option.bind_some]; exact A.find_space (used_space_of_next hwm hn)
  simp only [e]

theorem Agree.slabCharDim_eq (A : Agree m m') (F : Fns) (s : Space) :
    s.slabCharDim F m'.walls m'.spaces = s.slabCharDim F m.walls m.spaces := by
  have e := A.sideAreas_eq s (s.wallsOf m.walls) (fun w hw => mem_wallsOf hw)
  unfold Space.slabCharDim
  rw [A.walls]
  simp only [e]

/-! ## U-values -/

theorem Agree.uNonInterior_eq (A : Agree m m') (F : Fns) {w : Wall} (hw : w ∈ m.walls) :
    w.uNonInterior F m' = w.uNonInterior F m := by
  unfold Wall.uNonInterior
  rw [A.wallcons w hw]
  cases h : m.cons.getWallCons w.cons with
  | none => rfl
  | some c =>
    simp only [A.res w hw c h, A.getSpace_eq (used_space_of_wall hw)]
    cases hb : w.bounds with
    | ground =>
      simp only []
      cases w.uExterior F (c.resistance m.cons) with
      | none => rfl
      | some uw =>
        cases m.getSpace w.space with
        | none => rfl
        | some sp =>
          simp only [A.slabDt_eq, A.slabPsi_eq, A.slabCharDim_eq, A.heightNet_eq]
    | _ => rfl

theorem Agree.getWinCons_eq (A : Agree m m') {x : Window} (hx : x ∈ m.windows) :
    m'.cons.getWinCons x.cons = m.cons.getWinCons x.cons := by
  unfold ConsDb.getWinCons
  rw [A.wincons]
  apply find?_filter_keep
  intro c _ hc
  have : c.id = x.cons := by simpa using hc
  unfold usedWinCons
  simp only [List.contains_eq_mem, List.mem_map, decide_eq_true_eq]
  exact ⟨x, hx, this.symm⟩

theorem Agree.winUraw_eq (A : Agree m m') {c : WinCons} (hc : c ∈ m'.cons.wincons) :
    c.uValueRaw m'.cons = c.uValueRaw m.cons := by
  unfold WinCons.uValueRaw; rw [A.glass c hc, A.frame c hc]

/-- U-value of a window's construction, seen from the window -/
theorem Agree.winConsU_eq (A : Agree m m') (F : Fns) {x : Window} (hx : x ∈ m.windows) :
    (m'.cons.getWinCons x.cons).bind (fun c => c.uValue F m'.cons)
      = (m.cons.getWinCons x.cons).bind (fun c => c.uValue F m.cons) := by
  have e := A.getWinCons_eq hx
  cases h : m.cons.getWinCons x.cons with
  | none => rw [e, h]; rfl
  | some c =>
    have hc : c ∈ m'.cons.wincons := by
      rw [h] at e; unfold ConsDb.getWinCons at e; exact List.mem_of_find?_eq_some e
    rw [e, h]; simp only [Option.bind_some, WinCons.uValue, A.winUraw_eq hc]

theorem Agree.uaExt_eq (A : Agree m m') (F : Fns) (s : Space) : s.uaExt F m' = s.uaExt F m := by
  unfold Space.uaExt
  rw [A.walls, A.windows]
  apply foldl_congr_mem
  intro w hw acc
  have hwm : w ∈ m.walls := mem_wallsOf (List.mem_filter.mp hw).1
  rw [A.uNonInterior_eq F hwm]
  cases w.uNonInterior F m with
  | none => rfl
  | some u =>
    refine congrArg (fun t => ({ v := acc.v + (w.areaNet F m.windows * u.v + rsum t), nf := acc.nf || u.nf } : NV)) ?_
    apply List.filterMap_congr
    intro x hx
    rw [A.winConsU_eq F (List.mem_filter.mp hx).1]

theorem Agree.uValue_eq (A : Agree m m') (F : Fns) {w : Wall} (hw : w ∈ m.walls) :
    w.uValue F m' = w.uValue F m := by
  unfold Wall.uValue
  cases hb : w.bounds with
  | interior =>
    simp only []
    rw [A.wallcons w hw]
    cases h : m.cons.getWallCons w.cons with
    | none => rfl
    | some c =>
      simp only [A.res w hw c h, A.getSpace_eq (used_space_of_wall hw)]
      cases m.getSpace w.space with
      | none => rfl
      | some sp =>
        cases hn : w.nextTo with
        | none => rfl
        | some nid =>
          simp only [A.getSpace_eq (used_space_of_next hw hn)]
          cases m.getSpace nid with
          | none => rfl
          | some nx =>
            simp only [A.uaExt_eq, A.heightNet_eq, A.heightNet_eq2, A.globalVentilationU_eq, A.walls]
  | _ => exact A.uNonInterior_eq F hw

theorem Agree.isTenv_eq (A : Agree m m') {w : Wall} (hw : w ∈ m.walls) : w.isTenv m' = w.isTenv m := by
  unfold Wall.isTenv
  rw [A.getSpace_eq (used_space_of_wall hw)]
  cases hn : w.nextTo with
  | none => rfl
  | some n => simp only [Option.bind_some, A.getSpace_eq (used_space_of_next hw hn)]

theorem Agree.tenvHas_eq (A : Agree m m') (i : Id) : m'.tenvHas i = m.tenvHas i := by
  unfold Model.tenvHas
  rw [A.walls]
  apply any_congr_mem
  intro w hw
  rw [A.isTenv_eq hw]

/-! ## props -/

theorem Agree.wallMultiplier_eq (A : Agree m m') {w : Wall} (hw : w ∈ m.walls) :
    m'.wallMultiplier w = m.wallMultiplier w := by
  unfold Model.wallMultiplier
  rw [A.spaces, lastById_filter (fun s : Space => s.id) (usedSpace m)]
  rw [find?_filter_keep]
  intro x _ hx
  have : x.id = w.space := by simpa using hx
  rw [this]; exact used_space_of_wall hw

theorem Agree.wallProps_eq (A : Agree m m') (F : Fns) : m'.wallProps F = m.wallProps F := by
  unfold Model.wallProps
  rw [A.walls, A.windows]
  apply List.map_congr_left
  intro w hw
  have hwm : w ∈ m.walls := lastById_subset _ _ w hw
  rw [A.wallMultiplier_eq hwm, A.tenvHas_eq, A.uValue_eq F hwm]
  unfold Model.wallOverride; rw [A.overrides]

theorem Agree.winConsP_eq (A : Agree m m') (F : Fns) {c : WinCons} (hc : c ∈ m'.cons.wincons) :
    ({ id := c.id, c100 := c.c100, u := c.uValue F m'.cons,
       gGlwi := (c.gGlwi F m'.cons).getD (77 / 100),
       gGlshwi := (c.gGlshwiV F m'.cons).getD ((c.gGlwi F m'.cons).getD (77 / 100)), fF := c.fF } : WinConsP)
    = { id := c.id, c100 := c.c100, u := c.uValue F m.cons,
        gGlwi := (c.gGlwi F m.cons).getD (77 / 100),
        gGlshwi := (c.gGlshwiV F m.cons).getD ((c.gGlwi F m.cons).getD (77 / 100)), fF := c.fF } := by
  have eg : c.gGlwi F m'.cons = c.gGlwi F m.cons := by unfold WinCons.gGlwi; rw [A.glass c hc]
  have es : c.gGlshwiV F m'.cons = c.gGlshwiV F m.cons := by unfold WinCons.gGlshwiV; rw [eg]
  rw [eg, es]; unfold WinCons.uValue; rw [A.winUraw_eq hc]

/-- the props of a window's construction, looked up from the window -/
theorem Agree.winConsProps_find (A : Agree m m') (F : Fns) {x : Window} (hx : x ∈ m.windows) :
    (m'.winConsProps F).find? (·.id = x.cons) = (m.winConsProps F).find? (·.id = x.cons) := by
  unfold Model.winConsProps
  rw [find?_map_id _ _ (fun c : WinCons => c.id) (fun p : WinConsP => p.id) (fun _ => rfl),
      find?_map_id _ _ (fun c : WinCons => c.id) (fun p : WinConsP => p.id) (fun _ => rfl)]
  have hl : lastById (fun c : WinCons => c.id) m'.cons.wincons
      = (lastById (fun c : WinCons => c.id) m.cons.wincons).filter (fun c => usedWinCons m c.id) := by
    rw [A.wincons]; exact lastById_filter (fun c : WinCons => c.id) (usedWinCons m) _
  have hf : (lastById (fun c : WinCons => c.id) m'.cons.wincons).find? (fun a => a.id = x.cons)
      = (lastById (fun c : WinCons => c.id) m.cons.wincons).find? (fun a => a.id = x.cons) := by
    rw [hl]; apply find?_filter_keep
    intro c _ hc
    have : c.id = x.cons := by simpa using hc
    unfold usedWinCons
    simp only [List.contains_eq_mem, List.mem_map, decide_eq_true_eq]
    exact ⟨x, hx, this.symm⟩
  rw [hf]
  cases h : (lastById (fun c : WinCons => c.id) m.cons.wincons).find? (fun a => a.id = x.cons) with
  | none => rfl
  | some c =>
    have hc : c ∈ m'.cons.wincons := by
      rw [← hf] at h
      exact lastById_subset _ _ c (List.mem_of_find?_eq_some h)
    simp only [Option.map_some]
    exact congrArg some (A.winConsP_eq F hc)

theorem Agree.winProps_eq (A : Agree m m') (F : Fns) (fsh : Id → Option Rat) :
    m'.winProps F fsh = m.winProps F fsh := by
  unfold Model.winProps
  rw [A.wallProps_eq, A.windows, A.overrides]
  apply List.map_congr_left
  intro x hx
  have hxm : x ∈ m.windows := lastById_subset _ _ x hx
  simp only [A.tenvHas_eq, A.winConsProps_find F hxm]

/-- the props of the spaces: those of the spaces some wall refers to -/
theorem Agree.spaceProps_eq (A : Agree m m') (F : Fns) :
    m'.spaceProps F = (m.spaceProps F).filter (fun s => usedSpace m s.id) := by
  unfold Model.spaceProps
  rw [A.spaces, lastById_filter (fun s : Space => s.id) (usedSpace m), A.walls, List.filter_map]
  apply List.map_congr_left
  intro s _
  rw [A.heightNet_eq2]

theorem spaceProps_area_zero (F : Fns) {s : SpaceP} (hs : s ∈ m.spaceProps F) (hu : usedSpace m s.id = false) :
    s.area = 0 := by
  unfold Model.spaceProps at hs
  obtain ⟨sp, _, rfl⟩ := List.mem_map.mp hs
  exact area_zero sp hu

theorem Agree.globalProps_eq (A : Agree m m') (F : Fns) : m'.globalProps F = m.globalProps F := by
  unfold Model.globalProps
  rw [A.spaceProps_eq, A.wallProps_eq, A.info]
  have z : ∀ (f : SpaceP → Rat), (∀ s, s.area = 0 → f s = 0) →
      rsum (((m.spaceProps F).filter (fun s => usedSpace m s.id)).map f) = rsum ((m.spaceProps F).map f) := by
    intro f hf
    apply rsum_map_filter_zero
    intro s hs hu
    exact hf s (spaceProps_area_zero F hs hu)
  have h1 := z (fun s => if s.insideTenv && s.kind != .uninhabited then s.area * s.multiplier else 0)
        (by intro s h; simp only [h]; split <;> simp)
  have h2 := z (fun s => if s.insideTenv then s.area * s.height * s.multiplier else 0)
        (by intro s h; simp only [h]; split <;> simp)
  have h3 := z (fun s => if s.insideTenv then s.area * s.heightNet * s.multiplier else 0)
        (by intro s h; simp only [h]; split <;> simp)
  have h4 := z (fun s => if s.insideTenv && s.kind != .uninhabited then s.area * s.heightNet * s.multiplier else 0)
        (by intro s h; simp only [h]; split <;> simp)
  simp only [h1, h2, h3, h4]

/-! ## the indicators -/

/-- n50 reads the window constructions only through the windows' own constructions -/
theorem n50Data_congr (walls : List WallP) (wins : List WinP) (wc wc' : List WinConsP) (vol cO : Rat)
    (test : Option Rat) (h : ∀ x ∈ wins, winC100 wc' x = winC100 wc x) :
    n50Data walls wins wc' vol cO test = n50Data walls wins wc vol cO test := by
  have e : ∀ w : WallP, (winsOfWall wins w).map (fun x => x.area * winC100 wc' x)
      = (winsOfWall wins w).map (fun x => x.area * winC100 wc x) := by
    intro w
    apply List.map_congr_left
    intro x hx
    rw [h x (List.mem_filter.mp hx).1]
  unfold n50Data
  simp only [e]

theorem qTerms_congr (wins : List WinP) (wc wc' : List WinConsP) (rad : Orient → Option Rat)
    (h : ∀ x ∈ wins, wc'.find? (·.id = x.cons) = wc.find? (·.id = x.cons)) :
    qTerms wins wc' rad = qTerms wins wc rad := by
  unfold qTerms
  apply List.map_congr_left
  intro x hx
  rw [h x (List.mem_filter.mp hx).1]

theorem winProps_cons (F : Fns) (fsh : Id → Option Rat) {x : WinP} (hx : x ∈ m.winProps F fsh) :
    ∃ w ∈ m.windows, x.cons = w.cons := by
  unfold Model.winProps at hx
  obtain ⟨w, hw, rfl⟩ := List.mem_map.mp hx
  exact ⟨w, lastById_subset _ _ w hw, rfl⟩

theorem Agree.n50Of_eq (A : Agree m m') (F : Fns) (fsh : Id → Option Rat) : m'.n50Of F fsh = m.n50Of F fsh := by
  unfold Model.n50Of
  rw [A.globalProps_eq, A.wallProps_eq, A.winProps_eq, A.info]
  apply n50Data_congr
  intro x hx
  obtain ⟨w, hw, hc⟩ := winProps_cons F fsh hx
  unfold winC100
  rw [hc, A.winConsProps_find F hw]

theorem Agree.qsolOf_eq (A : Agree m m') (F : Fns) (fsh : Id → Option Rat) (rad : Orient → Option Rat) :
    m'.qsolOf F fsh rad = m.qsolOf F fsh rad := by
  unfold Model.qsolOf
  rw [A.globalProps_eq, A.winProps_eq]
  unfold qSolJul
  rw [qTerms_congr (m.winProps F fsh) (m.winConsProps F) (m'.winConsProps F) rad]
  intro x hx
  obtain ⟨w, hw, hc⟩ := winProps_cons F fsh hx
  rw [hc, A.winConsProps_find F hw]

/-- K reads thermal bridges only through sums of `l` and `psi·l`: bridges of length 0 change nothing -/
theorem kData_bridges (walls : List WallP) (wins : List WinP) (tbs : List ThermalBridge) (q : ThermalBridge → Bool)
    (hq : ∀ tb ∈ tbs, q tb = false → tb.l = 0) :
    kData walls wins (tbs.filter q) = kData walls wins tbs := by
  have e : ∀ k : TbKind,
      (k, rsum (((tbs.filter q).filter (fun tb => tb.kind = k && ¬ tb.l < 0)).map (·.l)),
          rsum (((tbs.filter q).filter (fun tb => tb.kind = k && ¬ tb.l < 0)).map (fun tb => tb.psi * tb.l)))
      = (k, rsum ((tbs.filter (fun tb => tb.kind = k && ¬ tb.l < 0)).map (·.l)),
          rsum ((tbs.filter (fun tb => tb.kind = k && ¬ tb.l < 0)).map (fun tb => tb.psi * tb.l))) := by
    intro k
    have c : (tbs.filter q).filter (fun tb => tb.kind = k && ¬ tb.l < 0)
        = (tbs.filter (fun tb => tb.kind = k && ¬ tb.l < 0)).filter q := by
      rw [List.filter_filter, List.filter_filter]; congr 1; funext a; exact Bool.and_comm _ _
    have r1 := rsum_map_filter_zero (tbs.filter (fun tb => tb.kind = k && ¬ tb.l < 0)) q (·.l)
      (fun tb htb h0 => hq tb (List.mem_filter.mp htb).1 h0)
    have r2 := rsum_map_filter_zero (tbs.filter (fun tb => tb.kind = k && ¬ tb.l < 0)) q (fun tb => tb.psi * tb.l)
      (fun tb htb h0 => by rw [hq tb (List.mem_filter.mp htb).1 h0]; simp)
    rw [c, r1, r2]
  unfold kData
  simp only [e]

theorem Agree.kOf_eq (A : Agree m m') (F : Fns) (fsh : Id → Option Rat)
    (htb : m'.thermalBridges = m.thermalBridges.filter (fun tb => decide (rabs tb.l > f32Eps)))
    (hIds : (m.thermalBridges.map (·.id)).Nodup)
    (hTb : ∀ tb ∈ m.thermalBridges, tb.l = 0 ∨ rabs tb.l > f32Eps) :
    m'.kOf F fsh = m.kOf F fsh := by
  unfold Model.kOf
  rw [A.wallProps_eq, A.winProps_eq, htb]
  have hsub : ((m.thermalBridges.filter (fun tb => decide (rabs tb.l > f32Eps))).map (·.id)).Nodup :=
    List.Nodup.sublist (List.Sublist.map _ List.filter_sublist) hIds
  rw [C11.lastById_of_nodup _ _ hsub, C11.lastById_of_nodup _ _ hIds]
  apply kData_bridges
  intro tb htbm hq
  rcases hTb tb htbm with h | h
  · exact h
  · simp [h] at hq

/-! ## `purge m` agrees with `m` -/

theorem purge_agree (m : Model) : Agree m (purge m) where
  walls := rfl
  windows := rfl
  info := rfl
  overrides := rfl
  spaces := rfl
  wincons := rfl
  wallcons := by
    intro w hw
    unfold ConsDb.getWallCons
    rw [purge_wallcons]; unfold pWallcons
    apply find?_filter_keep
    intro c _ hc
    have : c.id = w.cons := by simpa using hc
    simp only [List.contains_eq_mem, List.mem_map, decide_eq_true_eq]
    exact ⟨w, hw, this.symm⟩
  res := by
    intro w hw c hc
    unfold ConsDb.getWallCons at hc
    have hcm : c ∈ m.cons.wallcons := List.mem_of_find?_eq_some hc
    have hid : c.id = w.cons := by simpa using List.find?_some hc
    have hcp : c ∈ pWallcons m := by
      unfold pWallcons
      simp only [List.mem_filter, List.contains_eq_mem, List.mem_map, decide_eq_true_eq]
      exact ⟨hcm, w, hw, hid.symm⟩
    unfold WallCons.resistance
    apply foldl_congr_mem
    intro l hl acc
    have : layerResistance (purge m).cons l = layerResistance m.cons l := by
      unfold layerResistance ConsDb.getMaterial
      rw [purge_materials]; unfold pMaterials
      rw [find?_filter_keep]
      intro x _ hx
      have hx' : x.id = l.material := by simpa using hx
      unfold matsUsed
      simp only [List.contains_eq_mem, List.mem_flatMap, List.mem_map, decide_eq_true_eq]
      exact ⟨c, hcp, l, hl, hx'.symm⟩
    rw [this]
  glass := by
    intro c hc
    unfold ConsDb.getGlass
    rw [purge_glasses]; unfold pGlasses
    apply find?_filter_keep
    intro x _ hx
    have hx' : x.id = c.glass := by simpa using hx
    simp only [List.contains_eq_mem, List.mem_map, decide_eq_true_eq]
    exact ⟨c, hc, hx'.symm⟩
  frame := by
    intro c hc
    unfold ConsDb.getFrame
    rw [purge_frames]; unfold pFrames
    apply find?_filter_keep
    intro x _ hx
    have hx' : x.id = c.frame := by simpa using hx
    simp only [List.contains_eq_mem, List.mem_map, decide_eq_true_eq]
    exact ⟨c, hc, hx'.symm⟩

/-! ## C16, last clause -/

/-- Purging changes none of the props of walls and windows (U-values, envelope membership, net areas,
multipliers included) and none of the global figures: reference area, gross and net volumes, compactness,
ventilation rate.  For every rounding regime `F`, every model — closed or not. -/
theorem purge_props_invariant (F : Fns) (m : Model) (fsh : Id → Option Rat) :
    (purge m).wallProps F = m.wallProps F ∧ (purge m).winProps F fsh = m.winProps F fsh ∧
    (purge m).globalProps F = m.globalProps F :=
  ⟨(purge_agree m).wallProps_eq F, (purge_agree m).winProps_eq F fsh, (purge_agree m).globalProps_eq F⟩

/-- n50 and q_sol;jul of the purged model are those of the model -/
theorem purge_n50_qsol_invariant (F : Fns) (m : Model) (fsh : Id → Option Rat) (rad : Orient → Option Rat) :
    (purge m).n50Of F fsh = m.n50Of F fsh ∧ (purge m).qsolOf F fsh rad = m.qsolOf F fsh rad :=
  ⟨(purge_agree m).n50Of_eq F fsh, (purge_agree m).qsolOf_eq F fsh rad⟩

/-- K (with its whole breakdown) of the purged model is that of the model, when thermal-bridge ids are
unique and no bridge has a non-zero length below the purge threshold (`f32::EPSILON`): the code drops
bridges with `|l| ≤ ε`, the property speaks of bridges "of zero length". -/
theorem purge_k_invariant (F : Fns) (m : Model) (fsh : Id → Option Rat)
    (hIds : (m.thermalBridges.map (·.id)).Nodup)
    (hTb : ∀ tb ∈ m.thermalBridges, tb.l = 0 ∨ rabs tb.l > f32Eps) :
    (purge m).kOf F fsh = m.kOf F fsh :=
  (purge_agree m).kOf_eq F fsh rfl hIds hTb

/-! ## the hypotheses are met by a model that purging really changes, and the threshold hypothesis is needed -/

/-- one space with a ground floor, one space nothing refers to, an unused construction and material,
a thermal bridge of length 0 and one of 3 m -/
def exM : Model :=
  { info := Meta.dflt,
    spaces := [{ id := "s1", height := 3 }, { id := "unused", height := 2 }],
    walls := [{ id := "w1", bounds := .ground, cons := "c1", space := "s1",
                geometry := { tilt := 180, azimuth := 0, polygon := [⟨0, 0⟩, ⟨4, 0⟩, ⟨4, 5⟩, ⟨0, 5⟩] } }],
    thermalBridges := [{ id := "t0", l := 0, psi := 1 / 2 }, { id := "t1", l := 3, psi := 1 / 10 }],
    cons := { wallcons := [{ id := "c1", layers := [{ material := "m1", e := 1 / 5 }], absorptance := 3 / 5 },
                           { id := "c2", layers := [{ material := "m2", e := 1 / 10 }], absorptance := 3 / 5 }],
              materials := [{ id := "m1", properties := .detailed 1 1000 1000 none },
                            { id := "m2", properties := .resistance (1 / 2) none }] } }

example : (purge exM).spaces.length = 1 ∧ (purge exM).cons.wallcons.length = 1 ∧
    (purge exM).cons.materials.length = 1 ∧ (purge exM).thermalBridges.length = 1 ∧
    (exM.thermalBridges.map (·.id)).Nodup ∧
    (∀ tb ∈ exM.thermalBridges, tb.l = 0 ∨ rabs tb.l > f32Eps) := by decide +kernel

/-- a bridge shorter than `f32::EPSILON` but not of length 0 is purged by the code, and the bridge length K
reports changes with it: the hypothesis of `purge_k_invariant` cannot be dropped -/
def exTiny : Model := { exM with thermalBridges := [{ id := "t2", l := 1 / 10000000000, psi := 1 }] }

theorem purge_tiny_bridge_counterexample (F : Fns) (fsh : Id → Option Rat) :
    ((purge exTiny).kOf F fsh).tbsL ≠ (exTiny.kOf F fsh).tbsL := by
  have h1 : ((purge exTiny).kOf F fsh).tbsL = 0 := by
    simp only [Model.kOf, kData]; decide +kernel
  have h2 : (exTiny.kOf F fsh).tbsL = 1 / 10000000000 := by
    simp only [Model.kOf, kData]; decide +kernel
  rw [h1, h2]; decide +kernel

end Cte.C16I
