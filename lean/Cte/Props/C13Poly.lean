/-
C13, part 2 — the polygon test equals the even–odd crossing rule in exact arithmetic.
-/
import Cte.Model.Ray
import Mathlib.Tactic.Linarith
import Mathlib.Tactic.FieldSimp
import Mathlib.Tactic.Ring
import Mathlib.Algebra.Order.Field.Basic
namespace Cte.C13

/-- abscissa at which the line through `vj`, `vi` meets the horizontal at height `y` -/
def crossX (vj vi : P2) (y : Rat) : Rat := vi.x + (y - vi.y) * (vj.x - vi.x) / (vj.y - vi.y)

/-- the code's toggle condition for the edge `vj → vi` -/
def toggles (x y : Rat) (vj vi : P2) : Bool :=
  (decide (vj.y ≥ y) != decide (vi.y ≥ y)) &&
    (decide ((vi.y - y) * (vj.x - vi.x) ≥ (vi.x - x) * (vj.y - vi.y)) == decide (vi.y ≥ y))

/-- even–odd rule: the edge has its end points on different sides of the horizontal through the
point (one at or above, one strictly below) and meets it to the right of the point -/
def crossesRight (x y : Rat) (vj vi : P2) : Prop :=
  ((vj.y ≥ y ∧ vi.y < y) ∧ crossX vj vi y > x) ∨ ((vj.y < y ∧ vi.y ≥ y) ∧ crossX vj vi y ≥ x)

theorem crossX_sub (x y : Rat) (vj vi : P2) (hd : vj.y - vi.y ≠ 0) :
    crossX vj vi y - x =
      ((vi.x - x) * (vj.y - vi.y) - (vi.y - y) * (vj.x - vi.x)) / (vj.y - vi.y) := by
  unfold crossX
  field_simp
  ring

theorem toggles_iff (x y : Rat) (vj vi : P2) :
    toggles x y vj vi = true ↔
      (¬(vj.y ≥ y ↔ vi.y ≥ y) ∧
        ((vi.y - y) * (vj.x - vi.x) ≥ (vi.x - x) * (vj.y - vi.y) ↔ vi.y ≥ y)) := by
  unfold toggles
  simp only [Bool.and_eq_true, bne_iff_ne, ne_eq, beq_iff_eq, decide_eq_decide]

/-- `crossing_test_eq`: the division-free test of the code is the even–odd crossing test; the two
forms (≥ for an edge ending above, > for one ending below) differ only for a point on the edge -/
theorem crossing_test_eq (x y : Rat) (vj vi : P2) : toggles x y vj vi = true ↔ crossesRight x y vj vi := by
  rw [toggles_iff]
  unfold crossesRight
  by_cases hj : vj.y ≥ y <;> by_cases hi : vi.y ≥ y
  · constructor
    · rintro ⟨h, _⟩; exact absurd (iff_of_true hj hi) h
    · rintro (⟨⟨_, h⟩, _⟩ | ⟨⟨h, _⟩, _⟩) <;> linarith
  · -- vj at or above, vi below: dy > 0; toggles iff the test is false iff crossing strictly right
    have hi' : vi.y < y := not_le.mp hi
    have hd : 0 < vj.y - vi.y := by linarith
    have e := crossX_sub x y vj vi (ne_of_gt hd)
    constructor
    · rintro ⟨_, h⟩
      have hc : ¬ (vi.y - y) * (vj.x - vi.x) ≥ (vi.x - x) * (vj.y - vi.y) := fun c => hi (h.1 c)
      refine Or.inl ⟨⟨hj, hi'⟩, ?_⟩
      have : 0 < crossX vj vi y - x := by
        rw [e]; apply div_pos _ hd; linarith [not_le.mp hc]
      linarith
    · rintro (⟨_, h⟩ | ⟨⟨h, _⟩, _⟩)
      · refine ⟨fun c => hi (c.1 hj), ?_⟩
        constructor
        · intro c
          exfalso
          have h' : 0 < crossX vj vi y - x := by linarith
          rw [e] at h'
          have := (div_pos_iff_of_pos_right hd).1 h'
          linarith
        · intro c; exact absurd c hi
      · linarith
  · -- vj below, vi at or above: dy < 0; toggles iff the test is true iff crossing at or right
    have hj' : vj.y < y := not_le.mp hj
    have hd : vj.y - vi.y < 0 := by linarith
    have e := crossX_sub x y vj vi (ne_of_lt hd)
    constructor
    · rintro ⟨_, h⟩
      have hc : (vi.y - y) * (vj.x - vi.x) ≥ (vi.x - x) * (vj.y - vi.y) := h.2 hi
      refine Or.inr ⟨⟨hj', hi⟩, ?_⟩
      have : 0 ≤ crossX vj vi y - x := by
        rw [e]; apply div_nonneg_of_nonpos <;> linarith
      linarith
    · rintro (⟨⟨h, _⟩, _⟩ | ⟨_, h⟩)
      · linarith
      · refine ⟨fun c => hj (c.2 hi), ?_⟩
        constructor
        · intro _; exact hi
        · intro _
          have h' : 0 ≤ crossX vj vi y - x := by linarith
          rw [e] at h'
          by_contra hc
          have hn : 0 < (vi.x - x) * (vj.y - vi.y) - (vi.y - y) * (vj.x - vi.x) := by linarith [not_le.mp hc]
          have := div_neg_of_pos_of_neg hn hd
          linarith
  · have hj' : vj.y < y := not_le.mp hj
    have hi' : vi.y < y := not_le.mp hi
    constructor
    · rintro ⟨h, _⟩; exact absurd (iff_of_false hj hi) h
    · rintro (⟨⟨h, _⟩, _⟩ | ⟨⟨_, h⟩, _⟩) <;> linarith

/-- the edges of the closed outline, each as (previous corner, corner) -/
def edges (poly : List P2) : List (P2 × P2) :=
  match poly.getLast? with
  | none => []
  | some vl => (vl :: poly).zip poly

/-- parity of a list of booleans -/
def parity : List Bool → Bool
  | [] => false
  | b :: t => (b != parity t)

theorem fold_pip (x y : Rat) (poly : List P2) (vj : P2) (ins : Bool) :
    (poly.foldl (pipStep x y) (ins, vj, decide (vj.y ≥ y))).1 =
      (ins != parity (((vj :: poly).zip poly).map (fun e => toggles x y e.1 e.2))) := by
  induction poly generalizing vj ins with
  | nil => simp [parity]
  | cons v t ih =>
    simp only [List.foldl_cons, List.zip_cons_cons, List.map_cons, parity]
    have hs : pipStep x y (ins, vj, decide (vj.y ≥ y)) v =
        ((if toggles x y vj v then !ins else ins), v, decide (v.y ≥ y)) := by
      simp [pipStep, toggles]
    rw [hs, ih]
    cases toggles x y vj v <;> cases ins <;> cases parity (List.map (fun e => toggles x y e.1 e.2) ((v :: t).zip t)) <;> rfl

/-- `pip_eq_evenodd`: for every polygon (any number of corners ≥ 1) and every point, `point_in_poly`
is the parity of the number of outline edges that cross the horizontal through the point to its
right — the even–odd rule, by `crossing_test_eq` -/
theorem pip_eq_evenodd (x y : Rat) (poly : List P2) (vl : P2) (h : poly.getLast? = some vl) :
    pointInPoly x y poly = some (parity ((edges poly).map (fun e => toggles x y e.1 e.2))) := by
  unfold pointInPoly edges
  simp only [h]
  rw [fold_pip]
  simp

/-- a ray is reported to hit exactly when it is not (nearly) parallel to the plane, crosses it in
front of its origin, and the crossing point passes the polygon test -/
theorem ray_hit_iff (inv : Pose) (p : P2) (ps : List P2) (r : RayQ) :
    (rayPolygon inv (p :: ps) r).isSome = true ↔
      ¬ rabs (polyNormalZ (p :: ps) * (inv.rot r.d).z) < RAY_EPS ∧
      ¬ polyNormalZ (p :: ps) * (0 - (inv.app r.o).z) / (polyNormalZ (p :: ps) * (inv.rot r.d).z) < 0 ∧
      pointInPoly
        ((inv.app r.o).x + polyNormalZ (p :: ps) * (0 - (inv.app r.o).z) / (polyNormalZ (p :: ps) * (inv.rot r.d).z) * (inv.rot r.d).x)
        ((inv.app r.o).y + polyNormalZ (p :: ps) * (0 - (inv.app r.o).z) / (polyNormalZ (p :: ps) * (inv.rot r.d).z) * (inv.rot r.d).y)
        (p :: ps) = some true := by
  unfold rayPolygon
  dsimp only
  by_cases h1 : rabs (polyNormalZ (p :: ps) * (inv.rot r.d).z) < RAY_EPS
  · simp only [h1, if_true, Option.isSome_none, Bool.false_eq_true, not_true_eq_false, false_and]
  · rw [if_neg h1]
    by_cases h2 : polyNormalZ (p :: ps) * (0 - (inv.app r.o).z) / (polyNormalZ (p :: ps) * (inv.rot r.d).z) < 0
    · rw [if_pos h2]
      constructor
      · intro h; cases h
      · rintro ⟨_, hh, _⟩; exact absurd h2 hh
    · rw [if_neg h2]
      simp only [h1, h2, not_false_eq_true, true_and]
      split <;> simp_all

/-- the hit parameter is the plane-crossing parameter: the reported point lies on the plane z = 0 of
the polygon's own coordinates -/
theorem hit_on_plane (inv : Pose) (poly : List P2) (r : RayQ) (h : RayHit)
    (hh : rayPolygon inv poly r = some h) :
    (inv.app r.o).z + h.t * (inv.rot r.d).z = 0 := by
  cases poly with
  | nil => simp [rayPolygon] at hh
  | cons p ps =>
    unfold rayPolygon at hh
    dsimp only at hh
    by_cases h1 : rabs (polyNormalZ (p :: ps) * (inv.rot r.d).z) < RAY_EPS
    · rw [if_pos h1] at hh; cases hh
    · rw [if_neg h1] at hh
      have hne : polyNormalZ (p :: ps) * (inv.rot r.d).z ≠ 0 := by
        intro h0; apply h1; rw [h0]; decide +kernel
      have hn := left_ne_zero_of_mul hne
      have hz := right_ne_zero_of_mul hne
      by_cases h2 : polyNormalZ (p :: ps) * (0 - (inv.app r.o).z) / (polyNormalZ (p :: ps) * (inv.rot r.d).z) < 0
      · rw [if_pos h2] at hh; cases hh
      · rw [if_neg h2] at hh
        split at hh
        · cases hh
          dsimp only
          field_simp
          ring
        · cases hh

/-! ## non-vacuity -/
def square : List P2 := [⟨0, 0⟩, ⟨2, 0⟩, ⟨2, 2⟩, ⟨0, 2⟩]
example : pointInPoly 1 1 square = some true ∧ pointInPoly 3 1 square = some false ∧
    pointInPoly 1 2 square = some true ∧ pointInPoly 5 2 square = some false := by
  unfold pointInPoly; decide +kernel

end Cte.C13
