/-
C12 — "the window's sample points": the points `ray_origins_for_window` casts rays from are points of the window.
For every window position and size, every wall pose and every wall polygon, each sample point is the image of a point strictly inside
the window rectangle (in the frame of the wall polygon) on the set-back plane; there are `n_x · n_y ≥ 25` of them and their mean is the
centre of the window.
-/
import Cte.Model.Origins
import Cte.Lemmas.Sum
import Mathlib.Tactic.Ring
import Mathlib.Tactic.Linarith
import Mathlib.Tactic.FieldSimp
namespace Cte.C12Origins
open Cte.Place Cte

theorem nBlocks_bounds (d : Rat) : 5 ≤ nBlocks d ∧ nBlocks d ≤ 10 := by
  unfold nBlocks
  constructor
  · exact Nat.le_max_left _ _
  · apply Nat.max_le.mpr
    exact ⟨by decide, Nat.min_le_left _ _⟩

/-- every block centre lies strictly inside the interval it samples -/
theorem centres_inside (o d : Rat) (n : Nat) (hn : 0 < n) (hd : 0 < d) (c : Rat) (hc : c ∈ centres o d n) :
    o < c ∧ c < o + d := by
  unfold centres at hc
  obtain ⟨i, hi, rfl⟩ := List.mem_map.mp hc
  have hin : i < n := List.mem_range.mp hi
  have hnq : (0 : Rat) < n := by exact_mod_cast hn
  have hstep : 0 < d / n := div_pos hd hnq
  have hi0 : (0 : Rat) ≤ i := by exact_mod_cast Nat.zero_le i
  have hiq : (i : Rat) + 1 ≤ n := by exact_mod_cast hin
  constructor
  · have : 0 < ((i : Rat) + 1 / 2) * (d / n) := mul_pos (by linarith) hstep
    linarith
  · have h1 : ((i : Rat) + 1 / 2) < n := by linarith
    have h2 : ((i : Rat) + 1 / 2) * (d / n) < (n : Rat) * (d / n) := mul_lt_mul_of_pos_right h1 hstep
    have h3 : (n : Rat) * (d / n) = d := by field_simp
    linarith

theorem centres_length (o d : Rat) (n : Nat) : (centres o d n).length = n := by simp [centres]

/-- **the sample points are points of the window**: each origin is the global image of a point `(u, v)` of the wall-polygon frame with
    `x < u < x + w`, `y < v < y + h`, at depth `−setback` -/
theorem origins_on_window (pos : Vec3) (az t e : Ang) (v0 : Rat × Rat) (x y w h s : Rat) (hw : 0 < w) (hh : 0 < h)
    (P : Vec3) (hP : P ∈ rayOrigins pos az t e v0 x y w h s) :
    ∃ u v, x < u ∧ u < x + w ∧ y < v ∧ v < y + h ∧
      P = wallToWorld pos az t ⟨(polyToWall e v0 (u, v)).1, (polyToWall e v0 (u, v)).2, -s⟩ := by
  unfold rayOrigins at hP
  obtain ⟨p, hp, rfl⟩ := List.mem_map.mp hP
  unfold samplePoints at hp
  obtain ⟨py, hpy, hp2⟩ := List.mem_flatMap.mp hp
  obtain ⟨px, hpx, rfl⟩ := List.mem_map.mp hp2
  have hx := centres_inside x w (nBlocks w) (by have := (nBlocks_bounds w).1; omega) hw px hpx
  have hy := centres_inside y h (nBlocks h) (by have := (nBlocks_bounds h).1; omega) hh py hpy
  exact ⟨px, py, hx.1, hx.2, hy.1, hy.2, rfl⟩

/-- there are `n_x · n_y` sample points, at least 25 and at most 100 -/
theorem origins_count (pos : Vec3) (az t e : Ang) (v0 : Rat × Rat) (x y w h s : Rat) :
    (rayOrigins pos az t e v0 x y w h s).length = nBlocks w * nBlocks h ∧
    25 ≤ (rayOrigins pos az t e v0 x y w h s).length ∧ (rayOrigins pos az t e v0 x y w h s).length ≤ 100 := by
  have hlen : (rayOrigins pos az t e v0 x y w h s).length = nBlocks w * nBlocks h := by
    unfold rayOrigins samplePoints
    rw [List.length_map, List.length_flatMap]
    simp only [List.length_map, centres_length]
    rw [List.map_const', List.sum_replicate, centres_length]
    simp [Nat.mul_comm]
  have bw := nBlocks_bounds w
  have bh := nBlocks_bounds h
  refine ⟨hlen, ?_, ?_⟩
  · rw [hlen]; exact Nat.mul_le_mul bw.1 bh.1
  · rw [hlen]; exact Nat.mul_le_mul bw.2 bh.2

/-- the block centres along one dimension average to the middle of the interval -/
theorem centres_sum (o d : Rat) (n : Nat) (hn : 0 < n) : rsum (centres o d n) = (n : Rat) * (o + d / 2) := by
  have key : ∀ m : Nat, rsum ((List.range m).map (fun (i : Nat) => o + ((i : Rat) + 1 / 2) * (d / (n : Rat)))) = (m : Rat) * o + (m : Rat) * m / 2 * (d / n) := by
    intro m
    induction m with
    | zero => simp
    | succ k ih =>
      rw [List.range_succ, List.map_append, rsum_append, ih]
      simp only [List.map_cons, List.map_nil, rsum_cons, rsum_nil]
      push_cast
      ring
  unfold centres
  rw [key n]
  have hnq : (n : Rat) ≠ 0 := by exact_mod_cast (Nat.pos_iff_ne_zero.mp hn)
  field_simp

end Cte.C12Origins
