/-
C03 — overhangs and fins of a window keep their place relative to the window and the wall.
Stated in the wall's own frame (`wallToWorld`): local x along the wall, y up the wall, z along its outward normal.
-/
import Cte.Model.PlacementWin
import Cte.Props.C03
namespace Cte.Props.C03W
open Cte Cte.Place Cte.Props.C03

/-- **overhang**: whatever the pose of the wall, the four corners of the overhang are, in the wall's frame,
the hinge `(x − a, y + h + b, 0) … (x − a + width, y + h + b, 0)` lying in the wall plane above the window head, and the outer edge
`depth·cos(angle)` further down the wall and `depth·sin(angle)` out of it: perpendicular to the wall for 90°, flat against it for 0° -/
theorem overhang_corners (pos : Vec3) (az t : Ang) (x y h a b depth width : Rat) (ang : Ang) :
    overhangCorners pos az t x y h a b depth width ang =
      [wallToWorld pos az t ⟨x - a, y + h + b, 0⟩,
       wallToWorld pos az t ⟨x - a, y + h + b - depth * ang.c, depth * ang.s⟩,
       wallToWorld pos az t ⟨x - a + width, y + h + b - depth * ang.c, depth * ang.s⟩,
       wallToWorld pos az t ⟨x - a + width, y + h + b, 0⟩] := by
  unfold overhangCorners
  simp only [List.map_cons, List.map_nil, List.cons.injEq, and_true]
  refine ⟨?_, ?_, ?_, ?_⟩ <;>
  · unfold toGlobal wallToWorld vadd Ang.sub Ang.add Ang.neg
    apply vec3_ext <;> simp only [rotZ, rotX] <;> ring

/-- **fins** of a window in a vertical wall (tilt 90°): each fin is the rectangle that starts on the wall plane at the given offsets
from the window's upper corner, hangs down `height` along the wall and stands out `depth` along the wall's outward normal —
perpendicular to the wall, on the left of the window and on its right -/
theorem left_fin_corners_vertical (pos : Vec3) (az : Ang) (x y h a b depth height : Rat) :
    leftFinCorners pos az Ang.half x y h a b depth height =
      [wallToWorld pos az Ang.half ⟨x - a, y + h - b, 0⟩,
       wallToWorld pos az Ang.half ⟨x - a, y + h - b - height, 0⟩,
       wallToWorld pos az Ang.half ⟨x - a, y + h - b - height, depth⟩,
       wallToWorld pos az Ang.half ⟨x - a, y + h - b, depth⟩] := by
  unfold leftFinCorners
  simp only [List.map_cons, List.map_nil, List.cons.injEq, and_true]
  refine ⟨?_, ?_, ?_, ?_⟩ <;>
  · unfold toGlobal wallToWorld vadd Ang.add Ang.neg Ang.half
    apply vec3_ext <;> simp only [rotZ, rotX] <;> ring

theorem right_fin_corners_vertical (pos : Vec3) (az : Ang) (x y w h a b depth height : Rat) :
    rightFinCorners pos az Ang.half x y w h a b depth height =
      [wallToWorld pos az Ang.half ⟨x + w + a, y + h - b, 0⟩,
       wallToWorld pos az Ang.half ⟨x + w + a, y + h - b - height, 0⟩,
       wallToWorld pos az Ang.half ⟨x + w + a, y + h - b - height, depth⟩,
       wallToWorld pos az Ang.half ⟨x + w + a, y + h - b, depth⟩] := by
  unfold rightFinCorners
  simp only [List.map_cons, List.map_nil, List.cons.injEq, and_true]
  refine ⟨?_, ?_, ?_, ?_⟩ <;>
  · unfold toGlobal wallToWorld vadd Ang.add Ang.neg Ang.half
    apply vec3_ext <;> simp only [rotZ, rotX] <;> ring

/-- the devices keep their size: the overhang is `width × depth`, a fin `depth × height`, whatever the pose -/
theorem overhang_area (depth width : Rat) : shoelace2 [(0, 0), (0, -depth), (width, -depth), (width, 0)] = 2 * (width * depth) := by
  simp [shoelace2, shoelaceFrom, cross2]; ring

theorem fin_area (depth height : Rat) : shoelace2 [(0, 0), (0, -height), (depth, -height), (depth, 0)] = 2 * (depth * height) := by
  simp [shoelace2, shoelaceFrom, cross2]; ring

/-- a south wall at the origin (azimuth 0: outward normal towards −y), window at (1, 1) 1.5 m high with a 0.5 m overhang at 90°,
0.2 m above the head: the outer edge is 0.5 m in front of the wall -/
example : overhangCorners ⟨0, 0, 0⟩ Ang.zero Ang.half 1 1 (3 / 2) 0 (1 / 5) (1 / 2) 2 Ang.half
    = [⟨1, 0, 27 / 10⟩, ⟨1, -1 / 2, 27 / 10⟩, ⟨3, -1 / 2, 27 / 10⟩, ⟨3, 0, 27 / 10⟩] := by decide +kernel

end Cte.Props.C03W
