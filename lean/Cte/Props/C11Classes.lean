/-
C11 (classes) — "floor/wall/roof and compass classes depend only on the angle modulo 360 degrees",
stated as congruence: two angles that differ by a whole number of turns get the same class, the
class of an angle is the class of its reduced angle, the reduction is idempotent, and each tilt class
is exactly a union of intervals of the reduced angle (so the three classes partition the circle).
-/
import Cte.Props.C11
namespace Cte.C11

/-- reducing twice is reducing once -/
theorem normalize_idem (v : Rat) : normalize (normalize v 0 360) 0 360 = normalize v 0 360 := by
  have h := normalize_range v
  exact normalize_id _ h.1 h.2

/-- the class of an angle is the class of its reduced angle -/
theorem tiltClass_normalize (a : Rat) : tiltClass (normalize a 0 360) = tiltClass a := by
  unfold tiltClass; rw [normalize_idem]

theorem orientClass_normalize (a : Rat) : orientClass (normalize a 0 360) = orientClass a := by
  unfold orientClass; rw [normalize_idem]

/-- congruent angles: same tilt class -/
theorem tiltClass_congr (a b : Rat) (h : ∃ k : Int, a = b + 360 * k) : tiltClass a = tiltClass b := by
  obtain ⟨k, rfl⟩ := h; exact tiltClass_mod_360 b k

/-- congruent angles: same compass class -/
theorem orientClass_congr (a b : Rat) (h : ∃ k : Int, a = b + 360 * k) : orientClass a = orientClass b := by
  obtain ⟨k, rfl⟩ := h; exact orientClass_mod_360 b k

/-- angles with the same reduced angle are classified identically (the classes factor through the
reduction: nothing but the angle modulo 360° is looked at) -/
theorem classes_factor (a b : Rat) (h : normalize a 0 360 = normalize b 0 360) :
    tiltClass a = tiltClass b ∧ orientClass a = orientClass b := by
  unfold tiltClass orientClass; rw [h]; exact ⟨rfl, rfl⟩

/-- roofs: reduced tilt in [0,60] ∪ [300,360) -/
theorem tilt_top_iff (t : Rat) :
    tiltClass t = .top ↔ (normalize t 0 360 ≤ 60 ∨ 300 ≤ normalize t 0 360) := by
  unfold tiltClass
  simp only
  generalize normalize t 0 360 = r
  constructor
  · intro h
    by_cases h1 : r ≤ 60
    · exact Or.inl h1
    · right
      by_contra h5
      have h5 : r < 300 := lt_of_not_ge h5
      simp only [h1, if_false] at h
      split_ifs at h
  · rintro (h | h)
    · simp [h]
    · have h1 : ¬ r ≤ 60 := by intro; linarith
      have h2 : ¬ r < 120 := by intro; linarith
      have h3 : ¬ r < 240 := by intro; linarith
      have h4 : ¬ r < 300 := by intro; linarith
      simp [h1, h2, h3, h4]

/-- floors: reduced tilt in [120,240) -/
theorem tilt_bottom_iff (t : Rat) :
    tiltClass t = .bottom ↔ (120 ≤ normalize t 0 360 ∧ normalize t 0 360 < 240) := by
  unfold tiltClass
  simp only
  generalize normalize t 0 360 = r
  constructor
  · intro h
    split_ifs at h with h1 h2 h3
    exact ⟨le_of_not_gt h2, h3⟩
  · rintro ⟨h2, h3⟩
    have h1 : ¬ r ≤ 60 := by intro; linarith
    have h2' : ¬ r < 120 := by intro; linarith
    simp [h1, h2', h3]

/-- walls: reduced tilt in (60,120) ∪ [240,300) -/
theorem tilt_side_iff (t : Rat) :
    tiltClass t = .side ↔
      ((60 < normalize t 0 360 ∧ normalize t 0 360 < 120) ∨ (240 ≤ normalize t 0 360 ∧ normalize t 0 360 < 300)) := by
  unfold tiltClass
  simp only
  generalize normalize t 0 360 = r
  constructor
  · intro h
    split_ifs at h with h1 h2 h3 h4
    · exact Or.inl ⟨lt_of_not_ge h1, h2⟩
    · exact Or.inr ⟨le_of_not_gt h3, h4⟩
  · rintro (⟨h1, h2⟩ | ⟨h3, h4⟩)
    · have h1' : ¬ r ≤ 60 := by intro; linarith
      simp [h1', h2]
    · have h1 : ¬ r ≤ 60 := by intro; linarith
      have h2 : ¬ r < 120 := by intro; linarith
      have h3' : ¬ r < 240 := by intro; linarith
      simp [h1, h2, h3', h4]

/-- the compass class never is "horizontal" when computed from an azimuth alone -/
theorem orientClass_ne_hz (a : Rat) : orientClass a ≠ .hz := by
  unfold orientClass
  simp only
  generalize normalize a 0 360 = r
  split_ifs <;> simp

/-! ## non-vacuity -/
example : tiltClass 420 = .top ∧ tiltClass (-180) = .bottom ∧ tiltClass 630 = .side := by decide +kernel
example : normalize 420 0 360 = 60 ∧ normalize (-180) 0 360 = 180 := by decide +kernel
example : orientClass (-90) = orientClass 270 ∧ orientClass 270 = .w := by decide +kernel

end Cte.C11
