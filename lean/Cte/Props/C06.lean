/-
C06 — Opaque U-values follow EN ISO 6946, 13370 and 13789.
Property theorems about the code-shaped model `Cte/Model/Energy.lean`, against `Cte/Spec/Iso.lean`.
Every statement is for the unbiased rounding (`F.bias = 0`), i.e. `fround2`.
-/
import Cte.Model.Energy
import Cte.Spec.Iso
import Cte.Lemmas.Round
import Mathlib.Tactic.FieldSimp
import Mathlib.Tactic.Ring
namespace Cte.C06
open Cte.Spec

/-! ## constants and tables -/

theorem rsi_table (t : TiltC) : rsiOf t = rsi (flowExterior t) := by cases t <;> rfl
theorem rse_const : RSE = rse := rfl

/-- `uInterior_flow_direction`: the code's `(this_cond, next_cond, tilt)` table is "the direction of
the flow from the conditioned to the unconditioned space" -/
theorem partition_flow_direction (tc nc : Bool) (t : TiltC) :
    partitionRsi tc nc t = rsi (flowPartition tc nc t) := by
  cases tc <;> cases nc <;> cases t <;> rfl

/-! ## air-contact elements (EXTERIOR, and reported for ADIABATIC) -/

theorem uExteriorRaw_eq_spec (t : TiltC) (r : Rat) : uExteriorRaw t r = uAir (flowExterior t) r := by
  unfold uExteriorRaw uAir
  rw [rsi_table, rse_const]
  congr 1; ring

/-- `uExterior_eq_spec`: an EXTERIOR or ADIABATIC element whose construction and materials resolve
has U = round2 (1/(Rsi(direction) + ΣR + Rse)) -/
theorem uExterior_eq_spec (F : Fns) (hb : F.bias = 0) (w : Wall) (m : Model) (c : WallCons) (r : Rat)
    (hbd : w.bounds = .exterior ∨ w.bounds = .adiabatic)
    (hc : m.cons.getWallCons w.cons = some c) (hr : c.resistance m.cons = some r) :
    w.uValue F m = some { v := round2 (uAir (flowExterior w.tiltC) r) } := by
  rcases hbd with h | h <;>
    simp [Wall.uValue, Wall.uNonInterior, Wall.uExterior, h, hc, hr, Fns.r2_unbiased F hb,
      uExteriorRaw_eq_spec]

/-- `u_none_iff` for air-contact elements: no U-value exactly when the construction is missing or its
resistance cannot be computed -/
theorem uExterior_none_iff (F : Fns) (w : Wall) (m : Model)
    (hbd : w.bounds = .exterior ∨ w.bounds = .adiabatic) :
    w.uValue F m = none ↔
      m.cons.getWallCons w.cons = none ∨
      ∃ c, m.cons.getWallCons w.cons = some c ∧ c.resistance m.cons = none := by
  rcases hbd with h | h <;>
  · cases hc : m.cons.getWallCons w.cons with
    | none => simp [Wall.uValue, Wall.uNonInterior, h, hc]
    | some c =>
      cases hr : c.resistance m.cons <;>
        simp [Wall.uValue, Wall.uNonInterior, Wall.uExterior, h, hc, hr]

/-! ## resistance of a layer stack -/

def accR (db : ConsDb) (acc : Option Rat) (l : Layer) : Option Rat :=
  match acc, layerResistance db l with
  | some a, some r => some (a + r)
  | _, _ => none

theorem resistance_eq_foldl (c : WallCons) (db : ConsDb) :
    c.resistance db = c.layers.foldl (accR db) (some 0) := rfl

theorem foldl_accR_none (db : ConsDb) (ls : List Layer) : ls.foldl (accR db) none = none := by
  induction ls with
  | nil => rfl
  | cons l t ih => simpa [List.foldl_cons, accR] using ih

/-- the stack resistance is the start value plus the sum of the layer resistances, when all exist -/
theorem foldl_accR_some (db : ConsDb) (ls : List Layer) (a : Rat) :
    ls.foldl (accR db) (some a) =
      (ls.mapM (layerResistance db)).map (fun rs => a + rsum rs) := by
  induction ls generalizing a with
  | nil => simp [rsum]
  | cons l t ih =>
    simp only [List.foldl_cons, List.mapM_cons]
    cases hl : layerResistance db l with
    | none => simp [accR, hl, foldl_accR_none]
    | some r =>
      simp only [accR, hl, ih]
      cases t.mapM (layerResistance db) with
      | none => simp
      | some rs =>
        simp only [Option.map_some, Option.bind_eq_bind, Option.bind_some, Option.pure_def,
          Option.some.injEq]
        simp only [rsum, List.foldl_cons]
        have : ∀ (l : List Rat) (x y : Rat), l.foldl (· + ·) (x + y) = x + l.foldl (· + ·) y := by
          intro l; induction l with
          | nil => intro x y; rfl
          | cons h t ih => intro x y; simp only [List.foldl_cons]; rw [add_assoc]; exact ih x (y + h)
        rw [show (0 : Rat) + r = r + 0 by ring, this rs r 0]; ring

/-- ΣR: the resistance is the sum of the layer resistances (thickness/λ, or the given R) -/
theorem resistance_eq_sum (c : WallCons) (db : ConsDb) :
    c.resistance db = (c.layers.mapM (layerResistance db)).map rsum := by
  rw [resistance_eq_foldl, foldl_accR_some]
  congr 1; funext rs; ring

/-- a layer has no resistance exactly when its material is missing or is a detailed material with
conductivity ≤ 0 -/
theorem layerResistance_none_iff (db : ConsDb) (l : Layer) :
    layerResistance db l = none ↔
      db.getMaterial l.material = none ∨
      ∃ mat k d sh vd, db.getMaterial l.material = some mat ∧
        mat.properties = .detailed k d sh vd ∧ k ≤ 0 := by
  unfold layerResistance
  cases hm : db.getMaterial l.material with
  | none => simp
  | some mat =>
    simp only [Option.some.injEq, reduceCtorEq, false_or]
    cases hp : mat.properties with
    | detailed k d sh vd =>
      by_cases hk : k > 0
      · simp only [hk, if_true, reduceCtorEq, false_iff]
        rintro ⟨mat', k', d', sh', vd', rfl, h, hle⟩
        rw [hp] at h; cases h; exact absurd hk (not_lt.mpr hle)
      · simp only [hk, if_false, true_iff]
        exact ⟨mat, k, d, sh, vd, rfl, hp, not_lt.mp hk⟩
    | resistance r vd =>
      simp only [reduceCtorEq, false_iff]
      rintro ⟨mat', k', d', sh', vd', rfl, h, _⟩
      rw [hp] at h; cases h

/-- appending a layer adds its resistance -/
theorem resistance_append (c : WallCons) (db : ConsDb) (l : Layer) :
    ({ c with layers := c.layers ++ [l] } : WallCons).resistance db =
      accR db (c.resistance db) l := by
  simp only [resistance_eq_foldl, List.foldl_append, List.foldl_cons, List.foldl_nil]

theorem resistance_append_some (c : WallCons) (db : ConsDb) (l : Layer) (r rl : Rat)
    (h : c.resistance db = some r) (hl : layerResistance db l = some rl) :
    ({ c with layers := c.layers ++ [l] } : WallCons).resistance db = some (r + rl) := by
  rw [resistance_append, h]; simp [accR, hl]

/-! ## monotonicity: more insulation never increases U -/

theorem uExteriorRaw_antitone (t : TiltC) {r1 r2 : Rat} (h0 : 0 ≤ r1) (h : r1 ≤ r2) :
    uExteriorRaw t r2 ≤ uExteriorRaw t r1 := by
  unfold uExteriorRaw
  have hp : 0 < rsiOf t + RSE := by cases t <;> norm_num [rsiOf, RSI_DESC, RSI_ASC, RSI_HOR, RSE]
  apply one_div_le_one_div_of_le <;> linarith

/-- `u_antitone_layers` (air-contact elements): a stack with at least as much resistance has, after
rounding, at most the same U -/
theorem uExterior_antitone (F : Fns) (hb : F.bias = 0) (w : Wall) {r1 r2 : Rat} (h0 : 0 ≤ r1)
    (h : r1 ≤ r2) :
    ∀ u1 u2, w.uExterior F (some r1) = some u1 → w.uExterior F (some r2) = some u2 → u2 ≤ u1 := by
  intro u1 u2 h1 h2
  simp only [Wall.uExterior, Option.map_some, Option.some.injEq, Fns.r2_unbiased F hb] at h1 h2
  rw [← h1, ← h2]
  exact round2_mono (uExteriorRaw_antitone _ h0 h)

/-- adding a layer of non-negative resistance to an air-contact element never increases its U -/
theorem u_antitone_add_layer (F : Fns) (hb : F.bias = 0) (w : Wall) (c : WallCons) (db : ConsDb)
    (l : Layer) (r rl : Rat) (hr : c.resistance db = some r) (hl : layerResistance db l = some rl)
    (h0 : 0 ≤ r) (hl0 : 0 ≤ rl) :
    ∃ u1 u2, w.uExterior F (c.resistance db) = some u1 ∧
      w.uExterior F (({ c with layers := c.layers ++ [l] } : WallCons).resistance db) = some u2 ∧
      u2 ≤ u1 := by
  rw [resistance_append_some c db l r rl hr hl, hr]
  refine ⟨_, _, rfl, rfl, ?_⟩
  exact uExterior_antitone F hb w h0 (by linarith) _ _ rfl rfl

/-- a thicker layer has more resistance (λ > 0) -/
theorem layer_thicker (db : ConsDb) (l : Layer) (e' : Rat) (r : Rat) (he : l.e ≤ e')
    (h : layerResistance db l = some r) :
    ∃ r', layerResistance db { l with e := e' } = some r' ∧ r ≤ r' := by
  unfold layerResistance at h ⊢
  cases hm : db.getMaterial l.material with
  | none => simp [hm] at h
  | some mat =>
    simp only [hm] at h ⊢
    cases hp : mat.properties with
    | detailed k d sh vd =>
      simp only [hp] at h ⊢
      by_cases hk : k > 0
      · simp only [hk, if_true, Option.some.injEq] at h ⊢
        refine ⟨_, rfl, ?_⟩
        rw [← h]; exact div_le_div_of_nonneg_right he (le_of_lt hk)
      · simp [hk] at h
    | resistance rr vd =>
      simp only [hp, Option.some.injEq] at h ⊢
      exact ⟨rr, rfl, by rw [h]⟩

/-! ## partitions (EN ISO 13789) -/

/-- `uPartition_eq_spec`: with a finite ventilation rate and a non-zero loss coefficient the
partition U is round2 (1/(R_f + A_i/(ΣA_e·U_e + 0.33·n·V))) -/
theorem uPartition_eq_spec (F : Fns) (hb : F.bias = 0) (ai rf ua vol n : Rat)
    (hH : ua + 33 / 100 * (vol * n) ≠ 0) :
    (uCondUncond F ai rf ua vol (.fin n)).v = round2 (uPartition rf ai ua n vol) := by
  simp only [uCondUncond, hH, if_false, Fns.r2_unbiased F hb, uPartition]
  congr 3; ring

/-- more resistance in the partition itself never increases its U (loss coefficient fixed) -/
theorem uPartition_antitone (F : Fns) (hb : F.bias = 0) (ai ua vol n : Rat) {rf1 rf2 : Rat}
    (hH : 0 < ua + 33 / 100 * (vol * n)) (hai : 0 ≤ ai) (h0 : 0 < rf1) (h : rf1 ≤ rf2) :
    (uCondUncond F ai rf2 ua vol (.fin n)).v ≤ (uCondUncond F ai rf1 ua vol (.fin n)).v := by
  have hne : ua + 33 / 100 * (vol * n) ≠ 0 := ne_of_gt hH
  simp only [uCondUncond, hne, if_false, Fns.r2_unbiased F hb]
  apply round2_mono
  have : 0 ≤ ai / (ua + 33 / 100 * (vol * n)) := div_nonneg hai (le_of_lt hH)
  apply one_div_le_one_div_of_le <;> linarith

/-- partitions between equally conditioned spaces and partitions without neighbour:
U = round2 (1/(ΣR + 2·Rsi(direction))) -/
theorem uPartitionSame_eq_spec (F : Fns) (hb : F.bias = 0) (w : Wall) (m : Model) (c : WallCons)
    (sp nx : Space) (nid : Id) (r : Rat)
    (hbd : w.bounds = .interior) (hc : m.cons.getWallCons w.cons = some c)
    (hr : c.resistance m.cons = some r) (hs : m.getSpace w.space = some sp)
    (hn : w.nextTo = some nid) (hnx : m.getSpace nid = some nx)
    (hsame : decide (sp.kind = .conditioned) = decide (nx.kind = .conditioned)) :
    (w.uValue F m).map (·.v) =
      some (round2 (1 / rPartition (flowPartition (decide (sp.kind = .conditioned))
        (decide (nx.kind = .conditioned)) w.tiltC) r)) := by
  simp only [Wall.uValue, hbd, hc, hr, hs, hn, hnx, hsame, if_true, Option.map_some,
    Fns.r2_unbiased F hb, partition_flow_direction, rPartition]

/-! ## ground (EN ISO 13370) -/

/-- `uSlab_eq_spec`: the slab branch is the EN ISO 13370 formula with B' = characteristic dimension -/
theorem uSlab_eq_spec (F : Fns) (hb : F.bias = 0) (z dt bp psi : Rat) (hbp : 0 < bp) :
    (uGndSlab F z dt bp psi).v = round2 (uSlab F bp dt z psi) := by
  have hpos : bp > 0 := hbp
  simp only [uGndSlab, uSlab, Fns.r2_unbiased F hb, LAMBDA_GND, hpos, if_true]
  congr 1
  by_cases h : dt + z / 2 < bp
  · simp only [h, if_true]; congr 2; ring_nf
  · simp only [h, if_false]

/-- a slab without characteristic dimension (null area): the perimeter-insulation term is dropped, the result is finite -/
theorem uSlab_no_dimension (F : Fns) (z dt psi : Rat) (hB : 0 < dt + z / 2) :
    (uGndSlab F z dt 0 psi).nf = false ∧ (uGndSlab F z dt 0 psi).v = F.r2 (LAMBDA_GND / (dt + z / 2)) := by
  have h1 : ¬ (dt + z / 2 < 0) := by linarith
  have h0 : ¬ (dt + z / 2 = 0) := by intro h; rw [h] at hB; exact absurd hB (by decide)
  constructor
  · simp [uGndSlab, h1, h0]
  · simp [uGndSlab, h1]

/-- `uBasementWall_eq_spec`: fully buried wall (no part above ground) -/
theorem uBasementWall_eq_spec (F : Fns) (hb : F.bias = 0) (z uw dt hNet : Rat)
    (hz : ¬ rabs z < 1 / 100) (hfull : ¬ hNet > z) :
    (uGndWall F z uw dt hNet).v = round2 (uBasementWall F z (2 / uw) dt) := by
  have hh : rabs (0 : Rat) < f32Eps := by decide +kernel
  simp only [uGndWall, hz, if_false, hfull, hh, if_true, Fns.r2_unbiased F hb, uBasementWall,
    LAMBDA_GND, rmin]
  all_goals rfl

/-- partly buried wall: depth-weighted mean of the buried and the above-ground parts -/
theorem uBasementWall_partly (F : Fns) (hb : F.bias = 0) (z uw dt hNet : Rat)
    (hz : ¬ rabs z < 1 / 100) (hpart : hNet > z) (hh : ¬ rabs (hNet - z) < f32Eps) :
    (uGndWall F z uw dt hNet).v =
      round2 ((z * round2 (uBasementWall F z (2 / uw) dt) + (hNet - z) * uw) / hNet) := by
  simp only [uGndWall, hz, if_false, hpart, if_true, hh, Fns.r2_unbiased F hb, uBasementWall,
    LAMBDA_GND, rmin]
  all_goals rfl

/-- an unburied "ground" wall is reported with its air-to-air value -/
theorem uGndWall_unburied (F : Fns) (z uw dt hNet : Rat) (hz : rabs z < 1 / 100) :
    uGndWall F z uw dt hNet = { v := uw } := by
  unfold uGndWall; rw [if_pos hz]

/-! ## non-vacuity: a concrete wall on which the hypotheses hold -/

def exDb : ConsDb :=
  { wallcons := [{ id := "c", absorptance := 0.6, layers := [{ material := "m1", e := 0.1 }, { material := "m2", e := 0.05 }] }],
    materials := [{ id := "m1", properties := .detailed (1 / 2) 1000 1000 none },
                  { id := "m2", properties := .resistance 1 none }] }
def exModel : Model := { Model.dflt with cons := exDb, spaces := [{ id := "s", height := 3 }] }
def exWall : Wall :=
  { id := "w", bounds := .exterior, cons := "c", space := "s", geometry := { tilt := 90, azimuth := 0 } }

example : (exWall.uValue (Fns.approx) exModel).map (·.v) = some (73 / 100) := by decide +kernel
example : ∃ c r, exModel.cons.getWallCons exWall.cons = some c ∧ c.resistance exModel.cons = some r ∧ 0 ≤ r :=
  ⟨_, 6 / 5, rfl, by decide +kernel, by decide +kernel⟩

end Cte.C06
