/-
C12 → C10: what "adding any wall or shade never increases the factor of any window" means for the
indicator. If at every hour the sunlit fraction does not increase (which `f_antitone_occluders` gives
when obstacles are added), the window's computed F_sh,obst does not increase (`fshobst_monotone`), and
hence — the gains being monotone in the factor (`C10.gains_mono_fsh`) — neither do its July gains.
-/
import Cte.Props.C12
import Cte.Props.C10Mono
namespace Cte.C12

open Cte.C10 in
/-- more obstacles, no more gains: for a window whose factor is the computed one -/
theorem gains_antitone_occluders (F : Fns) (hb : F.bias = 0) (hs : List HourIn) (f2 : HourIn → Rat)
    (hle : ∀ x ∈ hs, f2 x ≤ x.f) (h : ∀ x ∈ hs, 0 ≤ x.dir ∧ 0 < x.dir + x.dif)
    (t : QTerm) (ht : t.fsh = fshobst F hs)
    (h0 : 0 ≤ fshobst F (hs.map (fun x => { x with f := f2 x })))
    (hg : 0 ≤ t.g) (hf : t.fF ≤ 1) (ha : 0 ≤ t.area) (hr : 0 ≤ t.rad) :
    ({ t with fsh := fshobst F (hs.map (fun x => { x with f := f2 x })) } : QTerm).gains ≤ t.gains := by
  have hm := fshobst_monotone F hb hs f2 hle h
  have hs2 : SaneTerm ({ t with fsh := fshobst F (hs.map (fun x => { x with f := f2 x })) } : QTerm) :=
    ⟨h0, hg, hf, ha, hr⟩
  have := gains_mono_fsh _ t.fsh hs2 (by rw [ht]; exact hm)
  exact this

/-- the hypothesis `0 ≤ new factor` of the theorem above is what `fshobst_in_unit` provides -/
theorem new_factor_nonneg (F : Fns) (hb : F.bias = 0) (hs : List HourIn) (hne : hs ≠ [])
    (h : ∀ x ∈ hs, 0 ≤ x.f ∧ x.f ≤ 1 ∧ 0 ≤ x.dir ∧ 0 ≤ x.dif ∧ 0 < x.dir + x.dif) :
    0 ≤ fshobst F hs := (fshobst_in_unit F hb hs hne h).2.1

/-! ## non-vacuity: the hypotheses are met by the example hours of `C12` with every fraction halved -/
example : (Fns.approx).bias = 0 := rfl
example : ∀ x ∈ exHours, x.f / 2 ≤ x.f := by decide +kernel
example : ∀ x ∈ exHours, 0 ≤ x.dir ∧ 0 < x.dir + x.dif := by decide +kernel

end Cte.C12
