/-
  C18 — HULC file parsers recover every value that is written in the file (block layer of the BDL parser).

  Statement proved: for every document — a list of written blocks (quoted name, any padding around `=`, a type
  of the table, one or more attributes with bare, quoted or multi-line parenthesised values) — and every file
  text whose physical lines (LF or CRLF ended, padded, interleaved with comment and blank lines) reduce to the
  document's lines, `build_blocks` returns exactly the written blocks: type, name, every attribute value (numbers
  typed as numbers with the written digits), and as parent the nearest preceding block of the enclosing class.
-/
import Cte.Lemmas.BdlBlock
import Cte.Lemmas.BdlParents
import Cte.Lemmas.BdlNum

namespace Cte.Props.C18
open Cte.Bdl

theorem skipped_quote (r : Str) : skipped ('"' :: r) = false := by
  have : Cte.Gen.skippedBlockPrefixes.map String.toList =
      [['S','E','T','-','D','E','F','A','U','L','T'], ['E','N','D'], ['C','O','M','P','U','T','E'], ['S','T','O','P']] := by decide
  unfold skipped
  rw [show Cte.Gen.skippedBlockPrefixes.any (fun p => startsWith p.toList ('"' :: r)) =
      (Cte.Gen.skippedBlockPrefixes.map String.toList).any (fun p => startsWith p ('"' :: r)) from by rw [List.any_map]; rfl]
  rw [this]
  simp [startsWith, List.isPrefixOf]

theorem blockText_head (b : WBlock) : ∃ r, blockText b.lines = '"' :: r := by
  unfold blockText WBlock.lines
  cases hl : b.attrs.flatMap WAttr.lines with
  | nil => exact ⟨_, rfl⟩
  | cons x t => exact ⟨_, rfl⟩

theorem parseAll_texts (doc : List WBlock) (hwf : ∀ b ∈ doc, b.WF) :
    parseAll (doc.map (fun b => blockText b.lines)) = .ok (doc.map WBlock.expected) := by
  induction doc with
  | nil => rfl
  | cons b t ih =>
    obtain ⟨r, hr⟩ := blockText_head b
    have hs : skipped (blockText b.lines) = false := by rw [hr]; exact skipped_quote r
    simp only [List.map_cons, parseAll, hs, Bool.false_eq_true, if_false, parseBlock_text b (hwf b (by simp)),
      ih (fun x hx => hwf x (by simp [hx]))]

/-- the conditions on a document: every block well formed, no `..` inside a line, and the text does not
    contain one of the two legacy preamble markers (`"DATOS GENERALES" = GENERAL-DATA`, `"Defecto" = DESCRIPTION`),
    which would make the parser wrap what precedes them into a PARTELIDER block -/
structure DocWF (doc : List WBlock) : Prop where
  blocks : ∀ b ∈ doc, b.WF
  no_dots : ∀ b ∈ doc, ∀ l ∈ b.lines, noDD l = true
  no_marker : ∀ m ∈ Cte.Gen.preambleMarkers,
    splitAtSub m.toList (joinWith ['\n'] (docLines (doc.map WBlock.lines))) = none

theorem sanitize_no_marker (input : Str)
    (h : ∀ m ∈ Cte.Gen.preambleMarkers, splitAtSub m.toList (cleanLines input) = none) :
    sanitize input = cleanLines input := by
  unfold sanitize
  have : Cte.Gen.preambleMarkers.findSome? (fun m => splitAtSub m.toList (cleanLines input)) = none := by
    apply List.findSome?_eq_none_iff.mpr
    intro m hm
    exact h m hm
  simp only [this]

/-- **parse ∘ print = id** for the block layer -/
theorem buildBlocks_print (doc : List WBlock) (phys : List PLine)
    (hbody : ∀ l ∈ phys, BodyOK l.body)
    (hlog : ((phys.map (·.body)).map trim).filter keepLine = docLines (doc.map WBlock.lines))
    (hwf : DocWF doc) :
    buildBlocks (render phys) = .ok (assignParents {} (doc.map WBlock.expected)) := by
  have hclean : cleanLines (render phys) = joinWith ['\n'] (docLines (doc.map WBlock.lines)) := by
    rw [cleanLines_render phys hbody, hlog]
  unfold buildBlocks
  rw [sanitize_no_marker _ (by rw [hclean]; exact hwf.no_marker), hclean]
  have hsplit := blockTexts_split (doc.map WBlock.lines) [] (Or.inl rfl)
    (by intro b hb; obtain ⟨w, _, rfl⟩ := List.mem_map.mp hb; simp [WBlock.lines])
    (by intro b hb; obtain ⟨w, hw, rfl⟩ := List.mem_map.mp hb; exact hwf.no_dots w hw)
    (by intro b hb; obtain ⟨w, hw, rfl⟩ := List.mem_map.mp hb; exact w.text_clean (hwf.blocks w hw))
  simp only [List.nil_append] at hsplit
  rw [hsplit, blocksFold_eq, List.map_map]
  have := parseAll_texts doc hwf.blocks
  simp only [Function.comp_def] at this ⊢
  rw [this]

/-- every written attribute value is recovered: with distinct keys, the stored attributes of block `i` are the
    written keys with their stored values, in order -/
theorem attrs_recovered (b : WBlock) (hn : (b.attrs.map (·.key)).Nodup) :
    b.expected.attrs = b.attrs.map (fun a => (a.key, a.val.stored)) := by
  simpa [WBlock.expected] using storedAttrs_nodup b.attrs [] (by simpa using hn)

/-- the parent of block `i` is the nearest preceding block of the enclosing class: the last FLOOR for a SPACE
    (`Default` when there is none), the last SPACE for a wall, the last wall for a WINDOW / CONSTRUCTION / DOOR -/
theorem parent_recovered (doc : List WBlock) (i : Nat) (h : i < doc.length) :
    ((assignParents {} (doc.map WBlock.expected))[i]'(by rw [assignParents_length]; simpa using h)) =
      { (doc[i]).expected with
          parent := parentFrom {} ((doc.take i).map WBlock.expected) (doc[i]).expected } := by
  have := assignParents_getElem {} (doc.map WBlock.expected) i (by simpa using h)
  simpa [List.map_take] using this

/-! ### the physical lines of a file reduce to the logical lines -/

/-- a padded content line is kept as its content -/
theorem logical_kept (ind content tr : Str) (rest : List Str) (hi : AllPad ind) (ht : AllPad tr)
    (hc : Clean content) (hk : keepLine content = true) :
    (((ind ++ content ++ tr) :: rest).map trim).filter keepLine = content :: (rest.map trim).filter keepLine := by
  rw [List.map_cons, trim_pad ind content tr hi.allWs ht.allWs hc, List.filter_cons, hk]
  rfl

/-- blank lines, comments (`$ …`), legacy header lines (`+ …`) disappear -/
theorem logical_noise (body : Str) (rest : List Str) (hn : keepLine (trim body) = false) :
    ((body :: rest).map trim).filter keepLine = (rest.map trim).filter keepLine := by
  simp [List.map_cons, List.filter_cons, hn]

example : keepLine (trim "   ".toList) = false := by decide
example : keepLine (trim "$ comentario = 1 ..".toList) = false := by decide
example : keepLine (trim "+-----+".toList) = false := by decide
example : keepLine (trim "\tTEMPLARY".toList) = false := by decide

/-! ### the hypotheses are satisfiable: a one-block document and a padded CRLF file for it -/

def exAttr : WAttr := { key := "Z".toList, p1 := "   ".toList, p2 := " ".toList, val := .bare "+3.5".toList }
def exBlock : WBlock := { name := "P01".toList, btype := "FLOOR".toList, p1 := " ".toList, p2 := "\t".toList, attrs := [exAttr] }
def exPhys : List PLine :=
  [⟨"$ cabecera".toList, true⟩, ⟨"  \"P01\" =\tFLOOR ".toList, true⟩, ⟨"".toList, false⟩, ⟨"\tZ   = +3.5".toList, false⟩, ⟨"  ..".toList, true⟩]

theorem exBlock_wf : exBlock.WF where
  name_clean := clean_of_cleanB (by decide)
  name_eq := by decide
  name_quotes := ⟨by decide, by decide⟩
  type_known := by decide
  type_clean := clean_of_cleanB (by decide)
  type_quotes := ⟨by decide, by decide⟩
  pad1 := allPad_of_padB (by decide)
  pad2 := allPad_of_padB (by decide)
  attrs_ne := by decide
  attrs_wf := by
    intro a ha
    simp [exBlock] at ha; subst ha
    exact ⟨⟨⟨clean_of_cleanB (by decide), by decide⟩, allPad_of_padB (by decide), allPad_of_padB (by decide),
      ⟨clean_of_cleanB (by decide), ⟨by decide, by decide⟩, by decide⟩⟩, trivial⟩
  no_eol := by decide

theorem exDoc_wf : DocWF [exBlock] where
  blocks := by intro b hb; simp at hb; subst hb; exact exBlock_wf
  no_dots := by decide
  no_marker := by decide

example : buildBlocks (render exPhys) =
    .ok [{ btype := "FLOOR".toList, name := "P01".toList, parent := none,
           attrs := [("Z".toList, Val.num (Num.fin false 35 (-1)))] }] := by
  rw [buildBlocks_print [exBlock] exPhys (by simp only [BodyOK]; decide) (by decide) exDoc_wf]
  congr 1

/-! ### a concrete document meets every hypothesis (non-vacuity) and is read back by evaluation -/

def exampleText : String :=
  "$ cabecera\r\n\"P01\" = FLOOR\r\n   Z   =   +3.5  \r\n   ..\r\n\r\n  \"P01_E01\"=SPACE\n\tPOLYGON = \"P01_E01_Pol\" \n  MATERIAL = ( \"a\",\n      \"b\" )\n ..\n \"M1\" = EXTERIOR-WALL\n LOCATION = SPACE-V1\n ..\n\"H1\" = WINDOW\n X = .5\n ..\n"

example : (buildBlocks exampleText.toList).toOption.map (fun bs => bs.map (fun b => (String.ofList b.name, b.parent.map String.ofList))) =
    some [("P01", none), ("P01_E01", some "P01"), ("M1", some "P01_E01"), ("H1", some "M1")] := by decide +kernel

example : (buildBlocks exampleText.toList).toOption.map (fun bs => bs.map (fun b => b.attrs.map (fun kv => (String.ofList kv.1, kv.2)))) =
    some [[("Z", Val.num (Num.fin false 35 (-1)))],
          [("POLYGON", Val.str "P01_E01_Pol".toList), ("MATERIAL", Val.str "( \"a\",\"b\" )".toList)],
          [("LOCATION", Val.str "SPACE-V1".toList)],
          [("X", Val.num (Num.fin false 5 (-1)))]] := by decide +kernel

end Cte.Props.C18
