/-
  C18 — HULC file parsers recover every value that is written in the file (block layer).
-/
import Cte.Model.Bdl

namespace Cte.Props.C18
open Cte.Bdl

/-- placeholder anchor so that the module has a checked statement while the layered theorems are added -/
theorem splitDots_ne_nil (s : Str) : splitDots s ≠ [] := by
  fun_induction splitDots s <;> simp_all

end Cte.Props.C18
