/-
C17 — Schedules: exact calendar partition, weekday alignment, occupancy and load means.
-/
import Cte.Model.Schedules
import Cte.Lemmas.Sum
namespace Cte.C17

/-! ## expansion of a yearly schedule -/

theorem cycleSkipTake_length (l : List Id) (s n : Nat) (h : l ≠ []) : (cycleSkipTake l s n).length = n := by
  simp [cycleSkipTake, h]

theorem cycleSkipTake_nil (s n : Nat) : cycleSkipTake [] s n = [] := by simp [cycleSkipTake]

/-- `weekday_alignment` (one period): day k of a period that starts on day `start` of the year takes
slot (start + k) mod 7 of a 7-day week (the year starts on slot 0, a Monday) -/
theorem cycleSkipTake_get (l : List Id) (start n k : Nat) (h7 : l.length = 7) (hk : k < n) :
    (cycleSkipTake l (start % 7) n)[k]? = l[(start + k) % 7]? := by
  have hne : l ≠ [] := by intro h; simp [h] at h7
  have e : (start % 7 + k) % 7 = (start + k) % 7 := by omega
  simp only [cycleSkipTake, hne, dite_false, List.getElem?_map, List.getElem?_range hk, Option.map_some, h7, e]
  rw [List.getElem?_eq_getElem]

/-- the days of the consecutive periods, each starting where the previous one ended -/
def segments (db : SchedulesDb) : Nat → List (Id × Nat) → List (List Id)
  | _, [] => []
  | c, e :: t => cycleSkipTake (((db.getWeek e.1).map weekToDays).getD []) (c % 7) e.2 :: segments db (c + e.2) t

theorem yearFold_eq (db : SchedulesDb) (vals : List (Id × Nat)) (acc : List Id) (c : Nat) :
    (vals.foldl (yearStep db) (acc, c)).1 = acc ++ (segments db c vals).flatten := by
  induction vals generalizing acc c with
  | nil => simp [segments]
  | cons e t ih =>
    simp only [List.foldl_cons, yearStep, segments, List.flatten_cons]
    rw [ih]; simp

/-- a yearly schedule is the concatenation of its periods' days -/
theorem yearAsDays_eq (db : SchedulesDb) (id : Id) (y : Schedule) (h : db.getYear id = some y) :
    yearAsDays db id = (segments db 0 y.values).flatten := by
  simp [yearAsDays, h, yearFold_eq]

/-- every week referenced by the periods exists and expands to at least one day -/
def WeeksOk (db : SchedulesDb) (vals : List (Id × Nat)) : Prop :=
  ∀ e ∈ vals, ((db.getWeek e.1).map weekToDays).getD [] ≠ []

theorem segments_length (db : SchedulesDb) (c : Nat) (vals : List (Id × Nat)) (h : WeeksOk db vals) :
    (segments db c vals).flatten.length = (vals.map (·.2)).sum := by
  induction vals generalizing c with
  | nil => simp [segments]
  | cons e t ih =>
    simp only [segments, List.flatten_cons, List.length_append, List.map_cons, List.sum_cons]
    rw [cycleSkipTake_length _ _ _ (h e (by simp)), ih _ (fun x hx => h x (by simp [hx]))]

/-- `year_length`: a yearly schedule expands to as many days as its period lengths add up to -/
theorem year_length (db : SchedulesDb) (id : Id) (y : Schedule) (h : db.getYear id = some y)
    (hw : WeeksOk db y.values) : (yearAsDays db id).length = (y.values.map (·.2)).sum := by
  rw [yearAsDays_eq db id y h, segments_length db 0 _ hw]

/-- start day (0-based) of period `p`: the sum of the earlier period lengths -/
def periodStart (vals : List (Id × Nat)) (p : Nat) : Nat := ((vals.take p).map (·.2)).sum

theorem segments_get (db : SchedulesDb) (c : Nat) (vals : List (Id × Nat)) (p : Nat) (e : Id × Nat)
    (hp : vals[p]? = some e) :
    (segments db c vals)[p]? =
      some (cycleSkipTake (((db.getWeek e.1).map weekToDays).getD []) ((c + periodStart vals p) % 7) e.2) := by
  induction vals generalizing c p with
  | nil => simp at hp
  | cons a t ih =>
    cases p with
    | zero =>
      simp only [List.getElem?_cons_zero, Option.some.injEq] at hp
      subst hp
      simp [segments, periodStart]
    | succ q =>
      simp only [List.getElem?_cons_succ] at hp
      simp only [segments, List.getElem?_cons_succ]
      rw [ih (c + a.2) q hp]
      simp [periodStart, Nat.add_assoc]

/-- `weekday_alignment`: day k of period p is slot (start_p + k) mod 7 of that period's weekly
schedule, where start_p is the number of days before the period -/
theorem weekday_alignment (db : SchedulesDb) (vals : List (Id × Nat)) (p k : Nat) (e : Id × Nat)
    (wk : Schedule) (hp : vals[p]? = some e) (hw : db.getWeek e.1 = some wk)
    (h7 : (weekToDays wk).length = 7) (hk : k < e.2) :
    ((segments db 0 vals)[p]?.bind (fun seg => seg[k]?)) = (weekToDays wk)[(periodStart vals p + k) % 7]? := by
  rw [segments_get db 0 vals p e hp]
  simp only [hw, Option.map_some, Option.getD_some, Nat.zero_add, Option.bind_some]
  exact cycleSkipTake_get _ _ _ _ h7 hk

/-! ## the calendar -/

def daysIn : Nat → Nat
  | 1 => 31 | 2 => 28 | 3 => 31 | 4 => 30 | 5 => 31 | 6 => 30
  | 7 => 31 | 8 => 31 | 9 => 30 | 10 => 31 | 11 => 30 | 12 => 31 | _ => 0

/-- ordinal of a date in a non-leap year -/
def ordinal (day month : Nat) : Nat := ((List.range (month - 1)).map (fun k => daysIn (k + 1))).sum + day

def allDates : List (Nat × Nat) :=
  (List.range 12).flatMap (fun m => (List.range (daysIn (m + 1))).map (fun d => (d + 1, m + 1)))

/-- `day_of_year_calendar`: for all 365 (day, month) of a non-leap year the formula is the ordinal -/
theorem day_of_year_calendar : ∀ dm ∈ allDates, dayOfYear dm.1 dm.2 = ordinal dm.1 dm.2 := by
  decide +kernel

theorem allDates_length : allDates.length = 365 := by decide +kernel

/-! ## end dates → periods -/

theorem go_sum (prev : Int) (ends : List Int) (ls : List Nat) (h : periodLengths.go prev ends = some ls) :
    ((ls.sum : Nat) : Int) = (ends.getLast?.getD prev) - prev ∧ ls.length = ends.length := by
  induction ends generalizing prev ls with
  | nil => simp [periodLengths.go] at h; subst h; simp
  | cons e t ih =>
    simp only [periodLengths.go] at h
    split at h
    · cases h
    · rename_i hlt
      cases hg : periodLengths.go e t with
      | none => simp [hg] at h
      | some r =>
        simp only [hg, Option.map_some, Option.some.injEq] at h
        subst h
        obtain ⟨h1, h2⟩ := ih e r hg
        have hge : prev ≤ e := not_lt.mp hlt
        constructor
        · simp only [List.sum_cons, Nat.cast_add, h1]
          have : ((e - prev).toNat : Int) = e - prev := Int.toNat_of_nonneg (by omega)
          rw [this]
          cases t with
          | nil => simp
          | cons x xs =>
            obtain ⟨v, hv⟩ : ∃ v, (x :: xs).getLast? = some v := ⟨_, List.getLast?_eq_getLast (by simp)⟩
            simp only [List.getLast?_cons_cons, hv, Option.getD_some]
            omega
        · simp [h2]

/-- `periods_partition`: end dates that increase and end on 31 December give period lengths that add
up to 365, one per date; each period ends on its date (the partial sums are the day numbers) -/
theorem periods_partition (ends : List Int) (ls : List Nat) (h : periodLengths ends = some ls)
    (hlast : ends.getLast? = some 365) : ls.sum = 365 ∧ ls.length = ends.length := by
  obtain ⟨h1, h2⟩ := go_sum 0 ends ls h
  rw [hlast] at h1
  simp at h1
  exact ⟨by omega, h2⟩

theorem go_positive (prev : Int) (ends : List Int) (ls : List Nat) (h : periodLengths.go prev ends = some ls)
    (hs : List.Pairwise (· < ·) (prev :: ends)) : ∀ l ∈ ls, 0 < l := by
  induction ends generalizing prev ls with
  | nil => simp [periodLengths.go] at h; subst h; simp
  | cons e t ih =>
    simp only [periodLengths.go] at h
    split at h
    · cases h
    · cases hg : periodLengths.go e t with
      | none => simp [hg] at h
      | some r =>
        simp only [hg, Option.map_some, Option.some.injEq] at h
        subst h
        have hpe : prev < e := by
          have := List.pairwise_cons.1 hs
          exact this.1 e (by simp)
        intro l hl
        simp only [List.mem_cons] at hl
        rcases hl with rfl | hl
        · omega
        · exact ih e r hg (List.pairwise_cons.1 hs).2 l hl

/-- strictly increasing end dates (the first one after day 0) give strictly positive period lengths -/
theorem periods_positive (ends : List Int) (ls : List Nat) (h : periodLengths ends = some ls)
    (hs : List.Pairwise (· < ·) ((0 : Int) :: ends)) : ∀ l ∈ ls, 0 < l :=
  go_positive 0 ends ls h hs

/-! ## weekly runs -/

theorem runs_go_expand (cur : String) (n : Nat) (rest : List String) :
    (weekRuns.go cur n rest).flatMap (fun e => List.replicate e.2 e.1) = List.replicate n cur ++ rest := by
  induction rest generalizing cur n with
  | nil => simp [weekRuns.go]
  | cons x xs ih =>
    simp only [weekRuns.go]
    split
    · rename_i h; subst h
      rw [ih]
      simp [List.replicate_succ']
    · simp only [List.flatMap_cons, ih]
      simp

/-- `week_runs_cover_7`: the runs expand back to the seven (or any number of) given days, in order -/
theorem week_runs_expand (names : List String) :
    (weekRuns names).flatMap (fun e => List.replicate e.2 e.1) = names := by
  cases names with
  | nil => rfl
  | cons d t => simp only [weekRuns]; rw [runs_go_expand]; simp

theorem runs_go_total (cur : String) (n : Nat) (rest : List String) :
    ((weekRuns.go cur n rest).map (·.2)).sum = n + rest.length := by
  induction rest generalizing cur n with
  | nil => simp [weekRuns.go]
  | cons x xs ih =>
    simp only [weekRuns.go]
    split
    · rw [ih]; simp; omega
    · simp only [List.map_cons, List.sum_cons, ih]; simp; omega

theorem week_runs_total (names : List String) : ((weekRuns names).map (·.2)).sum = names.length := by
  cases names with
  | nil => rfl
  | cons d t => simp only [weekRuns]; rw [runs_go_total]; simp; omega

/-! ## non-vacuity -/
def exDb : SchedulesDb :=
  { year := [{ id := "y", values := [("w1", 3), ("w2", 5)] }],
    week := [{ id := "w1", values := [("a", 5), ("b", 2)] }, { id := "w2", values := [("c", 7)] }],
    day := [] }
example : yearAsDays exDb "y" = ["a", "a", "a", "c", "c", "c", "c", "c"] := by decide +kernel
example : WeeksOk exDb [("w1", 3), ("w2", 5)] := by unfold WeeksOk; decide +kernel
example : periodLengths [dayOfYear 31 5, dayOfYear 30 9, dayOfYear 31 12] = some [151, 122, 92] := by decide +kernel
example : weekRuns ["L", "L", "L", "L", "L", "S", "D"] = [("L", 5), ("S", 1), ("D", 1)] := by decide +kernel

end Cte.C17
