/-
C01 / `--use-extra`: what the library conversion adds from HULC's result files (`fix_ecdata_from_extra`).
-/
import Cte.Model.Extra
import Mathlib.Tactic.Linarith
namespace Cte.C01X
open Cte.Extra

theorem rabs_zero : rabs 0 = 0 := by unfold rabs; simp

theorem not_significant_self (u : Rat) : significantU u u = false := by
  unfold significantU
  rw [sub_self, rabs_zero]
  decide +kernel

theorem mapM_some {α β} (l : List α) (f : α → β) : l.mapM (fun a => some (f a)) = some (l.map f) := by
  induction l with
  | nil => rfl
  | cons a t ih => simp [List.mapM_cons, ih]

/-- without result files nothing is overridden -/
theorem no_files_no_overrides (ws : List WallIn) (wins : List WinIn) :
    wallOverrides ⟨none, none⟩ ws = [] ∧ winOverrides ⟨none, none⟩ wins = [] := ⟨rfl, rfl⟩

/-- without result files every wall has U = 0 in the list, so `extra` holds exactly the walls with a computed U ≠ 0 (to the millimetre…) -/
theorem no_files_extra (ws : List WallIn) :
    extraNames ⟨none, none⟩ ws = some ((ws.filter (fun w => significantU 0 w.computedU)).map (·.name)) := by
  unfold extraNames uFinal uAfterKyg
  simp only
  simp only [Option.map_some, mapM_some]
  simp [List.filter_map, List.map_map, Function.comp_def]

/-- every wall override carries a value that is in a file for that wall and that differs significantly from the computed U -/
theorem wall_override_sound (f : Files) (ws : List WallIn) (id : String) (u : Rat) (h : (id, u) ∈ wallOverrides f ws) :
    ∃ w ∈ ws, w.id = id ∧ significantU u w.computedU = true ∧
      ((∃ kw kx, f.kyg = some (kw, kx) ∧ lookup w.name kw = some u) ∨ (∃ els, f.tbl = some els ∧ w.interior = true ∧ lookup w.name els = some u)) := by
  unfold wallOverrides at h
  rcases List.mem_append.mp h with h | h
  · cases hk : f.kyg with
    | none => simp [hk] at h
    | some p =>
      obtain ⟨kw, kx⟩ := p
      simp only [hk, List.mem_filterMap] at h
      obtain ⟨w, hw, hv⟩ := h
      cases hl : lookup w.name kw with
      | none => simp [hl] at hv
      | some u' =>
        simp only [hl] at hv
        split at hv
        · rename_i hs
          simp only [Option.some.injEq, Prod.mk.injEq] at hv
          obtain ⟨rfl, rfl⟩ := hv
          exact ⟨w, hw, rfl, hs, Or.inl ⟨kw, kx, rfl, hl⟩⟩
        · cases hv
  · cases ht : f.tbl with
    | none => simp [ht] at h
    | some els =>
      simp only [ht, List.mem_filterMap] at h
      obtain ⟨w, hw, hv⟩ := h
      split at hv
      · rename_i hi
        cases hl : lookup w.name els with
        | none => simp [hl] at hv
        | some u' =>
          simp only [hl] at hv
          split at hv
          · rename_i hs
            simp only [Option.some.injEq, Prod.mk.injEq] at hv
            obtain ⟨rfl, rfl⟩ := hv
            exact ⟨w, hw, rfl, hs, Or.inr ⟨els, rfl, hi, hl⟩⟩
          · cases hv
      · cases hv

/-- result files that agree with every computed U leave nothing to override and an empty `extra` list
(the situation of C01's "agreeing result files" runs) -/
theorem agreeing_files (kw kx : List (String × Rat)) (els : List (String × Rat)) (ws : List WallIn)
    (hk : ∀ w ∈ ws, w.interior = false → lookup w.name kw = some w.computedU)
    (hk2 : ∀ w ∈ ws, ∀ u, lookup w.name kw = some u → u = w.computedU)
    (ht : ∀ w ∈ ws, w.interior = true → lookup w.name els = some w.computedU) :
    wallOverrides ⟨some (kw, kx), some els⟩ ws = [] ∧ extraNames ⟨some (kw, kx), some els⟩ ws = some [] := by
  constructor
  · unfold wallOverrides
    simp only [List.append_eq_nil_iff, List.filterMap_eq_nil_iff]
    constructor
    · intro w hw
      cases hl : lookup w.name kw with
      | none => rfl
      | some u => rw [hk2 w hw u hl]; simp [not_significant_self]
    · intro w hw
      cases hi : w.interior with
      | false => rfl
      | true => simp [ht w hw hi, not_significant_self]
  · unfold extraNames
    have hu : ∀ w ∈ ws, uFinal ⟨some (kw, kx), some els⟩ w = some w.computedU := by
      intro w hw
      unfold uFinal uAfterKyg
      cases hi : w.interior with
      | true => simp [ht w hw hi]
      | false => simp [hk w hw hi]
    have hm : ws.mapM (fun w => (uFinal ⟨some (kw, kx), some els⟩ w).map (fun u => (w, u))) = some (ws.map (fun w => (w, w.computedU))) := by
      clear hk hk2 ht
      induction ws with
      | nil => rfl
      | cons a t ih =>
        simp only [List.mapM_cons, hu a (by simp), Option.map_some, List.map_cons]
        rw [ih (fun w hw => hu w (by simp [hw]))]
        rfl
    rw [hm]
    simp only [Option.map_some, Option.some.injEq, List.map_eq_nil_iff, List.filter_eq_nil_iff, List.mem_map]
    rintro ⟨w, u⟩ ⟨w', _, he⟩
    simp only [Prod.mk.injEq] at he
    obtain ⟨rfl, rfl⟩ := he
    simp [not_significant_self]

/-- and conversely: every wall the KyG file lists with a U that differs significantly from the computed one gets that value as its override;
likewise every partition the .tbl lists -/
theorem wall_override_complete (f : Files) (ws : List WallIn) (w : WallIn) (hw : w ∈ ws) (u : Rat)
    (hs : significantU u w.computedU = true)
    (h : (∃ kw kx, f.kyg = some (kw, kx) ∧ lookup w.name kw = some u) ∨ (∃ els, f.tbl = some els ∧ w.interior = true ∧ lookup w.name els = some u)) :
    (w.id, u) ∈ wallOverrides f ws := by
  unfold wallOverrides
  rcases h with ⟨kw, kx, hk, hl⟩ | ⟨els, ht, hi, hl⟩
  · apply List.mem_append_left
    simp only [hk, List.mem_filterMap]
    exact ⟨w, hw, by simp [hl, hs]⟩
  · apply List.mem_append_right
    simp only [ht, List.mem_filterMap]
    exact ⟨w, hw, by simp [hi, hl, hs]⟩

theorem mapM_some_mem {α β} (l : List α) (f : α → Option β) (out : List β) (h : l.mapM f = some out) :
    ∀ b, b ∈ out ↔ ∃ a ∈ l, f a = some b := by
  induction l generalizing out with
  | nil => simp at h; subst h; simp
  | cons a t ih =>
    simp only [List.mapM_cons] at h
    cases ha : f a with
    | none => simp [ha] at h
    | some b0 =>
      cases ht : t.mapM f with
      | none => simp [ha, ht] at h
      | some bs =>
        simp [ha, ht] at h
        subst h
        intro b
        simp only [List.mem_cons]
        constructor
        · rintro (rfl | hb)
          · exact ⟨a, Or.inl rfl, ha⟩
          · obtain ⟨a', ha', hf⟩ := (ih bs ht b).mp hb
            exact ⟨a', Or.inr ha', hf⟩
        · rintro ⟨a', (rfl | ha'), hf⟩
          · left; rw [ha] at hf; exact (Option.some.inj hf).symm
          · right; exact (ih bs ht b).mpr ⟨a', ha', hf⟩

/-- **the `extra` list is exactly the walls whose U in the files differs from the computed one** (by more than 0.001), where the U in
the files is the .tbl value for partitions when a .tbl is given, else the KyG value, else 0 -/
theorem extra_exact (f : Files) (ws : List WallIn) (l : List String) (h : extraNames f ws = some l) (n : String) :
    n ∈ l ↔ ∃ w ∈ ws, w.name = n ∧ ∃ u, uFinal f w = some u ∧ significantU u w.computedU = true := by
  unfold extraNames at h
  cases hm : ws.mapM (fun w => (uFinal f w).map (fun u => (w, u))) with
  | none => simp [hm] at h
  | some ps =>
    simp only [hm, Option.map_some, Option.some.injEq] at h
    subst h
    have key := mapM_some_mem ws (fun w => (uFinal f w).map (fun u => (w, u))) ps hm
    simp only [List.mem_map, List.mem_filter]
    constructor
    · rintro ⟨p, ⟨hp, hs⟩, rfl⟩
      obtain ⟨w, hw, hf⟩ := (key p).mp hp
      cases hu : uFinal f w with
      | none => simp [hu] at hf
      | some u =>
        simp only [hu, Option.map_some, Option.some.injEq] at hf
        subst hf
        exact ⟨w, hw, rfl, u, hu, hs⟩
    · rintro ⟨w, hw, rfl, u, hu, hs⟩
      exact ⟨(w, u), ⟨(key (w, u)).mpr ⟨w, hw, by simp [hu]⟩, hs⟩, rfl⟩

/-- a partition that the .tbl does not list makes the conversion fail (with an error, not a crash: F-C19l) -/
theorem tbl_missing_partition_rejected (f : Files) (els : List (String × Rat)) (ws : List WallIn) (w : WallIn)
    (ht : f.tbl = some els) (hw : w ∈ ws) (hi : w.interior = true) (hl : lookup w.name els = none) :
    extraNames f ws = none := by
  unfold extraNames
  have : uFinal f w = none := by simp [uFinal, ht, hi, hl]
  have hm : ws.mapM (fun w => (uFinal f w).map (fun u => (w, u))) = none := by
    induction ws with
    | nil => cases hw
    | cons a t ih =>
      rcases List.mem_cons.mp hw with rfl | hw'
      · simp [List.mapM_cons, this]
      · cases ha : (uFinal f a).map (fun u => (a, u)) with
        | none => simp [List.mapM_cons, ha]
        | some p => simp [List.mapM_cons, ha, ih hw']
  rw [hm]; rfl

example : extraNames ⟨some ([("m1", 1 / 2), ("m2", 3 / 10)], []), none⟩
    [⟨"m1", "a", false, 1 / 2⟩, ⟨"m2", "b", false, 35 / 100⟩, ⟨"m3", "c", true, 0⟩] = some ["m2"] := by decide +kernel

end Cte.C01X
