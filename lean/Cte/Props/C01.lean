/-
C01 — Export tool writes exactly the model JSON to standard output.
-/
import Cte.Model.Cli
import Cte.Gen.StdoutSites
namespace Cte.C01
open Cte.Cli

theorem stdoutOf_append (a b : List Write) : stdoutOf (a ++ b) = stdoutOf a ++ stdoutOf b := by
  simp [stdoutOf, List.filter_append]

theorem stdoutOf_err (l : List Write) (h : ∀ w ∈ l, w.fd = .err) : stdoutOf l = [] := by
  unfold stdoutOf
  have : l.filter (fun w => w.fd = .out) = [] := by
    apply List.filter_eq_nil_iff.2
    intro w hw; simp [h w hw]
  rw [this]; rfl

/-- `cli_stdout_exact`: for all arguments naming a directory, if the library writes nothing to stdout
and returns the model JSON, then stdout is exactly that JSON followed by a newline and the status is 0 -/
theorem cli_stdout_exact (prog : String) (opts : List String) (dir : String) (lib : String → Bool → LibRun)
    (json : String)
    (hsilent : stdoutOf (lib dir (opts.any (· == "--use-extra"))).writes = [])
    (hok : (lib dir (opts.any (· == "--use-extra"))).result = .ok json) :
    let r := cliMain (prog :: (opts ++ [dir])) lib
    stdoutOf r.writes = [json ++ "\n"] ∧ r.status = 0 := by
  have hne : opts ++ [dir] ≠ [] := by simp
  cases hrest : opts ++ [dir] with
  | nil => exact absurd hrest hne
  | cons a t =>
    have hlast : (a :: t).getLast! = dir := by rw [← hrest]; simp
    have hdrop : (a :: t).dropLast = opts := by rw [← hrest]; simp
    simp only [cliMain, hlast, hdrop, hok]
    refine ⟨?_, trivial⟩
    rw [stdoutOf_append, stdoutOf_append, hsilent]
    have h1 : stdoutOf ([(⟨.err, "banner"⟩ : Write)] ++ (opts.filter (· == "--use-extra")).map (fun _ => (⟨.err, "se usará…"⟩ : Write)) ++
        [⟨.err, "Localizando archivos de datos en '" ++ dir ++ "'"⟩] ++
        (if opts.any (· == "--use-extra") = true then [(⟨.err, "- Se usarán los datos…"⟩ : Write)] else [])) = [] := by
      apply stdoutOf_err
      intro w hw
      simp only [List.mem_append, List.mem_cons, List.mem_map, List.not_mem_nil, or_false] at hw
      rcases hw with ((rfl | ⟨_, _, rfl⟩) | rfl) | hw
      · rfl
      · rfl
      · rfl
      · split at hw
        · simp at hw; rw [hw]
        · simp at hw
    rw [h1]
    simp [stdoutOf]

/-- `cli_error_silent`: if the library fails (in particular: no project in the directory) and writes
nothing to stdout, stdout stays empty and the status is non-zero -/
theorem cli_error_silent (prog : String) (opts : List String) (dir : String) (lib : String → Bool → LibRun)
    (e : String)
    (hsilent : stdoutOf (lib dir (opts.any (· == "--use-extra"))).writes = [])
    (herr : (lib dir (opts.any (· == "--use-extra"))).result = .error e) :
    let r := cliMain (prog :: (opts ++ [dir])) lib
    stdoutOf r.writes = [] ∧ r.status ≠ 0 := by
  have hne : opts ++ [dir] ≠ [] := by simp
  cases hrest : opts ++ [dir] with
  | nil => exact absurd hrest hne
  | cons a t =>
    have hlast : (a :: t).getLast! = dir := by rw [← hrest]; simp
    have hdrop : (a :: t).dropLast = opts := by rw [← hrest]; simp
    simp only [cliMain, hlast, hdrop, herr]
    refine ⟨?_, by decide⟩
    rw [stdoutOf_append, stdoutOf_append, hsilent]
    have h1 : stdoutOf ([(⟨.err, "banner"⟩ : Write)] ++ (opts.filter (· == "--use-extra")).map (fun _ => (⟨.err, "se usará…"⟩ : Write)) ++
        [⟨.err, "Localizando archivos de datos en '" ++ dir ++ "'"⟩] ++
        (if opts.any (· == "--use-extra") = true then [(⟨.err, "- Se usarán los datos…"⟩ : Write)] else [])) = [] := by
      apply stdoutOf_err
      intro w hw
      simp only [List.mem_append, List.mem_cons, List.mem_map, List.not_mem_nil, or_false] at hw
      rcases hw with ((rfl | ⟨_, _, rfl⟩) | rfl) | hw
      · rfl
      · rfl
      · rfl
      · split at hw
        · simp at hw; rw [hw]
        · simp at hw
    rw [h1]
    simp [stdoutOf]

/-- without a directory argument: help on stderr, status 1, nothing on stdout -/
theorem cli_no_args (prog : String) (lib : String → Bool → LibRun) :
    stdoutOf (cliMain [prog] lib).writes = [] ∧ (cliMain [prog] lib).status = 1 := by
  simp [cliMain, stdoutOf]

/-- the option is passed to the library exactly when `--use-extra` is among the options -/
theorem cli_passes_option (prog : String) (opts : List String) (dir : String) (lib : String → Bool → LibRun) :
    ∃ pre post, (cliMain (prog :: (opts ++ [dir])) lib).writes =
      pre ++ (lib dir (opts.any (· == "--use-extra"))).writes ++ post := by
  have hne : opts ++ [dir] ≠ [] := by simp
  cases hrest : opts ++ [dir] with
  | nil => exact absurd hrest hne
  | cons a t =>
    have hlast : (a :: t).getLast! = dir := by rw [← hrest]; simp
    have hdrop : (a :: t).dropLast = opts := by rw [← hrest]; simp
    simp only [cliMain, hlast, hdrop]
    cases (lib dir (opts.any (· == "--use-extra"))).result with
    | error e => exact ⟨_, _, rfl⟩
    | ok j => exact ⟨_, _, rfl⟩

/-! ## the library is silent: inventory of stdout-writing sites, regenerated from the source -/

/-- sites in library code that can run under the export tool and are not the tool's own output -/
def offendingSites : List Gen.StdoutSite := Gen.stdoutSites.filter (fun s => !s.allowed)

/-- `repo_lib_silent`: no reachable library code writes to standard output -/
theorem repo_lib_silent : offendingSites = [] := by decide +kernel

/-- the tool's own output is a single site -/
theorem single_output_site : (Gen.stdoutSites.filter (fun s => s.crate == "hulc2model" && s.allowed)).length = 1 := by
  decide +kernel

end Cte.C01
