/-
C01 — Export tool writes exactly the model JSON to standard output.
-/
import Cte.Model.Cli
import Cte.Gen.StdoutSites
namespace Cte.C01
open Cte.Cli

theorem stdoutOf_append (a b : List Write) : stdoutOf (a ++ b) = stdoutOf a ++ stdoutOf b := by
  simp [stdoutOf, List.filter_append]

theorem stdoutOf_err (l : List Write) (h : ∀ w ∈ l, w.fd = .err) : stdoutOf l = [] := by
  unfold stdoutOf
  have : l.filter (fun w => w.fd = .out) = [] := by
    apply List.filter_eq_nil_iff.2
    intro w hw; simp [h w hw]
  rw [this]; rfl

/-- `cli_stdout_exact`: for all arguments naming a directory, if the library writes nothing to stdout
and returns the model JSON, then stdout is exactly that JSON followed by a newline and the status is 0 -/
theorem cli_stdout_exact (prog : String) (opts : List String) (dir : String) (lib : String → Bool → LibRun)
    (json : String)
    (hsilent : stdoutOf (lib dir (opts.any (· == "--use-extra"))).writes = [])
    (hok : (lib dir (opts.any (· == "--use-extra"))).result = .ok json) :
    let r := cliMain (prog :: (opts ++ [dir])) lib
    stdoutOf r.writes = [json ++ "\n"] ∧ r.status = 0 := by
  have hne : opts ++ [dir] ≠ [] := by simp
  cases hrest : opts ++ [dir] with
  | nil => exact absurd hrest hne
  | cons a t =>
    have hlast : (a :: t).getLast! = dir := by rw [← hrest]; simp
    have hdrop : (a :: t).dropLast = opts := by rw [← hrest]; simp
    simp only [cliMain, hlast, hdrop, hok]
    refine ⟨?_, trivial⟩
    rw [stdoutOf_append, stdoutOf_append, hsilent]
    have h1 : stdoutOf ([(⟨.err, "banner"⟩ : Write)] ++ (opts.filter (· == "--use-extra")).map (fun _ => (⟨.err, "se usará…"⟩ : Write)) ++
        [⟨.err, "Localizando archivos de datos en '" ++ dir ++ "'"⟩] ++
        (if opts.any (· == "--use-extra") = true then [(⟨.err, "- Se usarán los datos…"⟩ : Write)] else [])) = [] := by
      apply stdoutOf_err
      intro w hw
      simp only [List.mem_append, List.mem_cons, List.mem_map, List.not_mem_nil, or_false] at hw
      rcases hw with ((rfl | ⟨_, _, rfl⟩) | rfl) | hw
      · rfl
      · rfl
      · rfl
      · split at hw
        · simp at hw; rw [hw]
        · simp at hw
    rw [h1]
    simp [stdoutOf]

/-- `cli_error_silent`: if the library fails (in particular: no project in the directory) and writes
nothing to stdout, stdout stays empty and the status is non-zero -/
theorem cli_error_silent (prog : String) (opts : List String) (dir : String) (lib : String → Bool → LibRun)
    (e : String)
    (hsilent : stdoutOf (lib dir (opts.any (· == "--use-extra"))).writes = [])
    (herr : (lib dir (opts.any (· == "--use-extra"))).result = .error e) :
    let r := cliMain (prog :: (opts ++ [dir])) lib
    stdoutOf r.writes = [] ∧ r.status ≠ 0 := by
  have hne : opts ++ [dir] ≠ [] := by simp
  cases hrest : opts ++ [dir] with
  | nil => exact absurd hrest hne
  | cons a t =>
    have hlast : (a :: t).getLast! = dir := by rw [← hrest]; simp
    have hdrop : (a :: t).dropLast = opts := by rw [← hrest]; simp
    simp only [cliMain, hlast, hdrop, herr]
    refine ⟨?_, by decide⟩
    rw [stdoutOf_append, stdoutOf_append, hsilent]
    have h1 : stdoutOf ([(⟨.err, "banner"⟩ : Write)] ++ (opts.filter (· == "--use-extra")).map (fun _ => (⟨.err, "se usará…"⟩ : Write)) ++
        [⟨.err, "Localizando archivos de datos en '" ++ dir ++ "'"⟩] ++
        (if opts.any (· == "--use-extra") = true then [(⟨.err, "- Se usarán los datos…"⟩ : Write)] else [])) = [] := by
      apply stdoutOf_err
      intro w hw
      simp only [List.mem_append, List.mem_cons, List.mem_map, List.not_mem_nil, or_false] at hw
      rcases hw with ((rfl | ⟨_, _, rfl⟩) | rfl) | hw
      · rfl
      · rfl
      · rfl
      · split at hw
        · simp at hw; rw [hw]
        · simp at hw
    rw [h1]
    simp [stdoutOf]

/-- without a directory argument: help on stderr, status 1, nothing on stdout -/
theorem cli_no_args (prog : String) (lib : String → Bool → LibRun) :
    stdoutOf (cliMain [prog] lib).writes = [] ∧ (cliMain [prog] lib).status = 1 := by
  simp [cliMain, stdoutOf]

/-- the option is passed to the library exactly when `--use-extra` is among the options -/
theorem cli_passes_option (prog : String) (opts : List String) (dir : String) (lib : String → Bool → LibRun) :
    ∃ pre post, (cliMain (prog :: (opts ++ [dir])) lib).writes =
      pre ++ (lib dir (opts.any (· == "--use-extra"))).writes ++ post := by
  have hne : opts ++ [dir] ≠ [] := by simp
  cases hrest : opts ++ [dir] with
  | nil => exact absurd hrest hne
  | cons a t =>
    have hlast : (a :: t).getLast! = dir := by rw [← hrest]; simp
    have hdrop : (a :: t).dropLast = opts := by rw [← hrest]; simp
    simp only [cliMain, hlast, hdrop]
    cases (lib dir (opts.any (· == "--use-extra"))).result with
    | error e => exact ⟨_, _, rfl⟩
    | ok j => exact ⟨_, _, rfl⟩

/-! ## the library is silent: inventory of stdout-writing sites, regenerated from the source -/

/-- sites in library code that can run under the export tool and are not the tool's own output -/
def offendingSites : List Gen.StdoutSite := Gen.stdoutSites.filter (fun s => !s.allowed)

/-- `repo_lib_silent`: no reachable library code writes to standard output -/
theorem repo_lib_silent : offendingSites = [] := by decide +kernel

/-- the tool's own output is a single site -/
theorem single_output_site : (Gen.stdoutSites.filter (fun s => s.crate == "hulc2model" && s.allowed)).length = 1 := by
  decide +kernel

/-! ## the companion tool writes the same model JSON to the file named with `-o` -/

theorem read_write_same (fs : Fs) (p c : String) : (fs.write p c).read p = some c := by
  simp [Fs.write, Fs.read]

theorem find?_filter_keep {α} (l : List α) (p q : α → Bool)
    (h : ∀ x ∈ l, p x = true → q x = true) : (l.filter q).find? p = l.find? p := by
  induction l with
  | nil => rfl
  | cons a t ih =>
    have iht := ih (fun x hx => h x (List.mem_cons_of_mem _ hx))
    cases hq : q a with
    | true =>
      simp only [List.filter_cons, hq, if_true, List.find?_cons]
      cases p a <;> simp [iht]
    | false =>
      have hp : p a = false := by
        cases hpa : p a with
        | false => rfl
        | true => have := h a (by simp) hpa; rw [hq] at this; cases this
      simp [hq, hp, iht]

theorem read_write_other (fs : Fs) (p q c : String) (h : q ≠ p) : (fs.write p c).read q = fs.read q := by
  unfold Fs.write Fs.read
  have hp : ¬ p = q := fun e => h e.symm
  simp only [List.find?_cons, hp, decide_false]
  congr 1
  apply find?_filter_keep
  intro e _ he
  have : e.1 = q := by simpa using he
  simp [this, h]

/-- `thor_output_file`: whenever the library converts the file, `thor FILE -o P` (any verbosity, with or
without `-r R` for another path R) leaves in P exactly the model JSON of the library conversion —
whatever P held before — and exits with status 0 -/
theorem thor_output_file (a : ThorArgs) (lib : String → Except String (String × String))
    (canCreate : String → Bool) (fs : Fs) (p mj ij : String)
    (hl : a.license = false) (hlib : lib a.input = .ok (mj, ij)) (ho : a.out = some p)
    (hc : canCreate p = true) (hr : ∀ r, a.res = some r → r ≠ p ∧ canCreate r = true) :
    let run := thorMain a lib canCreate fs
    run.fs.read p = some mj ∧ run.status = 0 := by
  cases hres : a.res with
  | none =>
    simp [thorMain, hl, hlib, ho, hres, thorWriteFile, hc, read_write_same]
  | some r =>
    obtain ⟨hne, hcr⟩ := hr r hres
    simp [thorMain, hl, hlib, ho, hres, thorWriteFile, hc, hcr,
      read_write_other _ r p ij (Ne.symm hne), read_write_same]

/-- the file written with `-o` does not depend on the verbosity -/
theorem thor_file_independent_of_verbosity (a : ThorArgs) (lib : String → Except String (String × String))
    (canCreate : String → Bool) (fs : Fs) (v : Nat) :
    (thorMain { a with v := v } lib canCreate fs).fs = (thorMain a lib canCreate fs).fs ∧
    (thorMain { a with v := v } lib canCreate fs).status = (thorMain a lib canCreate fs).status := by
  unfold thorMain
  cases a.license <;> simp only [Bool.false_eq_true, if_false, if_true, and_self]
  cases lib a.input with
  | error e => simp
  | ok r =>
    obtain ⟨mj, ij⟩ := r
    cases a.out <;> cases a.res <;> simp only [thorWriteFile] <;>
      (repeat' split) <;> simp_all

/-- a file the library cannot convert: nothing is written anywhere, nothing on stdout, status ≠ 0 -/
theorem thor_error_writes_nothing (a : ThorArgs) (lib : String → Except String (String × String))
    (canCreate : String → Bool) (fs : Fs) (e : String) (hl : a.license = false)
    (hlib : lib a.input = .error e) :
    let run := thorMain a lib canCreate fs
    run.fs = fs ∧ stdoutOf run.writes = [] ∧ run.status ≠ 0 := by
  simp [thorMain, hl, hlib, stdoutOf]

example : (thorMain { input := "a.ctehexml", out := some "m.json", v := 2 } (fun _ => .ok ("MODEL", "IND"))
    (fun _ => true) [("m.json", "old and much longer content")]).fs.read "m.json" = some "MODEL" := by decide

end Cte.C01
