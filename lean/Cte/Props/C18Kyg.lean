/-
  C18 — KyGananciasSolares.txt, whole file: a file printed from a list of rows (comment and blank lines, `Muro`, `Ventana`
  and `PPTT` rows whose fields may carry blank padding, as HULC writes `S ` for an orientation; CRLF line ends) is read back
  row by row, in order.
-/
import Cte.Props.C18Tbl

namespace Cte.Props.C18Kyg
open Cte.Bdl Cte.Aux Cte.Props.C18Aux Cte.Props.C18Tbl

/-- a field as written: blanks, the value, blanks -/
structure Fld where
  padL : Str := []
  core : Str
  padR : Str := []

def Fld.text (f : Fld) : Str := f.padL ++ f.core ++ f.padR

structure Fld.WF (f : Fld) : Prop where
  padL : AllWs f.padL
  padR : AllWs f.padR
  core : Clean f.core ∨ f.core = []
  nosemi : ';' ∉ f.text

theorem allWs_append (a b : Str) (ha : AllWs a) (hb : AllWs b) : AllWs (a ++ b) := by
  intro c hc
  rcases List.mem_append.mp hc with h | h
  · exact ha c h
  · exact hb c h

theorem Fld.trim_text (f : Fld) (h : f.WF) : trim f.text = f.core := by
  rcases h.core with hc | hc
  · exact trim_pad _ _ _ h.padL h.padR hc
  · unfold Fld.text
    rw [hc, List.append_nil]
    exact trim_allWs _ (allWs_append _ _ h.padL h.padR)

/-- the fields of a `;`-separated line, each trimmed, are the written values -/
theorem fields_of_line (fs : List Fld) (hne : fs ≠ []) (hw : ∀ f ∈ fs, f.WF) :
    (splitChar ';' (joinWith [';'] (fs.map Fld.text))).map trim = fs.map (·.core) := by
  rw [splitChar_fields ';' (fs.map Fld.text) (by simpa using hne)
    (by intro t ht; obtain ⟨f, hf, rfl⟩ := List.mem_map.mp ht; exact (hw f hf).nosemi)]
  rw [List.map_map]
  apply List.map_congr_left
  intro f hf
  exact Fld.trim_text f (hw f hf)

def word (s : String) : Fld := { core := s.toList }

/-- the rows of the file -/
inductive KRow where
  /-- `#…` -/
  | comment (text : Str)
  /-- a line of blanks -/
  | blank (ws : Str)
  /-- `Muro;name;area;U;b[;…]` with at most 7 fields -/
  | muro (name a u b : Fld) (more : List Fld) (an un bn : Num)
  /-- `Ventana;name;area;U;orientation;frame %[;…]` with at most 10 fields -/
  | ventana (name a u o ff : Fld) (more : List Fld) (an un fn : Num)
  /-- `PPTT;length;psi;name[;system…]` -/
  | pptt (l psi name : Fld) (more : List Fld) (ln pn : Num)

def KRow.fields : KRow → List Fld
  | .comment _ | .blank _ => []
  | .muro name a u b more _ _ _ => word "Muro" :: name :: a :: u :: b :: more
  | .ventana name a u o ff more _ _ _ => word "Ventana" :: name :: a :: u :: o :: ff :: more
  | .pptt l psi name more _ _ => word "PPTT" :: l :: psi :: name :: more

def KRow.line : KRow → Str
  | .comment text => '#' :: text
  | .blank ws => ws
  | r => joinWith [';'] (r.fields.map Fld.text)

/-- the last field ends the line without blanks, so that trimming the line changes nothing -/
def lastTight (fs : List Fld) : Prop := ∃ f, fs.getLast? = some f ∧ f.padR = [] ∧ Clean f.core

def KRow.WF : KRow → Prop
  | .comment text => '\n' ∉ text ∧ (text = [] ∨ ∃ c, text.getLast? = some c ∧ isWs c = false)
  | .blank ws => AllWs ws ∧ '\n' ∉ ws
  | r@(.muro _ a u b more an un bn) =>
    (∀ f ∈ r.fields, f.WF ∧ '\n' ∉ f.text) ∧ lastTight r.fields ∧ more.length ≤ 2 ∧
    commaNum a.core = some an ∧ commaNum u.core = some un ∧ commaNum b.core = some bn
  | r@(.ventana _ a u _ ff more an un fn) =>
    (∀ f ∈ r.fields, f.WF ∧ '\n' ∉ f.text) ∧ lastTight r.fields ∧ more.length ≤ 4 ∧
    commaNum a.core = some an ∧ commaNum u.core = some un ∧ commaNum ff.core = some fn
  | r@(.pptt l psi _ _ ln pn) =>
    (∀ f ∈ r.fields, f.WF ∧ '\n' ∉ f.text) ∧ lastTight r.fields ∧
    commaNum l.core = some ln ∧ commaNum psi.core = some pn

/-- what the row adds to the parsed data -/
def KRow.apply (st : Kyg) : KRow → Kyg
  | .comment _ | .blank _ => st
  | .muro name _ _ _ _ an un bn => { st with walls := st.walls ++ [{ name := name.core, a := an, u := un, btrx := bn, extra := none }] }
  | .ventana name _ _ o _ _ an un fn =>
    { st with windows := st.windows ++ [{ name := name.core, orientation := replaceOW o.core, a := an, u := un, ff := fn, extra := none }] }
  | .pptt _ _ name more ln pn =>
    { st with tbs := st.tbs ++ [{ name := name.core, l := ln, psi := pn, sisdim := ((more.head?).map (·.core)).getD [] }] }

theorem joinWith_head (w : Str) (f : Fld) (t : List Fld) :
    joinWith [';'] (w :: (f :: t).map Fld.text) = w ++ ';' :: joinWith [';'] ((f :: t).map Fld.text) := by
  simp [joinWith]

theorem startsWith_append (p s : Str) : startsWith p (p ++ s) = true := by
  unfold startsWith
  induction p with
  | nil => simp
  | cons a t ih => simp [List.isPrefixOf, ih]

/-- the joined line of fields keeps the last character of its last field -/
theorem joinWith_getLast (fs : List Str) (f : Str) (hl : fs.getLast? = some f) (c : Char) (hc : f.getLast? = some c) :
    (joinWith [';'] fs).getLast? = some c := by
  induction fs with
  | nil => simp at hl
  | cons a t ih =>
    cases t with
    | nil =>
      simp only [List.getLast?_singleton, Option.some.injEq] at hl
      subst hl
      simpa [joinWith] using hc
    | cons b r =>
      have hl2 : (b :: r).getLast? = some f := by simpa [List.getLast?_cons_cons] using hl
      have := ih hl2
      rw [joinWith_cons_cons]
      rw [List.getLast?_append, this]
      rfl

theorem line_clean (w : String) (hw0 : ∃ c, w.toList.head? = some c ∧ isWs c = false) (f : Fld) (t : List Fld)
    (hl : lastTight (word w :: f :: t)) : Clean (joinWith [';'] ((word w :: f :: t).map Fld.text)) := by
  obtain ⟨g, hg, hpad, hclean⟩ := hl
  obtain ⟨c0, hc0, hws0⟩ := hw0
  constructor
  · refine ⟨c0, ?_, hws0⟩
    rw [List.map_cons, joinWith_head]
    simp only [word, Fld.text, List.nil_append, List.append_nil]
    cases hw : w.toList with
    | nil => rw [hw] at hc0; simp at hc0
    | cons a r => rw [hw] at hc0; simpa using hc0
  · obtain ⟨c, hc, hws⟩ := hclean.2
    refine ⟨c, ?_, hws⟩
    apply joinWith_getLast _ g.text
    · rw [List.getLast?_map, hg]; rfl
    · unfold Fld.text
      rw [hpad, List.append_nil, List.getLast?_append, hc]
      rfl

/-- **one row** of the file, trimmed as `kyg::parse` trims every line, is read as written -/
theorem kygLine_row (st : Kyg) (r : KRow) (h : r.WF) : kygLine st (trim r.line) = .ok (r.apply st) := by
  cases r with
  | comment text =>
    obtain ⟨_, ht⟩ := h
    have hc : Clean ('#' :: text) := by
      constructor
      · exact ⟨'#', rfl, by decide⟩
      · rcases ht with ht | ⟨c, hc, hw⟩
        · subst ht; exact ⟨'#', rfl, by decide⟩
        · refine ⟨c, ?_, hw⟩
          cases text with
          | nil => simp at hc
          | cons a t => simpa [List.getLast?_cons_cons] using hc
    simp only [KRow.line, trim_clean _ hc]
    unfold kygLine
    simp [startsWith, List.isPrefixOf, KRow.apply]
  | blank ws =>
    simp only [KRow.line, trim_allWs _ h.1]
    unfold kygLine
    simp [startsWith, KRow.apply]
  | muro name a u b more an un bn =>
    obtain ⟨hf, hl, hm, ha, hu, hb⟩ := h
    have hclean := line_clean "Muro" ⟨'M', rfl, by decide⟩ name (a :: u :: b :: more) hl
    have hfields := fields_of_line (word "Muro" :: name :: a :: u :: b :: more) (by simp) (fun f m => (hf f m).1)
    have hline := joinWith_head (word "Muro").text name (a :: u :: b :: more)
    simp only [KRow.line, KRow.fields, trim_clean _ hclean]
    unfold kygLine
    rw [hfields]
    simp only [List.map_cons] at hline ⊢
    rw [hline]
    have hlen : ¬ (more.length + 5 < 5) := by omega
    have hlen2 : ¬ (more.length + 5 > 7) := by omega
    simp [word, Fld.text, startsWith, List.isPrefixOf, nth, ha, hu, hb, hlen2, KRow.apply]
  | ventana name a u o ff more an un fn =>
    obtain ⟨hf, hl, hm, ha, hu, hff⟩ := h
    have hclean := line_clean "Ventana" ⟨'V', rfl, by decide⟩ name (a :: u :: o :: ff :: more) hl
    have hfields := fields_of_line (word "Ventana" :: name :: a :: u :: o :: ff :: more) (by simp) (fun f m => (hf f m).1)
    have hline := joinWith_head (word "Ventana").text name (a :: u :: o :: ff :: more)
    simp only [KRow.line, KRow.fields, trim_clean _ hclean]
    unfold kygLine
    rw [hfields]
    simp only [List.map_cons] at hline ⊢
    rw [hline]
    have hlen2 : ¬ (more.length + 6 > 10) := by omega
    simp [word, Fld.text, startsWith, List.isPrefixOf, nth, ha, hu, hff, hlen2, KRow.apply]
  | pptt l psi name more ln pn =>
    obtain ⟨hf, hl, hln, hpn⟩ := h
    have hclean := line_clean "PPTT" ⟨'P', rfl, by decide⟩ l (psi :: name :: more) hl
    have hfields := fields_of_line (word "PPTT" :: l :: psi :: name :: more) (by simp) (fun f m => (hf f m).1)
    have hline := joinWith_head (word "PPTT").text l (psi :: name :: more)
    simp only [KRow.line, KRow.fields, trim_clean _ hclean]
    unfold kygLine
    rw [hfields]
    simp only [List.map_cons] at hline ⊢
    rw [hline]
    cases more with
    | nil => simp [word, Fld.text, startsWith, List.isPrefixOf, nth, hln, hpn, KRow.apply]
    | cons m0 mr => simp [word, Fld.text, startsWith, List.isPrefixOf, nth, hln, hpn, KRow.apply]

theorem kygFold_rows (rows : List KRow) (hw : ∀ r ∈ rows, r.WF) (st : Kyg) :
    kygFold st (rows.map (fun r => trim r.line)) = .ok (rows.foldl KRow.apply st) := by
  induction rows generalizing st with
  | nil => rfl
  | cons r t ih =>
    simp only [List.map_cons, kygFold, kygLine_row st r (hw r (by simp)), List.foldl_cons]
    exact ih (fun x hx => hw x (by simp [hx])) _

theorem joinWith_no_nl (fs : List Str) (h : ∀ f ∈ fs, '\n' ∉ f) : '\n' ∉ joinWith [';'] fs := by
  induction fs with
  | nil => simp [joinWith]
  | cons a t ih =>
    cases t with
    | nil => simpa [joinWith] using h a (by simp)
    | cons b r =>
      rw [joinWith_cons_cons]
      intro m
      rcases List.mem_append.mp m with m | m
      · rcases List.mem_append.mp m with m | m
        · exact h a (by simp) m
        · simp at m
      · exact ih (fun f hf => h f (by simp [hf])) m

theorem KRow.line_no_nl (r : KRow) (h : r.WF) : '\n' ∉ r.line := by
  cases r with
  | comment text =>
    intro m
    have hh : '\n' ∉ text := h.1
    rcases List.mem_cons.mp m with m | m
    · exact absurd m (by decide)
    · exact hh m
  | blank ws => exact h.2
  | muro name a u b more an un bn =>
    apply joinWith_no_nl
    intro t ht
    obtain ⟨f, hf, rfl⟩ := List.mem_map.mp ht
    exact (h.1 f hf).2
  | ventana name a u o ff more an un fn =>
    apply joinWith_no_nl
    intro t ht
    obtain ⟨f, hf, rfl⟩ := List.mem_map.mp ht
    exact (h.1 f hf).2
  | pptt l psi name more ln pn =>
    apply joinWith_no_nl
    intro t ht
    obtain ⟨f, hf, rfl⟩ := List.mem_map.mp ht
    exact (h.1 f hf).2

/-- **KyGananciasSolares.txt, whole file**: comment lines, blank lines and `Muro` / `Ventana` / `PPTT` rows with padded fields, every
    line CRLF-terminated — `kyg::parse` returns every wall, window and thermal bridge as written, in file order -/
theorem kygParse_file (rows : List KRow) (hw : ∀ r ∈ rows, r.WF) :
    kygParse ((rows.map KRow.line).flatMap (fun b => b ++ ['\r', '\n'])) = .ok (rows.foldl KRow.apply {}) := by
  unfold kygParse
  rw [linesOf_crlf]
  · rw [List.map_map]
    exact kygFold_rows rows hw {}
  · intro l hl
    obtain ⟨r, hr, rfl⟩ := List.mem_map.mp hl
    exact r.line_no_nl (hw r hr)

/-- the same for LF line ends -/
theorem kygParse_file_lf (rows : List KRow) (hw : ∀ r ∈ rows, r.WF) (hcr : ∀ r ∈ rows, '\r' ∉ r.line) :
    kygParse ((rows.map KRow.line).flatMap (fun b => b ++ ['\n'])) = .ok (rows.foldl KRow.apply {}) := by
  unfold kygParse
  rw [linesOf_terminated]
  · rw [List.map_map]
    exact kygFold_rows rows hw {}
  · intro l hl
    obtain ⟨r, hr, rfl⟩ := List.mem_map.mp hl
    exact ⟨r.line_no_nl (hw r hr), hcr r hr⟩

/-! ### the hypotheses are met by rows as HULC writes them -/

def exVentana : KRow :=
  .ventana { core := "P01_E01_PE001_V".toList } { core := "1.70".toList } { core := "1.22".toList } { core := "S".toList, padR := [' '] }
    { core := "20.00".toList } [{ core := "0.63".toList }, { core := "-1.00".toList }, { core := "1.00".toList }]
    (Num.fin false 170 (-2)) (Num.fin false 122 (-2)) (Num.fin false 2000 (-2))

example : String.ofList exVentana.line = "Ventana;P01_E01_PE001_V;1.70;1.22;S ;20.00;0.63;-1.00;1.00" := by decide

def fldOk (f : Fld) : Bool :=
  f.padL.all isWs && f.padR.all isWs && (cleanB f.core || f.core.isEmpty) && !f.text.contains ';' && !f.text.contains '\n'

theorem fldOk_wf (f : Fld) (h : fldOk f = true) : f.WF ∧ '\n' ∉ f.text := by
  simp only [fldOk, Bool.and_eq_true, Bool.or_eq_true, Bool.not_eq_true', List.all_eq_true] at h
  obtain ⟨⟨⟨⟨h1, h2⟩, h3⟩, h4⟩, h5⟩ := h
  refine ⟨⟨h1, h2, ?_, ?_⟩, ?_⟩
  · rcases h3 with h3 | h3
    · exact Or.inl (clean_of_cleanB h3)
    · exact Or.inr (by simpa using h3)
  · intro m
    have : f.text.contains ';' = true := List.contains_iff_mem.mpr m
    rw [h4] at this; exact absurd this (by decide)
  · intro m
    have : f.text.contains '\n' = true := List.contains_iff_mem.mpr m
    rw [h5] at this; exact absurd this (by decide)

example : exVentana.WF := by
  refine ⟨?_, ?_, by decide, by decide, by decide, by decide⟩
  · intro f hf
    apply fldOk_wf
    simp only [exVentana, KRow.fields, List.mem_cons, List.mem_nil_iff, or_false] at hf
    rcases hf with rfl | rfl | rfl | rfl | rfl | rfl | rfl | rfl | rfl <;> decide
  · exact ⟨{ core := "1.00".toList }, rfl, rfl, clean_of_cleanB (by decide)⟩

end Cte.Props.C18Kyg
