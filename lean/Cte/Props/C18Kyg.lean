/-
  C18 — KyGananciasSolares.txt, whole file: a file printed from a list of rows (comment and blank lines, `Muro`, `Ventana`
  and `PPTT` rows whose fields may carry blank padding, as HULC writes `S ` for an orientation; CRLF line ends) is read back
  row by row, in order.
-/
import Cte.Props.C18Tbl

namespace Cte.Props.C18Kyg
open Cte.Bdl Cte.Aux Cte.Props.C18Aux Cte.Props.C18Tbl

/-- a field as written: blanks, the value, blanks -/
structure Fld where
  padL : Str := []
  core : Str
  padR : Str := []

def Fld.text (f : Fld) : Str := f.padL ++ f.core ++ f.padR

structure Fld.WF (f : Fld) : Prop where
  padL : AllWs f.padL
  padR : AllWs f.padR
  core : Clean f.core ∨ f.core = []
  nosemi : ';' ∉ f.text

theorem allWs_append (a b : Str) (ha : AllWs a) (hb : AllWs b) : AllWs (a ++ b) := by
  intro c hc
  rcases List.mem_append.mp hc with h | h
  · exact ha c h
  · exact hb c h

theorem Fld.trim_text (f : Fld) (h : f.WF) : trim f.text = f.core := by
  rcases h.core with hc | hc
  · exact trim_pad _ _ _ h.padL h.padR hc
  · unfold Fld.text
    rw [hc, List.append_nil]
    exact trim_allWs _ (allWs_append _ _ h.padL h.padR)

/-- the fields of a `;`-separated line, each trimmed, are the written values -/
theorem fields_of_line (fs : List Fld) (hne : fs ≠ []) (hw : ∀ f ∈ fs, f.WF) :
    (splitChar ';' (joinWith [';'] (fs.map Fld.text))).map trim = fs.map (·.core) := by
  rw [splitChar_fields ';' (fs.map Fld.text) (by simpa using hne)
    (by intro t ht; obtain ⟨f, hf, rfl⟩ := List.mem_map.mp ht; exact (hw f hf).nosemi)]
  rw [List.map_map]
  apply List.map_congr_left
  intro f hf
  exact Fld.trim_text f (hw f hf)

def word (s : String) : Fld := { core := s.toList }

/-- the rows of the file -/
inductive KRow where
  /-- `#…` -/
  | comment (text : Str)
  /-- a line of blanks -/
  | blank (ws : Str)
  /-- `Muro;name;area;U;b[;type;orientation;construction…]` (the three further fields are kept when there are at least 8 fields) -/
  | muro (name a u b : Fld) (more : List Fld) (an un bn : Num)
  /-- `Ventana;name;area;U;orientation;frame %[;…]` with at most 10 fields -/
  | ventana (name a u o ff : Fld) (more : List Fld) (an un fn : Num)
  /-- `Ventana;name;area;U;orientation;frame %;g;unused;unused;permeability;construction[;…]` -/
  | ventanaLong (name a u o ff g1 g2 g3 g4 cons : Fld) (more : List Fld) (an un fn n1 n2 n3 n4 : Num)
  /-- `PPTT;length;psi;name[;system…]` -/
  | pptt (l psi name : Fld) (more : List Fld) (ln pn : Num)
  /-- `Coeficiente K…;value[;…]` -/
  | kline (tail : Str) (pad : Str) (val : Fld) (more : List Fld) (kn : Num)
  /-- `d…;value[;…]` with `d` one of the digits 0 … 8: a monthly factor -/
  | hfactor (d : Char) (tail : Str) (pad : Str) (val : Fld) (more : List Fld) (vn : Num)
  /-- `"window";azimuth;x;Htot;x;x;H3;x[;…]`: a solar-gains line -/
  | gains (name : Str) (pad : Str) (f1 f2 f3 f4 f5 f6 f7 : Fld) (more : List Fld) (n1 n2 n3 n4 n5 n6 n7 : Num)

def KRow.fields : KRow → List Fld
  | .comment _ | .blank _ => []
  | .muro name a u b more _ _ _ => word "Muro" :: name :: a :: u :: b :: more
  | .ventana name a u o ff more _ _ _ => word "Ventana" :: name :: a :: u :: o :: ff :: more
  | .ventanaLong name a u o ff g1 g2 g3 g4 cons more _ _ _ _ _ _ _ => word "Ventana" :: name :: a :: u :: o :: ff :: g1 :: g2 :: g3 :: g4 :: cons :: more
  | .pptt l psi name more _ _ => word "PPTT" :: l :: psi :: name :: more
  | .kline tail pad val more _ => { core := "Coeficiente K".toList ++ tail, padR := pad } :: val :: more
  | .hfactor d tail pad val more _ => { core := d :: tail, padR := pad } :: val :: more
  | .gains name pad f1 f2 f3 f4 f5 f6 f7 more _ _ _ _ _ _ _ => { core := '"' :: (name ++ ['"']), padR := pad } :: f1 :: f2 :: f3 :: f4 :: f5 :: f6 :: f7 :: more

def KRow.line : KRow → Str
  | .comment text => '#' :: text
  | .blank ws => ws
  | r => joinWith [';'] (r.fields.map Fld.text)

/-- the last field ends the line without blanks, so that trimming the line changes nothing -/
def lastTight (fs : List Fld) : Prop := ∃ f, fs.getLast? = some f ∧ f.padR = [] ∧ Clean f.core

/-- every field is well formed and the line they make ends tightly -/
def fieldsOk (fs : List Fld) : Prop := (∀ f ∈ fs, f.WF ∧ '\n' ∉ f.text) ∧ lastTight fs

def KRow.WF : KRow → Prop
  | .comment text => '\n' ∉ text ∧ (text = [] ∨ ∃ c, text.getLast? = some c ∧ isWs c = false)
  | .blank ws => AllWs ws ∧ '\n' ∉ ws
  | r@(.muro _ a u b _ an un bn) =>
    fieldsOk r.fields ∧ commaNum a.core = some an ∧ commaNum u.core = some un ∧ commaNum b.core = some bn
  | r@(.ventana _ a u _ ff more an un fn) =>
    fieldsOk r.fields ∧ more.length ≤ 4 ∧
    commaNum a.core = some an ∧ commaNum u.core = some un ∧ commaNum ff.core = some fn
  | r@(.ventanaLong _ a u _ ff g1 g2 g3 g4 _ _ an un fn n1 n2 n3 n4) =>
    fieldsOk r.fields ∧ commaNum a.core = some an ∧ commaNum u.core = some un ∧ commaNum ff.core = some fn ∧
    commaNum g1.core = some n1 ∧ commaNum g2.core = some n2 ∧ commaNum g3.core = some n3 ∧ commaNum g4.core = some n4
  | r@(.pptt l psi _ _ ln pn) =>
    fieldsOk r.fields ∧ commaNum l.core = some ln ∧ commaNum psi.core = some pn
  | r@(.kline _ _ val _ kn) => fieldsOk r.fields ∧ commaNum val.core = some kn
  | r@(.hfactor d _ _ val _ vn) => fieldsOk r.fields ∧ d ∈ ['0', '1', '2', '3', '4', '5', '6', '7', '8'] ∧ commaNum val.core = some vn
  | r@(.gains name _ f1 f2 f3 f4 f5 f6 f7 _ n1 n2 n3 n4 n5 n6 n7) =>
    fieldsOk r.fields ∧ (∀ c, name.head? = some c → c ≠ '"') ∧ (∀ c, name.getLast? = some c → c ≠ '"') ∧
    parseF32 f1.core = some n1 ∧ parseF32 f2.core = some n2 ∧ parseF32 f3.core = some n3 ∧ parseF32 f4.core = some n4 ∧
    parseF32 f5.core = some n5 ∧ parseF32 f6.core = some n6 ∧ parseF32 f7.core = some n7

/-- type, orientation and construction of a `Muro` row, kept when the row has at least 8 fields -/
def muroExtra : List Fld → Option (Str × Str × Str)
  | m0 :: m1 :: m2 :: _ => some (m0.core, m1.core, m2.core)
  | _ => none

/-- what the row adds to the parsed data -/
def KRow.apply (st : Kyg) : KRow → Kyg
  | .comment _ | .blank _ => st
  | .muro name _ _ _ more an un bn =>
    { st with walls := st.walls ++ [{ name := name.core, a := an, u := un, btrx := bn, extra := muroExtra more }] }
  | .ventana name _ _ o _ _ an un fn =>
    { st with windows := st.windows ++ [{ name := name.core, orientation := replaceOW o.core, a := an, u := un, ff := fn, extra := none }] }
  | .ventanaLong name _ _ o _ _ _ _ _ cons _ an un fn n1 n2 n3 n4 =>
    { st with windows := st.windows ++ [{ name := name.core, orientation := replaceOW o.core, a := an, u := un, ff := fn, extra := some (n1, n2, n3, n4, cons.core) }] }
  | .pptt _ _ name more ln pn =>
    { st with tbs := st.tbs ++ [{ name := name.core, l := ln, psi := pn, sisdim := ((more.head?).map (·.core)).getD [] }] }
  | .kline _ _ _ _ kn => { st with k := some kn }
  | .hfactor _ _ _ _ _ vn => { st with hfactors := st.hfactors ++ [vn] }
  | .gains name _ _ _ _ _ _ _ _ _ n1 _ n3 _ _ n6 _ =>
    { st with gains := st.gains ++ [{ name := name, azimuth := n1, htot := n3, h3 := n6 }] }

theorem joinWith_head (w : Str) (f : Fld) (t : List Fld) :
    joinWith [';'] (w :: (f :: t).map Fld.text) = w ++ ';' :: joinWith [';'] ((f :: t).map Fld.text) := by
  simp [joinWith]

theorem startsWith_append (p s : Str) : startsWith p (p ++ s) = true := by
  unfold startsWith
  induction p with
  | nil => simp
  | cons a t ih => simp [List.isPrefixOf, ih]

/-- the joined line of fields keeps the last character of its last field -/
theorem joinWith_getLast (fs : List Str) (f : Str) (hl : fs.getLast? = some f) (c : Char) (hc : f.getLast? = some c) :
    (joinWith [';'] fs).getLast? = some c := by
  induction fs with
  | nil => simp at hl
  | cons a t ih =>
    cases t with
    | nil =>
      simp only [List.getLast?_singleton, Option.some.injEq] at hl
      subst hl
      simpa [joinWith] using hc
    | cons b r =>
      have hl2 : (b :: r).getLast? = some f := by simpa [List.getLast?_cons_cons] using hl
      have := ih hl2
      rw [joinWith_cons_cons]
      rw [List.getLast?_append, this]
      rfl

theorem line_clean (f0 : Fld) (h0 : f0.padL = []) (c0 : Char) (hc0 : f0.core.head? = some c0) (hws0 : isWs c0 = false) (f : Fld) (t : List Fld)
    (hl : lastTight (f0 :: f :: t)) : Clean (joinWith [';'] ((f0 :: f :: t).map Fld.text)) := by
  obtain ⟨g, hg, hpad, hclean⟩ := hl
  constructor
  · refine ⟨c0, ?_, hws0⟩
    rw [List.map_cons, joinWith_head]
    simp only [Fld.text, h0, List.nil_append]
    cases hw : f0.core with
    | nil => rw [hw] at hc0; simp at hc0
    | cons a r => rw [hw] at hc0; simpa using hc0
  · obtain ⟨c, hc, hws⟩ := hclean.2
    refine ⟨c, ?_, hws⟩
    apply joinWith_getLast _ g.text
    · rw [List.getLast?_map, hg]; rfl
    · unfold Fld.text
      rw [hpad, List.append_nil, List.getLast?_append, hc]
      rfl

theorem splitChar_line (fs : List Fld) (hne : fs ≠ []) (hw : ∀ f ∈ fs, f.WF) :
    splitChar ';' (joinWith [';'] (fs.map Fld.text)) = fs.map Fld.text :=
  splitChar_fields ';' (fs.map Fld.text) (by simpa using hne)
    (by intro t ht; obtain ⟨f, hf, rfl⟩ := List.mem_map.mp ht; exact (hw f hf).nosemi)

/-- **one row** of the file, trimmed as `kyg::parse` trims every line, is read as written -/
theorem kygLine_row (st : Kyg) (r : KRow) (h : r.WF) : kygLine st (trim r.line) = .ok (r.apply st) := by
  cases r with
  | comment text =>
    obtain ⟨_, ht⟩ := h
    have hc : Clean ('#' :: text) := by
      constructor
      · exact ⟨'#', rfl, by decide⟩
      · rcases ht with ht | ⟨c, hc, hw⟩
        · subst ht; exact ⟨'#', rfl, by decide⟩
        · refine ⟨c, ?_, hw⟩
          cases text with
          | nil => simp at hc
          | cons a t => simpa [List.getLast?_cons_cons] using hc
    simp only [KRow.line, trim_clean _ hc]
    unfold kygLine
    simp [startsWith, List.isPrefixOf, KRow.apply]
  | blank ws =>
    simp only [KRow.line, trim_allWs _ h.1]
    unfold kygLine
    simp [startsWith, KRow.apply]
  | muro name a u b more an un bn =>
    obtain ⟨⟨hf, hl⟩, ha, hu, hb⟩ := h
    have hclean := line_clean (word "Muro") rfl 'M' rfl (by decide) name (a :: u :: b :: more) hl
    have hfields := fields_of_line (word "Muro" :: name :: a :: u :: b :: more) (by simp) (fun f m => (hf f m).1)
    have hline := joinWith_head (word "Muro").text name (a :: u :: b :: more)
    simp only [KRow.line, KRow.fields, trim_clean _ hclean]
    unfold kygLine
    rw [hfields]
    simp only [List.map_cons] at hline ⊢
    rw [hline]
    match more with
    | [] => simp [word, Fld.text, startsWith, List.isPrefixOf, nth, ha, hu, hb, KRow.apply, muroExtra]
    | [m0] => simp [word, Fld.text, startsWith, List.isPrefixOf, nth, ha, hu, hb, KRow.apply, muroExtra]
    | [m0, m1] => simp [word, Fld.text, startsWith, List.isPrefixOf, nth, ha, hu, hb, KRow.apply, muroExtra]
    | m0 :: m1 :: m2 :: rest => simp [word, Fld.text, startsWith, List.isPrefixOf, nth, ha, hu, hb, KRow.apply, muroExtra]
  | ventana name a u o ff more an un fn =>
    obtain ⟨⟨hf, hl⟩, hm, ha, hu, hff⟩ := h
    have hclean := line_clean (word "Ventana") rfl 'V' rfl (by decide) name (a :: u :: o :: ff :: more) hl
    have hfields := fields_of_line (word "Ventana" :: name :: a :: u :: o :: ff :: more) (by simp) (fun f m => (hf f m).1)
    have hline := joinWith_head (word "Ventana").text name (a :: u :: o :: ff :: more)
    simp only [KRow.line, KRow.fields, trim_clean _ hclean]
    unfold kygLine
    rw [hfields]
    simp only [List.map_cons] at hline ⊢
    rw [hline]
    have hlen2 : ¬ (more.length + 6 > 10) := by omega
    simp [word, Fld.text, startsWith, List.isPrefixOf, nth, ha, hu, hff, hlen2, KRow.apply]
  | ventanaLong name a u o ff g1 g2 g3 g4 cons more an un fn n1 n2 n3 n4 =>
    obtain ⟨⟨hf, hl⟩, ha, hu, hff, h1, h2, h3, h4⟩ := h
    have hclean := line_clean (word "Ventana") rfl 'V' rfl (by decide) name (a :: u :: o :: ff :: g1 :: g2 :: g3 :: g4 :: cons :: more) hl
    have hfields := fields_of_line (word "Ventana" :: name :: a :: u :: o :: ff :: g1 :: g2 :: g3 :: g4 :: cons :: more) (by simp) (fun f m => (hf f m).1)
    have hline := joinWith_head (word "Ventana").text name (a :: u :: o :: ff :: g1 :: g2 :: g3 :: g4 :: cons :: more)
    simp only [KRow.line, KRow.fields, trim_clean _ hclean]
    unfold kygLine
    rw [hfields]
    simp only [List.map_cons] at hline ⊢
    rw [hline]
    have hlen2 : more.length + 11 > 10 := by omega
    simp [word, Fld.text, startsWith, List.isPrefixOf, nth, ha, hu, hff, h1, h2, h3, h4, KRow.apply]
  | pptt l psi name more ln pn =>
    obtain ⟨⟨hf, hl⟩, hln, hpn⟩ := h
    have hclean := line_clean (word "PPTT") rfl 'P' rfl (by decide) l (psi :: name :: more) hl
    have hfields := fields_of_line (word "PPTT" :: l :: psi :: name :: more) (by simp) (fun f m => (hf f m).1)
    have hline := joinWith_head (word "PPTT").text l (psi :: name :: more)
    simp only [KRow.line, KRow.fields, trim_clean _ hclean]
    unfold kygLine
    rw [hfields]
    simp only [List.map_cons] at hline ⊢
    rw [hline]
    cases more with
    | nil => simp [word, Fld.text, startsWith, List.isPrefixOf, nth, hln, hpn, KRow.apply]
    | cons m0 mr => simp [word, Fld.text, startsWith, List.isPrefixOf, nth, hln, hpn, KRow.apply]
  | kline tail pad val more kn =>
    obtain ⟨⟨hf, hl⟩, hk⟩ := h
    have hclean := line_clean { core := "Coeficiente K".toList ++ tail, padR := pad } rfl 'C' rfl (by decide) val more hl
    have hsplit := splitChar_line ({ core := "Coeficiente K".toList ++ tail, padR := pad } :: val :: more) (by simp) (fun f m => (hf f m).1)
    have hline := joinWith_head ({ core := "Coeficiente K".toList ++ tail, padR := pad } : Fld).text val more
    have hval : trim (val.padL ++ (val.core ++ val.padR)) = val.core := by
      have := Fld.trim_text val (hf val (by simp [KRow.fields])).1
      simpa [Fld.text, List.append_assoc] using this
    simp only [KRow.line, KRow.fields, trim_clean _ hclean]
    unfold kygLine
    rw [hsplit]
    simp only [List.map_cons] at hline ⊢
    rw [hline]
    simp [Fld.text, startsWith, List.isPrefixOf, hval, hk, KRow.apply]
  | hfactor d tail pad val more vn =>
    obtain ⟨⟨hf, hl⟩, hd, hv⟩ := h
    have hdws : isWs d = false := by
      have := hd
      simp only [List.mem_cons, List.mem_nil_iff, or_false] at this
      rcases this with rfl | rfl | rfl | rfl | rfl | rfl | rfl | rfl | rfl <;> decide
    have hclean := line_clean { core := d :: tail, padR := pad } rfl d rfl hdws val more hl
    have hsplit := splitChar_line ({ core := d :: tail, padR := pad } :: val :: more) (by simp) (fun f m => (hf f m).1)
    have hline := joinWith_head ({ core := d :: tail, padR := pad } : Fld).text val more
    have hval : trim (val.padL ++ (val.core ++ val.padR)) = val.core := by
      have := Fld.trim_text val (hf val (by simp [KRow.fields])).1
      simpa [Fld.text, List.append_assoc] using this
    simp only [KRow.line, KRow.fields, trim_clean _ hclean]
    unfold kygLine
    rw [hsplit]
    simp only [List.map_cons] at hline ⊢
    rw [hline]
    have hmem := hd
    simp only [List.mem_cons, List.mem_nil_iff, or_false] at hmem
    rcases hmem with rfl | rfl | rfl | rfl | rfl | rfl | rfl | rfl | rfl <;>
      simp [Fld.text, startsWith, List.isPrefixOf, hval, hv, KRow.apply]
  | gains name pad f1 f2 f3 f4 f5 f6 f7 more n1 n2 n3 n4 n5 n6 n7 =>
    obtain ⟨⟨hf, hl⟩, hq1, hq2, h1, h2, h3, h4, h5, h6, h7⟩ := h
    have hclean := line_clean { core := '"' :: (name ++ ['"']), padR := pad } rfl '"' rfl (by decide) f1 (f2 :: f3 :: f4 :: f5 :: f6 :: f7 :: more) hl
    have hfields := fields_of_line ({ core := '"' :: (name ++ ['"']), padR := pad } :: f1 :: f2 :: f3 :: f4 :: f5 :: f6 :: f7 :: more) (by simp) (fun f m => (hf f m).1)
    have hline := joinWith_head ({ core := '"' :: (name ++ ['"']), padR := pad } : Fld).text f1 (f2 :: f3 :: f4 :: f5 :: f6 :: f7 :: more)
    have hname := trimMatches_quoted name hq1 hq2
    simp only [KRow.line, KRow.fields, trim_clean _ hclean]
    unfold kygLine
    rw [hfields]
    simp only [List.map_cons] at hline ⊢
    rw [hline]
    have hlen : ¬ (more.length + 8 < 8) := by omega
    simp [Fld.text, startsWith, List.isPrefixOf, nth, h1, h2, h3, h4, h5, h6, h7, hname, KRow.apply]

theorem kygFold_rows (rows : List KRow) (hw : ∀ r ∈ rows, r.WF) (st : Kyg) :
    kygFold st (rows.map (fun r => trim r.line)) = .ok (rows.foldl KRow.apply st) := by
  induction rows generalizing st with
  | nil => rfl
  | cons r t ih =>
    simp only [List.map_cons, kygFold, kygLine_row st r (hw r (by simp)), List.foldl_cons]
    exact ih (fun x hx => hw x (by simp [hx])) _

theorem joinWith_no_nl (fs : List Str) (h : ∀ f ∈ fs, '\n' ∉ f) : '\n' ∉ joinWith [';'] fs := by
  induction fs with
  | nil => simp [joinWith]
  | cons a t ih =>
    cases t with
    | nil => simpa [joinWith] using h a (by simp)
    | cons b r =>
      rw [joinWith_cons_cons]
      intro m
      rcases List.mem_append.mp m with m | m
      · rcases List.mem_append.mp m with m | m
        · exact h a (by simp) m
        · simp at m
      · exact ih (fun f hf => h f (by simp [hf])) m

theorem KRow.line_no_nl (r : KRow) (h : r.WF) : '\n' ∉ r.line := by
  have key : ∀ fs : List Fld, fieldsOk fs → '\n' ∉ joinWith [';'] (fs.map Fld.text) := by
    intro fs hfs
    apply joinWith_no_nl
    intro t ht
    obtain ⟨f, hf, rfl⟩ := List.mem_map.mp ht
    exact (hfs.1 f hf).2
  cases r with
  | comment text =>
    intro m
    have hh : '\n' ∉ text := h.1
    rcases List.mem_cons.mp m with m | m
    · exact absurd m (by decide)
    · exact hh m
  | blank ws => exact h.2
  | muro name a u b more an un bn => exact key _ h.1
  | ventana name a u o ff more an un fn => exact key _ h.1
  | ventanaLong name a u o ff g1 g2 g3 g4 cons more an un fn n1 n2 n3 n4 => exact key _ h.1
  | pptt l psi name more ln pn => exact key _ h.1
  | kline tail pad val more kn => exact key _ h.1
  | hfactor d tail pad val more vn => exact key _ h.1
  | gains name pad f1 f2 f3 f4 f5 f6 f7 more n1 n2 n3 n4 n5 n6 n7 => exact key _ h.1

/-- **KyGananciasSolares.txt, whole file**: comment lines, blank lines, `Muro` / `Ventana` / `PPTT` rows in the short and in the long
    layout, the `Coeficiente K` line, the monthly factor lines and the solar-gains lines, with padded fields, every line CRLF-terminated —
    `kyg::parse` returns every wall, window, thermal bridge, factor and gains line as written, in file order -/
theorem kygParse_file (rows : List KRow) (hw : ∀ r ∈ rows, r.WF) :
    kygParse ((rows.map KRow.line).flatMap (fun b => b ++ ['\r', '\n'])) = .ok (rows.foldl KRow.apply {}) := by
  unfold kygParse
  rw [linesOf_crlf]
  · rw [List.map_map]
    exact kygFold_rows rows hw {}
  · intro l hl
    obtain ⟨r, hr, rfl⟩ := List.mem_map.mp hl
    exact r.line_no_nl (hw r hr)

/-- the same for LF line ends -/
theorem kygParse_file_lf (rows : List KRow) (hw : ∀ r ∈ rows, r.WF) (hcr : ∀ r ∈ rows, '\r' ∉ r.line) :
    kygParse ((rows.map KRow.line).flatMap (fun b => b ++ ['\n'])) = .ok (rows.foldl KRow.apply {}) := by
  unfold kygParse
  rw [linesOf_terminated]
  · rw [List.map_map]
    exact kygFold_rows rows hw {}
  · intro l hl
    obtain ⟨r, hr, rfl⟩ := List.mem_map.mp hl
    exact ⟨r.line_no_nl (hw r hr), hcr r hr⟩

/-! ### the hypotheses are met by rows as HULC writes them -/

def exVentana : KRow :=
  .ventana { core := "P01_E01_PE001_V".toList } { core := "1.70".toList } { core := "1.22".toList } { core := "S".toList, padR := [' '] }
    { core := "20.00".toList } [{ core := "0.63".toList }, { core := "-1.00".toList }, { core := "1.00".toList }]
    (Num.fin false 170 (-2)) (Num.fin false 122 (-2)) (Num.fin false 2000 (-2))

example : String.ofList exVentana.line = "Ventana;P01_E01_PE001_V;1.70;1.22;S ;20.00;0.63;-1.00;1.00" := by decide

def fldOk (f : Fld) : Bool :=
  f.padL.all isWs && f.padR.all isWs && (cleanB f.core || f.core.isEmpty) && !f.text.contains ';' && !f.text.contains '\n'

theorem fldOk_wf (f : Fld) (h : fldOk f = true) : f.WF ∧ '\n' ∉ f.text := by
  simp only [fldOk, Bool.and_eq_true, Bool.or_eq_true, Bool.not_eq_true', List.all_eq_true] at h
  obtain ⟨⟨⟨⟨h1, h2⟩, h3⟩, h4⟩, h5⟩ := h
  refine ⟨⟨h1, h2, ?_, ?_⟩, ?_⟩
  · rcases h3 with h3 | h3
    · exact Or.inl (clean_of_cleanB h3)
    · exact Or.inr (by simpa using h3)
  · intro m
    have : f.text.contains ';' = true := List.contains_iff_mem.mpr m
    rw [h4] at this; exact absurd this (by decide)
  · intro m
    have : f.text.contains '\n' = true := List.contains_iff_mem.mpr m
    rw [h5] at this; exact absurd this (by decide)

example : exVentana.WF := by
  refine ⟨⟨?_, ?_⟩, by decide, by decide, by decide, by decide⟩
  · intro f hf
    apply fldOk_wf
    simp only [exVentana, KRow.fields, List.mem_cons, List.mem_nil_iff, or_false] at hf
    rcases hf with rfl | rfl | rfl | rfl | rfl | rfl | rfl | rfl | rfl <;> decide
  · exact ⟨{ core := "1.00".toList }, rfl, rfl, clean_of_cleanB (by decide)⟩

def exMuro : KRow :=
  .muro { core := "P01_E01_PE001".toList } { core := "19.96".toList } { core := "0.27".toList } { core := "1.00".toList }
    [{ core := "Fachada".toList }, { core := "S".toList, padR := [' '] }, { core := "Muro Exterior".toList }]
    (Num.fin false 1996 (-2)) (Num.fin false 27 (-2)) (Num.fin false 100 (-2))

example : String.ofList exMuro.line = "Muro;P01_E01_PE001;19.96;0.27;1.00;Fachada;S ;Muro Exterior" := by decide

example : exMuro.WF := by
  refine ⟨⟨?_, ?_⟩, by decide, by decide, by decide⟩
  · intro f hf
    apply fldOk_wf
    simp only [KRow.fields, List.mem_cons, List.mem_nil_iff, or_false] at hf
    rcases hf with rfl | rfl | rfl | rfl | rfl | rfl | rfl | rfl <;> decide
  · exact ⟨{ core := "Muro Exterior".toList }, rfl, rfl, clean_of_cleanB (by decide)⟩

/-- the remaining line kinds as HULC writes them -/
example : ((kygLine {} "Coeficiente K = ;0,464".toList).toOption.map (·.k)) = some (some (Num.fin false 464 (-3))) := by decide
example : ((kygLine {} "8 ; 220.007599".toList).toOption.map (·.hfactors)) = some [Num.fin false 220007599 (-6)] := by decide
example : ((kygLine {} "\"P02_E01_PE001_V\"; 270.000000; 2.000000; 120642.843750; 113757.890625; 113757.890625; 113757.890625; 102382.109375".toList).toOption.map
    (fun k => k.gains.map (fun g => (String.ofList g.name, g.azimuth, g.h3)))) =
    some [("P02_E01_PE001_V", Num.fin false 270000000 (-6), Num.fin false 113757890625 (-6))] := by decide +kernel

end Cte.Props.C18Kyg
