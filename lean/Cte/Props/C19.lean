/-
  C19 — Damaged project files are rejected with an error, never with a crash or hang.

  What is proved here is about the model of the two places where the conversion indexed, subtracted or
  asserted on values read from the file (`Damage.edgeVertices`, `Schedules.periodLengths`); the rest of the
  property is decided on the implementation by the fault enumeration (see tools/props/c19.py).
-/
import Cte.Model.Damage
import Cte.Model.Schedules
import Cte.Model.BdlData
import Cte.Model.Pipeline
import Cte.Props.C02

namespace Cte.Props.C19
open Cte.Damage

/-- index safety: whatever the vertex name written in the file and whatever the outline, the two indices
    handed to the outline are inside it, and the second is the cyclic successor of the first -/
theorem edgeVertices_safe (name : List Char) (n i j : Nat)
    (h : edgeVertices name n = some (i, j)) : i < n ∧ j < n ∧ j = (i + 1) % n := by
  unfold edgeVertices at h
  split at h
  · split at h
    · rename_i k _
      split at h
      · cases h
      · split at h
        · rename_i hk0 hlt
          injection h with h
          injection h with h1 h2
          subst h1; subst h2
          have hn : 0 < n := by omega
          refine ⟨hlt, Nat.mod_lt _ hn, ?_⟩
          have : k - 1 + 1 = k := by omega
          rw [this]
        · cases h
    · cases h
  · cases h

/-- exact characterisation of the accepted names: `V` followed by a `usize` literal `k` with `1 ≤ k ≤ n` -/
theorem edgeVertices_some_iff (name : List Char) (n i j : Nat) :
    edgeVertices name n = some (i, j) ↔
      ∃ r k, name = 'V' :: r ∧ parseUsize r = some k ∧ 1 ≤ k ∧ k ≤ n ∧ i = k - 1 ∧ j = k % n := by
  constructor
  · intro h
    unfold edgeVertices at h
    split at h
    · rename_i r
      split at h
      · rename_i k hk
        split at h
        · cases h
        · split at h
          · injection h with h
            injection h with h1 h2
            exact ⟨r, k, rfl, hk, by omega, by omega, h1.symm, h2.symm⟩
          · cases h
      · cases h
    · cases h
  · rintro ⟨r, k, rfl, hk, h1, h2, rfl, rfl⟩
    unfold edgeVertices
    simp only [hk]
    have : ¬ k = 0 := by omega
    have : k - 1 < n := by omega
    simp [*]

/-- every other name — `BOTTOM`, `TOP`, `V0`, `V` alone, a number past the outline, a name without the `V` —
    gives `none`: the caller's error path, not an index -/
theorem edgeVertices_none_of_not_V (name : List Char) (n : Nat)
    (h : ∀ r, name ≠ 'V' :: r) : edgeVertices name n = none := by
  unfold edgeVertices
  split
  · rename_i r
    exact absurd rfl (h r)
  · rfl

theorem edgeVertices_zero (r : List Char) (n : Nat) (h : parseUsize r = some 0) :
    edgeVertices ('V' :: r) n = none := by
  simp [edgeVertices, h]

theorem edgeVertices_past (r : List Char) (k n : Nat) (h : parseUsize r = some k) (hk : n < k) :
    edgeVertices ('V' :: r) n = none := by
  unfold edgeVertices
  simp only [h]
  split
  · rfl
  · split
    · omega
    · rfl

/-- the edge that starts at the last vertex closes on the first -/
theorem edgeVertices_last_wraps (r : List Char) (n : Nat) (hn : 0 < n) (h : parseUsize r = some n) :
    edgeVertices ('V' :: r) n = some (n - 1, 0) := by
  unfold edgeVertices
  simp only [h]
  have h0 : ¬ n = 0 := by omega
  have h1 : n - 1 < n := by omega
  simp [h0, h1]

/-- an empty outline has no edges, whatever the name -/
theorem edgeVertices_empty (name : List Char) : edgeVertices name 0 = none := by
  cases h : edgeVertices name 0 with
  | none => rfl
  | some p =>
    obtain ⟨i, j⟩ := p
    have := (edgeVertices_safe name 0 i j h).1
    omega

/-- the literals the shipped files and the damaged ones contain -/
example : edgeVertices "V1".toList 4 = some (0, 1) := by decide
example : edgeVertices "V4".toList 4 = some (3, 0) := by decide
example : edgeVertices "V+2".toList 4 = some (1, 2) := by decide
example : edgeVertices "V0".toList 4 = none := by decide
example : edgeVertices "V5".toList 4 = none := by decide
example : edgeVertices "BOTTOM".toList 4 = none := by decide
example : edgeVertices "V-1".toList 4 = none := by decide
example : edgeVertices "V".toList 4 = none := by decide

/-- a staged run has exactly two verdicts: the model cannot crash -/
theorem verdict_never_crashes {E D M : Type} (parse : String → Except E D) (conv : D → Except E M)
    (text : String) : verdict parse conv text ≠ Verdict.crashed := by
  unfold verdict
  split
  · simp
  · split <;> simp

/-! ### year schedules: day counts between end dates (`t[1] - t[0]` on `u32`, now `checked_sub`) -/

/-- end days that never go backwards, starting from `prev` -/
def ascFrom : Int → List Int → Prop
  | _, [] => True
  | p, e :: t => p ≤ e ∧ ascFrom e t

open Cte in
/-- the counts exist exactly when the end days never go backwards (the first one not before day 0):
    no subtraction underflows and nothing else is rejected -/
theorem periodLengths_go_isSome_iff (prev : Int) (ends : List Int) :
    (periodLengths.go prev ends).isSome ↔ ascFrom prev ends := by
  induction ends generalizing prev with
  | nil => simp [periodLengths.go, ascFrom]
  | cons e t ih =>
    unfold periodLengths.go
    by_cases h : e < prev
    · simp only [h, if_true, ascFrom]
      constructor
      · intro h; cases h
      · rintro ⟨h1, _⟩; omega
    · simp only [h, if_false, ascFrom, Option.isSome_map]
      rw [ih e]
      constructor
      · intro h2; exact ⟨by omega, h2⟩
      · intro h2; exact h2.2

open Cte in
theorem periodLengths_isSome_iff (ends : List Int) :
    (periodLengths ends).isSome ↔ ascFrom 0 ends := periodLengths_go_isSome_iff 0 ends

open Cte in
/-- when they exist there is one count per period and they add up to the span covered -/
theorem periodLengths_go_sum (prev : Int) (ends : List Int) (cs : List Nat)
    (h : periodLengths.go prev ends = some cs) :
    cs.length = ends.length ∧ ((cs.foldr (· + ·) 0 : Nat) : Int) = (ends.getLast?.getD prev) - prev := by
  induction ends generalizing prev cs with
  | nil =>
    simp [periodLengths.go] at h
    subst h
    simp
  | cons e t ih =>
    unfold periodLengths.go at h
    by_cases hlt : e < prev
    · simp [hlt] at h
    · simp only [hlt, if_false] at h
      cases hg : periodLengths.go e t with
      | none => simp [hg] at h
      | some r =>
        simp only [hg, Option.map_some, Option.some.injEq] at h
        subst h
        obtain ⟨hl, hs⟩ := ih e r hg
        refine ⟨by simp [hl], ?_⟩
        simp only [List.foldr_cons]
        have h1 : ((e - prev).toNat : Int) = e - prev := Int.toNat_of_nonneg (by omega)
        have h2 : (e :: t).getLast?.getD prev = t.getLast?.getD e := by
          cases t with
          | nil => simp
          | cons x xs => simp [List.getLast?_cons_cons, List.getLast?_eq_some_getLast (l := x :: xs) (by simp)]
        rw [h2]
        push_cast
        omega

example : Cte.periodLengths [31, 59, 365] = some [31, 28, 306] := by decide
example : Cte.periodLengths [59, 31, 365] = none := by decide

/-! ### the typed-element layer (`Data::new`) cannot crash

`Res` has a `panic` constructor so that the implementation's three outcomes can be mapped onto the model's; after the
repairs (FLOOR X/Y assertion, air-gap name byte slice) no function of the model produces it. -/

open Cte.BdlData in
theorem floorOf_no_panic (b : Cte.Bdl.Block) (p : String) : floorOf b ≠ .panic p := by
  unfold floorOf
  simp only
  split
  · intro h; cases h
  · split <;> (intro h; cases h)

open Cte.BdlData in
theorem wallConsOf_no_panic (b : Cte.Bdl.Block) (p : String) : wallConsOf b ≠ .panic p := by
  unfold wallConsOf
  simp only
  split
  · intro h; cases h
  · intro h; cases h
  · split
    · intro h; cases h
    · split <;> (intro h; cases h)

open Cte.BdlData in
theorem foldRes_no_panic {σ α : Type} (f : σ → α → Res σ) (hf : ∀ s x p, f s x ≠ .panic p) :
    ∀ (l : List α) (s : σ) (p : String), foldRes f s l ≠ .panic p := by
  intro l
  induction l with
  | nil => intro s p h; cases h
  | cons x t ih =>
    intro s p
    unfold foldRes
    cases hfx : f s x with
    | ok s' => exact ih s' p
    | err e => intro h; cases h
    | panic q => exact absurd hfx (hf s x q)

open Cte.BdlData in
theorem dbStep_no_panic (st : DbSt) (b : Cte.Bdl.Block) (p : String) : dbStep st b ≠ .panic p := by
  unfold dbStep
  split
  · split <;> (intro h; cases h)
  · split
    · split <;> (intro h; cases h)
    · split
      · split <;> (intro h; cases h)
      · split
        · split <;> (intro h; cases h)
        · split
          · split
            · intro h; cases h
            · intro h; cases h
            · rename_i q hq; exact absurd hq (wallConsOf_no_panic b q)
          · split <;> (intro h; cases h)

open Cte.BdlData in
theorem envStep_no_panic (floors : List (Cte.Bdl.Str × BdlData.Floor)) (wc : List (Cte.Bdl.Str × BdlData.WallCons)) (st : EnvSt)
    (b : Cte.Bdl.Block) (p : String) : envStep floors wc st b ≠ .panic p := by
  unfold envStep
  intro h
  repeat' (first | (split at h) | (cases h))

open Cte.BdlData in
/-- **`Data::new` never crashes**: whatever the text, the typed-element layer accepts or rejects -/
theorem dataNew_never_panics (text : Cte.Bdl.Str) (p : String) : dataNew text ≠ .panic p := by
  unfold dataNew
  split
  · intro h; cases h
  · rename_i blocks _
    unfold dataOfBlocks
    simp only
    split
    · intro h; cases h
    · rename_i q hq; exact absurd hq (foldRes_no_panic dbStep dbStep_no_panic _ _ q)
    · split
      · intro h; cases h
      · split
        · intro h; cases h
        · split
          · intro h; cases h
          · rename_i q hq
            refine absurd hq (foldRes_no_panic _ ?_ _ _ q)
            intro s x r
            cases hfl : floorOf x with
            | ok f => simp
            | err e => simp
            | panic q => exact absurd hfl (floorOf_no_panic x q)
          · split
            · intro h; cases h
            · split
              · intro h; cases h
              · rename_i q hq; exact absurd hq (foldRes_no_panic _ (envStep_no_panic _ _) _ _ q)
              · intro h; cases h

/-- **the modelled path never crashes**: every BDL text — intact, damaged, or arbitrary characters — is either converted
    or rejected by blocks → typed elements → conversion skeleton -/
theorem pipeline_never_crashes (text : Cte.Bdl.Str) : Cte.Pipeline.verdict text ≠ .crashed := by
  unfold Cte.Pipeline.verdict
  split
  · rename_i p hp; exact absurd hp (dataNew_never_panics text p)
  · intro h; cases h
  · split <;> (intro h; cases h)

/-- … and whatever it converts is referentially closed (C02, end to end from the text) -/
theorem pipeline_converted_closed (text : Cte.Bdl.Str) (m : Cte.Conv.Mdl) (h : Cte.Pipeline.convertText text = some m) :
    Cte.Conv.closed m = true := by
  unfold Cte.Pipeline.convertText at h
  split at h
  · rename_i d _
    cases hc : Cte.Conv.convert (Cte.Pipeline.skelOf d) with
    | error e => simp [hc, Except.toOption] at h
    | ok m' =>
      simp [hc, Except.toOption] at h
      subst h
      exact Cte.Props.C02.convert_closed _ _ hc
  · cases h

end Cte.Props.C19
