/-
C04, part 2 — the schema the source declares (regenerated from bemodel/src/types/*.rs on every run)
meets the side conditions of the codec theorems, so every struct of the model format round-trips.
-/
import Cte.Gen.Schema
import Cte.Props.C04
namespace Cte.C04
open Cte.Codec

def ownFields (s : StructSpec) : List Field := (s.fields.filter (fun f => !f.flatten)).map (·.field)

/-- no two fields of a struct are serialised under one key -/
theorem schema_keys_nodup : ∀ s ∈ Gen.schema, ((ownFields s).map (·.key)).Nodup := by
  decide +kernel

/-- `model_roundtrip` for the declared schema: every struct of the format loads back every field value -/
theorem schema_roundtrip (s : StructSpec) (hs : s ∈ Gen.schema) (vs : List J)
    (hlen : vs.length = (ownFields s).length) :
    decodeFields (ownFields s) (encodeFields (ownFields s) vs) = some vs :=
  roundtrip _ vs hlen (schema_keys_nodup s hs)

theorem schema_idempotent (s : StructSpec) (hs : s ∈ Gen.schema) (vs : List J)
    (hlen : vs.length = (ownFields s).length) :
    (decodeFields (ownFields s) (encodeFields (ownFields s) vs)).map (encodeFields (ownFields s)) =
      some (encodeFields (ownFields s) vs) :=
  idempotent _ vs hlen (schema_keys_nodup s hs)

/-- the struct names the schema refers to are all defined -/
def tyRefs : Ty → List String
  | .leaf => []
  | .opt t => tyRefs t
  | .list t => tyRefs t
  | .map t => tyRefs t
  | .struct n => [n]
  | .untagged _ => []
  | .tuple _ => []

theorem schema_closed : ∀ s ∈ Gen.schema, ∀ f ∈ s.fields, ∀ n ∈ tyRefs f.ty, n ∈ Gen.schema.map (·.name) := by
  decide +kernel

theorem schema_names_nodup : (Gen.schema.map (·.name)).Nodup := by decide +kernel

/-- the root of the format is present -/
theorem schema_has_model : "Model" ∈ Gen.schema.map (·.name) := by decide +kernel

/-! ### material properties: two untagged alternatives flattened into the material -/

def altFields (alts : List FieldT) : List Field := alts.map (·.field)

/-- the alternatives of every untagged enum have distinct keys, the first one has a required key the
second never writes (so a resistance-only material is never read as a detailed one), and no
alternative uses a key of the struct it is flattened into -/
theorem untagged_ok :
    ∀ u ∈ Gen.untaggedAlts, ∀ a ∈ u.2, ((altFields a).map (·.key)).Nodup := by decide +kernel

theorem matprops_distinguishable :
    ∃ f ∈ altFields Gen.fields_MatProps_Detailed,
      (match f.rule with | .req => true | _ => false) = true ∧
      f.key ∉ (altFields Gen.fields_MatProps_Resistance).map (·.key) :=
  ⟨{ key := "conductivity", rule := .req }, by simp [altFields, Gen.fields_MatProps_Detailed], rfl, by decide +kernel⟩

theorem matprops_no_clash :
    ∀ k ∈ (ownFields { name := "Material", fields := Gen.fields_Material }).map (·.key),
      k ∉ (altFields Gen.fields_MatProps_Detailed).map (·.key) ∧
      k ∉ (altFields Gen.fields_MatProps_Resistance).map (·.key) := by decide +kernel

/-- both material variants load back as themselves -/
theorem matprops_roundtrip (vs : List J) :
    (vs.length = (altFields Gen.fields_MatProps_Detailed).length →
      decodeEither (altFields Gen.fields_MatProps_Detailed) (altFields Gen.fields_MatProps_Resistance)
        (encodeFields (altFields Gen.fields_MatProps_Detailed) vs) = some (true, vs)) ∧
    (vs.length = (altFields Gen.fields_MatProps_Resistance).length →
      decodeEither (altFields Gen.fields_MatProps_Detailed) (altFields Gen.fields_MatProps_Resistance)
        (encodeFields (altFields Gen.fields_MatProps_Resistance) vs) = some (false, vs)) := by
  constructor
  · intro h
    exact untagged_first _ _ vs h (by decide +kernel)
  · intro h
    exact untagged_second _ _ vs h (by decide +kernel) { key := "conductivity", rule := .req }
      (by simp [altFields, Gen.fields_MatProps_Detailed]) rfl (by decide +kernel)

/-! ### non-vacuity: the space struct, a value that exercises skip and default -/
example : (ownFields { name := "Space", fields := Gen.fields_Space }).length = 11 := by decide +kernel

end Cte.C04
