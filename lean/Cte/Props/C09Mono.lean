/-
C09 (sign, monotonicity, scaling) — corollaries of the DB-HE formula `n50Formula`: with non-negative
permeabilities and areas and a positive volume the reference n50 is non-negative, it grows with the
opaque permeability C_o and with the windows' Σ C_h·A_h, and scaling every length by s (areas s²,
volume s³) divides it by s (the compactness effect: larger buildings of the same shape are tighter).
-/
import Cte.Props.C09
import Mathlib.Algebra.Order.Field.Basic
import Mathlib.Tactic.Linarith
import Mathlib.Tactic.Positivity
namespace Cte.C09

theorem n50Formula_nonneg (cO aO cAH vol : Rat) (h1 : 0 ≤ cO) (h2 : 0 ≤ aO) (h3 : 0 ≤ cAH) (hv : 0 < vol) :
    0 ≤ n50Formula cO aO cAH vol := by
  unfold n50Formula
  apply div_nonneg _ (le_of_lt hv)
  have : 0 ≤ cO * aO := mul_nonneg h1 h2
  have : 0 ≤ cO * aO + cAH := by linarith
  exact mul_nonneg (by norm_num) this

/-- more permeable opaque elements: no smaller n50 -/
theorem n50Formula_mono_cO (cO cO2 aO cAH vol : Rat) (h : cO ≤ cO2) (h2 : 0 ≤ aO) (hv : 0 < vol) :
    n50Formula cO aO cAH vol ≤ n50Formula cO2 aO cAH vol := by
  unfold n50Formula
  apply div_le_div_of_nonneg_right _ (le_of_lt hv)
  have : cO * aO ≤ cO2 * aO := mul_le_mul_of_nonneg_right h h2
  linarith

/-- more permeable windows: no smaller n50 -/
theorem n50Formula_mono_cAH (cO aO cAH cAH2 vol : Rat) (h : cAH ≤ cAH2) (hv : 0 < vol) :
    n50Formula cO aO cAH vol ≤ n50Formula cO aO cAH2 vol := by
  unfold n50Formula
  apply div_le_div_of_nonneg_right _ (le_of_lt hv)
  linarith

/-- lengths × s: areas × s², volume × s³, n50 ÷ s -/
theorem n50Formula_scale (s cO aO cAH vol : Rat) (hs : s ≠ 0) (hv : vol ≠ 0) :
    n50Formula cO (s * s * aO) (s * s * cAH) (s * s * s * vol) = n50Formula cO aO cAH vol / s := by
  unfold n50Formula
  field_simp

/-- the reported reference value is non-negative on every branch (volume guard included) when the
inputs are -/
theorem n50Ref_nonneg (walls : List WallP) (wins : List WinP) (wc : List WinConsP) (vol cO : Rat)
    (test : Option Rat) (h1 : 0 ≤ cO) (h2 : 0 ≤ aO walls) (h3 : 0 ≤ cAH walls wins wc) :
    0 ≤ (n50Data walls wins wc vol cO test).n50Ref := by
  by_cases hv : vol > 1 / 1000
  · rw [n50ref_eq_spec walls wins wc vol cO test hv]
    exact n50Formula_nonneg _ _ _ _ h1 h2 h3 (by linarith)
  · rw [n50_zero_volume walls wins wc vol cO test (not_lt.mp hv)]

/-! ## non-vacuity -/
example : n50Formula 16 100 500 300 = 629 / 1000 * 2100 / 300 := by decide +kernel
example : n50Formula 16 (2 * 2 * 100) (2 * 2 * 500) (2 * 2 * 2 * 300) = n50Formula 16 100 500 300 / 2 := by decide +kernel

end Cte.C09
