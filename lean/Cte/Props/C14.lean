/-
C14 — Indicator computation is total: never crashes or hangs, finite on sane models.
The model of the indicator pipeline is a total function by construction (every lookup is an
`Option`, every fold is structural); the theorems here say that each division it performs is
guarded, or has a non-zero denominator under the sanity conditions.
-/
import Cte.Model.Energy
import Cte.Model.Schedules
import Cte.Props.C08
import Cte.Props.C09
import Cte.Props.C10
import Cte.Lemmas.Round
namespace Cte.C14

/-! ## air-contact U-values: the denominator is positive for non-negative resistances -/

theorem rsi_pos (t : TiltC) : 0 < rsiOf t := by
  cases t <;> norm_num [rsiOf, RSI_DESC, RSI_ASC, RSI_HOR]

theorem uExterior_denominator_pos (t : TiltC) (r : Rat) (h : 0 ≤ r) : 0 < r + rsiOf t + RSE := by
  have := rsi_pos t
  have : (0 : Rat) < RSE := by norm_num [RSE]
  linarith

theorem partition_denominator_pos (tc nc : Bool) (t : TiltC) (r : Rat) (h : 0 ≤ r) :
    0 < r + 2 * partitionRsi tc nc t := by
  have : 0 < partitionRsi tc nc t := by
    cases tc <;> cases nc <;> cases t <;> norm_num [partitionRsi, RSI_DESC, RSI_ASC, RSI_HOR]
  linarith

/-- the resistance of a stack of layers with non-negative thickness and positive conductivity /
non-negative resistance is non-negative -/
theorem layerResistance_nonneg (db : ConsDb) (l : Layer) (r : Rat) (he : 0 ≤ l.e)
    (hm : ∀ mat, db.getMaterial l.material = some mat → ∀ rr vd, mat.properties = .resistance rr vd → 0 ≤ rr)
    (h : layerResistance db l = some r) : 0 ≤ r := by
  unfold layerResistance at h
  cases hmat : db.getMaterial l.material with
  | none => simp [hmat] at h
  | some mat =>
    simp only [hmat] at h
    cases hp : mat.properties with
    | detailed k d sh vd =>
      simp only [hp] at h
      by_cases hk : k > 0
      · simp only [hk, if_true, Option.some.injEq] at h
        rw [← h]; exact div_nonneg he (le_of_lt hk)
      · simp [hk] at h
    | resistance rr vd =>
      simp only [hp, Option.some.injEq] at h
      rw [← h]; exact hm mat hmat rr vd hp

/-- same-conditioning partitions and air-contact elements of a construction with non-negative
resistance never divide by zero: the flag `nf` is off -/
theorem uExterior_finite (F : Fns) (w : Wall) (m : Model) (c : WallCons) (r : Rat)
    (hbd : w.bounds = .exterior ∨ w.bounds = .adiabatic)
    (hc : m.cons.getWallCons w.cons = some c) (hr : c.resistance m.cons = some r) :
    ∃ u, w.uValue F m = some u ∧ u.nf = false := by
  rcases hbd with h | h <;>
    exact ⟨{ v := F.r2 (uExteriorRaw w.tiltC r) }, by simp [Wall.uValue, Wall.uNonInterior, Wall.uExterior, h, hc, hr], rfl⟩

/-! ## aggregates: every division is guarded -/

/-- K divides only when the envelope area is at least 0.01 m² -/
theorem k_guarded (walls : List WallP) (wins : List WinP) (tbs : List ThermalBridge) :
    (kData walls wins tbs).k = 0 ∨ (1 / 100 ≤ (kData walls wins tbs).a ∧
      (kData walls wins tbs).k = (kData walls wins tbs).au / (kData walls wins tbs).a) := by
  have h := (C08.k_eq_spec walls wins tbs).2.2.2.2.2.2.2
  by_cases ha : (kData walls wins tbs).a < 1 / 100
  · left; rw [h, if_pos ha]
  · right; exact ⟨not_lt.mp ha, by rw [h, if_neg ha]⟩

/-- category means divide only when the category area exceeds 0.001 m² -/
theorem mean_guarded (e : KElem) (v : Rat) (h : e.withMean.uMean = some v) (h0 : e.uMean = none) :
    1 / 1000 < e.a ∧ v = e.au / e.a := by
  unfold KElem.withMean at h
  by_cases ha : e.a > 1 / 1000
  · simp only [ha, if_true, Option.some.injEq] at h
    exact ⟨ha, h.symm⟩
  · simp only [ha, if_false] at h; rw [h0] at h; cases h

/-- n50 divides by the volume only when it exceeds 0.001 m³ and by the wall area only above 0.001 m² -/
theorem n50_guarded (walls : List WallP) (wins : List WinP) (wc : List WinConsP) (vol cO : Rat) (test : Option Rat) :
    (n50Data walls wins wc vol cO test).n50Ref = 0 ∨ 1 / 1000 < vol := by
  by_cases hv : vol > 1 / 1000
  · exact Or.inr hv
  · left
    have := (C09.n50_zero_volume walls wins wc vol cO test (not_lt.mp hv))
    exact this

/-- q_sol;jul and its means divide only by positive areas -/
theorem qsol_guarded (wins : List WinP) (wc : List WinConsP) (rad : Orient → Option Rat) (aRef : Rat) :
    let q := qSolJul wins wc rad aRef
    (q.q = 0 ∨ 0 < aRef) ∧ (q.gMean = q.gSum ∨ 0 < q.aWp) := by
  constructor
  · by_cases h : aRef > 0
    · exact Or.inr h
    · left; simp [qSolJul, h]
  · by_cases h : (qSolJul wins wc rad aRef).aWp > 0
    · exact Or.inr h
    · left
      have h' : ¬ rsum (((qTerms wins wc rad).filterMap id).map (·.area)) > 0 := h
      show guardedMean _ _ = _
      unfold guardedMean
      rw [if_neg h']
      rfl

/-- the building ventilation rate is a finite number whenever the reference volume is not zero -/
theorem vent_finite (n : Option Rat) (vol : Rat) (h : vol ≠ 0) : ∃ r, ventOf n vol = .fin r := by
  unfold ventOf
  cases n with
  | none => exact ⟨0, rfl⟩
  | some v => simp [h]

/-- compactness divides only by a non-zero exposed area -/
theorem compactness_guarded (F : Fns) (m : Model) :
    (m.globalProps F).compactness = 0 ∨ (m.globalProps F).exposedArea ≠ 0 := by
  by_cases h : (m.globalProps F).exposedArea = 0
  · left
    have : (m.globalProps F).compactness =
        (if (m.globalProps F).exposedArea = 0 then 0 else (m.globalProps F).volEnvGross / (m.globalProps F).exposedArea) := rfl
    rw [this, if_pos h]
  · exact Or.inr h

/-! ## schedules: no lookup can fail -/

/-- the expansion of a yearly schedule is defined for any id and any database (missing year, missing
or empty week: no days) -/
theorem yearAsDays_missing (db : SchedulesDb) (id : Id) (h : db.getYear id = none) : yearAsDays db id = [] := by
  simp [yearAsDays, h]

/-- a day id that is not among the daily schedules contributes 0 to an average and no occupied hour -/
theorem missing_day_no_hours (m : Model) (ids : List Id) (h : ∀ i ∈ ids, m.dayProps.find? (·.id = i) = none) :
    dayHoursInUse m ids = 0 := by
  unfold dayHoursInUse
  have : (ids.eraseDups).filterMap (fun i => m.dayProps.find? (·.id = i)) = [] := by
    apply List.filterMap_eq_nil_iff.2
    intro i hi
    exact h i (by simpa using hi)
  rw [this]
  simp [List.filter_eq_nil_iff]

/-- **ground slabs** (EN ISO 13370, `u_value_gnd_slab`): with a positive equivalent thickness the result is a finite number for every
    characteristic dimension ≥ 0 — including 0, the value the code uses for a null-area slab (before the repair F-C14b the perimeter
    term 2ψ/B' divided by that 0) -/
theorem uGndSlab_finite (F : Fns) (hpi : 0 < F.pi) (z dt bp psi : Rat) (hB : 0 < dt + z / 2) (hbp : 0 ≤ bp) :
    (uGndSlab F z dt bp psi).nf = false := by
  have h1 : ¬ (dt + z / 2 = 0) := by intro h; rw [h] at hB; exact absurd hB (by decide)
  have h2 : ¬ (F.pi * bp + (dt + z / 2) = 0) := by
    have : 0 ≤ F.pi * bp := mul_nonneg (le_of_lt hpi) hbp
    intro h; linarith
  have h3 : ¬ (457 / 1000 * bp + (dt + z / 2) = 0) := by
    have : (0 : Rat) ≤ 457 / 1000 * bp := mul_nonneg (by norm_num) hbp
    intro h; linarith
  simp [uGndSlab, h1, h2, h3]

/-! ## the remaining ground and partition branches under the sanity conditions -/

theorem rsum_pos_of_pos {l : List Rat} (hne : l ≠ []) (h : ∀ x ∈ l, 0 < x) : 0 < rsum l := by
  cases l with
  | nil => exact absurd rfl hne
  | cons a t =>
    rw [rsum_cons]
    have h0 : 0 ≤ rsum t := rsum_nonneg (fun x hx => le_of_lt (h x (by simp [hx])))
    have := h a (by simp)
    linarith

/-- **equivalent thickness of the slabs of a space** (`slab_d_t`): with slabs of positive area the area-weighted mean divides by a
    positive total and is itself positive (each term is at least 0.3 + λ(Rsi + Rse) times its area) -/
theorem slabDt_finite (s : Space) (walls : List Wall) (db : ConsDb) (dt : NV)
    (harea : ∀ w ∈ walls, 0 < w.area)
    (hres : ∀ w ∈ walls, ∀ c r, db.getWallCons w.cons = some c → c.resistance db = some r → 0 ≤ r)
    (h : s.slabDt walls db = some dt) : dt.nf = false ∧ 0 < dt.v := by
  unfold Space.slabDt at h
  dsimp only at h
  split at h
  · exact absurd h (by simp)
  · rename_i hne
    have hsub : ∀ w ∈ (s.wallsOf walls).filter (fun w => w.tiltC = .bottom && w.bounds = .ground), w ∈ walls := by
      intro w hw
      have := (List.mem_filter.mp hw).1
      unfold Space.wallsOf at this
      exact (List.mem_filter.mp this).1
    generalize hsl : (s.wallsOf walls).filter (fun w => w.tiltC = .bottom && w.bounds = .ground) = slabs at h hne hsub
    have hne2 : slabs ≠ [] := by intro e; rw [e] at hne; exact hne rfl
    have hA : 0 < rsum (slabs.map Wall.area) := by
      apply rsum_pos_of_pos (by simpa using hne2)
      intro x hx
      obtain ⟨w, hw, rfl⟩ := List.mem_map.mp hx
      exact harea w (hsub w hw)
    have hE : 0 < rsum (slabs.map (fun w =>
        w.area * (3 / 10 + LAMBDA_GND * (RSI_DESC + ((db.getWallCons w.cons).bind (fun c => c.resistance db)).getD 0 + RSE)))) := by
      apply rsum_pos_of_pos (by simpa using hne2)
      intro x hx
      obtain ⟨w, hw, rfl⟩ := List.mem_map.mp hx
      have ha := harea w (hsub w hw)
      have hr : 0 ≤ ((db.getWallCons w.cons).bind (fun c => c.resistance db)).getD 0 := by
        cases hc : db.getWallCons w.cons with
        | none => simp
        | some c =>
          cases hrr : c.resistance db with
          | none => simp [hrr]
          | some r => simpa [hrr] using hres w (hsub w hw) c r hc hrr
      apply mul_pos ha
      have : (0 : Rat) < 3 / 10 + LAMBDA_GND * (RSI_DESC + 0 + RSE) := by unfold LAMBDA_GND RSI_DESC RSE; norm_num
      have hl : (0 : Rat) ≤ LAMBDA_GND := by unfold LAMBDA_GND; norm_num
      nlinarith
    simp only [Option.some.injEq] at h
    subst h
    refine ⟨by simpa using ne_of_gt hA, div_pos hE hA⟩

/-- **perimeter insulation term** (`slab_psi_gnd_ext`): for a positive equivalent thickness and non-negative insulation data both
    logarithms have arguments ≥ 1 and both quotients a positive denominator -/
theorem slabPsi_finite (F : Fns) (m : Model) (dt : Rat) (hdt : 0 < dt)
    (hD : 0 ≤ m.info.dPerimInsulation) (hR : 0 ≤ m.info.rnPerimInsulation) : (slabPsi F m dt).nf = false := by
  have hd1 : 0 ≤ m.info.rnPerimInsulation * (LAMBDA_GND - LAMBDA_INS) :=
    mul_nonneg hR (by unfold LAMBDA_GND LAMBDA_INS; norm_num)
  have h1 : ¬ dt = 0 := ne_of_gt hdt
  have h2 : ¬ dt + m.info.rnPerimInsulation * (LAMBDA_GND - LAMBDA_INS) = 0 := by intro h; linarith
  have h3 : ¬ 1 + m.info.dPerimInsulation / dt ≤ 0 := by
    have : 0 ≤ m.info.dPerimInsulation / dt := div_nonneg hD (le_of_lt hdt)
    intro h; linarith
  have h4 : ¬ 1 + m.info.dPerimInsulation / (dt + m.info.rnPerimInsulation * (LAMBDA_GND - LAMBDA_INS)) ≤ 0 := by
    have : 0 ≤ m.info.dPerimInsulation / (dt + m.info.rnPerimInsulation * (LAMBDA_GND - LAMBDA_INS)) :=
      div_nonneg hD (by linarith)
    intro h; linarith
  simp [slabPsi, h1, h2, h3, h4]

/-- **buried walls** (`u_value_gnd_wall`): with a positive air-contact U, a depth ≥ 0 and a positive equivalent floor thickness no
    division fails — the net height divides only when the wall rises above the ground, and then it is larger than the depth -/
theorem uGndWall_finite (F : Fns) (z uw dt hNet : Rat) (huw : 0 < uw) (hz : 0 ≤ z) (hdt : 0 < dt) :
    (uGndWall F z uw dt hNet).nf = false := by
  unfold uGndWall
  by_cases hzz : rabs z < 1 / 100
  · rw [if_pos hzz]
  · rw [if_neg hzz]
    have hzpos : 0 < z := by
      unfold rabs at hzz
      split at hzz
      · linarith
      · have : (1 : Rat) / 100 ≤ z := not_lt.mp hzz
        have h0 : (0 : Rat) < 1 / 100 := by norm_num
        linarith
    have hdw : 0 < LAMBDA_GND / uw := div_pos (by unfold LAMBDA_GND; norm_num) huw
    have hmin : 0 < rmin (LAMBDA_GND / uw) dt := by unfold rmin; split <;> assumption
    have h1 : ¬ uw = 0 := ne_of_gt huw
    have h2 : ¬ rmin (LAMBDA_GND / uw) dt + z = 0 := by intro h; linarith
    by_cases hgt : hNet > z
    · have h3 : ¬ hNet = 0 := by intro e; rw [e] at hgt; linarith
      simp only [hgt, if_true]
      split <;> simp [h1, h2, h3]
    · have : rabs (0 : Rat) < f32Eps := by unfold rabs f32Eps; norm_num
      simp only [hgt, if_false, this, if_true]
      simp [h1, h2]

/-- **partitions towards an unconditioned space** (`u_value_interior_cond_uncond`): for a wall of positive area, a construction of
    positive total resistance, non-negative losses of the neighbour and a positive volume with a finite ventilation rate ≥ 0 the result
    is finite -/
theorem uCondUncond_finite (F : Fns) (ai rf ua vol n : Rat) (hai : 0 < ai) (hrf : 0 < rf) (hua : 0 ≤ ua)
    (hvol : 0 ≤ vol) (hn : 0 ≤ n) : (uCondUncond F ai rf ua vol (.fin n)).nf = false := by
  unfold uCondUncond
  simp only []
  have hh : 0 ≤ ua + 33 / 100 * (vol * n) := by
    have : 0 ≤ vol * n := mul_nonneg hvol hn
    linarith
  split
  · simp [ne_of_gt hai]
  · rename_i hne
    have hpos : 0 < ua + 33 / 100 * (vol * n) := lt_of_le_of_ne hh (Ne.symm hne)
    have : 0 < rf + ai / (ua + 33 / 100 * (vol * n)) := by
      have := div_pos hai hpos
      linarith
    simp [ne_of_gt this]

/-- the ventilation rate entering that formula is finite and non-negative for a positive volume -/
theorem ventOf_fin_nonneg (n : Option Rat) (vol : Rat) (hvol : 0 < vol) (hn : ∀ x, n = some x → 0 ≤ x) :
    ∃ r, ventOf n vol = .fin r ∧ 0 ≤ r := by
  cases n with
  | none => exact ⟨0, rfl, le_refl _⟩
  | some x =>
    refine ⟨36 / 10 * x / vol, by simp [ventOf, ne_of_gt hvol], ?_⟩
    have := hn x rfl
    exact div_nonneg (mul_nonneg (by norm_num) this) (le_of_lt hvol)

theorem rmax_ge_right (a b : Rat) : b ≤ rmax a b := by
  unfold rmax
  split
  · exact le_refl _
  · rename_i h; exact not_lt.mp h

/-- **characteristic dimension** (`slab_char_dim`): never negative — a null-area slab gives 0, any other divides its area by half a
    perimeter that is at least 1 cm -/
theorem slabCharDim_nonneg (F : Fns) (hb : F.bias = 0) (s : Space) (walls : List Wall) (spaces : List Space) (d : Rat)
    (h : s.slabCharDim F walls spaces = some d) : 0 ≤ d := by
  unfold Space.slabCharDim at h
  dsimp only at h
  split at h
  · exact absurd h (by simp)
  · rename_i g _ _
    split at h
    · simp only [Option.some.injEq] at h; rw [← h]
    · rename_i hg
      simp only [Option.some.injEq] at h
      rw [← h, Fns.r2_unbiased F hb]
      apply round2_nonneg
      have hgA : 0 ≤ g.area := by
        have : (1 : Rat) / 1000 ≤ g.area := not_lt.mp hg
        have h0 : (0 : Rat) ≤ 1 / 1000 := by norm_num
        linarith
      apply div_nonneg hgA
      apply mul_nonneg (by norm_num)
      have := rmax_ge_right (if (sideAreas s spaces (s.wallsOf walls)).1 < 1 / 1000 then 0
        else F.r2 (polyPerimeter F g.geometry.polygon * (sideAreas s spaces (s.wallsOf walls)).2 / (sideAreas s spaces (s.wallsOf walls)).1)) (1 / 100)
      have h0 : (0 : Rat) ≤ 1 / 100 := by norm_num
      exact le_trans h0 this

/-- **every ground element of a sane model has a finite U** (`Wall::u_value`, GROUND arm): walls of positive area, constructions of
    non-negative resistance, non-negative perimeter insulation data, the space not above ground level by more than its own depth
    convention (`z` is clamped at 0), and an air-contact U that does not round to 0 -/
theorem ground_uValue_finite (F : Fns) (hb : F.bias = 0) (hpi : 0 < F.pi) (w : Wall) (m : Model) (c : WallCons) (r : Rat) (u : NV)
    (hbd : w.bounds = .ground)
    (hc : m.cons.getWallCons w.cons = some c) (hr : c.resistance m.cons = some r)
    (huw : 0 < F.r2 (uExteriorRaw w.tiltC r))
    (harea : ∀ x ∈ m.walls, 0 < x.area)
    (hres : ∀ x ∈ m.walls, ∀ c r, m.cons.getWallCons x.cons = some c → c.resistance m.cons = some r → 0 ≤ r)
    (hD : 0 ≤ m.info.dPerimInsulation) (hR : 0 ≤ m.info.rnPerimInsulation)
    (h : w.uValue F m = some u) : u.nf = false := by
  simp only [Wall.uValue, hbd, Wall.uNonInterior, hc, hr, Wall.uExterior, Option.map_some] at h
  split at h
  · rename_i uw sp huw2 hsp
    simp only [Option.some.injEq] at huw2
    split at h
    · exact absurd h (by simp)
    · rename_i dt hdt
      obtain ⟨hdnf, hdpos⟩ := slabDt_finite sp m.walls m.cons dt harea hres hdt
      have hz : 0 ≤ rmax (-sp.z) 0 := rmax_ge_right _ _
      have hpsi := slabPsi_finite F m dt.v hdpos hD hR
      split at h
      · simp only [Option.some.injEq] at h; rw [← h]
      · simp only [Option.some.injEq] at h
        rw [← h]
        have hcd : 0 ≤ (sp.slabCharDim F m.walls m.spaces).getD 0 := by
          cases hq : sp.slabCharDim F m.walls m.spaces with
          | none => simp
          | some d => simpa using slabCharDim_nonneg F hb sp m.walls m.spaces d hq
        have hB : 0 < dt.v + rmax (-sp.z) 0 / 2 := by linarith
        simp [uGndSlab_finite F hpi _ _ _ _ hB hcd, hdnf, hpsi]
      · simp only [Option.some.injEq] at h
        rw [← h]
        have := uGndWall_finite F (rmax (-sp.z) 0) uw dt.v (sp.heightNet F m.walls m.cons) (by rw [← huw2]; exact huw) hz hdpos
        simp [this, hdnf]
  · exact absurd h (by simp)

/-- the losses of a space through its external and ground elements carry no failed division when none of those elements does -/
theorem uaExt_nf (F : Fns) (m : Model) (s : Space)
    (h : ∀ w ∈ m.walls, ∀ u, w.uNonInterior F m = some u → u.nf = false) : (s.uaExt F m).nf = false := by
  unfold Space.uaExt
  dsimp only
  have hsub : ∀ w ∈ (s.wallsOf m.walls).filter (fun w => w.bounds = .ground || w.bounds = .exterior), w ∈ m.walls := by
    intro w hw
    have := (List.mem_filter.mp hw).1
    unfold Space.wallsOf at this
    exact (List.mem_filter.mp this).1
  generalize (s.wallsOf m.walls).filter (fun w => w.bounds = .ground || w.bounds = .exterior) = ws at hsub
  suffices H : ∀ (acc : NV), acc.nf = false → ∀ l : List Wall, (∀ w ∈ l, w ∈ m.walls) →
      (l.foldl (fun (acc : NV) w =>
        match w.uNonInterior F m with
        | none => acc
        | some u =>
          { v := acc.v + (w.areaNet F m.windows * u.v + rsum ((m.windows.filter (fun x => x.wall = w.id)).filterMap (fun win =>
              match (m.cons.getWinCons win.cons).bind (fun c => c.uValue F m.cons) with
              | some uu => some (win.area * uu)
              | none => none))), nf := acc.nf || u.nf }) acc).nf = false from H { v := 0 } rfl ws hsub
  intro acc hacc l
  induction l generalizing acc with
  | nil => intro _; exact hacc
  | cons w t ih =>
    intro hl
    rw [List.foldl_cons]
    apply ih
    · cases hu : w.uNonInterior F m with
      | none => exact hacc
      | some u => simp [hacc, h w (hl w (by simp)) u hu]
    · intro x hx; exact hl x (by simp [hx])

/-- what the partition formula needs from the unconditioned side -/
def UncondOK (F : Fns) (m : Model) (s : Space) : Prop :=
  (s.uaExt F m).nf = false ∧ 0 ≤ (s.uaExt F m).v ∧ 0 ≤ s.area m.walls * s.heightNet F m.walls m.cons ∧
  ∃ n, (match s.nV with | some n => Vent.fin n | none => m.globalVentilationU F) = .fin n ∧ 0 ≤ n

/-- **every partition of a sane model has a finite U** (`Wall::u_value`, INTERIOR arm): a wall of positive area whose construction has a
    non-negative resistance, between spaces that resolve; when exactly one side is conditioned, the other side has finite non-negative
    losses, a non-negative volume and a finite non-negative ventilation rate -/
theorem partition_uValue_finite (F : Fns) (w : Wall) (m : Model) (c : WallCons) (r : Rat) (u : NV)
    (hbd : w.bounds = .interior) (harea : 0 < w.area)
    (hc : m.cons.getWallCons w.cons = some c) (hr : c.resistance m.cons = some r) (hr0 : 0 ≤ r)
    (hok : ∀ s ∈ m.spaces, UncondOK F m s)
    (h : w.uValue F m = some u) : u.nf = false := by
  have hrsi : ∀ t, 0 < rsiOf t := rsi_pos
  simp only [Wall.uValue, hbd, hc, hr] at h
  split at h
  · exact absurd h (by simp)
  · rename_i sp hsp
    have hspm : sp ∈ m.spaces := by unfold Model.getSpace at hsp; exact List.mem_of_find?_eq_some hsp
    split at h
    · simp only [Option.map_some, Option.some.injEq] at h
      rw [← h]
      have := hrsi w.tiltC
      have : ¬ r + 2 * rsiOf w.tiltC = 0 := by intro e; linarith
      simp [this]
    · split at h
      · exact absurd h (by simp)
      · rename_i nid _ nx hnx
        have hnxm : nx ∈ m.spaces := by unfold Model.getSpace at hnx; exact List.mem_of_find?_eq_some hnx
        have hrf : 0 < r + 2 * partitionRsi (decide (sp.kind = .conditioned)) (decide (nx.kind = .conditioned)) w.tiltC :=
          partition_denominator_pos _ _ _ r hr0
        split at h
        · simp only [Option.some.injEq] at h
          rw [← h]
          simp [ne_of_gt hrf]
        · simp only [Option.some.injEq] at h
          rw [← h]
          have key : ∀ un ∈ m.spaces, ((uCondUncond F w.area
              (r + 2 * partitionRsi (decide (sp.kind = .conditioned)) (decide (nx.kind = .conditioned)) w.tiltC)
              (un.uaExt F m).v (un.area m.walls * un.heightNet F m.walls m.cons)
              (match un.nV with | some n => Vent.fin n | none => m.globalVentilationU F)).nf || (un.uaExt F m).nf) = false := by
            intro un hun
            obtain ⟨h1, h2, h3, n, h4, h5⟩ := hok un hun
            rw [h4, uCondUncond_finite F _ _ _ _ n harea hrf h2 h3 h5, h1]
            rfl
          split
          · exact key nx hnxm
          · exact key sp hspm

/-! ## non-vacuity: a concrete buried room on which the hypotheses of `ground_uValue_finite` hold -/

def exDb : ConsDb :=
  { wallcons := [{ id := "c", absorptance := 0.6, layers := [{ material := "m1", e := 0.2 }] }],
    materials := [{ id := "m1", properties := .detailed 1 1000 1000 none }] }
def exSlab : Wall :=
  { id := "f", bounds := .ground, cons := "c", space := "s",
    geometry := { tilt := 180, azimuth := 0, polygon := [⟨0, 0⟩, ⟨4, 0⟩, ⟨4, 5⟩, ⟨0, 5⟩] } }
def exSide : Wall :=
  { id := "w", bounds := .ground, cons := "c", space := "s",
    geometry := { tilt := 90, azimuth := 0, polygon := [⟨0, 0⟩, ⟨4, 0⟩, ⟨4, 3⟩, ⟨0, 3⟩] } }
def exModel : Model :=
  { Model.dflt with cons := exDb, spaces := [{ id := "s", height := 3, z := -2 }], walls := [exSlab, exSide] }

example : ((exSide.uValue Fns.approx exModel).map (·.nf), (exSlab.uValue Fns.approx exModel).map (·.nf)) = (some false, some false) := by
  decide +kernel

example : (∀ x ∈ exModel.walls, 0 < x.area) ∧ 0 ≤ exModel.info.dPerimInsulation ∧ 0 ≤ exModel.info.rnPerimInsulation ∧
    0 < Fns.approx.r2 (uExteriorRaw exSide.tiltC (1 / 5)) := by
  refine ⟨?_, by decide +kernel, by decide +kernel, by decide +kernel⟩
  intro x hx
  simp only [exModel, List.mem_cons, List.mem_nil_iff, or_false] at hx
  rcases hx with rfl | rfl <;> decide +kernel

end Cte.C14
