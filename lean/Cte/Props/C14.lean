/-
C14 — Indicator computation is total: never crashes or hangs, finite on sane models.
The model of the indicator pipeline is a total function by construction (every lookup is an
`Option`, every fold is structural); the theorems here say that each division it performs is
guarded, or has a non-zero denominator under the sanity conditions.
-/
import Cte.Model.Energy
import Cte.Model.Schedules
import Cte.Props.C08
import Cte.Props.C09
import Cte.Props.C10
import Cte.Lemmas.Round
namespace Cte.C14

/-! ## air-contact U-values: the denominator is positive for non-negative resistances -/

theorem rsi_pos (t : TiltC) : 0 < rsiOf t := by
  cases t <;> norm_num [rsiOf, RSI_DESC, RSI_ASC, RSI_HOR]

theorem uExterior_denominator_pos (t : TiltC) (r : Rat) (h : 0 ≤ r) : 0 < r + rsiOf t + RSE := by
  have := rsi_pos t
  have : (0 : Rat) < RSE := by norm_num [RSE]
  linarith

theorem partition_denominator_pos (tc nc : Bool) (t : TiltC) (r : Rat) (h : 0 ≤ r) :
    0 < r + 2 * partitionRsi tc nc t := by
  have : 0 < partitionRsi tc nc t := by
    cases tc <;> cases nc <;> cases t <;> norm_num [partitionRsi, RSI_DESC, RSI_ASC, RSI_HOR]
  linarith

/-- the resistance of a stack of layers with non-negative thickness and positive conductivity /
non-negative resistance is non-negative -/
theorem layerResistance_nonneg (db : ConsDb) (l : Layer) (r : Rat) (he : 0 ≤ l.e)
    (hm : ∀ mat, db.getMaterial l.material = some mat → ∀ rr vd, mat.properties = .resistance rr vd → 0 ≤ rr)
    (h : layerResistance db l = some r) : 0 ≤ r := by
  unfold layerResistance at h
  cases hmat : db.getMaterial l.material with
  | none => simp [hmat] at h
  | some mat =>
    simp only [hmat] at h
    cases hp : mat.properties with
    | detailed k d sh vd =>
      simp only [hp] at h
      by_cases hk : k > 0
      · simp only [hk, if_true, Option.some.injEq] at h
        rw [← h]; exact div_nonneg he (le_of_lt hk)
      · simp [hk] at h
    | resistance rr vd =>
      simp only [hp, Option.some.injEq] at h
      rw [← h]; exact hm mat hmat rr vd hp

/-- same-conditioning partitions and air-contact elements of a construction with non-negative
resistance never divide by zero: the flag `nf` is off -/
theorem uExterior_finite (F : Fns) (w : Wall) (m : Model) (c : WallCons) (r : Rat)
    (hbd : w.bounds = .exterior ∨ w.bounds = .adiabatic)
    (hc : m.cons.getWallCons w.cons = some c) (hr : c.resistance m.cons = some r) :
    ∃ u, w.uValue F m = some u ∧ u.nf = false := by
  rcases hbd with h | h <;>
    exact ⟨{ v := F.r2 (uExteriorRaw w.tiltC r) }, by simp [Wall.uValue, Wall.uNonInterior, Wall.uExterior, h, hc, hr], rfl⟩

/-! ## aggregates: every division is guarded -/

/-- K divides only when the envelope area is at least 0.01 m² -/
theorem k_guarded (walls : List WallP) (wins : List WinP) (tbs : List ThermalBridge) :
    (kData walls wins tbs).k = 0 ∨ (1 / 100 ≤ (kData walls wins tbs).a ∧
      (kData walls wins tbs).k = (kData walls wins tbs).au / (kData walls wins tbs).a) := by
  have h := (C08.k_eq_spec walls wins tbs).2.2.2.2.2.2.2
  by_cases ha : (kData walls wins tbs).a < 1 / 100
  · left; rw [h, if_pos ha]
  · right; exact ⟨not_lt.mp ha, by rw [h, if_neg ha]⟩

/-- category means divide only when the category area exceeds 0.001 m² -/
theorem mean_guarded (e : KElem) (v : Rat) (h : e.withMean.uMean = some v) (h0 : e.uMean = none) :
    1 / 1000 < e.a ∧ v = e.au / e.a := by
  unfold KElem.withMean at h
  by_cases ha : e.a > 1 / 1000
  · simp only [ha, if_true, Option.some.injEq] at h
    exact ⟨ha, h.symm⟩
  · simp only [ha, if_false] at h; rw [h0] at h; cases h

/-- n50 divides by the volume only when it exceeds 0.001 m³ and by the wall area only above 0.001 m² -/
theorem n50_guarded (walls : List WallP) (wins : List WinP) (wc : List WinConsP) (vol cO : Rat) (test : Option Rat) :
    (n50Data walls wins wc vol cO test).n50Ref = 0 ∨ 1 / 1000 < vol := by
  by_cases hv : vol > 1 / 1000
  · exact Or.inr hv
  · left
    have := (C09.n50_zero_volume walls wins wc vol cO test (not_lt.mp hv))
    exact this

/-- q_sol;jul and its means divide only by positive areas -/
theorem qsol_guarded (wins : List WinP) (wc : List WinConsP) (rad : Orient → Option Rat) (aRef : Rat) :
    let q := qSolJul wins wc rad aRef
    (q.q = 0 ∨ 0 < aRef) ∧ (q.gMean = q.gSum ∨ 0 < q.aWp) := by
  constructor
  · by_cases h : aRef > 0
    · exact Or.inr h
    · left; simp [qSolJul, h]
  · by_cases h : (qSolJul wins wc rad aRef).aWp > 0
    · exact Or.inr h
    · left
      have h' : ¬ rsum (((qTerms wins wc rad).filterMap id).map (·.area)) > 0 := h
      show guardedMean _ _ = _
      unfold guardedMean
      rw [if_neg h']
      rfl

/-- the building ventilation rate is a finite number whenever the reference volume is not zero -/
theorem vent_finite (n : Option Rat) (vol : Rat) (h : vol ≠ 0) : ∃ r, ventOf n vol = .fin r := by
  unfold ventOf
  cases n with
  | none => exact ⟨0, rfl⟩
  | some v => simp [h]

/-- compactness divides only by a non-zero exposed area -/
theorem compactness_guarded (F : Fns) (m : Model) :
    (m.globalProps F).compactness = 0 ∨ (m.globalProps F).exposedArea ≠ 0 := by
  by_cases h : (m.globalProps F).exposedArea = 0
  · left
    have : (m.globalProps F).compactness =
        (if (m.globalProps F).exposedArea = 0 then 0 else (m.globalProps F).volEnvGross / (m.globalProps F).exposedArea) := rfl
    rw [this, if_pos h]
  · exact Or.inr h

/-! ## schedules: no lookup can fail -/

/-- the expansion of a yearly schedule is defined for any id and any database (missing year, missing
or empty week: no days) -/
theorem yearAsDays_missing (db : SchedulesDb) (id : Id) (h : db.getYear id = none) : yearAsDays db id = [] := by
  simp [yearAsDays, h]

/-- a day id that is not among the daily schedules contributes 0 to an average and no occupied hour -/
theorem missing_day_no_hours (m : Model) (ids : List Id) (h : ∀ i ∈ ids, m.dayProps.find? (·.id = i) = none) :
    dayHoursInUse m ids = 0 := by
  unfold dayHoursInUse
  have : (ids.eraseDups).filterMap (fun i => m.dayProps.find? (·.id = i)) = [] := by
    apply List.filterMap_eq_nil_iff.2
    intro i hi
    exact h i (by simpa using hi)
  rw [this]
  simp [List.filter_eq_nil_iff]

/-- **ground slabs** (EN ISO 13370, `u_value_gnd_slab`): with a positive equivalent thickness the result is a finite number for every
    characteristic dimension ≥ 0 — including 0, the value the code uses for a null-area slab (before the repair F-C14b the perimeter
    term 2ψ/B' divided by that 0) -/
theorem uGndSlab_finite (F : Fns) (hpi : 0 < F.pi) (z dt bp psi : Rat) (hB : 0 < dt + z / 2) (hbp : 0 ≤ bp) :
    (uGndSlab F z dt bp psi).nf = false := by
  have h1 : ¬ (dt + z / 2 = 0) := by intro h; rw [h] at hB; exact absurd hB (by decide)
  have h2 : ¬ (F.pi * bp + (dt + z / 2) = 0) := by
    have : 0 ≤ F.pi * bp := mul_nonneg (le_of_lt hpi) hbp
    intro h; linarith
  have h3 : ¬ (457 / 1000 * bp + (dt + z / 2) = 0) := by
    have : (0 : Rat) ≤ 457 / 1000 * bp := mul_nonneg (by norm_num) hbp
    intro h; linarith
  simp [uGndSlab, h1, h2, h3]

end Cte.C14
