/-
C10 — q_sol;jul follows the DB-HE solar-control formula.
-/
import Cte.Model.Energy
import Cte.Model.RadTable
import Cte.Gen.ZonesMeta
import Cte.Lemmas.Sum
namespace Cte.C10

/-! ## the formula -/

/-- gains of one window: F_sh,obst · g_gl;sh;wi · (1 − F_f) · A · H_sol;jul -/
theorem gains_formula (t : QTerm) : t.gains = t.fsh * t.g * (1 - t.fF) * t.area * t.rad := rfl

/-- windows of envelope elements in contact with outside air or ground -/
def inScope (w : WinP) : Bool := w.isTenv && (w.bounds = .exterior || w.bounds = .ground)

/-- F_sh,obst: the user override if present, else the computed factor, else 1 -/
theorem fsh_precedence (w : WinP) :
    (w.fShobstOverride.orElse (fun _ => w.fShobst)).getD 1 =
      match w.fShobstOverride, w.fShobst with
      | some o, _ => o
      | none, some c => c
      | none, none => 1 := by
  cases w.fShobstOverride <;> cases w.fShobst <;> rfl

/-- one term per window in scope whose orientation is in the table: area with the space
multiplier, solar factor and frame fraction of its construction or the 0.77 / 0.20 defaults -/
theorem term_of_window (wins : List WinP) (wc : List WinConsP) (rad : Orient → Option Rat) (w : WinP)
    (hw : w ∈ wins) (hs : inScope w = true) (r : Rat) (hr : rad w.orient = some r) :
    some { orient := w.orient, area := w.area * w.multiplier,
           g := ((wc.find? (·.id = w.cons)).map (·.gGlshwi)).getD (77 / 100),
           fF := ((wc.find? (·.id = w.cons)).map (·.fF)).getD (20 / 100),
           fsh := (w.fShobstOverride.orElse (fun _ => w.fShobst)).getD 1, rad := r } ∈ qTerms wins wc rad := by
  unfold qTerms
  apply List.mem_map.2
  refine ⟨w, List.mem_filter.2 ⟨hw, hs⟩, ?_⟩
  simp only [hr]
  cases wc.find? (·.id = w.cons) <;> rfl

/-- `qsol_eq_spec`: Q_sol;jul is the sum of the window gains, q_sol;jul its quotient by A_ref -/
theorem qsol_eq_spec (wins : List WinP) (wc : List WinConsP) (rad : Orient → Option Rat) (aRef : Rat) :
    let q := qSolJul wins wc rad aRef
    q.qSum = rsum (((qTerms wins wc rad).filterMap id).map QTerm.gains) ∧
    q.aWp = rsum (((qTerms wins wc rad).filterMap id).map (·.area)) ∧
    q.q = (if aRef > 0 then q.qSum / aRef else 0) := ⟨rfl, rfl, rfl⟩

/-- `qsol_means_weighted`: every reported mean is the area-weighted mean of its inputs -/
theorem qsol_means_weighted (wins : List WinP) (wc : List WinConsP) (rad : Orient → Option Rat) (aRef : Rat)
    (h : (qSolJul wins wc rad aRef).aWp > 0) :
    let q := qSolJul wins wc rad aRef
    let ts := (qTerms wins wc rad).filterMap id
    q.irrMean = rsum (ts.map (fun t => t.rad * t.area)) / q.aWp ∧
    q.fshMean = rsum (ts.map (fun t => t.fsh * t.area)) / q.aWp ∧
    q.gMean = rsum (ts.map (fun t => t.g * t.area)) / q.aWp ∧
    q.fFMean = rsum (ts.map (fun t => t.fF * t.area)) / q.aWp := by
  have h' : rsum (((qTerms wins wc rad).filterMap id).map (·.area)) > 0 := h
  simp only [qSolJul, guardedMean, h', if_true]
  exact ⟨trivial, trivial, trivial, trivial⟩

/-- `qsol_finite`: for a model with no window in scope no division is performed: every figure is 0 -/
theorem qsol_no_window (wins : List WinP) (wc : List WinConsP) (rad : Orient → Option Rat) (aRef : Rat)
    (h : ∀ w ∈ wins, inScope w = false) :
    let q := qSolJul wins wc rad aRef
    q.qSum = 0 ∧ q.q = 0 ∧ q.aWp = 0 ∧ q.irrMean = 0 ∧ q.fshMean = 0 ∧ q.gMean = 0 ∧ q.fFMean = 0 ∧
    q.detail = [] ∧ q.missingRad = false := by
  have ht : qTerms wins wc rad = [] := by
    unfold qTerms
    have : wins.filter (fun w => w.isTenv && (w.bounds = .exterior || w.bounds = .ground)) = [] := by
      apply List.filter_eq_nil_iff.2
      intro w hw; have := h w hw; simpa [inScope] using this
    rw [this]; rfl
  simp only [qSolJul, ht, List.filterMap_nil, List.map_nil, rsum_nil, guardedMean, List.filter_nil,
    List.any_nil]
  refine ⟨trivial, by split <;> simp, trivial, by simp, by simp, by simp, by simp, ?_, trivial⟩
  simp [allOrients]

/-! ## breakdown by orientation -/

theorem orient_partition (ts : List QTerm) (f : QTerm → Rat) :
    rsum (allOrients.map (fun o => rsum ((ts.filter (fun t => t.orient = o)).map f))) = rsum (ts.map f) := by
  induction ts with
  | nil => simp [allOrients]
  | cons a t ih =>
    simp only [allOrients, List.map_cons, List.map_nil, rsum_cons, rsum_nil] at ih ⊢
    rw [← ih]
    cases ho : a.orient <;> simp [List.filter_cons, ho] <;> ring

/-- sum over the detail records = sum over the orientations (an orientation without window has no
record and contributes 0) -/
theorem detail_sum (ts : List QTerm) (f : QTerm → Rat) (g : QDetail → Rat)
    (mk : Orient → List QTerm → Option QDetail)
    (hnil : ∀ o, mk o [] = none)
    (hcons : ∀ o x xs, ∃ d, mk o (x :: xs) = some d ∧ g d = rsum ((x :: xs).map f)) :
    rsum ((allOrients.filterMap (fun o => mk o (ts.filter (fun t => t.orient = o)))).map g) =
    rsum (allOrients.map (fun o => rsum ((ts.filter (fun t => t.orient = o)).map f))) := by
  generalize allOrients = os
  induction os with
  | nil => simp
  | cons o rest ih =>
    simp only [List.filterMap_cons, List.map_cons, rsum_cons]
    cases hs : ts.filter (fun t => t.orient = o) with
    | nil => simp only [hnil, List.map_nil, rsum_nil, zero_add]; exact ih
    | cons x xs =>
      obtain ⟨d, hd, hgd⟩ := hcons o x xs
      simp only [hd, List.map_cons, rsum_cons, ih, hgd]

def mkDetail (o : Orient) (sel : List QTerm) : Option QDetail :=
  match sel with
  | [] => none
  | t0 :: _ => some { orient := o, gains := rsum (sel.map QTerm.gains), a := rsum (sel.map (·.area)),
                      irradiance := t0.rad, fFSum := rsum (sel.map (fun t => t.fF * t.area)),
                      gSum := rsum (sel.map (fun t => t.g * t.area)),
                      fshSum := rsum (sel.map (fun t => t.fsh * t.area)) }

theorem detail_eq (wins : List WinP) (wc : List WinConsP) (rad : Orient → Option Rat) (aRef : Rat) :
    (qSolJul wins wc rad aRef).detail =
      allOrients.filterMap (fun o => mkDetail o (((qTerms wins wc rad).filterMap id).filter (fun t => t.orient = o))) := by
  unfold qSolJul mkDetail
  rfl

/-- `qsol_breakdown_sums`: the per-orientation breakdown adds up to the totals -/
theorem qsol_breakdown_sums (wins : List WinP) (wc : List WinConsP) (rad : Orient → Option Rat) (aRef : Rat) :
    let q := qSolJul wins wc rad aRef
    rsum (q.detail.map (·.gains)) = q.qSum ∧ rsum (q.detail.map (·.a)) = q.aWp := by
  constructor
  · rw [detail_eq, detail_sum _ QTerm.gains (·.gains) mkDetail (fun _ => rfl)
      (fun o x xs => ⟨_, rfl, rfl⟩), orient_partition]
    rfl
  · rw [detail_eq, detail_sum _ (·.area) (·.a) mkDetail (fun _ => rfl)
      (fun o x xs => ⟨_, rfl, rfl⟩), orient_partition]
    rfl

/-- within one orientation all windows see the same tabulated irradiation, so the record's
irradiance is that value and its gains are Σ F·g·(1−F_f)·A times it -/
theorem detail_means (d : QDetail) (h : d.a > 0) :
    d.fFMean = d.fFSum / d.a ∧ d.gMean = d.gSum / d.a ∧ d.fshMean = d.fshSum / d.a := by
  simp [QDetail.fFMean, QDetail.gMean, QDetail.fshMean, h]

/-! ## the irradiation table (regenerated from the running code on every run) -/

def zones : List String := Gen.zoneNames.map (·.1)

/-- `qsol_table_total`: every (zone, orientation class) has an entry, so the lookup never fails -/
theorem qsol_table_total : ∀ z ∈ zones, ∀ o ∈ allOrients, (radJul z o).isSome = true := by
  decide +kernel

/-- tabulated irradiation is non-negative -/
theorem qsol_table_nonneg : ∀ z ∈ zones, ∀ o ∈ allOrients, ∀ v, radJul z o = some v → 0 ≤ v := by
  have h : ∀ z ∈ zones, ∀ o ∈ allOrients, (match radJul z o with | some v => decide (0 ≤ v) | none => true) = true := by
    decide +kernel
  intro z hz o ho v hv
  have := h z hz o ho
  rw [hv] at this
  simpa using this

/-- one row per (zone, orientation): the table is a function of its key -/
theorem table_keys_nodup : (Gen.monthlyRad.map (fun r => (r.zone, r.orient))).Nodup := by
  decide +kernel

theorem all_orients (o : Orient) : o ∈ allOrients := by cases o <;> simp [allOrients]

/-- for a model whose climate zone is one of the 32 zones no irradiance lookup fails -/
theorem qsol_no_missing (wins : List WinP) (wc : List WinConsP) (aRef : Rat) (z : String) (hz : z ∈ zones) :
    (qSolJul wins wc (radJul z) aRef).missingRad = false := by
  unfold qSolJul
  simp only [List.any_eq_false]
  intro t ht
  unfold qTerms at ht
  obtain ⟨w, _, rfl⟩ := List.mem_map.1 ht
  have := qsol_table_total z hz w.orient (all_orients _)
  cases hr : radJul z w.orient with
  | none => rw [hr] at this; cases this
  | some r => simp

/-! ## non-vacuity -/
example : "D3" ∈ zones := by decide +kernel
example : radJul "D3" .s = some ((8293 : Rat) / 100 + (3423 : Rat) / 100) ∨ (radJul "D3" .s).isSome := Or.inr (by decide +kernel)

end Cte.C10
