/-
C13 — the iterative construction of the code is the recursive `build`.
`generate_node_list` (explicit stack + id counter) followed by `build_from_node_list` (two id-keyed
maps, elements popped from the end) returns, without reaching any `unwrap()` on `None`, exactly the
tree `Bvh.build` of `Cte/Model/Bvh.lean`; with `walk_eq_exhaustive` the whole code path
`BVH::build(..).intersects(ray)` equals testing every element.
-/
import Cte.Model.BvhIter
import Cte.Props.C13
namespace Cte.Bvh

variable {E Box Ray : Type}

/-! ### phase 1: the node list is the pre-order listing of the recursive tree -/

def leafElem (c : Nat) (s : Side) (p : Option Nat) (es : List E) : TElem E := ⟨c, true, s, p, some es⟩

/-- recursive specification of the node list and of the id counter after a subtree -/
def pre (o : Ops E Box Ray) (k : Nat) (c : Nat) (s : Side) (p : Option Nat) (es : List E) (id : Nat) : List (TElem E) × Nat :=
  if es.length > k then
    if h : (es.partition (o.sel es)).1 = [] ∨ (es.partition (o.sel es)).2 = [] then
      ([leafElem c s p ((es.partition (o.sel es)).1 ++ (es.partition (o.sel es)).2)], id)
    else
      let a := pre o k (id + 1) .L (some c) (es.partition (o.sel es)).1 (id + 2)
      let b := pre o k (id + 2) .R (some c) (es.partition (o.sel es)).2 a.2
      (⟨c, false, s, p, none⟩ :: (a.1 ++ b.1), b.2)
  else ([leafElem c s p es], id)
termination_by es.length
decreasing_by
  all_goals
    have hl := partition_length (o.sel es) es
    have h1 : (es.partition (o.sel es)).1 ≠ [] := fun e => h (Or.inl e)
    have h2 : (es.partition (o.sel es)).2 ≠ [] := fun e => h (Or.inr e)
    have p1 := List.length_pos_iff.mpr h1
    have p2 := List.length_pos_iff.mpr h2
    omega

theorem gen_pre (o : Ops E Box Ray) (k : Nat) (c : Nat) (s : Side) (p : Option Nat) (es : List E) (id : Nat)
    (rest : List (Pend E)) (out : List (TElem E)) :
    genLoop o k (⟨c, s, p, es⟩ :: rest) id out = genLoop o k rest (pre o k c s p es id).2 (out ++ (pre o k c s p es id).1) := by
  fun_induction pre o k c s p es id generalizing rest out with
  | case1 c s p es id hk hdeg =>
    rw [genLoop]
    simp only [hk, if_true, hdeg, dite_true]
    rfl
  | case2 c s p es id hk hdeg a b iha ihb =>
    rw [genLoop]
    simp only [hk, if_true, hdeg, dite_false]
    rw [iha, ihb]
    simp [a, b, List.append_assoc]
  | case3 c s p es id hk =>
    rw [genLoop]
    simp only [hk, if_false]
    rfl

theorem generate_eq_pre (o : Ops E Box Ray) (k : Nat) (es : List E) :
    generate o k es = (pre o k 0 .L none es 0).1 := by
  unfold generate
  rw [gen_pre]
  simp [genLoop]

theorem pre_counter_mono (o : Ops E Box Ray) (k : Nat) (c : Nat) (s : Side) (p : Option Nat) (es : List E) (id : Nat) :
    id ≤ (pre o k c s p es id).2 := by
  fun_induction pre o k c s p es id with
  | case1 => exact Nat.le_refl _
  | case2 c s p es id hk hdeg a b iha ihb => simp only [a, b] at *; omega
  | case3 => exact Nat.le_refl _

/-! ### the id-keyed maps -/

def mkeys {V : Type} (m : List (Nat × V)) : List Nat := m.map (·.1)

theorem mget_cons_self {V : Type} (k : Nat) (v : V) (m : List (Nat × V)) : mget k ((k, v) :: m) = some v := by
  simp [mget]

theorem mget_absent {V : Type} (k : Nat) (m : List (Nat × V)) (h : k ∉ mkeys m) : mget k m = none := by
  induction m with
  | nil => rfl
  | cons a t ih =>
    obtain ⟨a1, a2⟩ := a
    have h1 : a1 ≠ k := fun e => h (by simp [mkeys, e])
    have h2 : k ∉ mkeys t := fun e => h (by simp only [mkeys, List.map_cons, List.mem_cons]; exact Or.inr e)
    simp [mget, h1, ih h2]

theorem mset_absent {V : Type} (k : Nat) (v : V) (m : List (Nat × V)) (h : k ∉ mkeys m) : mset k v m = m ++ [(k, v)] := by
  induction m with
  | nil => rfl
  | cons a t ih =>
    obtain ⟨a1, a2⟩ := a
    have h1 : a1 ≠ k := fun e => h (by simp [mkeys, e])
    have h2 : k ∉ mkeys t := fun e => h (by simp only [mkeys, List.map_cons, List.mem_cons]; exact Or.inr e)
    simp [mset, h1, ih h2]

theorem mdel_absent {V : Type} (k : Nat) (m : List (Nat × V)) (h : k ∉ mkeys m) : mdel k m = m := by
  unfold mdel
  apply List.filter_eq_self.mpr
  intro x hx
  have : x.1 ≠ k := fun e => h (by rw [← e]; exact List.mem_map_of_mem hx)
  simpa using this

theorem mget_append_self {V : Type} (k : Nat) (v : V) (m : List (Nat × V)) (h : k ∉ mkeys m) : mget k (m ++ [(k, v)]) = some v := by
  induction m with
  | nil => simp [mget]
  | cons a t ih =>
    obtain ⟨a1, a2⟩ := a
    have h1 : a1 ≠ k := fun e => h (by simp [mkeys, e])
    have h2 : k ∉ mkeys t := fun e => h (by simp only [mkeys, List.map_cons, List.mem_cons]; exact Or.inr e)
    simp [mget, h1, ih h2]

theorem mset_append_self {V : Type} (k : Nat) (v w : V) (m : List (Nat × V)) (h : k ∉ mkeys m) :
    mset k w (m ++ [(k, v)]) = m ++ [(k, w)] := by
  induction m with
  | nil => simp [mset]
  | cons a t ih =>
    obtain ⟨a1, a2⟩ := a
    have h1 : a1 ≠ k := fun e => h (by simp [mkeys, e])
    have h2 : k ∉ mkeys t := fun e => h (by simp only [mkeys, List.map_cons, List.mem_cons]; exact Or.inr e)
    simp [mset, h1, ih h2]

theorem mdel_append_self {V : Type} (k : Nat) (v : V) (m : List (Nat × V)) (h : k ∉ mkeys m) : mdel k (m ++ [(k, v)]) = m := by
  unfold mdel
  rw [List.filter_append]
  have := mdel_absent k m h
  unfold mdel at this
  rw [this]
  simp

/-! ### phase 2 -/

theorem recRun_append (o : Ops E Box Ray) (l1 l2 : List (TElem E)) (S : RState E Box) :
    recRun o (l1 ++ l2) S = (recRun o l1 S).bind (recRun o l2) := by
  induction l1 generalizing S with
  | nil => rfl
  | cons e t ih =>
    simp only [List.cons_append, recRun]
    cases recStep o S e with
    | none => rfl
    | some S' => exact ih S'

/-- no key of the two maps collides with the ids the subtree will use: they are all at most the counter and differ from the root id -/
def Fresh (S : RState E Box) (c id : Nat) : Prop :=
  (∀ x ∈ mkeys S.pending, x ≠ c ∧ x ≤ id) ∧ (∀ x ∈ mkeys S.completed, x ≠ c ∧ x ≤ id)

theorem partition_degenerate (p : E → Bool) (es : List E) (h : (es.partition p).1 = [] ∨ (es.partition p).2 = []) :
    (es.partition p).1 ++ (es.partition p).2 = es := by
  simp only [List.partition_eq_filter_filter] at *
  rcases h with h | h
  · rw [h, List.nil_append]
    apply List.filter_eq_self.mpr
    intro a ha
    have := List.filter_eq_nil_iff.mp h a ha
    simpa using this
  · rw [h, List.append_nil]
    apply List.filter_eq_self.mpr
    intro a ha
    have := List.filter_eq_nil_iff.mp h a ha
    simpa using this

/-- **reassembly of one subtree**: popping the elements of a subtree (in reverse pre-order) attaches exactly `build` of its element
list to the parent slot, consumes every intermediate map entry, and never unwraps a `None` -/
theorem recon_pre (o : Ops E Box Ray) (k : Nat) (c : Nat) (s : Side) (q : Nat) (es : List E) (id : Nat) (S : RState E Box)
    (hF : Fresh S c id) (hc : c ≤ id) (hq : q ≠ c ∧ q ≤ id) :
    recRun o (pre o k c s (some q) es id).1.reverse S = some (setSlot o S q s (build o k es)) := by
  generalize hp : some q = p
  fun_induction pre o k c s p es id generalizing S q with
  | case1 c s p es id hk hdeg =>
    subst hp
    rw [build]
    have hk2 : ¬ es.length ≤ k := by omega
    have hd := partition_degenerate _ _ hdeg
    simp only [hk2, if_false, hdeg, dite_true]
    simp only [List.reverse_cons, List.reverse_nil, List.nil_append, recRun, recStep, leafElem, hd, if_true]
  | case2 c s p es id hk hdeg a b iha ihb =>
    subst hp
    have hk2 : ¬ es.length ≤ k := by omega
    have hmono := pre_counter_mono o k (id + 1) .L (some c) (es.partition (o.sel es)).1 (id + 2)
    generalize htL : build o k (es.partition (o.sel es)).1 = tL at *
    generalize htR : build o k (es.partition (o.sel es)).2 = tR at *
    -- the right subtree first
    have hFR : Fresh S (id + 2) a.2 := by
      constructor
      · intro x hx; have := hF.1 x hx; simp only [a]; omega
      · intro x hx; have := hF.2 x hx; simp only [a]; omega
    have hR := ihb (S := S) (q := c) hFR (by simp only [a]; omega) ⟨by omega, by simp only [a]; omega⟩ rfl
    have hcp : c ∉ mkeys S.pending := fun m => (hF.1 c m).1 rfl
    have hcc : c ∉ mkeys S.completed := fun m => (hF.2 c m).1 rfl
    -- state after the right subtree
    have hS1 : setSlot o S c .R tR = RState.mk (S.pending ++ [(c, PNode.mk none (some tR))]) S.completed := by
      simp [setSlot, mget_absent c _ hcp, mset_absent c _ _ hcp]
    -- then the left subtree
    have hFL : Fresh (RState.mk (S.pending ++ [(c, PNode.mk none (some tR))]) S.completed) (id + 1) (id + 2) := by
      constructor
      · intro x hx
        simp only [mkeys, List.map_append, List.map_cons, List.map_nil, List.mem_append, List.mem_singleton] at hx
        rcases hx with hx | hx
        · have := hF.1 x hx; omega
        · subst hx; omega
      · intro x hx; have := hF.2 x hx; omega
    have hL := iha (S := RState.mk (S.pending ++ [(c, PNode.mk none (some tR))]) S.completed) (q := c) hFL (by omega) ⟨by omega, by omega⟩ rfl
    have hS2 : setSlot o (RState.mk (S.pending ++ [(c, PNode.mk none (some tR))]) S.completed) c .L tL =
        RState.mk S.pending (S.completed ++ [(c, .node (o.join tL.box tR.box) tL tR)]) := by
      simp [setSlot, mget_append_self c _ _ hcp, mdel_append_self c _ _ hcp, mset_absent c _ _ hcc]
    -- and the element of the node itself
    simp only [List.reverse_cons, List.reverse_append]
    rw [recRun_append, recRun_append, hR]
    simp only [Option.bind_some]
    rw [hS1, hL]
    simp only [Option.bind_some]
    rw [hS2]
    rw [build]
    simp only [hk2, if_false, hdeg, dite_false, htL, htR]
    simp [recRun, recStep, mget_append_self c _ _ hcc, mdel_append_self c _ _ hcc]
  | case3 c s p es id hk =>
    subst hp
    rw [build]
    have hk2 : es.length ≤ k := by omega
    simp only [hk2, if_true]
    simp [recRun, recStep, leafElem]

/-- **the iterative construction is the recursive one**: for every element list and leaf size, `generate_node_list` followed by
    `build_from_node_list` reaches no `unwrap()` on `None` and returns the tree `build` -/
theorem reconstruct_generate (o : Ops E Box Ray) (k : Nat) (es : List E) :
    reconstruct o (generate o k es) = some (some (build o k es)) := by
  rw [generate_eq_pre]
  unfold pre
  split
  · rename_i hk
    have hk2 : ¬ es.length ≤ k := by omega
    split
    · rename_i hdeg
      rw [build]
      simp only [hk2, if_false, hdeg, dite_true]
      have hd := partition_degenerate _ _ hdeg
      simp only [reconstruct, leafElem, hd]
    · rename_i hdeg
      generalize htL : build o k (es.partition (o.sel es)).1 = tL
      generalize htR : build o k (es.partition (o.sel es)).2 = tR
      have hmono := pre_counter_mono o k 1 .L (some 0) (es.partition (o.sel es)).1 2
      have hF0 : ∀ n m, Fresh ({} : RState E Box) n m := by
        intro n m; constructor <;> intro x hx <;> simp [mkeys] at hx
      have hR := recon_pre o k 2 .R 0 (es.partition (o.sel es)).2 (pre o k 1 .L (some 0) (es.partition (o.sel es)).1 2).2 {}
        (hF0 _ _) (by omega) ⟨by omega, by omega⟩
      have hS1 : setSlot o ({} : RState E Box) 0 .R tR = RState.mk [(0, PNode.mk none (some tR))] [] := by
        simp [setSlot, mget, mset]
      have hFL : Fresh (RState.mk [(0, PNode.mk none (some tR))] ([] : List (Nat × Tree E Box))) 1 2 := by
        constructor <;> intro x hx <;> simp [mkeys] at hx
        omega
      have hL := recon_pre o k 1 .L 0 (es.partition (o.sel es)).1 2 _ hFL (by omega) ⟨by omega, by omega⟩
      have hS2 : setSlot o (RState.mk [(0, PNode.mk none (some tR))] ([] : List (Nat × Tree E Box))) 0 .L tL =
          RState.mk [] [(0, .node (o.join tL.box tR.box) tL tR)] := by
        simp [setSlot, mget, mset, mdel]
      rw [build]
      simp only [hk2, if_false, hdeg, dite_false, htL, htR]
      unfold reconstruct
      simp only [Nat.zero_add, List.reverse_append]
      rw [recRun_append, hR, htR]
      simp only [Option.bind_some]
      rw [hS1, hL, htL, hS2]
      simp [mget]
  · rename_i hk
    rw [build]
    have hk2 : es.length ≤ k := by omega
    simp [hk2, reconstruct, leafElem]

/-- **C13 for the code as written**: building the hierarchy iteratively and walking it with the explicit stack never panics and
    answers exactly what testing every element one by one answers -/
theorem code_path_eq_exhaustive (o : Ops E Box Ray) (L : Laws o) (k : Nat) (r : Ray) (es : List E) :
    codeIntersects o k r es = some (es.any (o.hit r)) := by
  unfold codeIntersects
  rw [reconstruct_generate]
  simp only [Cte.C13.walk_eq_exhaustive o L k r es]

end Cte.Bvh
