/-
C20 — Solar geometry, radiation identities and embedded climate tables are consistent.
-/
import Cte.Model.Solar
import Cte.Model.RadTable
import Cte.Gen.JulyRad
import Cte.Gen.ZonesMeta
import Cte.Props.C17
import Mathlib.Tactic.Ring
import Mathlib.Tactic.FieldSimp
import Mathlib.Tactic.Linarith
namespace Cte.C20

/-! ## calendar -/

/-- `nday_calendar`: for all 365 (day, month) of a non-leap year the day number is the ordinal -/
theorem nday_calendar : ∀ dm ∈ C17.allDates, ndayFromMd dm.2 dm.1 = some (C17.ordinal dm.1 dm.2) := by
  decide +kernel

/-- the two day-of-year functions of the workspace (converter and climate) agree on every date -/
theorem nday_agrees_with_converter : ∀ dm ∈ C17.allDates, (ndayFromMd dm.2 dm.1).map Int.ofNat = some (dayOfYear dm.1 dm.2) := by
  decide +kernel

/-! ## sun vector, altitude, incidence -/

/-- unit angles: c² + s² = 1 -/
def isUnit (a : Ang) : Prop := a.c * a.c + a.s * a.s = 1

/-- the sun vector is a unit vector -/
theorem sunVec_unit (d h w : Ang) (hd : isUnit d) (hh : isUnit h) (hw : isUnit w) :
    (sunVec d h w).dot (sunVec d h w) = 1 := by
  unfold isUnit at hd hh hw
  simp only [sunVec, Vec3.dot, sunEast, sunSouth, sunUp]
  have e : d.c * h.s * (d.c * h.s) + -(d.c * w.s * h.c - d.s * w.c) * -(d.c * w.s * h.c - d.s * w.c) +
      (d.s * w.s + d.c * w.c * h.c) * (d.s * w.s + d.c * w.c * h.c) =
      d.c * d.c * (h.s * h.s + h.c * h.c * (w.s * w.s + w.c * w.c)) + d.s * d.s * (w.c * w.c + w.s * w.s) := by ring
  rw [e]
  have hw' : w.s * w.s + w.c * w.c = 1 := by linarith
  rw [hw', hw]
  have hh' : h.s * h.s + h.c * h.c * 1 = 1 := by linarith
  rw [hh']; linarith

/-- `altitude_is_elevation`: the sine of the altitude is the vertical component of the sun vector -/
theorem altitude_is_elevation (d h w : Ang) : sinAltitude d h w = (sunVec d h w).z := rfl

/-- the surface normal under the model's tilt/azimuth convention -/
theorem surfaceNormal_eq (b g : Ang) : surfaceNormal b g = ⟨b.s * g.s, -(b.s * g.c), b.c⟩ := by
  simp only [surfaceNormal, rotZ, rotX]
  congr 1 <;> ring

/-- `incidence_is_angle`: the code's five-term expression is the dot product of the sun direction and
the surface's outward normal -/
theorem incidence_is_angle (d h w b g : Ang) :
    cosIncidence d h w b g = (surfaceNormal b g).dot (sunVec d h w) := by
  rw [surfaceNormal_eq]
  simp only [cosIncidence, Vec3.dot, sunVec, sunEast, sunSouth, sunUp]
  ring

/-- `ray_dir_matches_normal_convention`: a surface that faces the sun (tilt = zenith angle, azimuth =
sun azimuth) has its normal along the ray towards the sun: both use south = −y, east = +x -/
theorem ray_dir_matches_normal_convention (az alt : Ang) :
    surfaceNormal ⟨alt.s, alt.c⟩ az = rayDirToSun az alt := by
  rw [surfaceNormal_eq]; rfl

/-- `azimuth_is_bearing`: with cos(alt)·(sin az, cos az) = (east, south) the ray towards the sun is
the sun vector -/
theorem azimuth_is_bearing (d h w az alt : Ang) (hs : alt.s = sunUp d h w)
    (he : alt.c * az.s = sunEast d h) (hso : alt.c * az.c = sunSouth d h w) :
    rayDirToSun az alt = sunVec d h w := by
  simp only [rayDirToSun, sunVec, he, hso, hs]

/-- horizontal surface: incidence angle = zenith angle -/
theorem incidence_horizontal (d h w g : Ang) : cosIncidence d h w ⟨1, 0⟩ g = sinAltitude d h w := by
  simp only [cosIncidence, sinAltitude]; ring

/-- downward-facing surface: the sun is behind it whenever it is above the horizon -/
theorem incidence_downward (d h w g : Ang) : cosIncidence d h w ⟨-1, 0⟩ g = -(sinAltitude d h w) := by
  simp only [cosIncidence, sinAltitude]; ring

/-! ## radiation identities -/

/-- `horizontal_conservation`: on a horizontal surface with the sun at least 5° high (so that a = b)
beam + diffuse received equals beam + diffuse horizontal input -/
theorem horizontal_conservation (r : RadIn) (ht : r.tilt = ⟨1, 0⟩) (hs : 0 < r.sinAlt)
    (hinc : r.cosInc = r.sinAlt) (hzen : r.cosZen = r.sinAlt) (h85 : r.cos85 ≤ r.sinAlt)
    (hd : 0 ≤ r.dirHor) : r.dirTot + r.difTot = r.dirHor + r.difHor := by
  have ha : r.a = r.sinAlt := by
    unfold RadIn.a rmax; rw [hinc]; simp [hs]
  have hb : r.b = r.sinAlt := by
    unfold RadIn.b rmax; rw [hzen]
    split
    · rfl
    · linarith
  have hne : r.sinAlt ≠ 0 := ne_of_gt hs
  have hdir : r.iDir = r.dirHor := by
    unfold RadIn.iDir RadIn.beam rmax
    rw [hinc, div_mul_cancel₀ _ hne]
    split
    · rfl
    · linarith
  simp only [RadIn.dirTot, RadIn.difTot, RadIn.iCircum, RadIn.iDif, RadIn.iGround, hdir, ha, hb, ht]
  field_simp
  ring

/-- `downward_albedo`: a surface facing down receives exactly albedo × global horizontal radiation -/
theorem downward_albedo (r : RadIn) (ht : r.tilt = ⟨-1, 0⟩) (hs : r.sinAlt ≠ 0) (hst : r.sinAltTrue = r.sinAlt)
    (hinc : r.cosInc ≤ 0) (hd : 0 ≤ r.dirHor) (hsp : 0 < r.sinAlt) :
    r.dirTot + r.difTot = r.albedo * (r.dirHor + r.difHor) := by
  have ha : r.a = 0 := by
    unfold RadIn.a rmax
    split
    · linarith
    · rfl
  have hbeam : 0 ≤ r.beam := div_nonneg hd (le_of_lt hsp)
  have hdir : r.iDir = 0 := by
    unfold RadIn.iDir rmax
    split
    · rename_i h; nlinarith
    · rfl
  simp only [RadIn.dirTot, RadIn.difTot, RadIn.iCircum, RadIn.iDif, RadIn.iGround, hdir, ha, ht, hst,
    RadIn.beam]
  field_simp
  ring

/-- `beam_nonneg`: the beam (direct + circumsolar) part is never negative -/
theorem beam_nonneg (r : RadIn) (hdif : 0 ≤ r.difHor) (hf : 0 ≤ r.f1) (hb : 0 < r.b) : 0 ≤ r.dirTot := by
  unfold RadIn.dirTot
  have h1 : 0 ≤ r.iDir := by unfold RadIn.iDir rmax; split <;> linarith
  have ha : 0 ≤ r.a := by unfold RadIn.a rmax; split <;> linarith
  have h2 : 0 ≤ r.iCircum := by
    unfold RadIn.iCircum
    exact div_nonneg (mul_nonneg (mul_nonneg hdif hf) ha) (le_of_lt hb)
  linarith

/-! ## the embedded tables (regenerated from the running code on every run) -/

def zones : List String := Gen.zoneNames.map (·.1)

/-- every zone name parses and prints back to itself -/
theorem zone_names_roundtrip : ∀ z ∈ Gen.zoneNames, z.2.1 = true ∧ z.2.2 = z.1 := by decide +kernel

theorem zones_count : zones.length = 32 := by decide +kernel

/-- monthly table: every zone × orientation has a row with 12 beam and 12 diffuse values, all ≥ 0 -/
theorem monthly_table_total_nonneg :
    ∀ z ∈ zones, ∀ o ∈ allOrients,
      (Gen.monthlyRad.filter (fun r => r.zone = z && r.orient = o)).length = 1 ∧
      ∀ r ∈ Gen.monthlyRad.filter (fun r => r.zone = z && r.orient = o),
        r.dir.length = 12 ∧ r.dif.length = 12 ∧ r.dir.all (fun v => decide (0 ≤ v)) = true ∧
        r.dif.all (fun v => decide (0 ≤ v)) = true := by
  decide +kernel

theorem monthly_table_rows : Gen.monthlyRad.length = 288 := by decide +kernel

/-- July design day: every zone has its hours, with non-negative radiation, dated in July, sun above
the horizon -/
theorem july_table_total_nonneg :
    ∀ z ∈ zones, ∃ rows, Gen.julyRad.lookup z = some rows ∧ rows ≠ [] ∧
      rows.all (fun r => r.month = 7 && decide (0 ≤ r.dir) && decide (0 ≤ r.dif) && decide (0 < r.altitude)) = true := by
  decide +kernel

/-- zone metadata: every zone has an entry under its own name, latitude within [27, 44]° -/
theorem zones_meta_total :
    ∀ z ∈ zones, ∃ m ∈ Gen.zonesMeta, m.zone = z ∧ m.zc = z ∧ 27 ≤ m.latitude ∧ m.latitude ≤ 44 := by
  decide +kernel

/-! ## non-vacuity -/
example : ndayFromMd 1 31 = some 31 ∧ ndayFromMd 12 31 = some 365 ∧ ndayFromMd 3 1 = some 60 := by decide +kernel
def exRad : RadIn :=
  { dirHor := 300, difHor := 100, sinAlt := 1 / 2, sinAltTrue := 1 / 2, cosInc := 1 / 2, cosZen := 1 / 2,
    cos85 := 87 / 1000, f1 := 1 / 4, f2 := 1 / 10, tilt := ⟨1, 0⟩, albedo := 1 / 5 }
example : exRad.dirTot + exRad.difTot = 400 := by decide +kernel

end Cte.C20
