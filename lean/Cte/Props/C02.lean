/-
  C02 — Converted models are referentially closed, or conversion fails with an error.

  The theorem is about `Conv.convert`, the skeleton of `Model::try_from`; the correspondence run compares it with
  the implementation on real, generated and broken projects (accept / reject and every id and reference).
-/
import Cte.Model.Convert

namespace Cte.Props.C02
open Cte.Conv

theorem has_iff (l : List Name) (n : Name) : has l n = true ↔ n ∈ l := by
  simp [has]

theorem mem_dedup (l : List Name) (a : Name) : a ∈ dedup l ↔ a ∈ l := by
  induction l with
  | nil => simp [dedup]
  | cons x t ih =>
    unfold dedup
    by_cases h : (dedup t).contains x = true
    · simp only [h, if_true, ih, List.mem_cons]
      constructor
      · intro m; exact Or.inr m
      · rintro (rfl | m)
        · exact ih.mp (by simpa using h)
        · exact m
    · simp only [h, Bool.false_eq_true, if_false, List.mem_cons, ih]

theorem mapMx_mem {α β : Type} (f : α → Except String β) (l : List α) (r : List β) (h : mapM' f l = .ok r) :
    ∀ y ∈ r, ∃ x ∈ l, f x = .ok y := by
  induction l generalizing r with
  | nil => simp [mapM'] at h; subst h; simp
  | cons a t ih =>
    unfold mapM' at h
    cases hf : f a with
    | error e => simp [hf] at h
    | ok b =>
      cases ht : mapM' f t with
      | error e => simp [hf, ht] at h
      | ok rt =>
        simp [hf, ht] at h
        subst h
        intro y hy
        rcases List.mem_cons.mp hy with rfl | hy
        · exact ⟨a, by simp, hf⟩
        · obtain ⟨x, hx, hfx⟩ := ih rt ht y hy
          exact ⟨x, by simp [hx], hfx⟩

theorem mapMx_map {α β γ : Type} (f : α → Except String β) (g : β → γ) (k : α → γ)
    (hk : ∀ x y, f x = .ok y → g y = k x) (l : List α) (r : List β) (h : mapM' f l = .ok r) :
    r.map g = l.map k := by
  induction l generalizing r with
  | nil => simp [mapM'] at h; subst h; rfl
  | cons a t ih =>
    unfold mapM' at h
    cases hf : f a with
    | error e => simp [hf] at h
    | ok b =>
      cases ht : mapM' f t with
      | error e => simp [hf, ht] at h
      | ok rt =>
        simp [hf, ht] at h
        subst h
        simp [hk a b hf, ih rt ht]

theorem lookup_ok (known : List Name) (what : String) (n x : Name) (h : lookup known what n = .ok x) :
    x = n ∧ n ∈ known := by
  unfold lookup at h
  by_cases hh : has known n = true
  · simp [hh] at h; exact ⟨h.symm, (has_iff _ _).mp hh⟩
  · simp [hh] at h

theorem mapMx_lookup (known : List Name) (what : String) (ns rs : List Name)
    (h : mapM' (lookup known what) ns = .ok rs) : ∀ r ∈ rs, r ∈ known := by
  intro r hr
  obtain ⟨x, _, hx⟩ := mapMx_mem _ _ _ h r hr
  obtain ⟨rfl, hm⟩ := lookup_ok _ _ _ _ hx
  exact hm

theorem need_lookup (o : Option Name) (known : List Name) (x : Name)
    (h : (need o >>= lookup known "Horario") = .ok x) : x ∈ known := by
  cases o with
  | none => simp [need, bind, Except.bind] at h
  | some n =>
    simp only [need, bind, Except.bind] at h
    exact (lookup_ok _ _ _ _ h).1 ▸ (lookup_ok _ _ _ _ h).2

/-- what `cons_from_bdl` returns: constructions of the used names only, their layers among the kept materials,
    glazing and frame among the kept ones -/
theorem consFromBdl_spec (b : Bdl) (wc : List MWallCons) (wn : List MWinCons) (ms gs fs : List Name)
    (h : consFromBdl b = .ok (wc, wn, ms, gs, fs)) :
    wc.map (·.id) = dedup (b.walls.map (·.cons)) ∧ wn.map (·.id) = dedup (b.windows.map (·.cons)) ∧
    (∀ c ∈ wc, ∀ l ∈ c.layers, l ∈ ms) ∧ (∀ c ∈ wn, c.glass ∈ gs ∧ c.frame ∈ fs) := by
  unfold consFromBdl at h
  simp only at h
  split at h
  · cases h
  · rename_i wallcons hwc
    split at h
    · cases h
    · rename_i wincons hwn
      simp only [Except.ok.injEq, Prod.mk.injEq] at h
      obtain ⟨rfl, rfl, rfl, rfl, rfl⟩ := h
      refine ⟨?_, ?_, ?_, ?_⟩
      · refine (mapMx_map _ (·.id) id ?_ _ _ hwc).trans (List.map_id _)
        intro x y hxy
        split at hxy
        · cases hxy
        · split at hxy
          · cases hxy
          · simp only [Except.ok.injEq] at hxy; subst hxy; rfl
      · refine (mapMx_map _ (·.id) id ?_ _ _ hwn).trans (List.map_id _)
        intro x y hxy
        split at hxy
        · cases hxy
        · split at hxy
          · cases hxy
          · split at hxy
            · cases hxy
            · simp only [Except.ok.injEq] at hxy; subst hxy; rfl
      · intro c hc l hl
        obtain ⟨x, _, hx⟩ := mapMx_mem _ _ _ hwc c hc
        split at hx
        · cases hx
        · rename_i cc _
          split at hx
          · cases hx
          · rename_i ids hids
            simp only [Except.ok.injEq] at hx
            subst hx
            have hk := mapMx_lookup _ _ _ _ hids l hl
            apply List.mem_filter.mpr
            refine ⟨hk, (has_iff _ _).mpr ?_⟩
            exact List.mem_flatMap.mpr ⟨_, hc, hl⟩
      · intro c hc
        obtain ⟨x, _, hx⟩ := mapMx_mem _ _ _ hwn c hc
        split at hx
        · cases hx
        · rename_i cc _
          split at hx
          · cases hx
          · rename_i hg
            split at hx
            · cases hx
            · rename_i hf
              simp only [Except.ok.injEq] at hx
              subst hx
              simp only [Bool.not_eq_true, Bool.not_eq_eq_eq_not, Bool.not_true, Bool.not_false] at hg hf
              constructor
              · apply List.mem_filter.mpr
                refine ⟨(has_iff _ _).mp (by simpa using hg), (has_iff _ _).mpr ?_⟩
                exact List.mem_map.mpr ⟨_, hc, rfl⟩
              · apply List.mem_filter.mpr
                refine ⟨(has_iff _ _).mp (by simpa using hf), (has_iff _ _).mpr ?_⟩
                exact List.mem_map.mpr ⟨_, hc, rfl⟩

theorem convertWall_ok (b : Bdl) (w : BWall) (m : MWall) (h : convertWall b w = .ok m) :
    m.id = w.name ∧ m.cons = w.cons ∧ m.space ∈ b.spaces.map (·.name) ∧
    (∀ n, m.nextTo = some n → n ∈ b.spaces.map (·.name)) := by
  unfold convertWall at h
  simp only at h
  split at h
  · cases h
  · split at h
    · cases h
    · split at h
      · cases h
      · rename_i hsp
        have hsp' : w.space ∈ b.spaces.map (·.name) := (has_iff _ _).mp (by simpa using hsp)
        split at h
        · rename_i n _
          split at h
          · cases h
          · rename_i hn
            split at h
            · simp only [Except.ok.injEq] at h; subst h
              refine ⟨rfl, rfl, hsp', ?_⟩
              intro n' hn'
              simp only [Option.some.injEq] at hn'
              subst hn'
              exact (has_iff _ _).mp (by simpa using hn)
            · cases h
        · split at h
          · simp only [Except.ok.injEq] at h; subst h
            exact ⟨rfl, rfl, hsp', by intro n hn; cases hn⟩
          · cases h

theorem convertWindow_ok (b : Bdl) (w : BWindow) (m : MWindow) (h : convertWindow b w = .ok m) :
    m.id = w.name ∧ m.cons = w.cons ∧ m.wall ∈ b.walls.map (·.name) := by
  unfold convertWindow at h
  split at h
  · cases h
  · rename_i hw
    simp only [Except.ok.injEq] at h; subst h
    exact ⟨rfl, rfl, (has_iff _ _).mp (by simpa using hw)⟩

theorem convertYear_ok (b : Bdl) (y : BYear) (m : MSched) (h : convertYear b y = .ok m) :
    m.id = y.name ∧ ∀ r ∈ m.refs, r ∈ b.weeks.map (·.name) := by
  unfold convertYear at h
  simp only at h
  split at h
  · cases h
  · split at h
    · cases h
    · split at h
      · cases h
      · rename_i ws hws
        simp only [Except.ok.injEq] at h; subst h
        refine ⟨rfl, ?_⟩
        intro r hr
        simp only [List.mem_map] at hr
        obtain ⟨p, hp, rfl⟩ := hr
        exact mapMx_lookup _ _ _ _ hws p.1 (List.of_mem_zip hp).1

theorem convertWeek_ok (b : Bdl) (w : BWeek) (m : MSched) (h : convertWeek b w = .ok m) :
    m.id = w.name ∧ ∀ r ∈ m.refs, r ∈ b.days := by
  unfold convertWeek at h
  split at h
  · split at h
    · cases h
    · rename_i x hl
      simp only [Except.ok.injEq] at h; subst h
      refine ⟨rfl, ?_⟩
      intro r hr
      simp at hr; subst hr
      obtain ⟨rfl, hm⟩ := lookup_ok _ _ _ _ hl
      exact hm
  · split at h
    · split at h
      · cases h
      · rename_i rs hrs
        simp only [Except.ok.injEq] at h; subst h
        exact ⟨rfl, mapMx_lookup _ _ _ _ hrs⟩
    · cases h

theorem convertLoads_ok (b : Bdl) (l : BLoads) (m : MLoads) (h : convertLoads b l = .ok m) :
    m.id = l.key ∧ m.people ∈ b.years.map (·.name) ∧ m.equip ∈ b.years.map (·.name) ∧ m.light ∈ b.years.map (·.name) := by
  unfold convertLoads at h
  simp only at h
  split at h
  · cases h
  · split at h
    · rename_i p e li hp he hli
      simp only [Except.ok.injEq] at h; subst h
      exact ⟨rfl, need_lookup _ _ _ hp, need_lookup _ _ _ he, need_lookup _ _ _ hli⟩
    · cases h
    · cases h
    · cases h

theorem convertThermo_ok (b : Bdl) (t : BThermo) (m : MThermo) (h : convertThermo b t = .ok m) :
    m.id = t.key ∧ (∀ x, m.tmax = some x → x ∈ b.years.map (·.name)) ∧ (∀ x, m.tmin = some x → x ∈ b.years.map (·.name)) := by
  unfold convertThermo at h
  simp only at h
  split at h
  · split at h
    · rename_i c hh hc hhh
      simp only [Except.ok.injEq] at h; subst h
      refine ⟨rfl, ?_, ?_⟩
      · intro x hx; simp only [Option.some.injEq] at hx; subst hx; exact need_lookup _ _ _ hc
      · intro x hx; simp only [Option.some.injEq] at hx; subst hx; exact need_lookup _ _ _ hhh
    · cases h
    · cases h
  · simp only [Except.ok.injEq] at h; subst h
    refine ⟨rfl, ?_, ?_⟩ <;> (intro x hx; cases hx)

/-- **closure**: whenever the conversion yields a model, every reference in it resolves inside it -/
theorem convert_closed (b : Bdl) (m : Mdl) (h : convert b = .ok m) : closed m = true := by
  unfold convert at h
  split at h
  · cases h
  · rename_i wallcons wincons materials glasses frames hcons
    obtain ⟨hwcid, hwnid, hlay, hgf⟩ := consFromBdl_spec b _ _ _ _ _ hcons

    split at h
    · cases h
    rename_i spaces hspaces
    split at h
    · cases h
    · rename_i walls hwalls
      split at h
      · cases h
      · rename_i windows hwindows
        split at h
        · cases h
        · cases h
        · rename_i weeks years hweeks hyears
          split at h
          · cases h
          · rename_i loads hloads
            split at h
            · cases h
            · rename_i thermostats hthermo
              simp only [Except.ok.injEq] at h
              subst h
              have hwallids : walls.map (·.id) = b.walls.map (·.name) :=
                mapMx_map _ (·.id) (·.name) (fun x y hxy => (convertWall_ok b x y hxy).1) _ _ hwalls
              have hspaceids : spaces.map (·.id) = b.spaces.map (·.name) := by
                refine mapMx_map _ (·.id) (·.name) ?_ _ _ hspaces
                intro x y hxy
                unfold convertSpace at hxy
                split at hxy
                · cases hxy
                · split at hxy
                  · cases hxy
                  · simp only [Except.ok.injEq] at hxy; subst hxy; rfl
              have hloadids : loads.map (·.id) = b.loads.map (·.key) :=
                mapMx_map _ (·.id) (·.key) (fun x y hxy => (convertLoads_ok b x y hxy).1) _ _ hloads
              have hthids : thermostats.map (·.id) = b.thermostats.map (·.key) :=
                mapMx_map _ (·.id) (·.key) (fun x y hxy => (convertThermo_ok b x y hxy).1) _ _ hthermo
              have hyids : years.map (·.id) = b.years.map (·.name) :=
                mapMx_map _ (·.id) (·.name) (fun x y hxy => (convertYear_ok b x y hxy).1) _ _ hyears
              have hwkids : weeks.map (·.id) = b.weeks.map (·.name) :=
                mapMx_map _ (·.id) (·.name) (fun x y hxy => (convertWeek_ok b x y hxy).1) _ _ hweeks
              unfold closed
              simp only [Bool.and_eq_true, List.all_eq_true, hwcid, hwnid, hwallids, hspaceids,
                hloadids, hthids, hyids, hwkids]
              refine ⟨⟨⟨⟨⟨⟨⟨⟨?_, ?_⟩, ?_⟩, ?_⟩, ?_⟩, ?_⟩, ?_⟩, ?_⟩, ?_⟩
              · intro w hw
                obtain ⟨x, hx, hxw⟩ := mapMx_mem _ _ _ hwalls w hw
                obtain ⟨_, hc, hs, hn⟩ := convertWall_ok b x w hxw
                refine ⟨⟨(has_iff _ _).mpr ?_, (has_iff _ _).mpr hs⟩, ?_⟩
                · rw [hc]; exact (mem_dedup _ _).mpr (List.mem_map.mpr ⟨x, hx, rfl⟩)
                · cases hnt : w.nextTo with
                  | none => rfl
                  | some n => exact (has_iff _ _).mpr (hn n hnt)
              · intro w hw
                obtain ⟨x, hx, hxw⟩ := mapMx_mem _ _ _ hwindows w hw
                obtain ⟨_, hc, hwl⟩ := convertWindow_ok b x w hxw
                exact ⟨(has_iff _ _).mpr (by rw [hc]; exact (mem_dedup _ _).mpr (List.mem_map.mpr ⟨x, hx, rfl⟩)), (has_iff _ _).mpr hwl⟩
              · intro c hc l hl
                exact (has_iff _ _).mpr (hlay c hc l hl)
              · intro c hc
                exact ⟨(has_iff _ _).mpr (hgf c hc).1, (has_iff _ _).mpr (hgf c hc).2⟩
              · intro s hs
                obtain ⟨x, _, hx⟩ := mapMx_mem _ _ _ hspaces s hs
                unfold convertSpace at hx
                split at hx
                · cases hx
                · rename_i hl
                  split at hx
                  · cases hx
                  · rename_i ht
                    simp only [Except.ok.injEq] at hx
                    subst hx
                    exact ⟨by simpa using hl, by simpa using ht⟩
              · intro l hl
                obtain ⟨x, _, hxl⟩ := mapMx_mem _ _ _ hloads l hl
                obtain ⟨_, h1, h2, h3⟩ := convertLoads_ok b x l hxl
                exact ⟨⟨(has_iff _ _).mpr h1, (has_iff _ _).mpr h2⟩, (has_iff _ _).mpr h3⟩
              · intro t ht
                obtain ⟨x, _, hxt⟩ := mapMx_mem _ _ _ hthermo t ht
                obtain ⟨_, h1, h2⟩ := convertThermo_ok b x t hxt
                constructor
                · cases hm : t.tmax with
                  | none => rfl
                  | some v => exact (has_iff _ _).mpr (h1 v hm)
                · cases hm : t.tmin with
                  | none => rfl
                  | some v => exact (has_iff _ _).mpr (h2 v hm)
              · intro y hy r hr
                obtain ⟨x, _, hxy⟩ := mapMx_mem _ _ _ hyears y hy
                exact (has_iff _ _).mpr ((convertYear_ok b x y hxy).2 r hr)
              · intro w hw r hr
                obtain ⟨x, _, hxw⟩ := mapMx_mem _ _ _ hweeks w hw
                exact (has_iff _ _).mpr ((convertWeek_ok b x w hxw).2 r hr)

theorem dedup_nodup (l : List Name) : (dedup l).Nodup := by
  induction l with
  | nil => simp [dedup]
  | cons a t ih =>
    unfold dedup
    by_cases h : (dedup t).contains a = true
    · simp only [h, if_true]; exact ih
    · simp only [h, Bool.false_eq_true, if_false, List.nodup_cons]
      exact ⟨by simpa using h, ih⟩

/-- ids are unique within each collection when the names they derive from are (the construction collections are
    deduplicated by the conversion itself) -/
theorem convert_ids_unique (b : Bdl) (m : Mdl) (h : convert b = .ok m)
    (hw : (b.walls.map (·.name)).Nodup) (hs : (b.spaces.map (·.name)).Nodup) :
    (m.walls.map (·.id)).Nodup ∧ (m.spaces.map (·.id)).Nodup ∧ (m.wallcons.map (·.id)).Nodup ∧ (m.wincons.map (·.id)).Nodup := by
  unfold convert at h
  split at h
  · cases h
  · rename_i wallcons wincons materials glasses frames hcons
    obtain ⟨hwcid, hwnid, _, _⟩ := consFromBdl_spec b _ _ _ _ _ hcons

    split at h
    · cases h
    rename_i spaces hspaces
    split at h
    · cases h
    · rename_i walls hwalls
      split at h
      · cases h
      · split at h
        · cases h
        · cases h
        · split at h
          · cases h
          · split at h
            · cases h
            · simp only [Except.ok.injEq] at h
              subst h
              have hwallids : walls.map (·.id) = b.walls.map (·.name) :=
                mapMx_map _ (·.id) (·.name) (fun x y hxy => (convertWall_ok b x y hxy).1) _ _ hwalls
              have hspaceids : spaces.map (·.id) = b.spaces.map (·.name) := by
                refine mapMx_map _ (·.id) (·.name) ?_ _ _ hspaces
                intro x y hxy
                unfold convertSpace at hxy
                split at hxy
                · cases hxy
                · split at hxy
                  · cases hxy
                  · simp only [Except.ok.injEq] at hxy; subst hxy; rfl
              refine ⟨by rw [hwallids]; exact hw, by rw [hspaceids]; exact hs, ?_, ?_⟩
              · rw [hwcid]; exact dedup_nodup _
              · rw [hwnid]; exact dedup_nodup _

theorem mapMx_error {α β : Type} (f : α → Except String β) (l : List α) (x : α) (hx : x ∈ l) (e : String)
    (hf : f x = .error e) : ∃ e', mapM' f l = .error e' := by
  induction l with
  | nil => cases hx
  | cons a t ih =>
    unfold mapM'
    cases hfa : f a with
    | error e1 => exact ⟨e1, rfl⟩
    | ok y =>
      rcases List.mem_cons.mp hx with rfl | hx
      · rw [hf] at hfa; cases hfa
      · obtain ⟨e', he'⟩ := ih hx
        simp only [he']
        exact ⟨e', rfl⟩

/-- a wall whose space is not defined makes the conversion fail — no model with a dangling space link -/
theorem wall_space_missing_rejected (b : Bdl) (w : BWall) (hw : w ∈ b.walls) (hs : w.space ∉ b.spaces.map (·.name)) :
    ∃ e, convert b = .error e := by
  have hcw : ∃ e, convertWall b w = .error e := by
    unfold convertWall
    simp only
    split
    · exact ⟨_, rfl⟩
    · split
      · exact ⟨_, rfl⟩
      · have : has (b.spaces.map (·.name)) w.space = false := by
          apply Bool.eq_false_iff.mpr; intro h; exact hs ((has_iff _ _).mp h)
        simp [this]
  obtain ⟨e, he⟩ := hcw
  obtain ⟨e', he'⟩ := mapMx_error _ _ w hw e he
  unfold convert
  split
  · exact ⟨_, rfl⟩
  · skip
    split
    · exact ⟨_, rfl⟩
    · simp only [he']
      exact ⟨_, rfl⟩

/-- a window whose wall is not defined makes the conversion fail -/
theorem window_wall_missing_rejected (b : Bdl) (w : BWindow) (hw : w ∈ b.windows) (hs : w.wall ∉ b.walls.map (·.name)) :
    ∃ e, convert b = .error e := by
  have hcw : ∃ e, convertWindow b w = .error e := by
    unfold convertWindow
    have : has (b.walls.map (·.name)) w.wall = false := by
      apply Bool.eq_false_iff.mpr; intro h; exact hs ((has_iff _ _).mp h)
    simp [this]
  obtain ⟨e, he⟩ := hcw
  obtain ⟨e', he'⟩ := mapMx_error _ _ w hw e he
  unfold convert
  split
  · exact ⟨_, rfl⟩
  · skip
    split
    · exact ⟨_, rfl⟩
    · split
      · exact ⟨_, rfl⟩
      · simp only [he']
        exact ⟨_, rfl⟩

/-- a space whose SPACE-CONDITIONS or SYSTEM-CONDITIONS name is not defined makes the conversion fail
    (before the repair F-C02a it was converted with the link silently dropped) -/
theorem space_conditions_missing_rejected (b : Bdl) (sp : BSpace) (hs : sp ∈ b.spaces)
    (hm : sp.spaceconds ∉ b.loads.map (·.key) ∨ sp.systemconds ∉ b.thermostats.map (·.key)) :
    ∃ e, convert b = .error e := by
  have hcs : ∃ e, convertSpace b sp = .error e := by
    unfold convertSpace
    by_cases h1 : has (b.loads.map (·.key)) sp.spaceconds = true
    · have h2 : has (b.thermostats.map (·.key)) sp.systemconds = false := by
        rcases hm with hm | hm
        · exact absurd ((has_iff _ _).mp h1) hm
        · apply Bool.eq_false_iff.mpr; intro h; exact hm ((has_iff _ _).mp h)
      simp [h1, h2]
    · simp [h1]
  obtain ⟨e, he⟩ := hcs
  obtain ⟨e', he'⟩ := mapMx_error _ _ sp hs e he
  unfold convert
  split
  · exact ⟨_, rfl⟩
  · simp only [he']
    exact ⟨_, rfl⟩

/-- every space of a converted model has both links -/
theorem spaces_linked (b : Bdl) (m : Mdl) (h : convert b = .ok m) :
    ∀ s ∈ m.spaces, s.loads.isSome ∧ s.thermostat.isSome := by
  unfold convert at h
  split at h
  · cases h
  · skip
    split at h
    · cases h
    · rename_i spaces hspaces
      have key : ∀ s ∈ spaces, s.loads.isSome ∧ s.thermostat.isSome := by
        intro s hs
        obtain ⟨x, _, hx⟩ := mapMx_mem _ _ _ hspaces s hs
        unfold convertSpace at hx
        split at hx
        · cases hx
        · split at hx
          · cases hx
          · simp only [Except.ok.injEq] at hx; subst hx; exact ⟨rfl, rfl⟩
      split at h
      · cases h
      · split at h
        · cases h
        · split at h
          · cases h
          · cases h
          · split at h
            · cases h
            · split at h
              · cases h
              · simp only [Except.ok.injEq] at h; subst h; exact key

def exampleBdl : Bdl :=
  { spaces := [{ name := "E1", spaceconds := "Residencial", systemconds := "Residencial", nverts := 4 }],
    walls := [{ name := "M1", space := "E1", cons := "C1", nextto := none, location := some "V1", hasPolygon := false }],
    windows := [{ name := "H1", wall := "M1", cons := "G1" }],
    wallcons := [{ key := "C1", name := "C1", materials := ["Mat"] }],
    wincons := [{ key := "G1", name := "G1", glass := "V", frame := "F" }],
    materials := ["Mat", "Otro"], glasses := ["V"], frames := ["F"],
    days := ["D"], weeks := [{ name := "S", days := ["D"] }],
    years := [{ name := "A", weeks := ["S"], months := [12], days := [31] }],
    loads := [{ key := "Residencial", name := "Residencial", numericOk := true, people := some "A", equip := some "A", light := some "A" }],
    thermostats := [{ key := "Residencial", name := "Residencial", conditioned := true, cool := some "A", heat := some "A" }] }

/-- the hypotheses are satisfiable: this project converts (and its unused material is purged) -/
example : (convert exampleBdl).toOption.map (fun m => (m.materials, m.walls.map (·.id), closed m)) =
    some (["Mat"], ["M1"], true) := by decide +kernel

example : (convert { exampleBdl with loads := [] }).toOption.isNone = true := by decide +kernel

end Cte.Props.C02
