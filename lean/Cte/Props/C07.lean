/-
C07 — Window U-value and solar factors follow their definitions.
-/
import Cte.Model.Energy
import Cte.Lemmas.Round
import Mathlib.Tactic.Ring
namespace Cte.C07

/-- the definition: (1 + ΔU/100)·(F_f·U_frame + (1 − F_f)·U_glass) -/
def winUDef (dU fF uFrame uGlass : Rat) : Rat := (1 + dU / 100) * (fF * uFrame + (1 - fF) * uGlass)

/-- `winU_formula`: glazing and frame resolve → U = round2 of the definition -/
theorem winU_formula (F : Fns) (hb : F.bias = 0) (c : WinCons) (db : ConsDb) (g : Glass) (f : Frame)
    (hg : db.getGlass c.glass = some g) (hf : db.getFrame c.frame = some f) :
    c.uValue F db = some (round2 (winUDef c.deltaU c.fF f.uValue g.uValue)) := by
  simp only [WinCons.uValue, WinCons.uValueRaw, hg, hf, Option.map_some, Fns.r2_unbiased F hb, winUDef]
  congr 2; ring

/-- `winU_none_iff`: no U-value exactly when the glazing or the frame is missing -/
theorem winU_none_iff (F : Fns) (c : WinCons) (db : ConsDb) :
    c.uValue F db = none ↔ db.getGlass c.glass = none ∨ db.getFrame c.frame = none := by
  unfold WinCons.uValue WinCons.uValueRaw
  cases db.getGlass c.glass <;> cases db.getFrame c.frame <;> simp

/-- `winU_between`: for 0 ≤ F_f ≤ 1 and 1 + ΔU/100 ≥ 0 the definition lies between the glazing and
the frame value, both scaled by (1 + ΔU/100) -/
theorem winU_between (dU fF uF uG : Rat) (h0 : 0 ≤ fF) (h1 : fF ≤ 1) (hd : 0 ≤ 1 + dU / 100) :
    (1 + dU / 100) * rmin uF uG ≤ winUDef dU fF uF uG ∧
    winUDef dU fF uF uG ≤ (1 + dU / 100) * rmax uF uG := by
  unfold winUDef rmin rmax
  constructor
  · apply mul_le_mul_of_nonneg_left _ hd
    split <;> nlinarith
  · apply mul_le_mul_of_nonneg_left _ hd
    split <;> nlinarith

/-- the same after rounding (rounding is monotone) -/
theorem winU_rounded_between (dU fF uF uG : Rat) (h0 : 0 ≤ fF) (h1 : fF ≤ 1) (hd : 0 ≤ 1 + dU / 100) :
    round2 ((1 + dU / 100) * rmin uF uG) ≤ round2 (winUDef dU fF uF uG) ∧
    round2 (winUDef dU fF uF uG) ≤ round2 ((1 + dU / 100) * rmax uF uG) :=
  ⟨round2_mono (winU_between dU fF uF uG h0 h1 hd).1, round2_mono (winU_between dU fF uF uG h0 h1 hd).2⟩

/-- `ggl_formula`: solar factor without shading = round2 (0.90 · g_n) -/
theorem ggl_formula (F : Fns) (hb : F.bias = 0) (c : WinCons) (db : ConsDb) (g : Glass)
    (hg : db.getGlass c.glass = some g) :
    c.gGlwi F db = some (round2 (9 / 10 * g.gGln)) := by
  simp only [WinCons.gGlwi, hg, Option.map_some, Fns.r2_unbiased F hb]
  congr 2; ring

/-- `gglsh_user_or_unshaded`: with movable shading: the user value when given, else the unshaded one -/
theorem gglsh_user (F : Fns) (hb : F.bias = 0) (c : WinCons) (db : ConsDb) (v : Rat)
    (h : c.gGlshwi = some v) : c.gGlshwiV F db = some (round2 v) := by
  simp [WinCons.gGlshwiV, h, Fns.r2_unbiased F hb]

theorem gglsh_unshaded (F : Fns) (c : WinCons) (db : ConsDb) (h : c.gGlshwi = none) :
    c.gGlshwiV F db = c.gGlwi F db := by
  simp [WinCons.gGlshwiV, h]

/-! ## documented defaults used downstream -/

/-- props of a construction whose glazing is missing: solar factors 0.77, no U -/
theorem props_defaults (F : Fns) (m : Model) (c : WinCons) (h : c ∈ lastById (·.id) m.cons.wincons)
    (hg : m.cons.getGlass c.glass = none) (hs : c.gGlshwi = none) :
    ∃ p ∈ m.winConsProps F, p.id = c.id ∧ p.gGlwi = 77 / 100 ∧ p.gGlshwi = 77 / 100 ∧ p.u = none := by
  refine ⟨_, List.mem_map.2 ⟨c, h, rfl⟩, rfl, ?_, ?_, ?_⟩ <;>
    simp [WinCons.gGlwi, WinCons.gGlshwiV, WinCons.uValue, WinCons.uValueRaw, hg, hs]

/-- K uses 5.7 W/m²K for a window with neither override nor computable U -/
theorem k_default_u : ((none : Option Rat).orElse (fun _ => (none : Option Rat))).getD U_DEFAULT = 57 / 10 := rfl

/-- q_sol;jul uses 0.77 / 0.20, n50 uses 100 when the window has no construction -/
theorem downstream_defaults : G_DEFAULT = 77 / 100 ∧ FF_DEFAULT = 20 / 100 ∧ C100_DEFAULT = 100 :=
  ⟨rfl, rfl, rfl⟩

/-! ## non-vacuity -/
def exDb : ConsDb :=
  { wincons := [{ id := "wc", glass := "g", frame := "f", fF := 1 / 4, deltaU := 10, c100 := 9 }],
    glasses := [{ id := "g", uValue := 2, gGln := 3 / 4 }], frames := [{ id := "f", uValue := 4, absorptivity := 0.5 }] }

example : (exDb.wincons.map (fun c => (c.uValue Fns.approx exDb, c.gGlwi Fns.approx exDb))) =
    [(some (11 / 4), some (17 / 25))] := by decide +kernel

end Cte.C07
