/-
C17 — occupancy figures: the yearly occupied time counts the hours in which at least one occupied space has non-zero occupancy, and
the mean internal load is the floor-area-weighted mean of the spaces' loads.
-/
import Cte.Props.C17
import Mathlib.Tactic.Linarith
import Mathlib.Algebra.Order.Field.Rat
namespace Cte.C17Occ
open Cte

/-- hour `h` of a day on which the occupied spaces follow the daily schedules `ids` is occupied when one of those schedules
    (that exists) has a non-zero value at `h` -/
def hourOccupied (m : Model) (ids : List Id) (h : Nat) : Bool :=
  ids.any (fun i => match m.dayProps.find? (·.id = i) with
    | some d => (d.notZero[h]?).getD false
    | none => false)

theorem orLists_length (a b : List Bool) : (orLists a b).length = min a.length b.length := by
  simp [orLists]

theorem orLists_get (a b : List Bool) (h : Nat) (ha : h < a.length) (hb : h < b.length) :
    (orLists a b)[h]? = some ((a[h]?).getD false || (b[h]?).getD false) := by
  unfold orLists
  rw [List.getElem?_zipWith]
  simp [List.getElem?_eq_getElem ha, List.getElem?_eq_getElem hb]

/-- folding the daily schedules of 24 values over 24 `false`s: entry `h` is the OR of the schedules' entries -/
theorem fold_or_get (dps : List DayP) (acc : List Bool) (hl : acc.length = 24) (hd : ∀ d ∈ dps, d.notZero.length = 24)
    (h : Nat) (hh : h < 24) :
    (dps.foldl (fun acc d => orLists acc d.notZero) acc).length = 24 ∧
    (dps.foldl (fun acc d => orLists acc d.notZero) acc)[h]? =
      some ((acc[h]?).getD false || dps.any (fun d => (d.notZero[h]?).getD false)) := by
  induction dps generalizing acc with
  | nil =>
    refine ⟨hl, ?_⟩
    simp [List.getElem?_eq_getElem (by omega : h < acc.length)]
  | cons d t ih =>
    have hdl := hd d (by simp)
    have hl2 : (orLists acc d.notZero).length = 24 := by rw [orLists_length, hl, hdl]; rfl
    have := ih (orLists acc d.notZero) hl2 (fun x hx => hd x (by simp [hx]))
    refine ⟨this.1, ?_⟩
    rw [List.foldl_cons, this.2, orLists_get acc d.notZero h (by omega) (by omega)]
    simp [Bool.or_assoc]

theorem count_true (l : List Bool) (n : Nat) (hl : l.length = n) :
    (l.filter id).length = ((List.range n).filter (fun h => (l[h]?).getD false)).length := by
  induction l generalizing n with
  | nil => subst hl; rfl
  | cons b t ih =>
    subst hl
    rw [List.length_cons, List.range_succ_eq_map, List.filter_cons, List.filter_cons]
    have := ih t.length rfl
    cases b <;> simp [List.filter_map, Function.comp_def, this]

/-- **hours of a day in use**: with daily schedules of 24 values, the count is the number of hours at which some listed (existing)
    schedule is non-zero — duplicates in the list do not matter -/
theorem dayHoursInUse_spec (m : Model) (ids : List Id) (h24 : ∀ d ∈ m.dayProps, d.notZero.length = 24) :
    dayHoursInUse m ids = ((List.range 24).filter (hourOccupied m ids)).length := by
  unfold dayHoursInUse
  have hd : ∀ d ∈ (ids.eraseDups).filterMap (fun i => m.dayProps.find? (·.id = i)), d.notZero.length = 24 := by
    intro d hdm
    obtain ⟨i, _, hi⟩ := List.mem_filterMap.mp hdm
    exact h24 d (List.mem_of_find?_eq_some hi)
  have hfold := fun h hh => fold_or_get ((ids.eraseDups).filterMap (fun i => m.dayProps.find? (·.id = i)))
    (List.replicate 24 false) (by simp) hd h hh
  rw [count_true _ 24 (hfold 0 (by decide)).1]
  congr 1
  apply List.filter_congr
  intro h hh
  have hh24 : h < 24 := List.mem_range.mp hh
  rw [(hfold h hh24).2]
  simp only [List.getElem?_replicate, hh24, if_true, Option.getD_some, Bool.false_or, hourOccupied]
  -- `any` over the resolved schedules of the de-duplicated ids = `any` over the ids
  rw [Bool.eq_iff_iff]
  simp only [List.any_eq_true, List.mem_filterMap]
  constructor
  · rintro ⟨d, ⟨i, hi, hf⟩, hv⟩
    exact ⟨i, List.mem_eraseDups.mp hi, by simp [hf, hv]⟩
  · rintro ⟨i, hi, hv⟩
    cases hf : m.dayProps.find? (·.id = i) with
    | none => simp [hf] at hv
    | some d => exact ⟨d, ⟨i, List.mem_eraseDups.mpr hi, hf⟩, by simpa [hf] using hv⟩

/-- **yearly occupied time** (`occ_spaces_hours_in_use`): the sum over the days of the year of the number of hours at which some occupied
    space's schedule of that day is non-zero -/
theorem hoursInUse_spec (m : Model) (h24 : ∀ d ∈ m.dayProps, d.notZero.length = 24) :
    hoursInUse m =
      ((List.range (((occupiedDaySchedules m).head?.map List.length).getD 0)).map (fun k =>
        ((List.range 24).filter (hourOccupied m ((occupiedDaySchedules m).filterMap (fun s => s[k]?)))).length)).foldl (· + ·) 0 := by
  unfold hoursInUse
  simp only [dayHoursInUse_spec m _ h24]

/-! ## mean internal load -/

/-- **the mean internal load is the floor-area-weighted mean**: its product with the total occupied area is the sum of load × area -/
theorem averageLoad_weighted (F : Fns) (m : Model)
    (hA : f32Eps < rsum ((occupiedSpaces m).map (fun s => s.area m.walls * s.multiplier))) :
    averageLoad F m * rsum ((occupiedSpaces m).map (fun s => s.area m.walls * s.multiplier)) =
      rsum ((occupiedSpaces m).map (fun s =>
        ((s.loads.bind (fun l => m.loadsProps.find? (·.id = l))).map (·.loadsAvg)).getD 0 * (s.area m.walls * s.multiplier))) := by
  unfold averageLoad
  simp only [gt_iff_lt, hA, if_true]
  have hne : rsum ((occupiedSpaces m).map (fun s => s.area m.walls * s.multiplier)) ≠ 0 := by
    intro e; rw [e] at hA; unfold f32Eps at hA; exact absurd hA (by decide +kernel)
  exact div_mul_cancel₀ _ hne

/-- without occupied floor area the mean load is reported as 0 -/
theorem averageLoad_no_area (F : Fns) (m : Model)
    (hA : ¬ f32Eps < rsum ((occupiedSpaces m).map (fun s => s.area m.walls * s.multiplier))) : averageLoad F m = 0 := by
  unfold averageLoad
  simp only [gt_iff_lt, hA, if_false]

end Cte.C17Occ
