/-
  C13 (last clause) — the reveal surfaces generated for a set-back window (`Window::shades_for_setback`,
  bemodel/src/types/window.rs) span exactly the gap between the wall plane and the window plane along the window's edges.

  The wall's pose is (position, azimuth, tilt) as (cos, sin) pairs; `wallToWorld` is `to_global_coords_matrix` on a point of the
  wall's own frame (x along the wall, y up the wall, z the outward normal: the window plane is at z = −setback).
-/
import Cte.Model.Placement
import Mathlib.Tactic.Ring

namespace Cte.Props.C13Reveal
open Cte Cte.Place

theorem vec3_ext {a b : Vec3} (hx : a.x = b.x) (hy : a.y = b.y) (hz : a.z = b.z) : a = b := by
  cases a; cases b; simp_all

/-- **head reveal** (pose: the window's top-left corner, the wall's azimuth, the wall's tilt + 90°): its polygon point
    `(u, v)` is the wall-frame point `(x + u, y + h, v)` — with `v ∈ {0, −setback}` and `u ∈ {0, width}` it spans the gap
    along the top edge, for every wall tilt and azimuth -/
theorem head_reveal_spans_gap (pos : Vec3) (az t : Ang) (x y h u v : Rat) :
    toGlobal (wallToWorld pos az t ⟨x, y + h, 0⟩) az (Ang.add t Ang.half) u v = wallToWorld pos az t ⟨x + u, y + h, v⟩ := by
  unfold toGlobal wallToWorld vadd Ang.add Ang.half
  apply vec3_ext <;> simp [rotZ, rotX] <;> ring

/-- **sill reveal** (pose: the window's bottom-left corner, tilt − 90°): `(u, v) ↦ (x + u, y, −v)`, `v ∈ {0, setback}` -/
theorem sill_reveal_spans_gap (pos : Vec3) (az t : Ang) (x y u v : Rat) :
    toGlobal (wallToWorld pos az t ⟨x, y, 0⟩) az (Ang.add t (Ang.neg Ang.half)) u v = wallToWorld pos az t ⟨x + u, y, -v⟩ := by
  unfold toGlobal wallToWorld vadd Ang.add Ang.neg Ang.half
  apply vec3_ext <;> simp [rotZ, rotX] <;> ring

/-- **jamb reveals** (pose: azimuth ± 90°, vertical; polygon turned in its plane by the wall's tilt): the left one maps `(u, v)` to
    the wall-frame point `(x, y + h + v, −u)` (`u ∈ {0, setback}`, `v ∈ {0, −height}`), the right one `(u, v)` to
    `(x + w, y + h + v, u)` (`u ∈ {0, −setback}`): they span the gap along the two side edges, for every wall tilt and azimuth
    (before the repair F-C13d the pose kept the wall's tilt and the polygon was not turned: right on vertical walls only) -/
theorem left_reveal_spans_gap (pos : Vec3) (az t : Ang) (x y h u v : Rat) :
    toGlobal (wallToWorld pos az t ⟨x, y + h, 0⟩) (Ang.add az Ang.half) Ang.half (v * t.c + u * t.s) (v * t.s - u * t.c) =
      wallToWorld pos az t ⟨x, y + h + v, -u⟩ := by
  unfold toGlobal wallToWorld vadd Ang.add Ang.half
  apply vec3_ext <;> simp [rotZ, rotX] <;> ring

theorem right_reveal_spans_gap (pos : Vec3) (az t : Ang) (x y h w u v : Rat) :
    toGlobal (wallToWorld pos az t ⟨x + w, y + h, 0⟩) (Ang.add az (Ang.neg Ang.half)) Ang.half (u * t.s - v * t.c) (v * t.s + u * t.c) =
      wallToWorld pos az t ⟨x + w, y + h + v, u⟩ := by
  unfold toGlobal wallToWorld vadd Ang.add Ang.neg Ang.half
  apply vec3_ext <;> simp [rotZ, rotX] <;> ring

/-- what the code did before the repair, on a horizontal wall (a skylight, tilt 0): the left jamb's point (setback, 0) landed in
    the roof plane, not below it (finding F-C13d, now fixed) -/
theorem left_reveal_horizontal_old_code_counterexample :
    toGlobal (wallToWorld ⟨0, 0, 3⟩ Ang.zero Ang.zero ⟨1, 2, 0⟩) (Ang.add Ang.zero Ang.half) Ang.zero (3 / 10) 0 = ⟨1, 23 / 10, 3⟩ ∧
    wallToWorld ⟨0, 0, 3⟩ Ang.zero Ang.zero ⟨1, 2, -(3 / 10)⟩ = ⟨1, 2, 27 / 10⟩ := by
  constructor <;> decide +kernel

/-- the four corners of the head reveal of a concrete window (x = 3, y = 1, 2 × 1 m, set back 0.2 m) on a south wall at the origin -/
example : [(0, 0), (0, -(1 / 5 : Rat)), (2, -(1 / 5)), (2, 0)].map
      (fun p => toGlobal (wallToWorld ⟨0, 0, 0⟩ Ang.zero Ang.half ⟨3, 1 + 1, 0⟩) Ang.zero (Ang.add Ang.half Ang.half) p.1 p.2) =
    [⟨3, 0, 2⟩, ⟨3, 1 / 5, 2⟩, ⟨5, 1 / 5, 2⟩, ⟨5, 0, 2⟩] := by decide +kernel

/-- **the four generated surfaces are exactly the four rectangles between the wall plane (z = 0) and the window plane (z = −s)
    along the window's edges**, in the wall's frame, for every wall pose -/
theorem reveals_span_gap (pos : Vec3) (az t : Ang) (x y w h s : Rat) :
    reveals pos az t x y w h s =
      [ [⟨x, y + h, 0⟩, ⟨x, y + h, -s⟩, ⟨x + w, y + h, -s⟩, ⟨x + w, y + h, 0⟩].map (wallToWorld pos az t),
        [⟨x, y + h, 0⟩, ⟨x, y, 0⟩, ⟨x, y, -s⟩, ⟨x, y + h, -s⟩].map (wallToWorld pos az t),
        [⟨x + w, y + h, 0⟩, ⟨x + w, y + h, -s⟩, ⟨x + w, y, -s⟩, ⟨x + w, y, 0⟩].map (wallToWorld pos az t),
        [⟨x, y, 0⟩, ⟨x + w, y, 0⟩, ⟨x + w, y, -s⟩, ⟨x, y, -s⟩].map (wallToWorld pos az t) ] := by
  unfold reveals
  simp only [List.map_cons, List.map_nil, head_reveal_spans_gap, sill_reveal_spans_gap, left_reveal_spans_gap,
    right_reveal_spans_gap]
  simp

end Cte.Props.C13Reveal
