/-
  C18 — NewBDL_O.tbl, whole file: a file printed from a list of element rows and space rows (CRLF line ends, quoted names,
  blank-separated values) is read back row by row.
-/
import Cte.Props.C18Aux
import Cte.Lemmas.BdlLines
import Cte.Lemmas.BdlAttrs

namespace Cte.Props.C18Tbl
open Cte.Bdl Cte.Aux Cte.Props.C18Aux

/-- `lines()` of CRLF-terminated bodies -/
theorem splitNl_crlf (bs : List Str) (h : ∀ b ∈ bs, '\n' ∉ b) :
    splitNl (bs.flatMap (fun b => b ++ ['\r', '\n'])) = bs.map (· ++ ['\r']) ++ [[]] := by
  induction bs with
  | nil => rfl
  | cons b t ih =>
    have hb : '\n' ∉ b ++ ['\r'] := by
      intro m
      rcases List.mem_append.mp m with m | m
      · exact h b (by simp) m
      · simp at m
    have e : (b :: t).flatMap (fun b => b ++ ['\r', '\n']) = (b ++ ['\r']) ++ '\n' :: t.flatMap (fun b => b ++ ['\r', '\n']) := by
      simp [List.flatMap_cons, List.append_assoc]
    rw [e, splitNl_body _ _ hb, ih (fun x hx => h x (by simp [hx]))]
    simp

theorem stripCr_append_cr (b : Str) : stripCr (b ++ ['\r']) = b := by
  unfold stripCr
  simp

theorem linesOf_crlf (bs : List Str) (h : ∀ b ∈ bs, '\n' ∉ b) :
    linesOf (bs.flatMap (fun b => b ++ ['\r', '\n'])) = bs := by
  unfold linesOf
  rw [splitNl_crlf bs h]
  simp only [List.dropLast_concat, List.getLast?_concat, List.map_map]
  have : (stripCr ∘ fun x => x ++ ['\r']) = id := by
    funext x; simp [stripCr_append_cr]
  rw [this]; simp

/-- an element as written: name, the ten value tokens, and what they read as -/
structure ERow where
  name : Str
  toks : List Str
  pads : List Str
  trailing : Str
  nums : List Num
  idSurf : Int
  idSpace : Int

structure ERow.WF (r : ERow) : Prop where
  tlen : r.toks.length = 10
  plen : r.pads.length = 10
  name_ok : r.name ≠ [] ∧ Free isWs r.name ∧ Clean r.name ∧ NoQuoteEnds r.name
  toks_ok : ∀ t ∈ r.toks, t ≠ [] ∧ Free isWs t
  pads_ok : ∀ p ∈ r.pads, p ≠ [] ∧ ∀ c ∈ p, isWs c = true
  tr_ok : ∀ c ∈ r.trailing, isWs c = true
  nums_ok : (r.toks.take 7).mapM parseF32 = some r.nums
  type_ok : elemTypes.any (fun t => t.toList == r.toks.getD 7 []) = true
  a_ok : parseI32 (r.toks.getD 8 []) = some r.idSurf
  b_ok : parseI32 (r.toks.getD 9 []) = some r.idSpace

def ERow.nameLine (r : ERow) : Str := '"' :: (r.name ++ ['"'])
def ERow.valuesLine (r : ERow) : Str := padded (r.pads.zip r.toks) r.trailing
def ERow.parsed (r : ERow) : TElement :=
  { name := r.name, nums := r.nums, etype := r.toks.getD 7 [], idSurf := r.idSurf, idSpace := r.idSpace }

theorem padded_cons_nil (name : Str) (items : List (Str × Str)) (tr : Str) :
    padded (([], name) :: items) tr = name ++ padded items tr := by
  simp [padded]

/-- the first separator of the values line is a blank, so `name ++ " " ++ values` is the padded token list -/
theorem element_line (r : ERow) (h : r.WF) :
    parseElement (r.name ++ [' '] ++ r.valuesLine) = some r.parsed := by
  -- name ++ " " ++ padded (pads.zip toks): absorb the blank into the first pad
  cases hp : r.pads with
  | nil => have := h.plen; simp [hp] at this
  | cons p0 ps =>
    cases ht : r.toks with
    | nil => have := h.tlen; simp [ht] at this
    | cons t0 ts =>
      have hshape : r.name ++ [' '] ++ r.valuesLine =
          padded (([], r.name) :: ((' ' :: p0) :: ps).zip (t0 :: ts)) r.trailing := by
        simp [ERow.valuesLine, hp, ht, padded, List.append_assoc]
      rw [hshape]
      have := parseElement_row r.name (t0 :: ts) ((' ' :: p0) :: ps) r.trailing r.nums r.idSurf r.idSpace
        (by simpa [ht] using h.tlen) (by simpa [hp] using h.plen) ⟨h.name_ok.1, h.name_ok.2.1⟩
        (by simpa [ht] using h.toks_ok)
        (by
          intro p hpm
          rcases List.mem_cons.mp hpm with rfl | hpm
          · refine ⟨by simp, ?_⟩
            intro c hc
            rcases List.mem_cons.mp hc with rfl | hc
            · exact isWs_space
            · exact (h.pads_ok p0 (by simp [hp])).2 c hc
          · exact h.pads_ok p (by simp [hp, hpm]))
        h.tr_ok (by simpa [ht] using h.nums_ok) (by simpa [ht] using h.type_ok) (by simpa [ht] using h.a_ok) (by simpa [ht] using h.b_ok)
      simpa [ERow.parsed, ht] using this

/-- the element loop reads `n` printed elements (distinct names) and stops -/
theorem tblElements_rows (rows : List ERow) (hw : ∀ r ∈ rows, r.WF) (more : List Str) (acc : List (Str × TElement)) (idx : Int)
    (hne : rows ≠ []) (fuel : Nat) (hf : rows.length ≤ fuel) :
    tblElements fuel (idx + rows.length) idx acc (rows.flatMap (fun r => [r.nameLine, r.valuesLine]) ++ more) =
      .ok (rows.foldl (fun m r => assocInsert m r.name r.parsed) acc, more) := by
  induction rows generalizing acc idx fuel with
  | nil => exact absurd rfl hne
  | cons r t ih =>
    cases fuel with
    | zero => simp at hf
    | succ fuel =>
      have hr := hw r (by simp)
      have hname : trim (trimMatches '"' r.nameLine) = r.name := by
        unfold ERow.nameLine
        rw [trimMatches_quoted r.name hr.name_ok.2.2.2.1 hr.name_ok.2.2.2.2, trim_clean _ hr.name_ok.2.2.1]
      simp only [List.flatMap_cons, List.cons_append, List.nil_append, tblElements, hname, element_line r hr]
      cases t with
      | nil =>
        simp
      | cons r2 t2 =>
        have hstep : ¬ (idx + 1 = idx + ((r :: r2 :: t2).length : Int)) := by
          simp only [List.length_cons]; push_cast; omega
        simp only [hstep, if_false]
        have := ih (fun x hx => hw x (by simp [hx])) (assocInsert acc r.name r.parsed) (idx + 1) (by simp) fuel (by simpa using hf)
        have hidx : idx + 1 + ((r2 :: t2).length : Int) = idx + ((r :: r2 :: t2).length : Int) := by
          simp only [List.length_cons]; push_cast; omega
        rw [hidx] at this
        simpa [List.foldl_cons] using this

/-- a space as written: name, four value tokens -/
structure SRow where
  name : Str
  toks : List Str
  pads : List Str
  trailing : Str
  idSpace : Int
  mult : Int
  area : Num
  qint : Num

structure SRow.WF (r : SRow) : Prop where
  tlen : r.toks.length = 4
  plen : r.pads.length = 4
  name_ok : r.name ≠ [] ∧ Free isWs r.name ∧ NoQuoteEnds r.name
  toks_ok : ∀ t ∈ r.toks, t ≠ [] ∧ Free isWs t
  pads_ok : ∀ p ∈ r.pads, p ≠ [] ∧ ∀ c ∈ p, isWs c = true
  tr_ok : ∀ c ∈ r.trailing, isWs c = true
  a_ok : parseI32 (r.toks.getD 0 []) = some r.idSpace
  b_ok : parseI32 (r.toks.getD 1 []) = some r.mult
  c_ok : parseF32 (r.toks.getD 2 []) = some r.area
  d_ok : parseF32 (r.toks.getD 3 []) = some r.qint

def SRow.nameLine (r : SRow) : Str := '"' :: (r.name ++ ['"'])
def SRow.valuesLine (r : SRow) : Str := padded (r.pads.zip r.toks) r.trailing
def SRow.parsed (r : SRow) : TSpace := { name := r.name, idSpace := r.idSpace, mult := r.mult, area := r.area, qint := r.qint }

/-- a space row: the name (one token) followed by the values line with any padding -/
theorem parseSpace_row (name : Str) (toks : List Str) (pads : List Str) (trailing : Str) (a b : Int) (c d : Num)
    (hlen : toks.length = 4) (hplen : pads.length = 4)
    (hname : name ≠ [] ∧ Free isWs name)
    (htoks : ∀ t ∈ toks, t ≠ [] ∧ Free isWs t)
    (hpads : ∀ p ∈ pads, p ≠ [] ∧ ∀ c ∈ p, isWs c = true) (htr : ∀ c ∈ trailing, isWs c = true)
    (ha : parseI32 (toks.getD 0 []) = some a) (hb : parseI32 (toks.getD 1 []) = some b)
    (hc : parseF32 (toks.getD 2 []) = some c) (hd : parseF32 (toks.getD 3 []) = some d) :
    parseSpace (padded (([], name) :: pads.zip toks) trailing) =
      some { name := name, idSpace := a, mult := b, area := c, qint := d } := by
  have hitems : splitWs (padded (([], name) :: pads.zip toks) trailing) = name :: toks := by
    rw [splitWs_padded]
    · have : (pads.zip toks).map (·.2) = toks := by
        rw [List.map_snd_zip]; omega
      simp [this]
    · intro it hit c hc
      rcases List.mem_cons.mp hit with rfl | hit
      · simp at hc
      · exact (hpads it.1 (List.of_mem_zip hit).1).2 c hc
    · exact htr
    · intro it hit
      rcases List.mem_cons.mp hit with rfl | hit
      · exact hname
      · exact htoks it.2 (List.of_mem_zip hit).2
    · intro i h
      have hi : i < (pads.zip toks).length := by simpa using h
      have : ((([] : Str), name) :: pads.zip toks)[i + 1] = (pads.zip toks)[i] := by simp
      rw [this]
      have hmem : (pads.zip toks)[i] ∈ pads.zip toks := List.getElem_mem hi
      exact (hpads _ (List.of_mem_zip hmem).1).1
  unfold parseSpace
  simp only [hitems]
  have h5 : ((name :: toks).length != 5) = false := by simp [hlen]
  simp only [h5, Bool.false_eq_true, if_false, nth, List.getD_cons_succ, List.getD_cons_zero]
  simp only [ha, hb, hc, hd]

theorem space_line (r : SRow) (h : r.WF) : parseSpace (r.name ++ [' '] ++ r.valuesLine) = some r.parsed := by
  cases hp : r.pads with
  | nil => have := h.plen; simp [hp] at this
  | cons p0 ps =>
    cases ht : r.toks with
    | nil => have := h.tlen; simp [ht] at this
    | cons t0 ts =>
      have hshape : r.name ++ [' '] ++ r.valuesLine =
          padded (([], r.name) :: ((' ' :: p0) :: ps).zip (t0 :: ts)) r.trailing := by
        simp [SRow.valuesLine, hp, ht, padded, List.append_assoc]
      rw [hshape]
      have := parseSpace_row r.name (t0 :: ts) ((' ' :: p0) :: ps) r.trailing r.idSpace r.mult r.area r.qint
        (by simpa [ht] using h.tlen) (by simpa [hp] using h.plen) ⟨h.name_ok.1, h.name_ok.2.1⟩
        (by simpa [ht] using h.toks_ok)
        (by
          intro p hpm
          rcases List.mem_cons.mp hpm with rfl | hpm
          · refine ⟨by simp, ?_⟩
            intro c hc
            rcases List.mem_cons.mp hc with rfl | hc
            · exact isWs_space
            · exact (h.pads_ok p0 (by simp [hp])).2 c hc
          · exact h.pads_ok p (by simp [hp, hpm]))
        h.tr_ok (by simpa [ht] using h.a_ok) (by simpa [ht] using h.b_ok) (by simpa [ht] using h.c_ok) (by simpa [ht] using h.d_ok)
      simpa [SRow.parsed] using this

theorem tblSpaces_rows (rows : List SRow) (hw : ∀ r ∈ rows, r.WF) (more : List Str) (acc : List (Str × TSpace)) (idx : Int)
    (hne : rows ≠ []) (fuel : Nat) (hf : rows.length ≤ fuel) :
    tblSpaces fuel (idx + rows.length) idx acc (rows.flatMap (fun r => [r.nameLine, r.valuesLine]) ++ more) =
      .ok (rows.foldl (fun m r => assocInsert m r.name r.parsed) acc) := by
  induction rows generalizing acc idx fuel with
  | nil => exact absurd rfl hne
  | cons r t ih =>
    cases fuel with
    | zero => simp at hf
    | succ fuel =>
      have hr := hw r (by simp)
      have hname : trimMatches '"' r.nameLine = r.name := by
        unfold SRow.nameLine
        exact trimMatches_quoted r.name hr.name_ok.2.2.1 hr.name_ok.2.2.2
      simp only [List.flatMap_cons, List.cons_append, List.nil_append, tblSpaces, hname, space_line r hr]
      cases t with
      | nil => simp
      | cons r2 t2 =>
        have hstep : ¬ (idx + 1 = idx + ((r :: r2 :: t2).length : Int)) := by
          simp only [List.length_cons]; push_cast; omega
        simp only [hstep, if_false]
        have := ih (fun x hx => hw x (by simp [hx])) (assocInsert acc r.name r.parsed) (idx + 1) (by simp) fuel (by simpa using hf)
        have hidx : idx + 1 + ((r2 :: t2).length : Int) = idx + ((r :: r2 :: t2).length : Int) := by
          simp only [List.length_cons]; push_cast; omega
        rw [hidx] at this
        simpa [List.foldl_cons] using this

theorem flatMap_pair_length {α : Type} (l : List α) (f g : α → Str) :
    (l.flatMap (fun r => [f r, g r])).length = 2 * l.length := by
  induction l with
  | nil => rfl
  | cons a t ih =>
    rw [List.flatMap_cons, List.length_append, ih]
    simp only [List.length_cons, List.length_nil]
    omega

/-- **NewBDL_O.tbl, whole file**: two header lines, the counts line, then for every element and every space a quoted name line and a
    values line, all CRLF-terminated — `tbl::parse` returns every element and every space row as written (names distinct: the maps
    keep the last row of a name) -/
theorem tblParse_file (l1 l2 counts : Str) (els : List ERow) (sps : List SRow)
    (hw : ∀ r ∈ els, r.WF) (hs : ∀ r ∈ sps, r.WF) (hne : els ≠ []) (hns : sps ≠ [])
    (hcounts : (splitWs counts).mapM parseI32 = some [(els.length : Int), (sps.length : Int)])
    (hnl : ∀ l ∈ l1 :: l2 :: counts :: (els.flatMap (fun r => [r.nameLine, r.valuesLine]) ++ sps.flatMap (fun r => [r.nameLine, r.valuesLine])), '\n' ∉ l) :
    tblParse ((l1 :: l2 :: counts :: (els.flatMap (fun r => [r.nameLine, r.valuesLine]) ++
        sps.flatMap (fun r => [r.nameLine, r.valuesLine]))).flatMap (fun b => b ++ ['\r', '\n'])) =
      .ok { elements := els.foldl (fun m r => assocInsert m r.name r.parsed) [],
            spaces := sps.foldl (fun m r => assocInsert m r.name r.parsed) [] } := by
  unfold tblParse
  rw [linesOf_crlf _ hnl]
  simp only [List.drop_succ_cons, List.drop_zero, hcounts]
  have hlen : ¬ (([(els.length : Int), (sps.length : Int)] : List Int).length < 2) := by simp
  simp only [hlen, if_false, List.getD_cons_zero, List.getD_cons_succ]
  have he := tblElements_rows els hw (sps.flatMap (fun r => [r.nameLine, r.valuesLine])) [] 0 hne
    (els.flatMap (fun r => [r.nameLine, r.valuesLine]) ++ sps.flatMap (fun r => [r.nameLine, r.valuesLine])).length
    (by
      have := flatMap_pair_length els ERow.nameLine ERow.valuesLine
      simp only [List.length_append, this]; omega)
  simp only [Int.zero_add] at he
  rw [he]
  simp only
  have hsp := tblSpaces_rows sps hs [] [] 0 hns (sps.flatMap (fun r => [r.nameLine, r.valuesLine])).length
    (by
      have := flatMap_pair_length sps SRow.nameLine SRow.valuesLine
      rw [this]; omega)
  simp only [Int.zero_add, List.append_nil] at hsp
  rw [hsp]

end Cte.Props.C18Tbl
