/-
C11 — Reference area, volumes, compactness and envelope membership are consistent.
-/
import Cte.Model.Energy
import Cte.Lemmas.Sum
import Cte.Lemmas.Round
import Mathlib.Algebra.Order.Floor.Ring
import Mathlib.Data.Rat.Floor
import Mathlib.Tactic.FieldSimp
namespace Cte.C11

/-! ## envelope membership -/

def spaceInside (m : Model) (id : Id) : Bool := ((m.getSpace id).map (·.insideTenv)).getD false

/-- `tenv_rule`: an element belongs to the envelope exactly when it bounds an inside space towards
outside air, ground or an adiabatic boundary, or separates an inside space from an outside one -/
theorem tenv_rule (w : Wall) (m : Model) :
    w.isTenv m = true ↔
      (w.bounds ≠ .interior ∧ spaceInside m w.space = true) ∨
      (w.bounds = .interior ∧ spaceInside m w.space ≠ ((w.nextTo.map (spaceInside m)).getD false)) := by
  unfold Wall.isTenv spaceInside
  cases hb : w.bounds <;> cases hn : w.nextTo <;> simp [hb, hn, Option.bind]

/-! ## definitions of the global figures -/

def habitableInside (s : SpaceP) : Bool := s.insideTenv && s.kind != .uninhabited

/-- `aref_def`, `vol_def`, `compactness_def` -/
theorem global_defs (F : Fns) (hb : F.bias = 0) (m : Model) :
    let g := m.globalProps F
    let sp := m.spaceProps F
    g.aRef = round2 (rsum (sp.map (fun s => if habitableInside s then s.area * s.multiplier else 0))) ∧
    g.volEnvGross = round2 (rsum (sp.map (fun s => if s.insideTenv then s.area * s.height * s.multiplier else 0))) ∧
    g.volEnvNet = round2 (rsum (sp.map (fun s => if s.insideTenv then s.area * s.heightNet * s.multiplier else 0))) ∧
    g.compactness = (if g.exposedArea = 0 then 0 else g.volEnvGross / g.exposedArea) ∧
    g.exposedArea = rsum (((m.wallProps F).filter (fun w => w.isTenv && (w.bounds = .exterior || w.bounds = .ground))).map
      (fun w => w.areaGross * w.multiplier)) := by
  simp only [Model.globalProps, Fns.r2_unbiased F hb, habitableInside]
  refine ⟨?_, ?_, ?_, ?_, ?_⟩ <;> first | rfl | trivial

/-- a sum with a condition is the sum over the filtered list -/
theorem rsum_ite_filter {α} (l : List α) (p : α → Bool) (f : α → Rat) :
    rsum (l.map (fun x => if p x then f x else 0)) = rsum ((l.filter p).map f) := by
  induction l with
  | nil => simp
  | cons a t ih => by_cases h : p a <;> simp [List.filter_cons, h, ih]

/-! ## the two ventilation rates are one function -/

theorem lastById_of_nodup {α} (id : α → Id) (l : List α) (h : (l.map id).Nodup) : lastById id l = l := by
  unfold lastById
  induction l with
  | nil => rfl
  | cons x t ih =>
    have hx : x ∈ x :: t := by simp
    simp only [List.map_cons, List.nodup_cons] at h
    have hnot : t.any (fun y => id y = id x) = false := by
      rw [List.any_eq_false]
      intro y hy heq
      have : id y = id x := by simpa using heq
      exact h.1 (List.mem_map.2 ⟨y, hy, this⟩)
    simp only [lastById.go, hnot]
    simp only [Bool.false_eq_true, if_false]
    congr 1
    exact ih h.2

/-- `ventilation_consistent`: with unique space ids the rate reported with the indicators
(`props.rs`) is the rate used in the U-value calculation (`energy/mod.rs`) -/
theorem ventilation_consistent (F : Fns) (m : Model) (h : (m.spaces.map (·.id)).Nodup) :
    (m.globalProps F).ventilation = m.globalVentilationU F := by
  unfold Model.globalProps Model.globalVentilationU Model.volEnvInhNetU Model.spaceProps
  simp only [lastById_of_nodup _ _ h]
  congr 2
  rw [List.map_map, ← rsum_ite_filter]
  congr 1

/-! ## scaling all lengths -/

def P2.scale (s : Rat) (p : P2) : P2 := { x := s * p.x, y := s * p.y }

theorem shoelace_go_scale (s : Rat) (v0 : P2) (l : List P2) :
    shoelace2.go (P2.scale s v0) (l.map (P2.scale s)) = s * s * shoelace2.go v0 l := by
  induction l with
  | nil => simp [shoelace2.go]
  | cons a t ih =>
    cases t with
    | nil => simp [shoelace2.go, P2.scale]; ring
    | cons b t' =>
      simp only [List.map_cons, shoelace2.go] at ih ⊢
      rw [ih]; simp [P2.scale]; ring

theorem shoelace_scale (s : Rat) (p : List P2) :
    shoelace2 (p.map (P2.scale s)) = s * s * shoelace2 p := by
  cases p with
  | nil => simp [shoelace2]
  | cons v0 t => simpa [shoelace2] using shoelace_go_scale s v0 (v0 :: t)

theorem rabs_mul_nonneg (c x : Rat) (hc : 0 ≤ c) : rabs (c * x) = c * rabs x := by
  unfold rabs
  by_cases hx : x < 0
  · by_cases hcx : c * x < 0
    · simp [hx, hcx]
    · have : c = 0 := by
        by_contra hne
        have hcp : 0 < c := lt_of_le_of_ne hc (Ne.symm hne)
        exact hcx (mul_neg_of_pos_of_neg hcp hx)
      simp [this]
  · have hx' : 0 ≤ x := not_lt.mp hx
    have : ¬ c * x < 0 := not_lt.mpr (mul_nonneg hc hx')
    simp [hx, this]

/-- `scaling` (areas): scaling every length by s ≥ 0 multiplies a polygon's area by s² -/
theorem polyArea_scale (s : Rat) (hs : 0 ≤ s) (p : List P2) :
    polyArea (p.map (P2.scale s)) = s * s * polyArea p := by
  unfold polyArea
  simp only [List.length_map]
  split
  · simp
  · rw [shoelace_scale, show s * s * shoelace2 p / 2 = (s * s) * (shoelace2 p / 2) by ring]
    exact rabs_mul_nonneg _ _ (mul_nonneg hs hs)

/-- volumes: area × height with both scaled → s³ -/
theorem volume_scale (s a h mult : Rat) : (s * s * a) * (s * h) * mult = s * s * s * (a * h * mult) := by ring

/-- compactness: V/A with V ~ s³, A ~ s² → s (unrounded quantities) -/
theorem compactness_scale (s v a : Rat) (hs : s ≠ 0) (ha : a ≠ 0) :
    (s * s * s * v) / (s * s * a) = s * (v / a) := by
  field_simp

/-! ## classes depend only on the angle modulo 360° -/

theorem rat_floor_eq (q : ℚ) : q.floor = ⌊q⌋ := rfl

theorem normalize_add_period (v : Rat) (k : Int) : normalize (v + 360 * k) 0 360 = normalize v 0 360 := by
  unfold normalize
  simp only [sub_zero, add_zero]
  have : ((v + 360 * (k : Rat)) / 360) = v / 360 + (k : Rat) := by field_simp
  rw [this, rat_floor_eq, rat_floor_eq, Int.floor_add_intCast]
  push_cast
  ring

/-- `class_mod_360` -/
theorem tiltClass_mod_360 (a : Rat) (k : Int) : tiltClass (a + 360 * k) = tiltClass a := by
  unfold tiltClass; rw [normalize_add_period]

theorem orientClass_mod_360 (a : Rat) (k : Int) : orientClass (a + 360 * k) = orientClass a := by
  unfold orientClass; rw [normalize_add_period]

/-- the reduced angle lies in [0, 360) -/
theorem normalize_range (v : Rat) : 0 ≤ normalize v 0 360 ∧ normalize v 0 360 < 360 := by
  unfold normalize
  simp only [sub_zero, add_zero]
  have h1 := Int.floor_le (v / 360)
  have h2 := Int.lt_floor_add_one (v / 360)
  rw [rat_floor_eq]
  constructor
  · have : (⌊v / 360⌋ : Rat) * 360 ≤ v := by
      have := mul_le_mul_of_nonneg_right h1 (by norm_num : (0 : Rat) ≤ 360)
      simpa using this
    linarith
  · have : v < ((⌊v / 360⌋ : Rat) + 1) * 360 := by
      have := mul_lt_mul_of_pos_right h2 (by norm_num : (0 : Rat) < 360)
      simpa using this
    linarith

/-- on [0, 360) the reduction is the identity, so the parser's thresholds (no reduction) and the
model's classifier coincide there: `parser_model_agree` -/
theorem normalize_id (v : Rat) (h0 : 0 ≤ v) (h1 : v < 360) : normalize v 0 360 = v := by
  unfold normalize
  simp only [sub_zero, add_zero]
  have : ⌊v / 360⌋ = 0 := by
    rw [Int.floor_eq_iff]
    constructor
    · simp; positivity
    · simp; rw [div_lt_one (by norm_num)]; exact h1
  rw [rat_floor_eq, this]; simp

/-- `hulc::bdl::Wall::position` (no reduction of the angle) -/
def parserTilt (t : Rat) : TiltC :=
  if t ≤ 60 then .top else if t < 120 then .side else if t < 240 then .bottom else if t < 300 then .side else .top

theorem parser_model_agree (t : Rat) (h0 : 0 ≤ t) (h1 : t ≤ 360) : parserTilt t = tiltClass t := by
  rcases lt_or_eq_of_le h1 with h | h
  · unfold tiltClass; rw [normalize_id t h0 h]; rfl
  · subst h; decide +kernel

/-! ## non-vacuity -/
example : tiltClass (-300) = tiltClass 60 ∧ tiltClass 60 = .top ∧ tiltClass (601 / 10) = .side := by decide +kernel
example : polyArea ([⟨0, 0⟩, ⟨2, 0⟩, ⟨2, 3⟩, ⟨0, 3⟩].map (P2.scale 2)) = 24 := by decide +kernel

end Cte.C11
