/-
C14, second sentence, for the U-values: one decidable sanity test (`saneU`, evaluated by the driver on the
models the harness calls sane) under which **no wall of the model** has a U-value with a failed division —
the branch theorems of `Cte/Props/C14.lean` (air contact, ground, partitions) composed.
-/
import Cte.Model.Sane
import Cte.Props.C14
namespace Cte.C14S
open Cte.C14

variable {F : Fns} {m : Model}

theorem resOf_some {w : Wall} {c : WallCons} {r : Rat} (hc : m.cons.getWallCons w.cons = some c)
    (hr : c.resistance m.cons = some r) : w.resOf m = some r := by
  simp [Wall.resOf, hc, hr]

/-- the hypotheses of the branch theorems, read off the Boolean test -/
structure Hyps (F : Fns) (m : Model) : Prop where
  bias : F.bias = 0
  pi : 0 < F.pi
  area : ∀ x ∈ m.walls, 0 < x.area
  res : ∀ x ∈ m.walls, ∀ c r, m.cons.getWallCons x.cons = some c → c.resistance m.cons = some r → 0 ≤ r
  dIns : 0 ≤ m.info.dPerimInsulation
  rIns : 0 ≤ m.info.rnPerimInsulation
  uw : ∀ w ∈ m.walls, w.bounds = .ground → ∀ c r, m.cons.getWallCons w.cons = some c →
    c.resistance m.cons = some r → 0 < F.r2 (uExteriorRaw w.tiltC r)
  spaces : ∀ s ∈ m.spaces, uncondOKb F m s = true

theorem hyps_of_saneU (h : saneU F m = true) : Hyps F m := by
  unfold saneU at h
  simp only [Bool.and_eq_true, decide_eq_true_eq, List.all_eq_true] at h
  obtain ⟨⟨⟨⟨⟨⟨⟨hb, hpi⟩, ha⟩, hr⟩, hd⟩, hrn⟩, hu⟩, hs⟩ := h
  refine ⟨hb, hpi, ha, ?_, hd, hrn, ?_, hs⟩
  · intro x hx c r hc hrr
    have := hr x hx
    rw [resOf_some hc hrr] at this
    simpa using this
  · intro w hw hg c r hc hrr
    have := hu w hw
    rw [resOf_some hc hrr, hg] at this
    simpa using this

/-- every element that is not a partition has a U-value without failed division -/
theorem nonInterior_nf (H : Hyps F m) : ∀ w ∈ m.walls, ∀ u, w.uNonInterior F m = some u → u.nf = false := by
  intro w hw u hu
  cases hb : w.bounds with
  | ground =>
    have hv : w.uValue F m = some u := by simp only [Wall.uValue, hb]; exact hu
    cases hc : m.cons.getWallCons w.cons with
    | none => simp [Wall.uNonInterior, hc] at hu
    | some c =>
      cases hr : c.resistance m.cons with
      | none => simp [Wall.uNonInterior, hc, hr, hb, Wall.uExterior] at hu
      | some r =>
        exact ground_uValue_finite F H.bias H.pi w m c r u hb hc hr (H.uw w hw hb c r hc hr) H.area H.res H.dIns H.rIns hv
  | exterior | adiabatic | interior =>
    cases hc : m.cons.getWallCons w.cons with
    | none => simp [Wall.uNonInterior, hc] at hu
    | some c =>
      simp only [Wall.uNonInterior, hc, hb, Wall.uExterior] at hu
      cases hr : c.resistance m.cons with
      | none => simp [hr] at hu
      | some r => simp [hr] at hu; rw [← hu]

theorem uncondOK_of_hyps (H : Hyps F m) : ∀ s ∈ m.spaces, UncondOK F m s := by
  intro s hs
  have hb := H.spaces s hs
  unfold uncondOKb at hb
  simp only [Bool.and_eq_true, decide_eq_true_eq] at hb
  obtain ⟨⟨h1, h2⟩, h3⟩ := hb
  refine ⟨uaExt_nf F m s (nonInterior_nf H), h1, h2, ?_⟩
  split at h3
  · rename_i n hn
    exact ⟨n, hn, by simpa using h3⟩
  · cases h3

/-- **C14 for the U-values**: when the sanity test passes, no wall of the model — in contact with air, with the
ground, or a partition of any kind — has a U-value that went through a failed division -/
theorem saneU_walls_finite (h : saneU F m = true) :
    ∀ w ∈ m.walls, ∀ u, w.uValue F m = some u → u.nf = false := by
  have H := hyps_of_saneU h
  intro w hw u hu
  cases hb : w.bounds with
  | interior =>
    cases hc : m.cons.getWallCons w.cons with
    | none => simp [Wall.uValue, hb, hc] at hu
    | some c =>
      cases hr : c.resistance m.cons with
      | none =>
        simp only [Wall.uValue, hb, hc, hr] at hu
        repeat' split at hu
        all_goals simp at hu
      | some r =>
        exact partition_uValue_finite F w m c r u hb (H.area w hw) hc hr (H.res w hw c r hc hr) (uncondOK_of_hyps H) hu
  | ground | exterior | adiabatic =>
    apply nonInterior_nf H w hw u
    simpa only [Wall.uValue, hb] using hu

/-- in the driver's words: the list of walls with a failed division is empty -/
theorem saneU_nfWalls_empty (h : saneU F m = true) : nfWalls F m = [] := by
  unfold nfWalls
  rw [List.map_eq_nil_iff, List.filter_eq_nil_iff]
  intro w hw
  cases hu : w.uValue F m with
  | none => simp
  | some u => simp [saneU_walls_finite h w hw u hu]

/-- the test passes on the buried room of `C14.exModel` (a ground slab and a buried wall) -/
example : saneU Fns.approx exModel = true := by decide +kernel

end Cte.C14S
