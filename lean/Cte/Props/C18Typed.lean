/-
  C18 — the typed elements carry the written values, with the documented defaults when an attribute is absent.
  Statements about `BdlData.wallOf`, `spaceOf`, `windowOf`, `materialOf`, `glassOf`, `winConsOf`, `constructionOf`
  (the models of the `TryFrom<BdlBlock>` implementations), in terms of what `getNum` / `getStr` find in the block.
-/
import Cte.Model.BdlData

namespace Cte.Props.C18Typed
open Cte.Bdl Cte.BdlData

/-! ### walls -/

theorem wallOf_ok (b : Block) (w : Wall) (h : wallOf b = .ok w) :
    ∃ space cons location bounds, b.parent = some space ∧ reqStr b.attrs "CONSTRUCTION" = .ok cons ∧
      wallLocation b.attrs = .ok location ∧ wallBounds b = .ok bounds ∧
      w = { name := b.name, space := space, cons := cons, location := location, x := numOr b.attrs "X" 0, y := numOr b.attrs "Y" 0,
            z := numOr b.attrs "Z" 0, angle := some (if location == some "BOTTOM".toList then some 180 else numOr b.attrs "AZIMUTH" 0),
            tilt := wallTilt b location, hasPolygon := (getStr b.attrs "POLYGON").isSome, bounds := bounds,
            nextto := if bounds == "INTERIOR" then getStr b.attrs "NEXT-TO" else none } := by
  unfold wallOf at h
  simp only at h
  split at h
  · cases h
  · cases h
  · cases h
  · cases h
  · rename_i space cons location bounds hp hc hl hb
    simp only [Except.ok.injEq] at h
    exact ⟨space, cons, location, bounds, hp, hc, hl, hb, h.symm⟩

/-- a written TILT is kept -/
theorem wall_tilt_written (b : Block) (w : Wall) (t : TNum) (h : wallOf b = .ok w) (ht : getNum b.attrs "TILT" = some t) :
    w.tilt = t := by
  obtain ⟨_, _, _, _, _, _, _, _, rfl⟩ := wallOf_ok b w h
  simp [wallTilt, ht]

/-- without TILT: roofs and TOP elements face up (0), BOTTOM elements face down (180), the rest are vertical (90) -/
theorem wall_tilt_default (b : Block) (w : Wall) (h : wallOf b = .ok w) (ht : getNum b.attrs "TILT" = none) :
    w.tilt = (if b.btype == "ROOF".toList || w.location == some "TOP".toList then some 0
              else if w.location == some "BOTTOM".toList then some 180 else some 90) := by
  obtain ⟨_, _, _, _, _, _, _, _, rfl⟩ := wallOf_ok b w h
  simp [wallTilt, ht]

/-- the wall belongs to the space it is written under, with the written construction -/
theorem wall_space_and_cons (b : Block) (w : Wall) (h : wallOf b = .ok w) :
    b.parent = some w.space ∧ getStr b.attrs "CONSTRUCTION" = some w.cons ∧ w.name = b.name := by
  obtain ⟨_, _, _, _, hp, hc, _, _, rfl⟩ := wallOf_ok b w h
  refine ⟨hp, ?_, rfl⟩
  unfold reqStr at hc
  split at hc
  · rename_i v hv; cases hc; exact hv
  · cases hc

/-- BOTTOM elements get the azimuth 180 whatever is written; the others keep the written AZIMUTH (0 when absent) -/
theorem wall_azimuth (b : Block) (w : Wall) (h : wallOf b = .ok w) :
    w.angle = some (if w.location == some "BOTTOM".toList then some 180 else numOr b.attrs "AZIMUTH" 0) := by
  obtain ⟨_, _, _, _, _, _, _, _, rfl⟩ := wallOf_ok b w h
  rfl

/-- only interior walls of the STANDARD kind have a neighbour -/
theorem wall_nextto (b : Block) (w : Wall) (h : wallOf b = .ok w) :
    w.nextto = (if w.bounds == "INTERIOR" then getStr b.attrs "NEXT-TO" else none) := by
  obtain ⟨_, _, _, _, _, _, _, _, rfl⟩ := wallOf_ok b w h
  rfl

/-- the location is TOP, BOTTOM or a vertex name written after `SPACE-`; anything else is rejected -/
theorem wall_location (a : Attrs) (l : Option Str) (h : wallLocation a = .ok l) :
    (getStr a "LOCATION" = none ∧ l = none) ∨
    (∃ loc, getStr a "LOCATION" = some loc ∧ ((loc = "TOP".toList ∨ loc = "BOTTOM".toList) ∧ l = some loc ∨
       startsWith "SPACE-".toList loc = true ∧ l = some (loc.drop 6))) := by
  unfold wallLocation at h
  split at h
  · rename_i hn; simp only [Except.ok.injEq] at h; exact Or.inl ⟨hn, h.symm⟩
  · rename_i loc hl
    right
    refine ⟨loc, hl, ?_⟩
    split at h
    · rename_i htb
      simp only [Except.ok.injEq] at h
      left
      refine ⟨?_, h.symm⟩
      simpa using htb
    · split at h
      · rename_i hs
        simp only [Except.ok.injEq] at h
        exact Or.inr ⟨hs, h.symm⟩
      · cases h

/-! ### materials, glazing, window constructions, constructions -/

theorem reqNum_ok {a : Attrs} {k : String} {v : TNum} (h : reqNum a k = .ok v) : getNum a k = some v := by
  unfold reqNum at h
  split at h
  · rename_i x hx; cases h; exact hx
  · cases h

theorem reqStr_ok {a : Attrs} {k : String} {v : Str} (h : reqStr a k = .ok v) : getStr a k = some v := by
  unfold reqStr at h
  split at h
  · rename_i x hx; cases h; exact hx
  · cases h

/-- the glazing's solar factor is the written shading coefficient times 0.86 -/
theorem glass_values (b : Block) (g : Glass) (h : glassOf b = .ok g) :
    ∃ sc, getNum b.attrs "SHADING-COEF" = some sc ∧ g.gGln = tmul sc (some (86 / 100)) ∧
      getNum b.attrs "GLASS-CONDUCTANCE" = some g.conductivity ∧ g.group = (getStr b.attrs "GROUP").getD "Vidrios".toList := by
  unfold glassOf at h
  simp only at h
  split at h
  · cases h
  · split at h
    · cases h
    · split at h
      · rename_i c s hc hs
        simp only [Except.ok.injEq] at h
        subst h
        exact ⟨s, reqNum_ok hs, rfl, reqNum_ok hc, rfl⟩
      · cases h
      · cases h

/-- the frame fraction is the written percentage over 100; ΔU defaults to 0; the July factor is optional -/
theorem wincons_values (b : Block) (c : WinCons) (h : winConsOf b = .ok c) :
    ∃ p, getNum b.attrs "PORCENTAGE" = some p ∧ c.framefrac = tmul p (some (1 / 100)) ∧
      getStr b.attrs "GLASS-TYPE" = some c.glass ∧ getStr b.attrs "NAME-FRAME" = some c.frame ∧
      getNum b.attrs "INF-COEF" = some c.infcoeff ∧ c.deltau = numOr b.attrs "porcentajeIncrementoU" 0 ∧
      c.gglshwi = getNum b.attrs "TransmisividadJulio" := by
  unfold winConsOf at h
  simp only at h
  split at h
  · rename_i g _ f _ p i hg _ hf _ hp hi
    simp only [Except.ok.injEq] at h
    subst h
    exact ⟨p, reqNum_ok hp, rfl, reqStr_ok hg, reqStr_ok hf, reqNum_ok hi, rfl, rfl⟩
  all_goals cases h

/-- a material by properties: conductivity and density as written, specific heat 800 when absent -/
theorem material_properties (b : Block) (m : Material) (h : materialOf b = .ok m)
    (ht : getStr b.attrs "TYPE" = some "PROPERTIES".toList) :
    ∃ c d, getNum b.attrs "CONDUCTIVITY" = some c ∧ getNum b.attrs "DENSITY" = some d ∧
      m.properties = some (getNum b.attrs "THICKNESS", c, d, numOr b.attrs "SPECIFIC-HEAT" 800, getNum b.attrs "VAPOUR-DIFFUSIVITY-FACTOR") ∧
      m.resistance = none ∧ m.group = (getStr b.attrs "GROUP").getD "Materiales".toList := by
  unfold materialOf at h
  simp only [reqStr, ht] at h
  simp only [beq_self_eq_true, if_true] at h
  split at h
  · rename_i c d hc hd
    simp only [Except.ok.injEq] at h
    subst h
    exact ⟨c, d, reqNum_ok hc, reqNum_ok hd, rfl, rfl, rfl⟩
  all_goals cases h

/-- a construction's absorptance defaults to 0.6 -/
theorem construction_values (b : Block) (c : Construction) (h : constructionOf b = .ok c) :
    getStr b.attrs "LAYERS" = some c.layers ∧ c.absorptance = numOr b.attrs "ABSORPTANCE" (6 / 10) ∧ b.parent = some c.parent := by
  unfold constructionOf at h
  simp only at h
  split at h
  · cases h
  · split at h
    · cases h
    · split at h
      · cases h
      · rename_i layers hl
        split at h
        · cases h
        · rename_i p hp
          simp only [Except.ok.injEq] at h
          subst h
          exact ⟨reqStr_ok hl, rfl, hp⟩

/-! ### windows -/

/-- position, size and set-back are the written ones; an overhang or fin exists only when depth × extent is positive -/
theorem window_values (b : Block) (w : Window) (h : windowOf b = .ok w) :
    getNum b.attrs "X" = some w.x ∧ getNum b.attrs "Y" = some w.y ∧ getNum b.attrs "WIDTH" = some w.width ∧
    getNum b.attrs "HEIGHT" = some w.height ∧ getNum b.attrs "SETBACK" = some w.setback ∧ getStr b.attrs "GAP" = some w.cons ∧
    b.parent = some w.wall ∧
    (w.overhang.isSome ↔ prodPos b.attrs "OVERHANG-D" "OVERHANG-W" = true) := by
  unfold windowOf at h
  simp only at h
  split at h
  · cases h
  · rename_i wall hw
    split at h
    · rename_i cons x y hh ww sb hc hx hy hhh hww hsb
      split at h
      · cases h
      · simp only [Except.ok.injEq] at h
        subst h
        refine ⟨reqNum_ok hx, reqNum_ok hy, reqNum_ok hww, reqNum_ok hhh, reqNum_ok hsb, reqStr_ok hc, hw, ?_⟩
        by_cases hp : prodPos b.attrs "OVERHANG-D" "OVERHANG-W" = true <;> simp [hp]
    all_goals cases h

/-! ### spaces -/

/-- a space without the envelope flag is inside the thermal envelope exactly when it is conditioned -/
theorem space_envelope_default (b : Block) (s : Space) (h : spaceOf b = .ok s)
    (hn : getStr b.attrs "perteneceALaEnvolventeTermica" = none) :
    s.insidete = (s.stype == "CONDITIONED".toList) := by
  unfold spaceOf at h
  simp only at h
  split at h
  · cases h
  · split at h
    · cases h
    · split at h
      · cases h
      · split at h
        · cases h
        · split at h
          · simp only [Except.ok.injEq] at h
            subst h
            simp [hn]
          all_goals cases h

/-- the conditions names default to the space type -/
theorem space_conditions_default (b : Block) (s : Space) (h : spaceOf b = .ok s) :
    s.spaceconds = (getStr b.attrs "SPACE-CONDITIONS").getD s.spacetype ∧
    s.systemconds = (getStr b.attrs "SYSTEM-CONDITIONS").getD s.spacetype ∧ b.parent = some s.floor := by
  unfold spaceOf at h
  simp only at h
  split at h
  · cases h
  · split at h
    · cases h
    · split at h
      · cases h
      · split at h
        · cases h
        · rename_i floor hf
          split at h
          · simp only [Except.ok.injEq] at h
            subst h
            exact ⟨rfl, rfl, hf⟩
          all_goals cases h

/-! ### vertex lists (polygons, shades given by vertices) -/

/-- **vertices come back in their written order**: when the attributes `V(start)`, `V(start+1)`, … hold the texts `vs` (each a valid
    point) and the next name is absent, the reader returns exactly those points, in numeric order of their names — however the
    attribute map itself is ordered (as text, `V10` sorts before `V2`) -/
theorem vertices_in_order (a : Attrs) (dim : Nat) (vs : List Str) (ps : List (List TNum)) (start fuel : Nat)
    (hlen : vs.length = ps.length) (hfuel : vs.length < fuel)
    (hv : ∀ k (hk : k < vs.length), getStr a ("V" ++ toString (start + k)) = some vs[k] ∧
      pointFromStr dim vs[k] = some (ps[k]'(hlen ▸ hk)))
    (hend : getStr a ("V" ++ toString (start + vs.length)) = none) :
    vertices a dim fuel start = .ok ps := by
  induction vs generalizing ps start fuel with
  | nil =>
    have hps : ps = [] := by
      cases ps with
      | nil => rfl
      | cons _ _ => simp at hlen
    subst hps
    cases fuel with
    | zero => simp at hfuel
    | succ f =>
      simp only [List.length_nil, Nat.add_zero] at hend
      simp only [vertices, hend]
  | cons v t ih =>
    cases ps with
    | nil => simp at hlen
    | cons p pt =>
      cases fuel with
      | zero => simp at hfuel
      | succ f =>
        have h0 := hv 0 (by simp)
        simp only [Nat.add_zero, List.getElem_cons_zero] at h0
        have hrest := ih pt (start + 1) f (by simpa using hlen) (by simp only [List.length_cons] at hfuel; omega)
          (by
            intro k hk
            have := hv (k + 1) (by simp only [List.length_cons]; omega)
            simp only [List.getElem_cons_succ] at this
            have e : start + 1 + k = start + (k + 1) := by omega
            rw [e]
            exact this)
          (by
            have e : start + 1 + t.length = start + (v :: t).length := by simp only [List.length_cons]; omega
            rw [e]; exact hend)
        simp only [vertices, h0.1, h0.2, hrest]

/-- a shade given by vertices carries them in that order -/
theorem shading_vertices_written (b : Block) (t r : TNum) (vs : List Str) (ps : List (List TNum))
    (ht : reqNum b.attrs "TRAN" = .ok t) (hr : reqNum b.attrs "REFL" = .ok r) (hx : getNum b.attrs "X" = none)
    (hlen : vs.length = ps.length) (hfuel : vs.length ≤ b.attrs.length)
    (hv : ∀ k (hk : k < vs.length), getStr b.attrs ("V" ++ toString (1 + k)) = some vs[k] ∧
      pointFromStr 3 vs[k] = some (ps[k]'(hlen ▸ hk)))
    (hend : getStr b.attrs ("V" ++ toString (1 + vs.length)) = none) :
    shadingOf b = .ok { name := b.name, tran := t, refl := r, rect := none, verts := some ps } := by
  unfold shadingOf
  simp only [ht, hr, hx, Option.isSome_none, Bool.false_eq_true, if_false]
  rw [vertices_in_order b.attrs 3 vs ps 1 (b.attrs.length + 1) hlen (by omega) hv hend]

end Cte.Props.C18Typed
