/-
Standard-shaped definitions: EN ISO 6946 (air-contact elements), EN ISO 13789 (partitions to
unconditioned spaces), EN ISO 13370 (slab on ground, basement wall), as the property states them.
-/
import Cte.Model.Types
import Cte.Model.Fns
namespace Cte.Spec

/-- direction of the heat flow through an element -/
inductive Flow | up | horizontal | down
  deriving DecidableEq, Repr

/-- EN ISO 6946 table 7: internal surface resistance by heat-flow direction -/
def rsi : Flow → Rat
  | .up => 10 / 100
  | .horizontal => 13 / 100
  | .down => 17 / 100

/-- external surface resistance -/
def rse : Rat := 4 / 100

/-- heat leaves a heated building upwards through roofs, downwards through floors -/
def flowExterior : TiltC → Flow
  | .top => .up
  | .bottom => .down
  | .side => .horizontal

/-- EN ISO 6946: U = 1/(Rsi + ΣR + Rse) -/
def uAir (f : Flow) (r : Rat) : Rat := 1 / (rsi f + r + rse)

/-- flow through a partition goes from the conditioned to the unconditioned space; the element is
described from `this` space (`bottom` = floor of this space, `top` = its ceiling) -/
def flowPartition (thisCond nextCond : Bool) : TiltC → Flow
  | .side => .horizontal
  | .bottom => if thisCond && !nextCond then .down else if !thisCond && nextCond then .up else .horizontal
  | .top => if thisCond && !nextCond then .up else if !thisCond && nextCond then .down else .horizontal

/-- partition between spaces: both faces are internal surfaces -/
def rPartition (f : Flow) (r : Rat) : Rat := r + 2 * rsi f

/-- EN ISO 13789: U = 1/(R_f + A_i/(Σ A_e U_e + 0.33 n V)) -/
def uPartition (rf ai ua n vol : Rat) : Rat := 1 / (rf + ai / (ua + 33 / 100 * n * vol))

/-- EN ISO 13370, slab on ground / basement floor: B' characteristic dimension, d_t equivalent
thickness, z depth; λ = 2 W/mK; ψ edge-insulation term -/
def uSlab (F : Fns) (bp dt z psi : Rat) : Rat :=
  let lam : Rat := 2
  let d := dt + z / 2
  (if d < bp then 2 * lam / (F.pi * bp + d) * F.ln (F.pi * bp / d + 1) else lam / (457 / 1000 * bp + d))
    + 2 * psi / bp

/-- EN ISO 13370, basement wall of depth z: d_w = λ/U_w (U_w air-to-air), d_t capped by d_w -/
def uBasementWall (F : Fns) (z dw dt : Rat) : Rat :=
  let lam : Rat := 2
  let d := rmin dw dt
  2 * lam / (F.pi * z) * (1 + (1 / 2) * d / (d + z)) * F.ln (z / dw + 1)

end Cte.Spec
