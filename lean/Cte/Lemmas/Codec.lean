import Cte.Model.Codec
namespace Cte

mutual
  theorem J.beq_sound : ∀ (a b : J), J.beq a b = true → a = b
    | .null, .null, _ => rfl
    | .bool a, .bool b, h => by simp [J.beq] at h; rw [h]
    | .num a b c, .num a' b' c', h => by
        simp [J.beq] at h; obtain ⟨⟨h1, h2⟩, h3⟩ := h; rw [h1, h2, h3]
    | .str a, .str b, h => by simp [J.beq] at h; rw [h]
    | .arr a, .arr b, h => by
        simp only [J.beq] at h; rw [beqList_sound a b h]
    | .obj a, .obj b, h => by
        simp only [J.beq] at h; rw [beqKvs_sound a b h]
    | .null, .bool _, h | .null, .num _ _ _, h | .null, .str _, h | .null, .arr _, h | .null, .obj _, h => by simp [J.beq] at h
    | .bool _, .null, h | .bool _, .num _ _ _, h | .bool _, .str _, h | .bool _, .arr _, h | .bool _, .obj _, h => by simp [J.beq] at h
    | .num _ _ _, .null, h | .num _ _ _, .bool _, h | .num _ _ _, .str _, h | .num _ _ _, .arr _, h | .num _ _ _, .obj _, h => by simp [J.beq] at h
    | .str _, .null, h | .str _, .bool _, h | .str _, .num _ _ _, h | .str _, .arr _, h | .str _, .obj _, h => by simp [J.beq] at h
    | .arr _, .null, h | .arr _, .bool _, h | .arr _, .num _ _ _, h | .arr _, .str _, h | .arr _, .obj _, h => by simp [J.beq] at h
    | .obj _, .null, h | .obj _, .bool _, h | .obj _, .num _ _ _, h | .obj _, .str _, h | .obj _, .arr _, h => by simp [J.beq] at h
  theorem beqList_sound : ∀ (a b : List J), beqList a b = true → a = b
    | [], [], _ => rfl
    | x :: xs, y :: ys, h => by
        simp only [beqList, Bool.and_eq_true] at h
        rw [J.beq_sound x y h.1, beqList_sound xs ys h.2]
    | [], _ :: _, h => by simp [beqList] at h
    | _ :: _, [], h => by simp [beqList] at h
  theorem beqKvs_sound : ∀ (a b : List (String × J)), beqKvs a b = true → a = b
    | [], [], _ => rfl
    | (k, x) :: xs, (k', y) :: ys, h => by
        simp only [beqKvs, Bool.and_eq_true, beq_iff_eq] at h
        rw [h.1.1, J.beq_sound x y h.1.2, beqKvs_sound xs ys h.2]
    | [], _ :: _, h => by simp [beqKvs] at h
    | _ :: _, [], h => by simp [beqKvs] at h
end

end Cte
