/-
The slab test computes "∃ t ≥ 0, o + t·d lies in the box", hence it is monotone under `join`.
-/
import Cte.Model.Box
import Mathlib.Tactic.Linarith
import Mathlib.Tactic.FieldSimp
import Mathlib.Algebra.Order.Field.Basic
namespace Cte

def Itv.mem (t : Rat) (i : Itv) : Prop :=
  i.empty = false ∧ (∀ a, i.lo = some a → a ≤ t) ∧ (∀ b, i.hi = some b → t ≤ b)

theorem axisItv_mem (o d l h t : Rat) : (axisItv o d l h).mem t ↔ l ≤ o + t * d ∧ o + t * d ≤ h := by
  unfold axisItv Itv.mem
  by_cases hd : d = 0
  · subst hd; simp
  · by_cases hp : d > 0
    · simp only [hd, hp, if_false, if_true, Option.some.injEq, forall_eq', true_and]
      rw [div_le_iff₀ hp, le_div_iff₀ hp]
      constructor <;> rintro ⟨h1, h2⟩ <;> constructor <;> linarith
    · have hn : d < 0 := lt_of_le_of_ne (not_lt.mp hp) hd
      simp only [hd, hp, if_false, Option.some.injEq, forall_eq', true_and]
      rw [div_le_iff_of_neg hn, le_div_iff_of_neg hn]
      constructor <;> rintro ⟨h1, h2⟩ <;> constructor <;> linarith

theorem rmax_le_iff (a b t : Rat) : rmax a b ≤ t ↔ a ≤ t ∧ b ≤ t := by
  unfold rmax
  by_cases h : a < b
  · simp only [h, if_true]
    exact ⟨fun hb => ⟨by linarith, hb⟩, fun hh => hh.2⟩
  · simp only [h, if_false]
    exact ⟨fun ha => ⟨ha, by linarith [not_lt.mp h]⟩, fun hh => hh.1⟩

theorem le_rmin_iff (a b t : Rat) : t ≤ rmin a b ↔ t ≤ a ∧ t ≤ b := by
  unfold rmin
  by_cases h : b < a
  · simp only [h, if_true]
    exact ⟨fun hb => ⟨by linarith, hb⟩, fun hh => hh.2⟩
  · simp only [h, if_false]
    exact ⟨fun ha => ⟨ha, by linarith [not_lt.mp h]⟩, fun hh => hh.1⟩

theorem inter_mem (a b : Itv) (t : Rat) : (a.inter b).mem t ↔ a.mem t ∧ b.mem t := by
  unfold Itv.inter Itv.mem
  simp only [Bool.or_eq_false_iff]
  cases ha : a.lo <;> cases hb : b.lo <;> cases ha' : a.hi <;> cases hb' : b.hi <;>
    simp [maxOpt, minOpt, rmax_le_iff, le_rmin_iff] <;> tauto

theorem front_mem (t : Rat) : itvFront.mem t ↔ 0 ≤ t := by
  simp [itvFront, Itv.mem]

theorem nonempty_iff (i : Itv) : i.nonempty = true ↔ ∃ t, i.mem t := by
  unfold Itv.nonempty Itv.mem
  cases he : i.empty
  · cases hl : i.lo with
    | none =>
      cases hh : i.hi with
      | none => simp
      | some b => simp; exact ⟨b, le_refl _⟩
    | some a =>
      cases hh : i.hi with
      | none => simp; exact ⟨a, le_refl _⟩
      | some b =>
        simp only [Bool.not_false, Bool.true_and, decide_eq_true_eq, Option.some.injEq, forall_eq',
          true_and]
        constructor
        · intro h; exact ⟨a, le_refl _, h⟩
        · rintro ⟨t, h1, h2⟩; linarith
  · simp

/-- the point o + t·d lies in the box -/
def Box3.contains (b : Box3) (r : RayQ) (t : Rat) : Prop :=
  (b.lo.x ≤ r.o.x + t * r.d.x ∧ r.o.x + t * r.d.x ≤ b.hi.x) ∧
  (b.lo.y ≤ r.o.y + t * r.d.y ∧ r.o.y + t * r.d.y ≤ b.hi.y) ∧
  (b.lo.z ≤ r.o.z + t * r.d.z ∧ r.o.z + t * r.d.z ≤ b.hi.z)

/-- the slab test is exact: it answers whether the half line meets the box -/
theorem hit_iff (r : RayQ) (b : Box3) : b.hit r = true ↔ ∃ t, 0 ≤ t ∧ b.contains r t := by
  unfold Box3.hit
  rw [nonempty_iff]
  constructor
  · rintro ⟨t, h⟩
    rw [inter_mem, inter_mem, inter_mem, axisItv_mem, axisItv_mem, axisItv_mem, front_mem] at h
    exact ⟨t, h.2.2, h.1.1, h.1.2, h.2.1⟩
  · rintro ⟨t, h0, hx, hy, hz⟩
    refine ⟨t, ?_⟩
    rw [inter_mem, inter_mem, inter_mem, axisItv_mem, axisItv_mem, axisItv_mem, front_mem]
    exact ⟨⟨hx, hy⟩, hz, h0⟩

theorem rmin_le_left (a b : Rat) : rmin a b ≤ a := by unfold rmin; split <;> linarith
theorem rmin_le_right (a b : Rat) : rmin a b ≤ b := by unfold rmin; split <;> linarith
theorem le_rmax_left (a b : Rat) : a ≤ rmax a b := by unfold rmax; split <;> linarith
theorem le_rmax_right (a b : Rat) : b ≤ rmax a b := by unfold rmax; split <;> linarith

theorem contains_join_left (a b : Box3) (r : RayQ) (t : Rat) (h : a.contains r t) : (a.join b).contains r t := by
  obtain ⟨⟨x1, x2⟩, ⟨y1, y2⟩, ⟨z1, z2⟩⟩ := h
  refine ⟨⟨?_, ?_⟩, ⟨?_, ?_⟩, ⟨?_, ?_⟩⟩ <;> simp only [Box3.join]
  · exact le_trans (rmin_le_left _ _) x1
  · exact le_trans x2 (le_rmax_left _ _)
  · exact le_trans (rmin_le_left _ _) y1
  · exact le_trans y2 (le_rmax_left _ _)
  · exact le_trans (rmin_le_left _ _) z1
  · exact le_trans z2 (le_rmax_left _ _)

theorem contains_join_right (a b : Box3) (r : RayQ) (t : Rat) (h : b.contains r t) : (a.join b).contains r t := by
  obtain ⟨⟨x1, x2⟩, ⟨y1, y2⟩, ⟨z1, z2⟩⟩ := h
  refine ⟨⟨?_, ?_⟩, ⟨?_, ?_⟩, ⟨?_, ?_⟩⟩ <;> simp only [Box3.join]
  · exact le_trans (rmin_le_right _ _) x1
  · exact le_trans x2 (le_rmax_right _ _)
  · exact le_trans (rmin_le_right _ _) y1
  · exact le_trans y2 (le_rmax_right _ _)
  · exact le_trans (rmin_le_right _ _) z1
  · exact le_trans z2 (le_rmax_right _ _)

theorem hitOpt_join_left (r : RayQ) (a b : Option Box3) (h : hitOpt r a = true) : hitOpt r (joinOpt a b) = true := by
  cases a with
  | none => simp [hitOpt] at h
  | some a =>
    cases b with
    | none => simpa [joinOpt] using h
    | some b =>
      simp only [hitOpt, joinOpt] at h ⊢
      obtain ⟨t, h0, hc⟩ := (hit_iff r a).1 h
      exact (hit_iff r _).2 ⟨t, h0, contains_join_left a b r t hc⟩

theorem hitOpt_join_right (r : RayQ) (a b : Option Box3) (h : hitOpt r b = true) : hitOpt r (joinOpt a b) = true := by
  cases b with
  | none => simp [hitOpt] at h
  | some b =>
    cases a with
    | none => simpa [joinOpt] using h
    | some a =>
      simp only [hitOpt, joinOpt] at h ⊢
      obtain ⟨t, h0, hc⟩ := (hit_iff r b).1 h
      exact (hit_iff r _).2 ⟨t, h0, contains_join_right a b r t hc⟩

/-- the exact slab test satisfies the three laws the tree logic needs -/
theorem boxLaws : Bvh.Laws boxOps where
  sound := fun r e b h => hitOpt_join_right r b (some e) h
  mono_l := fun r a b h => hitOpt_join_left r a b h
  mono_r := fun r a b h => hitOpt_join_right r a b h

end Cte
