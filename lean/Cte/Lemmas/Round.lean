/-
Rounding lemmas: `roundHalfAway`, `round2`, `round3` are monotone; unbiased `Fns.r2` is `round2`.
-/
import Cte.Model.Fns
import Mathlib.Tactic.Linarith
import Mathlib.Tactic.Positivity
import Mathlib.Algebra.Order.Field.Basic
namespace Cte

theorem rat_floor_mono {a b : Rat} (h : a ≤ b) : a.floor ≤ b.floor := Rat.floor_monotone h

theorem roundHalfAway_mono {x y : Rat} (h : x ≤ y) : roundHalfAway x ≤ roundHalfAway y := by
  unfold roundHalfAway
  by_cases hx : x ≥ 0
  · have hy : y ≥ 0 := le_trans hx h
    simp only [hx, hy, if_true]
    exact rat_floor_mono (by linarith)
  · by_cases hy : y ≥ 0
    · simp only [hx, hy, if_true, if_false]
      have h1 : (0 : Int) ≤ (y + 1 / 2).floor := by
        have : ((0 : Int) : Rat) ≤ y + 1 / 2 := by push_cast; linarith
        exact Rat.le_floor_iff.mpr this
      have h2 : (0 : Int) ≤ (-x + 1 / 2).floor := by
        have : ((0 : Int) : Rat) ≤ -x + 1 / 2 := by push_cast; push Not at hx; linarith
        exact Rat.le_floor_iff.mpr this
      omega
    · simp only [hx, hy, if_false]
      have : (-y + 1 / 2).floor ≤ (-x + 1 / 2).floor := rat_floor_mono (by linarith)
      omega

theorem round2_mono {x y : Rat} (h : x ≤ y) : round2 x ≤ round2 y := by
  unfold round2
  have h1 : roundHalfAway (x * 100) ≤ roundHalfAway (y * 100) := roundHalfAway_mono (by linarith)
  have h2 : ((roundHalfAway (x * 100) : Int) : Rat) ≤ ((roundHalfAway (y * 100) : Int) : Rat) := by
    exact_mod_cast h1
  exact div_le_div_of_nonneg_right h2 (by norm_num)

theorem round3_mono {x y : Rat} (h : x ≤ y) : round3 x ≤ round3 y := by
  unfold round3
  have h1 : roundHalfAway (x * 1000) ≤ roundHalfAway (y * 1000) := roundHalfAway_mono (by linarith)
  have h2 : ((roundHalfAway (x * 1000) : Int) : Rat) ≤ ((roundHalfAway (y * 1000) : Int) : Rat) := by
    exact_mod_cast h1
  exact div_le_div_of_nonneg_right h2 (by norm_num)

theorem roundHalfAway_zero : roundHalfAway 0 = 0 := by decide +kernel
theorem round2_zero : round2 0 = 0 := by decide +kernel

theorem roundHalfAway_nonneg {x : Rat} (h : 0 ≤ x) : 0 ≤ roundHalfAway x := by
  have := roundHalfAway_mono h
  rwa [roundHalfAway_zero] at this

theorem round2_nonneg {x : Rat} (h : 0 ≤ x) : 0 ≤ round2 x := by
  have := round2_mono h
  rwa [round2_zero] at this

@[simp] theorem Fns.nudge_unbiased (F : Fns) (h : F.bias = 0) (x : Rat) : F.nudge x = x := by
  simp [Fns.nudge, h]

theorem Fns.r2_unbiased (F : Fns) (h : F.bias = 0) (x : Rat) : F.r2 x = round2 x := by
  simp [Fns.r2, Fns.nudge_unbiased F h]

theorem Fns.r3_unbiased (F : Fns) (h : F.bias = 0) (x : Rat) : F.r3 x = round3 x := by
  simp [Fns.r3, Fns.nudge_unbiased F h]

/-- `|round2 x − x| ≤ 1/200`: the rounded value is the exact one to two decimals -/
theorem round2_close (x : Rat) : |round2 x - x| ≤ 1 / 200 := by
  unfold round2 roundHalfAway
  by_cases hx : x * 100 ≥ 0
  · simp only [hx, if_true]
    have h1 := Rat.floor_le (x * 100 + 1 / 2)
    have h2 := Rat.lt_floor_add_one (x * 100 + 1 / 2)
    push_cast at h2
    rw [abs_le]; constructor <;> linarith
  · simp only [hx, if_false]
    have h1 := Rat.floor_le (-(x * 100) + 1 / 2)
    have h2 := Rat.lt_floor_add_one (-(x * 100) + 1 / 2)
    push_cast at h2 ⊢
    rw [abs_le]; constructor <;> linarith

end Cte
