/-
  `split("..")` on the cleaned text: the block texts of a document whose lines contain no `..`
  except the terminator lines.
-/
import Cte.Lemmas.BdlLines

namespace Cte.Bdl

/-- no two consecutive dots -/
def noDD : Str → Bool
  | '.' :: '.' :: _ => false
  | _ :: t => noDD t
  | [] => true

theorem noDD_tail (c : Char) (t : Str) (h : noDD (c :: t) = true) : noDD t = true := by
  unfold noDD at h
  split at h
  · cases h
  · rename_i c' t' _ heq; injection heq with _ h2; subst h2; exact h
  · rename_i heq; cases heq

theorem noDD_head (t : Str) (h : noDD ('.' :: t) = true) : ∀ t', t ≠ '.' :: t' := by
  intro t' e
  subst e
  simp [noDD] at h

/-- the text before the first `..` when it has no `..` itself and does not end with a dot -/
theorem splitDots_append (a rest : Str) (h : noDD a = true) (hl : a.getLast? ≠ some '.') :
    splitDots (a ++ '.' :: '.' :: rest) = a :: splitDots rest := by
  induction a with
  | nil => simp only [List.nil_append]; rw [splitDots.eq_1]
  | cons c t ih =>
    have hside : ∀ t', c = '.' → t ++ '.' :: '.' :: rest = '.' :: t' → False := by
      intro t' hc he
      subst hc
      cases t with
      | nil => simp at hl
      | cons d r =>
        simp only [List.cons_append] at he
        injection he with hd _
        subst hd
        simp [noDD] at h
    have ht : t.getLast? ≠ some '.' := by
      cases t with
      | nil => simp
      | cons d r => simpa [List.getLast?_cons_cons] using hl
    rw [List.cons_append, splitDots.eq_2 _ _ hside, ih (noDD_tail c t h) ht]

theorem splitDots_noDD (a : Str) (h : noDD a = true) : splitDots a = [a] := by
  induction a with
  | nil => rfl
  | cons c t ih =>
    have hside : ∀ t', c = '.' → t = '.' :: t' → False := by
      intro t' hc he
      subst hc; subst he
      simp [noDD] at h
    rw [splitDots.eq_2 _ _ hside, ih (noDD_tail c t h)]

theorem noDD_append (a b : Str) (ha : noDD a = true) (hb : noDD b = true)
    (hj : a.getLast? ≠ some '.' ∨ b.head? ≠ some '.') : noDD (a ++ b) = true := by
  induction a with
  | nil => simpa using hb
  | cons c t ih =>
    cases t with
    | nil =>
      simp only [List.cons_append, List.nil_append]
      cases b with
      | nil => simp [noDD]
      | cons d r =>
        by_cases hc : c = '.'
        · subst hc
          have hd : d ≠ '.' := by
            rcases hj with hj | hj
            · simp at hj
            · simpa using hj
          unfold noDD
          split
          · rename_i heq; injection heq with _ h2; injection h2 with h3 _; exact absurd h3 hd
          · rename_i c' t' _ heq; injection heq with _ h2; subst h2; exact hb
          · rename_i heq; cases heq
        · unfold noDD
          split
          · rename_i heq; injection heq with h1 _; exact absurd h1 hc
          · rename_i c' t' _ heq; injection heq with _ h2; subst h2; exact hb
          · rename_i heq; cases heq
    | cons d r =>
      have hrec := ih (noDD_tail c _ ha) (by
        rcases hj with hj | hj
        · left; simpa [List.getLast?_cons_cons] using hj
        · right; exact hj)
      simp only [List.cons_append] at hrec ⊢
      unfold noDD
      split
      · rename_i heq
        injection heq with h1 h2; injection h2 with h3 _
        subst h1; subst h3
        simp [noDD] at ha
      · rename_i c' t' _ heq; injection heq with _ h2; subst h2; exact hrec
      · rename_i heq; cases heq

theorem noDD_join (ls : List Str) (h : ∀ l ∈ ls, noDD l = true) : noDD (joinWith ['\n'] ls) = true := by
  induction ls with
  | nil => rfl
  | cons a t ih =>
    cases t with
    | nil => simpa [joinWith] using h a (by simp)
    | cons b r =>
      rw [joinWith_cons_cons]
      have hr := ih (fun l hl => h l (by simp [hl]))
      have h1 : noDD (a ++ ['\n']) = true := noDD_append a ['\n'] (h a (by simp)) (by decide) (Or.inr (by simp))
      exact noDD_append _ _ h1 hr (Or.inl (by simp))

/-- the text of one block and of a document -/
def blockText (lines : List Str) : Str := joinWith ['\n'] lines
def docLines (bs : List (List Str)) : List Str := bs.flatMap (fun ls => ls ++ [['.', '.']])

theorem docLines_cons_ne (b : List Str) (rest : List (List Str)) : docLines (b :: rest) ≠ [] := by
  simp [docLines]

theorem joined_cons (b : List Str) (hb : b ≠ []) (rest : List (List Str)) :
    joinWith ['\n'] (docLines (b :: rest)) =
      blockText b ++ '\n' :: '.' :: '.' :: (if rest = [] then [] else '\n' :: joinWith ['\n'] (docLines rest)) := by
  have e : docLines (b :: rest) = (b ++ [['.', '.']]) ++ docLines rest := by simp [docLines]
  rw [e]
  have hbd : joinWith ['\n'] (b ++ [['.', '.']]) = blockText b ++ '\n' :: ['.', '.'] := by
    rw [joinWith_append _ b [['.', '.']] hb (by simp)]
    simp [blockText, joinWith]
  cases rest with
  | nil => simp [docLines, hbd]
  | cons r rs =>
    rw [joinWith_append _ _ _ (by simp) (docLines_cons_ne r rs), hbd]
    simp [List.append_assoc]

theorem blockTexts_split (bs : List (List Str)) (pre : Str) (hpre : pre = [] ∨ pre = ['\n'])
    (hne : ∀ b ∈ bs, b ≠ []) (hdd : ∀ b ∈ bs, ∀ l ∈ b, noDD l = true) (hclean : ∀ b ∈ bs, Clean (blockText b)) :
    ((splitDots (pre ++ joinWith ['\n'] (docLines bs))).map trim).filter (fun b => !b.isEmpty) = bs.map blockText := by
  induction bs generalizing pre with
  | nil =>
    rcases hpre with rfl | rfl
    · simp [docLines, joinWith, splitDots, trim, trimL, trimR]
    · have : splitDots ['\n'] = [['\n']] := by decide
      simp [docLines, joinWith, this, trim_allWs ['\n'] (by intro c hc; simp at hc; subst hc; exact isWs_nl)]
  | cons b rest ih =>
    have hb := hne b (by simp)
    rw [joined_cons b hb rest]
    have hpws : AllWs pre := by
      rcases hpre with rfl | rfl
      · exact allWs_nil
      · intro c hc; simp at hc; subst hc; exact isWs_nl
    have hnd : noDD (pre ++ blockText b ++ ['\n']) = true := by
      have h1 : noDD (blockText b) = true := noDD_join b (hdd b (by simp))
      have h0 : noDD pre = true := by rcases hpre with rfl | rfl <;> decide
      have h2 : noDD (pre ++ blockText b) = true := noDD_append _ _ h0 h1 (Or.inl (by rcases hpre with rfl | rfl <;> simp))
      exact noDD_append _ _ h2 (by decide) (Or.inr (by simp))
    have hshape : pre ++ (blockText b ++ '\n' :: '.' :: '.' :: (if rest = [] then [] else '\n' :: joinWith ['\n'] (docLines rest))) =
        (pre ++ blockText b ++ ['\n']) ++ '.' :: '.' :: (if rest = [] then [] else '\n' :: joinWith ['\n'] (docLines rest)) := by
      simp [List.append_assoc]
    rw [hshape, splitDots_append _ _ hnd (by simp)]
    have htrim : trim (pre ++ blockText b ++ ['\n']) = blockText b :=
      trim_pad pre (blockText b) ['\n'] hpws (by intro c hc; simp at hc; subst hc; exact isWs_nl) (hclean b (by simp))
    have hnemp : (blockText b).isEmpty = false := by
      have := (hclean b (by simp)).ne_nil
      cases h : blockText b with
      | nil => exact absurd h this
      | cons _ _ => rfl
    simp only [List.map_cons, htrim, List.filter_cons, hnemp, Bool.not_false, if_true]
    congr 1
    by_cases hr : rest = []
    · subst hr
      simp only [if_true]
      have := ih [] (Or.inl rfl) (by simp) (by simp) (by simp)
      simpa [docLines, joinWith] using this
    · simp only [hr, if_false]
      have := ih ['\n'] (Or.inr rfl) (fun x hx => hne x (by simp [hx])) (fun x hx => hdd x (by simp [hx]))
        (fun x hx => hclean x (by simp [hx]))
      simpa using this

end Cte.Bdl
