/-
  `AttrMap::insert` typing: written decimal numbers are read as numbers with the written digits.
-/
import Cte.Lemmas.BdlText

namespace Cte.Bdl

def AllDigits (ds : Str) : Prop := ∀ c ∈ ds, isDigit c = true
def NonDigitHead (r : Str) : Prop := ∀ c, r.head? = some c → isDigit c = false

theorem takeWhile_digits (ds r : Str) (hd : AllDigits ds) (hr : NonDigitHead r) :
    (ds ++ r).takeWhile isDigit = ds ∧ (ds ++ r).dropWhile isDigit = r := by
  induction ds with
  | nil =>
    cases r with
    | nil => simp
    | cons a t => simp [List.takeWhile_cons, List.dropWhile_cons, hr a (by simp)]
  | cons a t ih =>
    have ha : isDigit a = true := hd a (by simp)
    have := ih (fun c hc => hd c (by simp [hc]))
    simp [List.takeWhile_cons, List.dropWhile_cons, ha, this.1, this.2]

theorem nonDigitHead_nil : NonDigitHead [] := by intro c h; simp at h
theorem nonDigitHead_cons {c : Char} (t : Str) (h : isDigit c = false) : NonDigitHead (c :: t) := by
  intro d hd; simp at hd; subst hd; exact h

/-- sign prefix as written: none, `-` or `+` -/
def signStr : Option Bool → Str
  | none => []
  | some true => ['-']
  | some false => ['+']

def signNeg : Option Bool → Bool
  | some true => true
  | _ => false

theorem stripSign_sign (sg : Option Bool) (body : Str) (hb : ∀ c, body.head? = some c → c ≠ '-' ∧ c ≠ '+') :
    stripSign (signStr sg ++ body) = (signNeg sg, body) := by
  cases sg with
  | none =>
    cases body with
    | nil => rfl
    | cons a t =>
      have := hb a (by simp)
      simp only [signStr, List.nil_append, signNeg]
      unfold stripSign
      split
      · rename_i r h; injection h with h1 h2; exact absurd h1 this.1
      · rename_i r h; injection h with h1 h2; exact absurd h1 this.2
      · rfl
  | some b => cases b <;> rfl

theorem digit_not_sign {c : Char} (h : isDigit c = true) : c ≠ '-' ∧ c ≠ '+' := by
  constructor <;> (intro e; subst e; revert h; decide)

theorem fracPart_dot (fp r : Str) (hf : AllDigits fp) (hr : NonDigitHead r) : fracPart ('.' :: (fp ++ r)) = (fp, r) := by
  have := takeWhile_digits fp r hf hr
  simp [fracPart, this.1, this.2]

theorem fracPart_nodot (r : Str) (h : ∀ c, r.head? = some c → c ≠ '.') : fracPart r = ([], r) := by
  unfold fracPart
  split
  · rename_i t; exact absurd rfl (h '.' (by simp))
  · rfl

/-- the body of a written number: digits, optionally a point and more digits -/
def mantStr (ip fp : Str) (dot : Bool) : Str := ip ++ (if dot then '.' :: fp else [])

theorem mant_head (ip fp : Str) (dot : Bool) (rest : Str) (hi : AllDigits ip) (hhead : ip = [] → dot = true) :
    ∀ c, (mantStr ip fp dot ++ rest).head? = some c → c ≠ '-' ∧ c ≠ '+' := by
  intro c hc
  unfold mantStr at hc
  cases ip with
  | nil =>
    have hd := hhead rfl
    subst hd
    simp at hc; subst hc; exact ⟨by decide, by decide⟩
  | cons a t =>
    simp at hc; subst hc
    exact digit_not_sign (hi _ (by simp))

/-- scanning the mantissa: integer digits, fraction digits, and what is left -/
theorem mant_scan (ip fp : Str) (dot : Bool) (rest : Str) (hi : AllDigits ip) (hf : AllDigits fp)
    (hdot : fp ≠ [] → dot = true) (hrest : NonDigitHead rest) (hrd : ∀ c, rest.head? = some c → c ≠ '.') :
    (mantStr ip fp dot ++ rest).takeWhile isDigit = ip ∧
    fracPart ((mantStr ip fp dot ++ rest).dropWhile isDigit) = (fp, rest) := by
  unfold mantStr
  cases dot with
  | true =>
    have h1 := takeWhile_digits ip ('.' :: (fp ++ rest)) hi (nonDigitHead_cons _ (by decide))
    simp only [if_true, List.append_assoc, List.cons_append, h1.1, h1.2, fracPart_dot fp rest hf hrest, and_self]
  | false =>
    have hfp : fp = [] := by
      cases fp with
      | nil => rfl
      | cons a t => exact absurd (hdot (by simp)) (by simp)
    subst hfp
    have h1 := takeWhile_digits ip rest hi hrest
    simp only [Bool.false_eq_true, if_false, List.append_nil, h1.1, h1.2, fracPart_nodot rest hrd, and_self]

/-- `[sign] digits [. digits]` with at least one digit: the digits written, scaled by the number of decimals -/
theorem parseF32_decimal (sg : Option Bool) (ip fp : Str) (dot : Bool)
    (hi : AllDigits ip) (hf : AllDigits fp) (hne : ip ++ fp ≠ []) (hdot : fp ≠ [] → dot = true) (hhead : ip = [] → dot = true) :
    parseF32 (signStr sg ++ mantStr ip fp dot) =
      some (Num.fin (signNeg sg) (digitsVal 0 (ip ++ fp)) (-(fp.length : Int))) := by
  have hs := stripSign_sign sg (mantStr ip fp dot) (by simpa using mant_head ip fp dot [] hi hhead)
  have hm := mant_scan ip fp dot [] hi hf hdot nonDigitHead_nil (by intro c h; simp at h)
  simp only [List.append_nil] at hm
  have hemp : (ip.isEmpty && fp.isEmpty) = false := by
    cases ip <;> cases fp <;> simp_all
  unfold parseF32
  simp only [hs, hm.1, hm.2, hemp, Bool.false_eq_true, if_false]

theorem parseExp_digits (esg : Option Bool) (ed : Str) (hed : AllDigits ed) (hedne : ed ≠ []) :
    parseExp (signStr esg ++ ed) = some (if signNeg esg then -(digitsVal 0 ed : Int) else (digitsVal 0 ed : Int)) := by
  have hs := stripSign_sign esg ed (by
    intro c hc
    cases ed with
    | nil => simp at hc
    | cons a t => simp at hc; subst hc; exact digit_not_sign (hed _ (by simp)))
  have hall : ed.all isDigit = true := List.all_eq_true.mpr hed
  have hemp : ed.isEmpty = false := by cases ed <;> simp_all
  unfold parseExp
  simp [hs, hall, hemp]

/-- with an exponent part `e[sign]digits` -/
theorem parseF32_exponent (sg : Option Bool) (ip fp : Str) (dot : Bool) (ec : Char) (esg : Option Bool) (ed : Str)
    (hi : AllDigits ip) (hf : AllDigits fp) (hne : ip ++ fp ≠ []) (hdot : fp ≠ [] → dot = true) (hhead : ip = [] → dot = true)
    (hec : ec = 'e' ∨ ec = 'E') (hed : AllDigits ed) (hedne : ed ≠ []) :
    parseF32 (signStr sg ++ (mantStr ip fp dot ++ ec :: (signStr esg ++ ed))) =
      some (Num.fin (signNeg sg) (digitsVal 0 (ip ++ fp))
        ((if signNeg esg then -(digitsVal 0 ed : Int) else (digitsVal 0 ed : Int)) - fp.length)) := by
  have hecd : isDigit ec = false := by rcases hec with rfl | rfl <;> decide
  have hecp : ec ≠ '.' := by rcases hec with rfl | rfl <;> decide
  have hs := stripSign_sign sg (mantStr ip fp dot ++ ec :: (signStr esg ++ ed)) (mant_head ip fp dot _ hi hhead)
  have hm := mant_scan ip fp dot (ec :: (signStr esg ++ ed)) hi hf hdot (nonDigitHead_cons _ hecd)
    (by intro c h; simp at h; subst h; exact hecp)
  have hemp : (ip.isEmpty && fp.isEmpty) = false := by
    cases ip <;> cases fp <;> simp_all
  unfold parseF32
  simp only [hs, hm.1, hm.2, hemp, Bool.false_eq_true, if_false, parseExp_digits esg ed hed hedne, Option.map_some]
  rcases hec with rfl | rfl <;> simp

/-- what the typing stores: a number exactly when the value reads as a float, else the trimmed text -/
theorem classify_num (v : Str) (n : Num) (h : parseF32 v = some n) : classify v = Val.num n := by
  simp [classify, h]

theorem classify_str (v : Str) (h : parseF32 v = none) : classify v = Val.str (trim v) := by
  simp [classify, h]

example : parseF32 "+3.5".toList = some (Num.fin false 35 (-1)) := by decide
example : parseF32 "-.75".toList = some (Num.fin true 75 (-2)) := by decide
example : parseF32 "5.".toList = some (Num.fin false 5 0) := by decide
example : parseF32 "1E-3".toList = some (Num.fin false 1 (-3)) := by decide
example : parseF32 "2.5e+2".toList = some (Num.fin false 25 1) := by decide
example : parseF32 "1e".toList = none := by decide
example : parseF32 ".".toList = none := by decide
example : parseF32 "1.2.3".toList = none := by decide
example : parseF32 "SPACE-V1".toList = none := by decide
example : parseF32 "Infinity".toList = some (Num.inf false) := by decide
example : parseF32 "-nan".toList = some Num.nan := by decide

end Cte.Bdl
