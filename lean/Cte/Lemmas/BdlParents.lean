/-
  `build_blocks`: parsing and parent assignment are independent; the parent of a block is the nearest
  preceding block of the enclosing class.
-/
import Cte.Model.Bdl

namespace Cte.Bdl

/-- parse every block text that is not skipped -/
def parseAll : List Str → Except String (List Block)
  | [] => .ok []
  | b :: t =>
    if skipped b then parseAll t
    else match parseBlock b with
      | .error e => .error e
      | .ok blk =>
        match parseAll t with
        | .error e => .error e
        | .ok r => .ok (blk :: r)

def assignParents : Cursor → List Block → List Block
  | _, [] => []
  | c, b :: t => { b with parent := (track c b.btype b.name).1 } :: assignParents (track c b.btype b.name).2 t

theorem blocksFold_eq (c : Cursor) (strs : List Str) :
    blocksFold c strs = match parseAll strs with
      | .error e => .error e
      | .ok bs => .ok (assignParents c bs) := by
  induction strs generalizing c with
  | nil => rfl
  | cons b t ih =>
    unfold blocksFold parseAll
    by_cases hs : skipped b = true
    · simp only [hs, if_true]; exact ih c
    · simp only [hs, Bool.false_eq_true, if_false]
      cases hp : parseBlock b with
      | error e => rfl
      | ok blk =>
        simp only
        rw [ih]
        cases parseAll t with
        | error e => rfl
        | ok r => rfl

/-- name of the last block of class `k` -/
def lastName (k : Kind) (pre : List Block) : Option Str :=
  (pre.reverse.find? (fun b => kindOf b.btype = k)).map (·.name)

theorem lastName_cons (k : Kind) (b : Block) (pre : List Block) :
    lastName k (b :: pre) = (lastName k pre).or (if kindOf b.btype = k then some b.name else none) := by
  unfold lastName
  rw [List.reverse_cons, List.find?_append]
  cases h : pre.reverse.find? (fun b => kindOf b.btype = k) with
  | some x => simp
  | none =>
    by_cases hk : kindOf b.btype = k <;> simp [hk]

/-- the enclosing element of a block given what precedes it; `c` gives the names in force before `pre` -/
def parentFrom (c : Cursor) (pre : List Block) (b : Block) : Option Str :=
  match kindOf b.btype with
  | .floor => none
  | .space => some ((lastName .floor pre).getD c.floor)
  | .wall => some ((lastName .space pre).getD c.space)
  | .child => some ((lastName .wall pre).getD c.wall)
  | .other => none

theorem parentFrom_cons (c : Cursor) (x : Block) (pre : List Block) (b : Block) :
    parentFrom c (x :: pre) b = parentFrom (track c x.btype x.name).2 pre b := by
  unfold parentFrom
  cases hb : kindOf b.btype <;> simp only [lastName_cons] <;>
    (unfold track; cases hx : kindOf x.btype <;> cases h : lastName _ pre <;> simp)

theorem assignParents_length (c : Cursor) (bs : List Block) : (assignParents c bs).length = bs.length := by
  induction bs generalizing c with
  | nil => rfl
  | cons b t ih => simp [assignParents, ih]

/-- block `i` keeps its type, name and attributes and gets as parent the nearest preceding enclosing block -/
theorem assignParents_getElem (c : Cursor) (bs : List Block) (i : Nat) (h : i < bs.length) :
    (assignParents c bs)[i]'(by rw [assignParents_length]; exact h) =
      { bs[i] with parent := parentFrom c (bs.take i) bs[i] } := by
  induction bs generalizing c i with
  | nil => simp at h
  | cons b t ih =>
    cases i with
    | zero =>
      simp only [assignParents, List.getElem_cons_zero, List.take_zero]
      congr 1
      unfold parentFrom track lastName
      cases kindOf b.btype <;> simp
    | succ j =>
      have hj : j < t.length := by simpa using h
      simp only [assignParents, List.getElem_cons_succ, List.take_succ_cons]
      rw [ih _ j hj, parentFrom_cons]

end Cte.Bdl
