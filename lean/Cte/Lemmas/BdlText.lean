/-
  Text lemmas for the BDL parser model: trimming under padding, splitting at the first `=`, quotes.
-/
import Cte.Model.Bdl

namespace Cte.Bdl

/-- blanks and tabs: what a printer pads with -/
def AllPad (w : Str) : Prop := ∀ c ∈ w, c = ' ' ∨ c = '\t'
def AllWs (w : Str) : Prop := ∀ c ∈ w, isWs c = true

/-- non-empty, first and last characters are not white space -/
def Clean (s : Str) : Prop :=
  (∃ c, s.head? = some c ∧ isWs c = false) ∧ (∃ c, s.getLast? = some c ∧ isWs c = false)

/-- boolean test for `Clean`, for concrete strings -/
def cleanB (s : Str) : Bool :=
  (match s.head? with | some c => !isWs c | none => false) && (match s.getLast? with | some c => !isWs c | none => false)

theorem clean_of_cleanB {s : Str} (h : cleanB s = true) : Clean s := by
  unfold cleanB at h
  rw [Bool.and_eq_true] at h
  obtain ⟨h1, h2⟩ := h
  constructor
  · cases hh : s.head? with
    | none => simp [hh] at h1
    | some c => exact ⟨c, rfl, by simpa [hh] using h1⟩
  · cases hh : s.getLast? with
    | none => simp [hh] at h2
    | some c => exact ⟨c, rfl, by simpa [hh] using h2⟩

def padB (w : Str) : Bool := w.all (fun c => c == ' ' || c == '\t')

theorem allPad_of_padB {w : Str} (h : padB w = true) : AllPad w := by
  intro c hc
  have := List.all_eq_true.mp h c hc
  simpa using this

theorem isWs_space : isWs ' ' = true := by decide
theorem isWs_tab : isWs '\t' = true := by decide
theorem isWs_nl : isWs '\n' = true := by decide
theorem isWs_cr : isWs '\r' = true := by decide

theorem AllPad.allWs {w : Str} (h : AllPad w) : AllWs w := by
  intro c hc
  rcases h c hc with rfl | rfl
  · exact isWs_space
  · exact isWs_tab

theorem allWs_nil : AllWs [] := by intro c hc; cases hc
theorem allPad_nil : AllPad [] := by intro c hc; cases hc

theorem dropWhile_ws_append (w s : Str) (hw : AllWs w) : (w ++ s).dropWhile isWs = s.dropWhile isWs := by
  induction w with
  | nil => rfl
  | cons a t ih =>
    have ha : isWs a = true := hw a (by simp)
    simp only [List.cons_append, List.dropWhile_cons, ha, if_true]
    exact ih (fun c hc => hw c (by simp [hc]))

theorem dropWhile_head (s : Str) (h : ∃ c, s.head? = some c ∧ isWs c = false) : s.dropWhile isWs = s := by
  obtain ⟨c, hc, hw⟩ := h
  cases s with
  | nil => simp at hc
  | cons a t => simp at hc; subst hc; simp [List.dropWhile_cons, hw]

theorem trimL_pad (w s : Str) (hw : AllWs w) (hh : ∃ c, s.head? = some c ∧ isWs c = false) : trimL (w ++ s) = s := by
  unfold trimL; rw [dropWhile_ws_append w s hw, dropWhile_head s hh]

theorem allWs_reverse (w : Str) (hw : AllWs w) : AllWs w.reverse := fun c hc => hw c (by simpa using hc)

theorem trimR_pad (s w : Str) (hw : AllWs w) (hl : ∃ c, s.getLast? = some c ∧ isWs c = false) : trimR (s ++ w) = s := by
  unfold trimR
  rw [List.reverse_append, dropWhile_ws_append _ _ (allWs_reverse w hw)]
  have hh : ∃ c, s.reverse.head? = some c ∧ isWs c = false := by simpa [List.head?_reverse] using hl
  rw [dropWhile_head _ hh, List.reverse_reverse]

theorem head?_append_left (s t : Str) (h : ∃ c, s.head? = some c ∧ isWs c = false) :
    ∃ c, (s ++ t).head? = some c ∧ isWs c = false := by
  obtain ⟨c, hc, hw⟩ := h
  cases s with
  | nil => simp at hc
  | cons a r => exact ⟨c, by simpa using hc, hw⟩

theorem getLast?_append_right (s t : Str) (h : ∃ c, t.getLast? = some c ∧ isWs c = false) :
    ∃ c, (s ++ t).getLast? = some c ∧ isWs c = false := by
  obtain ⟨c, hc, hw⟩ := h
  refine ⟨c, ?_, hw⟩
  rw [List.getLast?_append, hc]; rfl

theorem trim_pad (w1 s w2 : Str) (h1 : AllWs w1) (h2 : AllWs w2) (hs : Clean s) : trim (w1 ++ s ++ w2) = s := by
  unfold trim
  have : w1 ++ s ++ w2 = w1 ++ (s ++ w2) := by simp
  rw [this, trimL_pad w1 (s ++ w2) h1 (head?_append_left s w2 hs.1)]
  exact trimR_pad s w2 h2 hs.2

theorem trim_clean (s : Str) (hs : Clean s) : trim s = s := by
  simpa using trim_pad [] s [] allWs_nil allWs_nil hs

theorem trim_allWs (w : Str) (hw : AllWs w) : trim w = [] := by
  unfold trim trimL
  have : w.dropWhile isWs = [] := by
    induction w with
    | nil => rfl
    | cons a t ih =>
      simp only [List.dropWhile_cons, hw a (by simp), if_true]
      exact ih (fun c hc => hw c (by simp [hc]))
  rw [this]; rfl

theorem Clean.ne_nil {s : Str} (h : Clean s) : s ≠ [] := by
  obtain ⟨⟨c, hc, _⟩, _⟩ := h
  intro e; subst e; simp at hc

theorem Clean.append {s t : Str} (hs : Clean s) (ht : Clean t) (m : Str) : Clean (s ++ m ++ t) :=
  ⟨by rw [List.append_assoc]; exact head?_append_left s _ hs.1, getLast?_append_right _ t ht.2⟩

theorem splitFirst_append (c : Char) (k v : Str) (hk : c ∉ k) : splitFirst c (k ++ c :: v) = some (k, v) := by
  induction k with
  | nil => simp [splitFirst]
  | cons a t ih =>
    have ha : a ≠ c := fun e => hk (by simp [e])
    have ht : c ∉ t := fun m => hk (by simp [m])
    simp [splitFirst, ha, ih ht]

theorem splitFirst_none (c : Char) (s : Str) (h : c ∉ s) : splitFirst c s = none := by
  induction s with
  | nil => rfl
  | cons a t ih =>
    have ha : a ≠ c := fun e => h (by simp [e])
    have ht : c ∉ t := fun m => h (by simp [m])
    simp [splitFirst, ha, ih ht]

/-! ### quotes -/

theorem dropWhile_eq_self_of_head {p : Char → Bool} (s : Str) (h : ∀ c, s.head? = some c → p c = false) :
    s.dropWhile p = s := by
  cases s with
  | nil => rfl
  | cons a t => simp [List.dropWhile_cons, h a (by simp)]

/-- a string that neither starts nor ends with a quote is left alone -/
theorem trimMatches_noquote (s : Str) (h1 : ∀ c, s.head? = some c → c ≠ '"') (h2 : ∀ c, s.getLast? = some c → c ≠ '"') :
    trimMatches '"' s = s := by
  unfold trimMatches
  rw [dropWhile_eq_self_of_head s (fun c hc => by simpa using h1 c hc)]
  rw [dropWhile_eq_self_of_head s.reverse (fun c hc => by
    rw [List.head?_reverse] at hc
    simpa using h2 c hc)]
  simp

/-- a quoted string gives its content back when the content has no quote at either end -/
theorem trimMatches_quoted (s : Str) (h1 : ∀ c, s.head? = some c → c ≠ '"') (h2 : ∀ c, s.getLast? = some c → c ≠ '"') :
    trimMatches '"' ('"' :: (s ++ ['"'])) = s := by
  unfold trimMatches
  have e1 : ('"' :: (s ++ ['"'])).dropWhile (· == '"') = (s ++ ['"']).dropWhile (· == '"') := by
    simp [List.dropWhile_cons]
  rw [e1]
  cases s with
  | nil => simp [List.dropWhile_cons]
  | cons a t =>
    have ha : (a == '"') = false := by simpa using h1 a (by simp)
    have e2 : ((a :: t) ++ ['"']).dropWhile (· == '"') = (a :: t) ++ ['"'] := by
      simp [List.dropWhile_cons, ha]
    rw [e2]
    have e3 : ((a :: t) ++ ['"']).reverse = '"' :: (a :: t).reverse := by simp
    rw [e3]
    have e4 : ('"' :: (a :: t).reverse).dropWhile (· == '"') = (a :: t).reverse.dropWhile (· == '"') := by
      simp [List.dropWhile_cons]
    rw [e4, dropWhile_eq_self_of_head (a :: t).reverse (fun c hc => by
      rw [List.head?_reverse] at hc
      simpa using h2 c hc)]
    simp

end Cte.Bdl
