/-
Helper lemmas for C16: the fields of `purge m` in closed form.
-/
import Cte.Model.Purge
import Cte.Model.Check
namespace Cte

def spacesUsed (m : Model) : List Id := m.walls.flatMap (fun w => w.space :: w.nextTo.toList)
def matsUsed (wc : List WallCons) : List Id := wc.flatMap (fun c => c.layers.map (·.material))
def weeksUsed (ys : List Schedule) : List Id := ys.flatMap (fun s => s.values.map (·.1))

/-- the purged collections, each written as a filter of the original one -/
def pSpaces (m : Model) := m.spaces.filter (fun s => (spacesUsed m).contains s.id)
def pBridges (m : Model) := m.thermalBridges.filter (fun tb => decide (rabs tb.l > f32Eps))
def pWallcons (m : Model) := m.cons.wallcons.filter (fun c => (m.walls.map (·.cons)).contains c.id)
def pWincons (m : Model) := m.cons.wincons.filter (fun c => (m.windows.map (·.cons)).contains c.id)
def pMaterials (m : Model) := m.cons.materials.filter (fun c => (matsUsed (pWallcons m)).contains c.id)
def pGlasses (m : Model) := m.cons.glasses.filter (fun c => ((pWincons m).map (·.glass)).contains c.id)
def pFrames (m : Model) := m.cons.frames.filter (fun c => ((pWincons m).map (·.frame)).contains c.id)
def pLoads (m : Model) := m.loads.filter (fun c => ((pSpaces m).filterMap (·.loads)).contains c.id)
def pThermostats (m : Model) :=
  m.thermostats.filter (fun c => ((pSpaces m).filterMap (·.thermostat)).contains c.id)
def pYear (m : Model) :=
  m.schedules.year.filter (fun s => (yearUsed (pLoads m) (pThermostats m)).contains s.id)
def pWeek (m : Model) := m.schedules.week.filter (fun s => (weeksUsed (pYear m)).contains s.id)
def pDay (m : Model) := m.schedules.day.filter (fun s => (weeksUsed (pWeek m)).contains s.id)

theorem purge_eq (m : Model) : purge m =
    { m with
      spaces := pSpaces m
      thermalBridges := pBridges m
      cons := { wallcons := pWallcons m, wincons := pWincons m, materials := pMaterials m,
                glasses := pGlasses m, frames := pFrames m }
      loads := pLoads m
      thermostats := pThermostats m
      schedules := { year := pYear m, week := pWeek m, day := pDay m } } := rfl

@[simp] theorem purge_info (m : Model) : (purge m).info = m.info := rfl
@[simp] theorem purge_walls (m : Model) : (purge m).walls = m.walls := rfl
@[simp] theorem purge_windows (m : Model) : (purge m).windows = m.windows := rfl
@[simp] theorem purge_shades (m : Model) : (purge m).shades = m.shades := rfl
@[simp] theorem purge_overrides (m : Model) : (purge m).overrides = m.overrides := rfl
theorem purge_spaces (m : Model) : (purge m).spaces = pSpaces m := rfl
theorem purge_bridges (m : Model) : (purge m).thermalBridges = pBridges m := rfl
theorem purge_wallcons (m : Model) : (purge m).cons.wallcons = pWallcons m := rfl
theorem purge_wincons (m : Model) : (purge m).cons.wincons = pWincons m := rfl
theorem purge_materials (m : Model) : (purge m).cons.materials = pMaterials m := rfl
theorem purge_glasses (m : Model) : (purge m).cons.glasses = pGlasses m := rfl
theorem purge_frames (m : Model) : (purge m).cons.frames = pFrames m := rfl
theorem purge_loads (m : Model) : (purge m).loads = pLoads m := rfl
theorem purge_thermostats (m : Model) : (purge m).thermostats = pThermostats m := rfl
theorem purge_year (m : Model) : (purge m).schedules.year = pYear m := rfl
theorem purge_week (m : Model) : (purge m).schedules.week = pWeek m := rfl
theorem purge_day (m : Model) : (purge m).schedules.day = pDay m := rfl

end Cte
