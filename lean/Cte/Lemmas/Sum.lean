/-
`rsum` (a left fold) as a sum: cons/append/permutation lemmas.
-/
import Cte.Model.Num
import Mathlib.Tactic.Ring
import Mathlib.Tactic.Linarith
namespace Cte

theorem foldl_add_shift (l : List Rat) (x y : Rat) :
    l.foldl (· + ·) (x + y) = x + l.foldl (· + ·) y := by
  induction l generalizing y with
  | nil => rfl
  | cons h t ih => simp only [List.foldl_cons]; rw [add_assoc]; exact ih (y + h)

@[simp] theorem rsum_nil : rsum [] = 0 := rfl

@[simp] theorem rsum_cons (a : Rat) (l : List Rat) : rsum (a :: l) = a + rsum l := by
  unfold rsum
  simp only [List.foldl_cons]
  rw [show (0 : Rat) + a = a + 0 by ring, foldl_add_shift]

@[simp] theorem rsum_append (a b : List Rat) : rsum (a ++ b) = rsum a + rsum b := by
  induction a with
  | nil => simp
  | cons h t ih => simp [ih, add_assoc]

theorem rsum_perm {a b : List Rat} (h : a.Perm b) : rsum a = rsum b := by
  induction h with
  | nil => rfl
  | cons x _ ih => simp [ih]
  | swap x y l => simp; ring
  | trans _ _ ih1 ih2 => exact ih1.trans ih2

theorem rsum_nonneg {l : List Rat} (h : ∀ x ∈ l, 0 ≤ x) : 0 ≤ rsum l := by
  induction l with
  | nil => simp
  | cons a t ih =>
    rw [rsum_cons]
    have := h a (by simp)
    have := ih (fun x hx => h x (by simp [hx]))
    linarith

theorem rsum_map_add {α} (l : List α) (f g : α → Rat) :
    rsum (l.map (fun x => f x + g x)) = rsum (l.map f) + rsum (l.map g) := by
  induction l with
  | nil => simp
  | cons a t ih => simp [ih]; ring

theorem rsum_map_mul_left {α} (l : List α) (c : Rat) (f : α → Rat) :
    rsum (l.map (fun x => c * f x)) = c * rsum (l.map f) := by
  induction l with
  | nil => simp
  | cons a t ih => simp [ih]; ring

/-- sum over a list split by a predicate -/
theorem rsum_filter_split {α} (l : List α) (p : α → Bool) (f : α → Rat) :
    rsum (l.map f) = rsum ((l.filter p).map f) + rsum ((l.filter (fun x => !p x)).map f) := by
  induction l with
  | nil => simp
  | cons a t ih =>
    by_cases h : p a <;> simp [List.filter_cons, h, ih] <;> ring

end Cte
