/-
  `BdlBlock::from_str` on the text of one printed block.
-/
import Cte.Lemmas.BdlAttrs
import Cte.Lemmas.BdlSplit

namespace Cte.Bdl

/-- the pieces of a multi-line value are trimmed physical lines -/
def WVal.PiecesClean : WVal → Prop
  | .multi _ mids last => (∀ m ∈ mids, Clean m) ∧ Clean last
  | _ => True

theorem clean_of_ends (s : Str) (c d : Char) (hc : s.head? = some c) (hcw : isWs c = false)
    (hd : s.getLast? = some d) (hdw : isWs d = false) : Clean s := ⟨⟨c, hc, hcw⟩, ⟨d, hd, hdw⟩⟩

theorem first_line_clean (k p1 p2 v : Str) (hk : KeyWF k) (hv : Clean v) : Clean (k ++ p1 ++ '=' :: (p2 ++ v)) := by
  have : k ++ p1 ++ '=' :: (p2 ++ v) = k ++ (p1 ++ '=' :: p2) ++ v := by simp
  rw [this]
  exact hk.1.append hv _

theorem attrLines_clean (a : WAttr) (h : a.WF) (hp : a.val.PiecesClean) : ∀ l ∈ a.lines, Clean l := by
  obtain ⟨hk, _, _, hv⟩ := h
  intro l hl
  unfold WAttr.lines attrLines at hl
  cases hval : a.val with
  | bare v =>
    rw [hval] at hl hv
    simp at hl; subst hl
    simpa [List.append_assoc] using first_line_clean a.key a.p1 a.p2 v hk hv.1
  | quoted v =>
    rw [hval] at hl
    simp at hl; subst hl
    simpa [List.append_assoc] using first_line_clean a.key a.p1 a.p2 _ hk (clean_quoted v)
  | multi p0 mids last =>
    rw [hval] at hl hv hp
    simp at hl
    rcases hl with rfl | hl | rfl
    · simpa [List.append_assoc] using first_line_clean a.key a.p1 a.p2 p0 hk hv.1
    · exact hp.1 l hl
    · exact hp.2

theorem attrLines_ne (a : WAttr) : a.lines ≠ [] := by
  unfold WAttr.lines attrLines
  cases a.val <;> simp

theorem clean_join (ls : List Str) (hne : ls ≠ []) (h : ∀ l ∈ ls, Clean l) : Clean (joinWith ['\n'] ls) := by
  induction ls with
  | nil => exact absurd rfl hne
  | cons a t ih =>
    cases t with
    | nil => simpa [joinWith] using h a (by simp)
    | cons b r =>
      rw [joinWith_cons_cons]
      exact (h a (by simp)).append (ih (by simp) (fun l hl => h l (by simp [hl]))) _

/-- a written block: quoted name, padding around `=`, type, attributes -/
structure WBlock where
  name : Str
  btype : Str
  p1 : Str
  p2 : Str
  attrs : List WAttr

def WBlock.header (b : WBlock) : Str := '"' :: (b.name ++ '"' :: (b.p1 ++ '=' :: (b.p2 ++ b.btype)))
def WBlock.lines (b : WBlock) : List Str := b.header :: b.attrs.flatMap WAttr.lines
def WBlock.expected (b : WBlock) : Block :=
  { btype := b.btype, name := b.name, parent := none, attrs := storedAttrs [] b.attrs }

structure WBlock.WF (b : WBlock) : Prop where
  name_clean : Clean b.name
  name_eq : '=' ∉ b.name
  name_quotes : NoQuoteEnds b.name
  type_known : knownType b.btype = true
  type_clean : Clean b.btype
  type_quotes : NoQuoteEnds b.btype
  pad1 : AllPad b.p1
  pad2 : AllPad b.p2
  attrs_ne : b.attrs ≠ []
  attrs_wf : ∀ a ∈ b.attrs, a.WF ∧ a.val.PiecesClean
  /-- no line of the block contains a line end -/
  no_eol : ∀ l ∈ b.lines, '\n' ∉ l ∧ '\r' ∉ l

theorem WBlock.attrLines_ne (b : WBlock) (h : b.WF) : b.attrs.flatMap WAttr.lines ≠ [] := by
  cases hb : b.attrs with
  | nil => exact absurd hb h.attrs_ne
  | cons a t =>
    have := Cte.Bdl.attrLines_ne a
    cases hl : a.lines with
    | nil => exact absurd hl this
    | cons x r => simp [hl]

theorem WBlock.header_clean (b : WBlock) (h : b.WF) : Clean b.header := by
  obtain ⟨d, hd, hdw⟩ := h.type_clean.2
  refine clean_of_ends _ '"' d (by simp [WBlock.header]) (by decide) ?_ hdw
  unfold WBlock.header
  have : '"' :: (b.name ++ '"' :: (b.p1 ++ '=' :: (b.p2 ++ b.btype))) = ('"' :: (b.name ++ '"' :: (b.p1 ++ '=' :: b.p2))) ++ b.btype := by simp
  rw [this, List.getLast?_append, hd]; rfl

theorem WBlock.lines_clean (b : WBlock) (h : b.WF) : ∀ l ∈ b.lines, Clean l := by
  intro l hl
  unfold WBlock.lines at hl
  rcases List.mem_cons.mp hl with rfl | hl
  · exact b.header_clean h
  · obtain ⟨a, ha, hla⟩ := List.mem_flatMap.mp hl
    exact attrLines_clean a (h.attrs_wf a ha).1 (h.attrs_wf a ha).2 l hla

theorem WBlock.text_clean (b : WBlock) (h : b.WF) : Clean (blockText b.lines) :=
  clean_join _ (by simp [WBlock.lines]) (b.lines_clean h)

theorem parseAttributes_lines (as : List WAttr) (hne : as.flatMap WAttr.lines ≠ [])
    (hw : ∀ a ∈ as, a.WF ∧ a.val.PiecesClean) (heol : ∀ l ∈ as.flatMap WAttr.lines, '\n' ∉ l ∧ '\r' ∉ l) :
    parseAttributes (joinWith ['\n'] (as.flatMap WAttr.lines)) = .ok (storedAttrs [] as) := by
  have hclean : ∀ l ∈ as.flatMap WAttr.lines, Clean l := by
    intro l hl
    obtain ⟨a, ha, hla⟩ := List.mem_flatMap.mp hl
    exact attrLines_clean a (hw a ha).1 (hw a ha).2 l hla
  unfold parseAttributes
  rw [linesOf_join _ hne heol (fun l hl => (hclean l hl).ne_nil)]
  have hmap : (as.flatMap WAttr.lines).map trim = as.flatMap WAttr.lines := by
    rw [List.map_congr_left (g := id) (fun l hl => trim_clean l (hclean l hl))]
    simp
  rw [hmap, attrFold_attrs {} rfl as (fun a ha => (hw a ha).1)]

/-- the text of a printed block parses to the block that was written (parent not yet assigned) -/
theorem parseBlock_text (b : WBlock) (h : b.WF) : parseBlock (blockText b.lines) = .ok b.expected := by
  have hal := b.attrLines_ne h
  have htext : blockText b.lines = b.header ++ '\n' :: joinWith ['\n'] (b.attrs.flatMap WAttr.lines) := by
    unfold blockText WBlock.lines
    cases hl : b.attrs.flatMap WAttr.lines with
    | nil => exact absurd hl hal
    | cons x r => rw [joinWith_cons_cons]; simp
  have hhead_nl : '\n' ∉ b.header := (h.no_eol b.header (by simp [WBlock.lines])).1
  have hrest_clean : Clean (joinWith ['\n'] (b.attrs.flatMap WAttr.lines)) :=
    clean_join _ hal (fun l hl => b.lines_clean h l (by simp [WBlock.lines, hl]))
  -- header: `"name"` pad `=` pad type
  have hsplit : splitFirst '=' b.header = some ('"' :: (b.name ++ '"' :: b.p1), b.p2 ++ b.btype) := by
    have : b.header = ('"' :: (b.name ++ '"' :: b.p1)) ++ '=' :: (b.p2 ++ b.btype) := by simp [WBlock.header]
    rw [this]
    apply splitFirst_append
    intro m
    simp only [List.mem_cons, List.mem_append] at m
    rcases m with m | m | m | m
    · exact absurd m (by decide)
    · exact h.name_eq m
    · exact absurd m (by decide)
    · exact eq_not_mem_pad h.pad1 m
  have htrim_a : trim ('"' :: (b.name ++ '"' :: b.p1)) = '"' :: (b.name ++ ['"']) := by
    have : '"' :: (b.name ++ '"' :: b.p1) = [] ++ ('"' :: (b.name ++ ['"'])) ++ b.p1 := by simp
    rw [this]
    exact trim_pad [] _ b.p1 allWs_nil h.pad1.allWs (clean_quoted b.name)
  have htrim_b : trim (b.p2 ++ b.btype) = b.btype := by
    simpa using trim_pad b.p2 b.btype [] h.pad2.allWs allWs_nil h.type_clean
  unfold parseBlock
  rw [htext, splitFirst_append '\n' _ _ hhead_nl]
  simp only [trim_clean _ (b.header_clean h), trim_clean _ hrest_clean, hsplit, htrim_a, htrim_b,
    trimMatches_quoted b.name h.name_quotes.1 h.name_quotes.2, trimMatches_noquote b.btype h.type_quotes.1 h.type_quotes.2,
    trim_clean _ h.name_clean, h.type_known, if_true]
  rw [parseAttributes_lines b.attrs hal h.attrs_wf (fun l hl => h.no_eol l (by simp [WBlock.lines, hl]))]
  rfl

end Cte.Bdl
