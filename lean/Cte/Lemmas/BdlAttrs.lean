/-
  `parse_attributes` on printed attribute lines: one-line values (bare or quoted) and parenthesised values
  that run over several lines.
-/
import Cte.Lemmas.BdlText

namespace Cte.Bdl

/-- a value as it is written -/
inductive WVal where
  | bare (v : Str)
  | quoted (v : Str)
  /-- a parenthesised value over several lines: first piece, middle pieces, closing piece -/
  | multi (p0 : Str) (mids : List Str) (last : Str)

/-- what the parser must store for it -/
def WVal.stored : WVal → Val
  | .bare v => classify v
  | .quoted v => classify v
  | .multi p0 mids last => classify (p0 ++ mids.flatten ++ last)

def NoQuoteEnds (v : Str) : Prop := (∀ c, v.head? = some c → c ≠ '"') ∧ (∀ c, v.getLast? = some c → c ≠ '"')

/-- well-formedness of a written value -/
def WVal.WF : WVal → Prop
  | .bare v => Clean v ∧ NoQuoteEnds v ∧ (startsWith ['('] v = true → endsWith [')'] v = true)
  | .quoted v => NoQuoteEnds v
  | .multi p0 mids last =>
      Clean p0 ∧ startsWith ['('] p0 = true ∧ endsWith [')'] p0 = false ∧
      (∀ m ∈ mids, endsWith [')'] m = false) ∧ endsWith [')'] last = true

/-- the trimmed lines of one attribute -/
def attrLines (k p1 p2 : Str) : WVal → List Str
  | .bare v => [k ++ p1 ++ '=' :: (p2 ++ v)]
  | .quoted v => [k ++ p1 ++ '=' :: (p2 ++ '"' :: (v ++ ['"']))]
  | .multi p0 mids last => (k ++ p1 ++ '=' :: (p2 ++ p0)) :: (mids ++ [last])

def KeyWF (k : Str) : Prop := Clean k ∧ '=' ∉ k

theorem eq_not_mem_pad {p : Str} (h : AllPad p) : '=' ∉ p := by
  intro m
  rcases h _ m with e | e <;> exact absurd e (by decide)

theorem split_line (k p1 p2 v : Str) (hk : KeyWF k) (h1 : AllPad p1) (h2 : AllPad p2) (hv : Clean v) :
    splitFirst '=' (k ++ p1 ++ '=' :: (p2 ++ v)) = some (k ++ p1, p2 ++ v) ∧ trim (k ++ p1) = k ∧ trim (p2 ++ v) = v := by
  refine ⟨?_, ?_, ?_⟩
  · apply splitFirst_append
    intro m
    rcases List.mem_append.mp m with m | m
    · exact hk.2 m
    · exact eq_not_mem_pad h1 m
  · simpa using trim_pad [] k p1 allWs_nil h1.allWs hk.1
  · simpa using trim_pad p2 v [] h2.allWs allWs_nil hv

theorem line_ne_dots (k p1 r : Str) : (k ++ p1 ++ '=' :: r == ['.', '.']) = false ∧ (k ++ p1 ++ '=' :: r == ['"']) = false := by
  have hmem : '=' ∈ k ++ p1 ++ '=' :: r := by simp
  constructor
  · apply Bool.eq_false_iff.mpr
    intro h
    have := eq_of_beq h
    rw [this] at hmem
    simp at hmem
  · apply Bool.eq_false_iff.mpr
    intro h
    have := eq_of_beq h
    rw [this] at hmem
    simp at hmem

theorem clean_quoted (v : Str) : Clean ('"' :: (v ++ ['"'])) := by
  refine ⟨⟨'"', by simp, by decide⟩, ⟨'"', ?_, by decide⟩⟩
  have : '"' :: (v ++ ['"']) = ('"' :: v) ++ ['"'] := by simp
  rw [this, List.getLast?_append]; rfl

theorem startsWith_quoted (v : Str) : startsWith ['('] ('"' :: (v ++ ['"'])) = false := by
  simp [startsWith, List.isPrefixOf]

/-- one-line values -/
theorem attrStep_single (st : AttrSt) (hp : st.pending = none) (k p1 p2 : Str) (w : WVal)
    (hk : KeyWF k) (h1 : AllPad p1) (h2 : AllPad p2) (hw : w.WF) :
    (∀ v, w = .bare v → attrStep st (k ++ p1 ++ '=' :: (p2 ++ v)) = .ok { st with attrs := attrInsert st.attrs k w.stored }) ∧
    (∀ v, w = .quoted v → attrStep st (k ++ p1 ++ '=' :: (p2 ++ '"' :: (v ++ ['"']))) = .ok { st with attrs := attrInsert st.attrs k w.stored }) := by
  constructor
  · rintro v rfl
    obtain ⟨hc, hq, hpar⟩ := hw
    obtain ⟨hs, ht1, ht2⟩ := split_line k p1 p2 v hk h1 h2 hc
    obtain ⟨hd1, hd2⟩ := line_ne_dots k p1 (p2 ++ v)
    unfold attrStep
    simp only [hp, hd1, hd2, Bool.or_self, Bool.false_eq_true, if_false, hs, ht1, ht2]
    have hb : (startsWith ['('] v && !endsWith [')'] v) = false := by
      cases h : startsWith ['('] v with
      | false => simp
      | true => simp [hpar h]
    simp only [hb, Bool.false_eq_true, if_false, trimMatches_noquote v hq.1 hq.2, WVal.stored]
  · rintro v rfl
    have hc := clean_quoted v
    obtain ⟨hs, ht1, ht2⟩ := split_line k p1 p2 _ hk h1 h2 hc
    obtain ⟨hd1, hd2⟩ := line_ne_dots k p1 (p2 ++ '"' :: (v ++ ['"']))
    unfold attrStep
    simp only [hp, hd1, hd2, Bool.or_self, Bool.false_eq_true, if_false, hs, ht1, ht2, startsWith_quoted,
      Bool.false_and, trimMatches_quoted v hw.1 hw.2, WVal.stored]

/-- once a parenthesised value is open, lines are appended until one ends with `)` -/
theorem attrFold_pending (attrs : List (Str × Val)) (k acc : Str) (mids : List Str) (last : Str) (more : List Str)
    (hm : ∀ m ∈ mids, endsWith [')'] m = false) (hl : endsWith [')'] last = true) :
    attrFold { attrs := attrs, pending := some (k, acc) } (mids ++ last :: more) =
      attrFold { attrs := attrInsert attrs k (classify (acc ++ mids.flatten ++ last)), pending := none } more := by
  induction mids generalizing acc with
  | nil =>
    simp only [List.nil_append, attrFold, attrStep, hl, if_true, List.flatten_nil, List.append_nil]
  | cons m t ih =>
    have hmf : endsWith [')'] m = false := hm m (by simp)
    simp only [List.cons_append, attrFold, attrStep, hmf, Bool.false_eq_true, if_false]
    rw [ih (acc ++ m) (fun x hx => hm x (by simp [hx]))]
    simp [List.append_assoc]

/-- the lines of one attribute, whatever follows -/
theorem attrFold_attr (st : AttrSt) (hp : st.pending = none) (k p1 p2 : Str) (w : WVal)
    (hk : KeyWF k) (h1 : AllPad p1) (h2 : AllPad p2) (hw : w.WF) (more : List Str) :
    attrFold st (attrLines k p1 p2 w ++ more) = attrFold { st with attrs := attrInsert st.attrs k w.stored } more := by
  cases w with
  | bare v =>
    have := (attrStep_single st hp k p1 p2 (.bare v) hk h1 h2 hw).1 v rfl
    simp only [attrLines, List.cons_append, List.nil_append, attrFold, this]
  | quoted v =>
    have := (attrStep_single st hp k p1 p2 (.quoted v) hk h1 h2 hw).2 v rfl
    simp only [attrLines, List.cons_append, List.nil_append, attrFold, this]
  | multi p0 mids last =>
    obtain ⟨hc, hs, he, hm, hl⟩ := hw
    obtain ⟨hsp, ht1, ht2⟩ := split_line k p1 p2 p0 hk h1 h2 hc
    obtain ⟨hd1, hd2⟩ := line_ne_dots k p1 (p2 ++ p0)
    have step : attrStep st (k ++ p1 ++ '=' :: (p2 ++ p0)) = .ok { st with pending := some (k, p0) } := by
      unfold attrStep
      simp only [hp, hd1, hd2, Bool.or_self, Bool.false_eq_true, if_false, hsp, ht1, ht2, hs, he, Bool.not_false,
        Bool.and_self, if_true]
    simp only [attrLines, List.cons_append, attrFold, step]
    have : mids ++ [last] ++ more = mids ++ last :: more := by simp
    rw [this]
    have hst : ({ st with pending := some (k, p0) } : AttrSt) = { attrs := st.attrs, pending := some (k, p0) } := rfl
    rw [hst, attrFold_pending st.attrs k p0 mids last more hm hl]
    cases st
    simp_all [WVal.stored]

/-- a written attribute with its padding -/
structure WAttr where
  key : Str
  p1 : Str
  p2 : Str
  val : WVal

def WAttr.WF (a : WAttr) : Prop := KeyWF a.key ∧ AllPad a.p1 ∧ AllPad a.p2 ∧ a.val.WF
def WAttr.lines (a : WAttr) : List Str := attrLines a.key a.p1 a.p2 a.val

def storedAttrs (init : List (Str × Val)) (as : List WAttr) : List (Str × Val) :=
  as.foldl (fun m a => attrInsert m a.key a.val.stored) init

theorem attrFold_attrs (st : AttrSt) (hp : st.pending = none) (as : List WAttr) (hw : ∀ a ∈ as, a.WF) :
    attrFold st (as.flatMap WAttr.lines) = .ok { st with attrs := storedAttrs st.attrs as } := by
  induction as generalizing st with
  | nil => simp [attrFold, storedAttrs]
  | cons a t ih =>
    obtain ⟨hk, h1, h2, hv⟩ := hw a (by simp)
    simp only [List.flatMap_cons, WAttr.lines]
    rw [attrFold_attr st hp a.key a.p1 a.p2 a.val hk h1 h2 hv]
    rw [ih { st with attrs := attrInsert st.attrs a.key a.val.stored } hp (fun x hx => hw x (by simp [hx]))]
    simp [storedAttrs]

/-- distinct keys: the stored attributes are the written ones, in order -/
theorem storedAttrs_nodup (as : List WAttr) (init : List (Str × Val))
    (hn : (init.map (·.1) ++ as.map (·.key)).Nodup) :
    storedAttrs init as = init ++ as.map (fun a => (a.key, a.val.stored)) := by
  induction as generalizing init with
  | nil => simp [storedAttrs]
  | cons a t ih =>
    have hnot : init.any (·.1 == a.key) = false := by
      apply Bool.eq_false_iff.mpr
      intro h
      obtain ⟨e, he, hk⟩ := List.any_eq_true.mp h
      have hk' : e.1 = a.key := eq_of_beq hk
      have hd := List.nodup_append.mp hn
      exact hd.2.2 e.1 (List.mem_map.mpr ⟨e, he, rfl⟩) a.key (by simp) hk'
    have hins : attrInsert init a.key a.val.stored = init ++ [(a.key, a.val.stored)] := by
      simp [attrInsert, hnot]
    simp only [storedAttrs, List.foldl_cons, hins]
    have := ih (init ++ [(a.key, a.val.stored)]) (by simpa [List.append_assoc] using hn)
    simpa [storedAttrs, List.append_assoc] using this

end Cte.Bdl
