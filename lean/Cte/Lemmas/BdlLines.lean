/-
  From the text of a file to its logical lines and to the block texts:
  `clean_lines` on a rendered list of physical lines, and `split("..")` on joined lines.
-/
import Cte.Lemmas.BdlText

namespace Cte.Bdl

/-- a physical line: its body and whether it ends with CRLF -/
structure PLine where
  body : Str
  crlf : Bool

def PLine.eol (l : PLine) : Str := if l.crlf then ['\r', '\n'] else ['\n']

/-- the file text -/
def render (ls : List PLine) : Str := ls.flatMap (fun l => l.body ++ l.eol)

/-- the body has no line-end character and no legacy marker byte -/
def BodyOK (b : Str) : Prop := '\n' ∉ b ∧ '\r' ∉ b ∧ 'ÿ' ∉ b

theorem replaceCrLf_cons_ne (c : Char) (t : Str) (h : c ≠ '\r') : replaceCrLf (c :: t) = c :: replaceCrLf t := by
  rw [replaceCrLf.eq_2]
  intro t' hc _
  exact h hc

theorem replaceCrLf_body (b rest : Str) (h : '\r' ∉ b) : replaceCrLf (b ++ rest) = b ++ replaceCrLf rest := by
  induction b with
  | nil => rfl
  | cons a t ih =>
    have ha : a ≠ '\r' := fun e => h (by simp [e])
    rw [List.cons_append, replaceCrLf_cons_ne _ _ ha, ih (fun m => h (by simp [m]))]
    rfl

theorem replaceCrLf_eol (l : PLine) (rest : Str) : replaceCrLf (l.eol ++ rest) = '\n' :: replaceCrLf rest := by
  unfold PLine.eol
  cases l.crlf with
  | true => simp only [if_true, List.cons_append, List.nil_append]; rw [replaceCrLf.eq_1]
  | false =>
    simp only [Bool.false_eq_true, if_false, List.cons_append, List.nil_append]
    exact replaceCrLf_cons_ne _ _ (by decide)

theorem replaceCrLf_render (ls : List PLine) (h : ∀ l ∈ ls, BodyOK l.body) :
    replaceCrLf (render ls) = ls.flatMap (fun l => l.body ++ ['\n']) := by
  induction ls with
  | nil => rfl
  | cons l t ih =>
    have hl := h l (by simp)
    have ht := ih (fun x hx => h x (by simp [hx]))
    unfold render at ht ⊢
    rw [List.flatMap_cons, List.flatMap_cons, List.append_assoc, replaceCrLf_body _ _ hl.2.1, replaceCrLf_eol, ht]
    simp

theorem filter_marker (ls : List PLine) (h : ∀ l ∈ ls, BodyOK l.body) :
    (ls.flatMap (fun l => l.body ++ ['\n'])).filter (· != 'ÿ') = ls.flatMap (fun l => l.body ++ ['\n']) := by
  apply List.filter_eq_self.mpr
  intro c hc
  obtain ⟨l, hl, hc⟩ := List.mem_flatMap.mp hc
  have := h l hl
  rcases List.mem_append.mp hc with m | m
  · have : c ≠ 'ÿ' := fun e => this.2.2 (e ▸ m)
    simpa using this
  · simp at m; subst m; decide

theorem splitNl_body (b rest : Str) (h : '\n' ∉ b) : splitNl (b ++ '\n' :: rest) = b :: splitNl rest := by
  induction b with
  | nil => simp [splitNl]
  | cons a t ih =>
    have ha : a ≠ '\n' := fun e => h (by simp [e])
    have := ih (fun m => h (by simp [m]))
    simp [splitNl, ha, this]

theorem splitNl_lines (bs : List Str) (h : ∀ b ∈ bs, '\n' ∉ b) :
    splitNl (bs.flatMap (fun b => b ++ ['\n'])) = bs ++ [[]] := by
  induction bs with
  | nil => rfl
  | cons b t ih =>
    simp only [List.flatMap_cons, List.append_assoc, List.cons_append, List.nil_append]
    rw [splitNl_body b _ (h b (by simp)), ih (fun x hx => h x (by simp [hx]))]

theorem stripCr_noCr (b : Str) (h : '\r' ∉ b) : stripCr b = b := by
  unfold stripCr
  split
  · rename_i r heq
    have : '\r' ∈ b.reverse := by rw [heq]; simp
    exact absurd (by simpa using this) h
  · rfl

/-- `lines()` of newline-terminated bodies gives the bodies back -/
theorem linesOf_terminated (bs : List Str) (h : ∀ b ∈ bs, '\n' ∉ b ∧ '\r' ∉ b) :
    linesOf (bs.flatMap (fun b => b ++ ['\n'])) = bs := by
  unfold linesOf
  rw [splitNl_lines bs (fun b hb => (h b hb).1)]
  simp only [List.dropLast_concat, List.getLast?_concat]
  have : ∀ l : List Str, (∀ b ∈ l, '\r' ∉ b) → l.map stripCr = l := by
    intro l hl
    induction l with
    | nil => rfl
    | cons x t ih =>
      simp only [List.map_cons, stripCr_noCr x (hl x (by simp)), ih (fun b hb => hl b (by simp [hb]))]
  exact this bs (fun b hb => (h b hb).2)

/-- `clean_lines` of a rendered file: the trimmed bodies that pass the line filter, joined by newlines -/
theorem cleanLines_render (ls : List PLine) (h : ∀ l ∈ ls, BodyOK l.body) :
    cleanLines (render ls) = joinWith ['\n'] (((ls.map (·.body)).map trim).filter keepLine) := by
  unfold cleanLines
  rw [replaceCrLf_render ls h, filter_marker ls h]
  have e : ls.flatMap (fun l => l.body ++ ['\n']) = (ls.map (·.body)).flatMap (fun b => b ++ ['\n']) := by
    simp [List.flatMap_map]
  rw [e, linesOf_terminated]
  intro b hb
  obtain ⟨l, hl, rfl⟩ := List.mem_map.mp hb
  exact ⟨(h l hl).1, (h l hl).2.1⟩

/-! ### joined lines -/

theorem joinWith_cons_cons (sep a : Str) (b : Str) (t : List Str) :
    joinWith sep (a :: b :: t) = a ++ sep ++ joinWith sep (b :: t) := rfl

theorem joinWith_append (sep : Str) (l1 l2 : List Str) (h1 : l1 ≠ []) (h2 : l2 ≠ []) :
    joinWith sep (l1 ++ l2) = joinWith sep l1 ++ sep ++ joinWith sep l2 := by
  induction l1 with
  | nil => exact absurd rfl h1
  | cons a t ih =>
    cases t with
    | nil =>
      cases l2 with
      | nil => exact absurd rfl h2
      | cons b r => simp [joinWith]
    | cons x r =>
      have := ih (by simp)
      simp only [List.cons_append] at this ⊢
      rw [joinWith_cons_cons, this, joinWith_cons_cons]
      simp [List.append_assoc]

/-- `lines()` of lines joined by newlines (no trailing newline) -/
theorem splitNl_join (ls : List Str) (hne : ls ≠ []) (h : ∀ b ∈ ls, '\n' ∉ b) :
    splitNl (joinWith ['\n'] ls) = ls := by
  induction ls with
  | nil => exact absurd rfl hne
  | cons a t ih =>
    cases t with
    | nil =>
      simp only [joinWith]
      have : ∀ b : Str, '\n' ∉ b → splitNl b = [b] := by
        intro b hb
        induction b with
        | nil => rfl
        | cons c r ihr =>
          have hc : c ≠ '\n' := fun e => hb (by simp [e])
          simp [splitNl, hc, ihr (fun m => hb (by simp [m]))]
      exact this a (h a (by simp))
    | cons x r =>
      rw [joinWith_cons_cons]
      have := ih (by simp) (fun b hb => h b (by simp [hb]))
      simp only [List.append_assoc, List.cons_append, List.nil_append]
      rw [splitNl_body a _ (h a (by simp)), this]

theorem linesOf_join (ls : List Str) (hne : ls ≠ []) (h : ∀ b ∈ ls, '\n' ∉ b ∧ '\r' ∉ b) (hl : ∀ b ∈ ls, b ≠ []) :
    linesOf (joinWith ['\n'] ls) = ls := by
  have hmap : ∀ l : List Str, (∀ b ∈ l, '\r' ∉ b) → l.map stripCr = l := by
    intro l hl
    induction l with
    | nil => rfl
    | cons x t ih =>
      simp only [List.map_cons, stripCr_noCr x (hl x (by simp)), ih (fun b hb => hl b (by simp [hb]))]
  have hx : ls.getLast? = some (ls.getLast hne) := List.getLast?_eq_some_getLast hne
  have hxne : ls.getLast hne ≠ [] := hl _ (List.getLast_mem hne)
  unfold linesOf
  rw [splitNl_join ls hne (fun b hb => (h b hb).1)]
  simp only [hx, hmap ls.dropLast (fun b hb => (h b (List.dropLast_subset ls hb)).2)]
  cases hg : ls.getLast hne with
  | nil => exact absurd hg hxne
  | cons c r =>
    rw [← hg]
    exact List.dropLast_concat_getLast hne

end Cte.Bdl
