/-
Decoder from JSON values to the model, following the serde attributes of the Rust structs
(required / `default` / `Option` fields).  Unknown keys are ignored, as serde does.
-/
import Cte.Model.Json
import Cte.Model.Types
namespace Cte
namespace Dec

abbrev R := Except String

def field (j : J) (k : String) : Option J :=
  match j.get? k with
  | some J.null => none      -- callers that distinguish null use `J.get?` directly
  | r => r

def asRat : J → R Rat
  | .num n m e => pure (J.numVal n m e)
  | _ => throw "expected number"

def asStr : J → R String
  | .str s => pure s
  | _ => throw "expected string"

def asBool : J → R Bool
  | .bool b => pure b
  | _ => throw "expected bool"

def asNat : J → R Nat
  | .num false m e => if e ≥ 0 then pure (m * 10 ^ e.toNat) else
      let v := J.numVal false m e
      if v.den = 1 then pure v.num.toNat else throw "expected unsigned integer"
  | .num true 0 _ => pure 0
  | _ => throw "expected unsigned integer"

def asInt : J → R Int
  | .num n m e =>
      let v := J.numVal n m e
      if v.den = 1 then pure v.num else throw "expected integer"
  | _ => throw "expected integer"

def asList (f : J → R α) : J → R (List α)
  | .arr l => l.mapM f
  | _ => throw "expected array"

def req (j : J) (k : String) (f : J → R α) : R α :=
  match j.get? k with
  | some v => (f v).mapError (fun e => k ++ ": " ++ e)
  | none => throw ("missing field " ++ k)

/-- `#[serde(default)]`: missing key → default; `null` is an error unless `f` accepts it -/
def dflt (j : J) (k : String) (d : α) (f : J → R α) : R α :=
  match j.get? k with
  | some v => (f v).mapError (fun e => k ++ ": " ++ e)
  | none => pure d

/-- `Option<T>`: missing key or `null` → `none` -/
def opt (j : J) (k : String) (f : J → R α) : R (Option α) :=
  match j.get? k with
  | some J.null => pure none
  | some v => (some <$> f v).mapError (fun e => k ++ ": " ++ e)
  | none => pure none

def isObj : J → Bool | .obj _ => true | _ => false

def asId : J → R Id
  | .str s => pure s.toLower
  | _ => throw "expected uuid string"

def bounds : J → R Bounds
  | .str "EXTERIOR" => pure .exterior
  | .str "INTERIOR" => pure .interior
  | .str "GROUND" => pure .ground
  | .str "ADIABATIC" => pure .adiabatic
  | _ => throw "bad BoundaryType"

def spaceKind : J → R SpaceKind
  | .str "CONDITIONED" => pure .conditioned
  | .str "UNCONDITIONED" => pure .unconditioned
  | .str "UNINHABITED" => pure .uninhabited
  | _ => throw "bad SpaceType"

def tbKind : J → R TbKind
  | .str "ROOF" => pure .roof
  | .str "BALCONY" => pure .balcony
  | .str "CORNER" => pure .corner
  | .str "INTERMEDIATEFLOOR" => pure .intermediatefloor
  | .str "INTERNALWALL" => pure .internalwall
  | .str "GROUNDFLOOR" => pure .groundfloor
  | .str "PILLAR" => pure .pillar
  | .str "WINDOW" => pure .window
  | .str "GENERIC" => pure .generic
  | _ => throw "bad ThermalBridgeKind"

def p2 : J → R P2
  | .arr [a, b] => do pure { x := ← asRat a, y := ← asRat b }
  | _ => throw "expected [x,y]"

def p3 : J → R P3
  | .arr [a, b, c] => do pure { x := ← asRat a, y := ← asRat b, z := ← asRat c }
  | _ => throw "expected [x,y,z]"

def space (j : J) : R Space := do
  if !isObj j then throw "expected object"
  pure {
    id := ← req j "id" asId
    name := ← dflt j "name" "" asStr
    multiplier := ← dflt j "multiplier" 1 asRat
    kind := ← dflt j "kind" .conditioned spaceKind
    insideTenv := ← dflt j "inside_tenv" true asBool
    height := ← req j "height" asRat
    z := ← dflt j "z" 0 asRat
    loads := ← opt j "loads" asId
    thermostat := ← opt j "thermostat" asId
    nV := ← opt j "n_v" asRat
    illuminance := ← opt j "illuminance" asRat }

def wallGeom (j : J) : R WallGeom := do
  if !isObj j then throw "expected object"
  pure {
    tilt := ← req j "tilt" asRat
    azimuth := ← req j "azimuth" asRat
    position := ← opt j "position" p3
    polygon := ← dflt j "polygon" [] (asList p2) }

def wall (j : J) : R Wall := do
  if !isObj j then throw "expected object"
  pure {
    id := ← req j "id" asId
    name := ← dflt j "name" "" asStr
    bounds := ← req j "bounds" bounds
    cons := ← req j "cons" asId
    space := ← req j "space" asId
    nextTo := ← opt j "next_to" asId
    geometry := ← req j "geometry" wallGeom }

def shade (j : J) : R Shade := do
  if !isObj j then throw "expected object"
  pure {
    id := ← req j "id" asId
    name := ← dflt j "name" "" asStr
    geometry := ← req j "geometry" wallGeom }

def winGeom (j : J) : R WinGeom := do
  if !isObj j then throw "expected object"
  pure {
    position := ← opt j "position" p2
    height := ← req j "height" asRat
    width := ← req j "width" asRat
    setback := ← req j "setback" asRat }

def window (j : J) : R Window := do
  if !isObj j then throw "expected object"
  pure {
    id := ← req j "id" asId
    name := ← dflt j "name" "" asStr
    cons := ← req j "cons" asId
    wall := ← req j "wall" asId
    geometry := ← req j "geometry" winGeom }

def numSign : J → Bool
  | .num n _ _ => n
  | _ => false

def thermalBridge (j : J) : R ThermalBridge := do
  if !isObj j then throw "expected object"
  pure {
    id := ← req j "id" asId
    name := ← dflt j "name" "" asStr
    kind := ← dflt j "kind" .generic tbKind
    l := ← dflt j "l" 0 asRat
    lSign := (j.get? "l").elim false numSign
    psi := ← dflt j "psi" 0 asRat }

def layer (j : J) : R Layer := do
  if !isObj j then throw "expected object"
  pure { material := ← req j "material" asId, e := ← req j "e" asRat }

def wallCons (j : J) : R WallCons := do
  if !isObj j then throw "expected object"
  pure {
    id := ← req j "id" asId
    name := ← dflt j "name" "" asStr
    layers := ← dflt j "layers" [] (asList layer)
    absorptance := ← req j "absorptance" asRat }

def winCons (j : J) : R WinCons := do
  if !isObj j then throw "expected object"
  pure {
    id := ← req j "id" asId
    name := ← dflt j "name" "" asStr
    glass := ← req j "glass" asId
    frame := ← req j "frame" asId
    fF := ← req j "f_f" asRat
    deltaU := ← req j "delta_u" asRat
    gGlshwi := ← opt j "g_glshwi" asRat
    c100 := ← req j "c_100" asRat }

/-- `#[serde(untagged)]`: first variant whose required keys are all present and well typed -/
def matProps (j : J) : R MatProps :=
  let detailed : R MatProps := do
    pure (.detailed (← req j "conductivity" asRat) (← req j "density" asRat)
      (← req j "specific_heat" asRat) (← opt j "vapour_diff" asRat))
  match detailed with
  | .ok v => pure v
  | .error _ =>
    let res : R MatProps := do
      pure (.resistance (← req j "resistance" asRat) (← opt j "vapour_diff" asRat))
    match res with
    | .ok v => pure v
    | .error _ => throw "data did not match any variant of untagged enum MatProps"

def material (j : J) : R Material := do
  if !isObj j then throw "expected object"
  pure {
    id := ← req j "id" asId
    name := ← dflt j "name" "" asStr
    properties := ← matProps j }

def glass (j : J) : R Glass := do
  if !isObj j then throw "expected object"
  pure {
    id := ← req j "id" asId
    name := ← dflt j "name" "" asStr
    uValue := ← req j "u_value" asRat
    gGln := ← req j "g_gln" asRat }

def frame (j : J) : R Frame := do
  if !isObj j then throw "expected object"
  pure {
    id := ← req j "id" asId
    name := ← dflt j "name" "" asStr
    uValue := ← req j "u_value" asRat
    absorptivity := ← req j "absorptivity" asRat }

def consDb (j : J) : R ConsDb := do
  if !isObj j then throw "expected object"
  pure {
    wallcons := ← dflt j "wallcons" [] (asList wallCons)
    wincons := ← dflt j "wincons" [] (asList winCons)
    materials := ← dflt j "materials" [] (asList material)
    glasses := ← dflt j "glasses" [] (asList glass)
    frames := ← dflt j "frames" [] (asList frame) }

def idCount : J → R (Id × Nat)
  | .arr [a, b] => do pure (← asId a, ← asNat b)
  | _ => throw "expected [id,count]"

def schedule (j : J) : R Schedule := do
  if !isObj j then throw "expected object"
  pure {
    id := ← req j "id" asId
    name := ← dflt j "name" "" asStr
    values := ← dflt j "values" [] (asList idCount) }

def scheduleDay (j : J) : R ScheduleDay := do
  if !isObj j then throw "expected object"
  pure {
    id := ← req j "id" asId
    name := ← dflt j "name" "" asStr
    values := ← dflt j "values" [] (asList asRat) }

def schedulesDb (j : J) : R SchedulesDb := do
  if !isObj j then throw "expected object"
  pure {
    year := ← dflt j "year" [] (asList schedule)
    week := ← dflt j "week" [] (asList schedule)
    day := ← dflt j "day" [] (asList scheduleDay) }

def spaceLoads (j : J) : R SpaceLoads := do
  if !isObj j then throw "expected object"
  pure {
    id := ← req j "id" asId
    name := ← dflt j "name" "" asStr
    areaPerPerson := ← req j "area_per_person" asRat
    peopleSchedule := ← opt j "people_schedule" asId
    peopleSensible := ← req j "people_sensible" asRat
    peopleLatent := ← req j "people_latent" asRat
    equipment := ← req j "equipment" asRat
    equipmentSchedule := ← opt j "equipment_schedule" asId
    lighting := ← req j "lighting" asRat
    lightingSchedule := ← opt j "lighting_schedule" asId }

def thermostat (j : J) : R Thermostat := do
  if !isObj j then throw "expected object"
  pure {
    id := ← req j "id" asId
    name := ← dflt j "name" "" asStr
    tempMax := ← opt j "temp_max" asId
    tempMin := ← opt j "temp_min" asId }

def metaD (j : J) : R Meta := do
  if !isObj j then throw "expected object"
  pure {
    name := ← dflt j "name" "" asStr
    isNewBuilding := ← req j "is_new_building" asBool
    isDwelling := ← req j "is_dwelling" asBool
    numDwellings := ← req j "num_dwellings" asInt
    climate := ← req j "climate" asStr
    globalVentilation := ← opt j "global_ventilation_l_s" asRat
    n50Test := ← opt j "n50_test_ach" asRat
    dPerimInsulation := ← dflt j "d_perim_insulation" 0 asRat
    rnPerimInsulation := ← dflt j "rn_perim_insulation" 0 asRat }

def idMap (f : J → R α) : J → R (List (Id × α))
  | .obj kvs => kvs.mapM (fun (k, v) => do pure (k.toLower, ← f v))
  | _ => throw "expected map"

def wallOverride (j : J) : R (Option Rat) := do
  if !isObj j then throw "expected object"
  opt j "u_value" asRat

def winOverride (j : J) : R WinOverride := do
  if !isObj j then throw "expected object"
  pure { uValue := ← opt j "u_value" asRat, fShobst := ← opt j "f_shobst" asRat }

def overrides (j : J) : R Overrides := do
  if !isObj j then throw "expected object"
  pure {
    walls := ← dflt j "walls" [] (idMap wallOverride)
    windows := ← dflt j "windows" [] (idMap winOverride) }

/-- `Model` has struct-level `#[serde(default)]`: a missing `meta` is `Meta::default()` -/
def model (j : J) : R Model := do
  if !isObj j then throw "expected object"
  pure {
    info := ← dflt j "meta" Meta.dflt metaD
    spaces := ← dflt j "spaces" [] (asList space)
    walls := ← dflt j "walls" [] (asList wall)
    windows := ← dflt j "windows" [] (asList window)
    thermalBridges := ← dflt j "thermal_bridges" [] (asList thermalBridge)
    shades := ← dflt j "shades" [] (asList shade)
    cons := ← dflt j "cons" {} consDb
    schedules := ← dflt j "schedules" {} schedulesDb
    loads := ← dflt j "loads" [] (asList spaceLoads)
    thermostats := ← dflt j "thermostats" [] (asList thermostat)
    overrides := ← dflt j "overrides" {} overrides }

end Dec
end Cte
