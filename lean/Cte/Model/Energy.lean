/-
The indicator pipeline, code-shaped: `Space::{area,height_net,...}`, `WallCons::resistance`,
`Wall::u_value` (transmittance.rs), `EnergyProps::from` (props.rs, without schedules),
`KData`, `N50Data`, `QSolJulData`.
Same dispatch, guards, defaults and rounding points as the Rust; arithmetic exact over ℚ.
Divisions the code performs without a guard are recorded as `DivSite`s.
-/
import Cte.Model.Geometry
import Cte.Model.Classify
namespace Cte

/-! ### constants (transmittance.rs:26-33) -/
def RSI_ASC : Rat := 10 / 100
def RSI_HOR : Rat := 13 / 100
def RSI_DESC : Rat := 17 / 100
def RSE : Rat := 4 / 100
def LAMBDA_GND : Rat := 2
def LAMBDA_INS : Rat := 35 / 1000

/-! ### lookups (`iter().find`) -/
def Model.getSpace (m : Model) (id : Id) : Option Space := m.spaces.find? (·.id = id)
def ConsDb.getWallCons (c : ConsDb) (id : Id) : Option WallCons := c.wallcons.find? (·.id = id)
def ConsDb.getWinCons (c : ConsDb) (id : Id) : Option WinCons := c.wincons.find? (·.id = id)
def ConsDb.getMaterial (c : ConsDb) (id : Id) : Option Material := c.materials.find? (·.id = id)
def ConsDb.getGlass (c : ConsDb) (id : Id) : Option Glass := c.glasses.find? (·.id = id)
def ConsDb.getFrame (c : ConsDb) (id : Id) : Option Frame := c.frames.find? (·.id = id)

/-! ### constructions -/

/-- resistance of one layer: `none` when the material is missing or a detailed one has λ ≤ 0 -/
def layerResistance (db : ConsDb) (l : Layer) : Option Rat :=
  match db.getMaterial l.material with
  | none => none
  | some mat =>
    match mat.properties with
    | .detailed k _ _ _ => if k > 0 then some (l.e / k) else none
    | .resistance r _ => some r

/-- `WallCons::resistance(..).ok()` -/
def WallCons.resistance (c : WallCons) (db : ConsDb) : Option Rat :=
  c.layers.foldl (fun acc l => match acc, layerResistance db l with
    | some a, some r => some (a + r)
    | _, _ => none) (some 0)

/-- `WallCons::thickness` -/
def WallCons.thickness (F : Fns) (c : WallCons) : Rat := F.r3 (rsum (c.layers.map (·.e)))

/-- `WinCons::u_value` -/
def WinCons.uValueRaw (c : WinCons) (db : ConsDb) : Option Rat :=
  match db.getGlass c.glass, db.getFrame c.frame with
  | some g, some f => some ((1 + c.deltaU / 100) * (f.uValue * c.fF + g.uValue * (1 - c.fF)))
  | _, _ => none
def WinCons.uValue (F : Fns) (c : WinCons) (db : ConsDb) : Option Rat := (c.uValueRaw db).map F.r2

/-- `WinCons::g_glwi` -/
def WinCons.gGlwi (F : Fns) (c : WinCons) (db : ConsDb) : Option Rat :=
  (db.getGlass c.glass).map (fun g => F.r2 (g.gGln * (9 / 10)))
/-- `WinCons::g_glshwi` -/
def WinCons.gGlshwiV (F : Fns) (c : WinCons) (db : ConsDb) : Option Rat :=
  match c.gGlshwi with
  | some v => some (F.r2 v)
  | none => c.gGlwi F db

/-! ### spaces -/

/-- `Space::area`: Σ area of BOTTOM walls whose `space` is this one -/
def Space.area (s : Space) (walls : List Wall) : Rat :=
  rsum ((walls.filter (fun w => w.space = s.id && w.tiltC = .bottom)).map Wall.area)

/-- the wall `height_net` looks at: first TOP wall of the space or BOTTOM wall next to it -/
def Space.topWall (s : Space) (walls : List Wall) : Option Wall :=
  walls.find? (fun w => match w.tiltC with
    | .top => w.space = s.id
    | .bottom => w.nextTo = some s.id
    | .side => false)

/-- `Space::height_net` -/
def Space.heightNet (F : Fns) (s : Space) (walls : List Wall) (db : ConsDb) : Rat :=
  let th : Rat := match (s.topWall walls).bind (fun w => db.getWallCons w.cons) with
    | some c => c.thickness F
    | none => 0
  s.height - th

/-- `Space::walls` -/
def Space.wallsOf (s : Space) (walls : List Wall) : List Wall :=
  walls.filter (fun w => w.space = s.id || w.nextTo = some s.id)

/-- `Model::global_ventilation_rate` (energy/mod.rs): volume of habitable spaces inside the envelope -/
def Model.volEnvInhNetU (F : Fns) (m : Model) : Rat :=
  F.r2 (rsum ((m.spaces.filter (fun s => s.insideTenv && s.kind != .uninhabited)).map
    (fun s => s.area m.walls * s.heightNet F m.walls m.cons * s.multiplier)))

/-- result of an unguarded f32 division chain: value over ℚ plus a flag "a denominator was 0" -/
structure NV where
  v : Rat
  nf : Bool := false
  deriving Repr, Inhabited, DecidableEq

/-- ventilation rate used inside the U-value calculation; `inf` when the volume is 0 -/
inductive Vent | fin (r : Rat) | inf | nan
  deriving Repr, Inhabited, DecidableEq

def ventOf (n : Option Rat) (vol : Rat) : Vent :=
  match n with
  | none => .fin 0
  | some nvg => if vol = 0 then (if nvg = 0 then .nan else .inf) else .fin (36 / 10 * nvg / vol)

def Model.globalVentilationU (F : Fns) (m : Model) : Vent := ventOf m.info.globalVentilation (m.volEnvInhNetU F)

/-! ### U-values (transmittance.rs) -/

def rsiOf : TiltC → Rat
  | .bottom => RSI_DESC
  | .top => RSI_ASC
  | .side => RSI_HOR

/-- `Wall::u_value_exterior` (unrounded) -/
def uExteriorRaw (t : TiltC) (r : Rat) : Rat := 1 / (r + rsiOf t + RSE)
def Wall.uExterior (F : Fns) (w : Wall) (res : Option Rat) : Option Rat := res.map (fun r => F.r2 (uExteriorRaw w.tiltC r))

/-- `Space::slab_d_t`: area-weighted equivalent thickness over the ground slabs of the space -/
def Space.slabDt (s : Space) (walls : List Wall) (db : ConsDb) : Option NV :=
  let slabs := (s.wallsOf walls).filter (fun w => w.tiltC = .bottom && w.bounds = .ground)
  if slabs.isEmpty then none else
    let eTot := rsum (slabs.map (fun w =>
      let r := ((db.getWallCons w.cons).bind (fun c => c.resistance db)).getD 0
      w.area * (3 / 10 + LAMBDA_GND * (RSI_DESC + r + RSE))))
    let aTot := rsum (slabs.map Wall.area)
    some { v := eTot / aTot, nf := aTot = 0 }

/-- `Space::slab_psi_gnd_ext` -/
def slabPsi (F : Fns) (m : Model) (dt : Rat) : NV :=
  let d1 := m.info.rnPerimInsulation * (LAMBDA_GND - LAMBDA_INS)
  let D := m.info.dPerimInsulation
  { v := F.r3 (-LAMBDA_GND / F.pi * (F.ln (1 + D / dt) - F.ln (1 + D / (dt + d1)))),
    nf := dt = 0 || dt + d1 = 0 || 1 + D / dt ≤ 0 || 1 + D / (dt + d1) ≤ 0 }

/-- exposed share of the side walls of a space, as accumulated in `slab_char_dim` -/
def sideAreas (s : Space) (spaces : List Space) (sw : List Wall) : Rat × Rat :=
  (sw.filter (fun w => w.tiltC = .side)).foldl (fun (acc : Rat × Rat) w =>
    let a := w.area
    let ext : Rat := match w.bounds with
      | .exterior | .ground => a
      | .interior =>
        match w.nextTo.bind (fun n => spaces.find? (·.id = n)) with
        | some nx => if s.kind = .conditioned && nx.kind != .conditioned then a else 0
        | none => 0
      | .adiabatic => 0
    (acc.1 + a, acc.2 + ext)) (0, 0)

/-- `Space::slab_char_dim` -/
def Space.slabCharDim (F : Fns) (s : Space) (walls : List Wall) (spaces : List Space) : Option Rat :=
  let sw := s.wallsOf walls
  let floors := sw.filter (fun w => w.space = s.id && w.tiltC = .bottom && w.bounds = .ground)
  match floors with
  | [] => none
  | g :: _ =>
    let gA := g.area
    if gA < 1 / 1000 then some 0 else
      let (tot, ext) := sideAreas s spaces sw
      let p : Rat := if tot < 1 / 1000 then 0 else F.r2 (polyPerimeter F g.geometry.polygon * ext / tot)
      let gP := rmax p (1 / 100)
      some (F.r2 (gA / (1 / 2 * gP)))

/-- `u_value_gnd_slab` -/
def uGndSlab (F : Fns) (z dt charDim psi : Rat) : NV :=
  let B := dt + z / 2
  let ubf : Rat :=
    if B < charDim then (2 * LAMBDA_GND / (F.pi * charDim + B)) * F.ln (1 + F.pi * charDim / B)
    else LAMBDA_GND / (457 / 1000 * charDim + B)
  { v := F.r2 (ubf + (if charDim > 0 then 2 * psi / charDim else 0)),
    nf := (B < charDim && (B = 0 || F.pi * charDim + B = 0)) ||
          (¬ B < charDim && 457 / 1000 * charDim + B = 0) }

/-- `u_value_gnd_wall` -/
def uGndWall (F : Fns) (z uw dt hNet : Rat) : NV :=
  if rabs z < 1 / 100 then { v := uw } else
    let dw := LAMBDA_GND / uw
    let dt' := rmin dw dt
    let ubw := F.r2 ((2 * LAMBDA_GND / (F.pi * z)) * (1 + (1 / 2) * dt' / (dt' + z)) * F.ln (z / dw + 1))
    let h : Rat := if hNet > z then hNet - z else 0
    if rabs h < f32Eps then { v := ubw, nf := uw = 0 || dt' + z = 0 }
    else { v := F.r2 ((z * ubw + h * uw) / hNet), nf := uw = 0 || dt' + z = 0 || hNet = 0 }

/-- U of a wall whose boundary is not INTERIOR (`ADIABATIC | EXTERIOR | GROUND` arms) -/
def Wall.uNonInterior (F : Fns) (w : Wall) (m : Model) : Option NV :=
  match m.cons.getWallCons w.cons with
  | none => none
  | some c =>
    let res := c.resistance m.cons
    match w.bounds with
    | .adiabatic | .exterior | .interior => (w.uExterior F res).map (fun u => { v := u })
    | .ground =>
      match w.uExterior F res, m.getSpace w.space with
      | some uw, some sp =>
        match sp.slabDt m.walls m.cons with
        | none => none
        | some dt =>
          let psi := slabPsi F m dt.v
          let cd := (sp.slabCharDim F m.walls m.spaces).getD 0
          let hNet := sp.heightNet F m.walls m.cons
          let z := rmax (-sp.z) 0
          match w.tiltC with
          | .top => some { v := uw }
          | .bottom =>
            let r := uGndSlab F z dt.v cd psi.v
            some { v := r.v, nf := r.nf || dt.nf || psi.nf }
          | .side =>
            let r := uGndWall F z uw dt.v hNet
            some { v := r.v, nf := r.nf || (dt.nf && ¬ rabs z < 1 / 100) }
      | _, _ => none

/-- `Space::ua_of_external_and_ground_surfaces` -/
def Space.uaExt (F : Fns) (s : Space) (m : Model) : NV :=
  let ws := (s.wallsOf m.walls).filter (fun w => w.bounds = .ground || w.bounds = .exterior)
  ws.foldl (fun (acc : NV) w =>
    match w.uNonInterior F m with
    | none => acc
    | some u =>
      let winAxU := rsum ((m.windows.filter (fun x => x.wall = w.id)).filterMap (fun win =>
        match (m.cons.getWinCons win.cons).bind (fun c => c.uValue F m.cons) with
        | some uu => some (win.area * uu)
        | none => none))
      { v := acc.v + (w.areaNet F m.windows * u.v + winAxU), nf := acc.nf || u.nf }) { v := 0 }

/-- surface resistance pair of a partition by heat-flow direction (the code's table) -/
def partitionRsi (thisCond nextCond : Bool) (t : TiltC) : Rat :=
  match thisCond, nextCond, t with
  | true, false, .bottom | false, true, .top => RSI_DESC
  | true, false, .top | false, true, .bottom => RSI_ASC
  | _, _, _ => RSI_HOR

/-- `u_value_interior_cond_uncond` with the IEEE behaviour of its two divisions spelled out:
`H = 0` gives `R_u = +inf` hence `U = 0` (or NaN when `A_i = 0` too); `q = inf` gives `R_u = 0` -/
def uCondUncond (F : Fns) (ai rf ua : Rat) (vol : Rat) (nv : Vent) : NV :=
  match nv with
  | .nan => { v := 0, nf := true }
  | .inf =>
    if vol = 0 then { v := 0, nf := true }
    else if vol > 0 then { v := F.r2 (1 / rf), nf := rf = 0 }
    else { v := 0, nf := true }      -- −inf ventilation loss: not a physical input
  | .fin n =>
    let h := ua + 33 / 100 * (vol * n)
    if h = 0 then (if ai = 0 then { v := 0, nf := true } else { v := 0 })
    else { v := F.r2 (1 / (rf + ai / h)), nf := rf + ai / h = 0 }

/-- `Wall::u_value` -/
def Wall.uValue (F : Fns) (w : Wall) (m : Model) : Option NV :=
  match w.bounds with
  | .adiabatic | .exterior | .ground => w.uNonInterior F m
  | .interior =>
    match m.cons.getWallCons w.cons with
    | none => none
    | some c =>
      let res := c.resistance m.cons
      match m.getSpace w.space with
      | none => none
      | some sp =>
        let t := w.tiltC
        match w.nextTo with
        | none => res.map (fun r => { v := F.r2 (1 / (r + 2 * rsiOf t)), nf := r + 2 * rsiOf t = 0 })
        | some nid =>
          match m.getSpace nid with
          | none => none
          | some nx =>
            let tc : Bool := decide (sp.kind = .conditioned)
            let nc : Bool := decide (nx.kind = .conditioned)
            match res with
            | none => none
            | some r =>
              let rf := r + 2 * partitionRsi tc nc t
              if tc = nc then some { v := F.r2 (1 / rf), nf := rf = 0 }
              else
                let un := if tc then nx else sp
                let ua := un.uaExt F m
                let vol := un.area m.walls * un.heightNet F m.walls m.cons
                let nv : Vent := match un.nV with
                  | some n => .fin n
                  | none => m.globalVentilationU F
                let r := uCondUncond F w.area rf ua.v vol nv
                some { v := r.v, nf := r.nf || ua.nf }

/-! ### envelope membership, props (props.rs) -/

/-- `tenv_wall_ids` rule -/
def Wall.isTenv (w : Wall) (m : Model) : Bool :=
  let thisIn := ((m.getSpace w.space).map (·.insideTenv)).getD false
  let nextIn := ((w.nextTo.bind m.getSpace).map (·.insideTenv)).getD false
  match w.bounds with
  | .exterior | .ground | .adiabatic => thisIn
  | .interior => thisIn != nextIn

/-- a `BTreeMap<Uuid, _>` built by inserting a list in order: the last entry of an id wins.
Order is irrelevant for the sums taken over it. -/
def lastById {α} (id : α → Id) (l : List α) : List α :=
  let rec go : List α → List α
    | [] => []
    | x :: t => if t.any (fun y => id y = id x) then go t else x :: go t
  go l

/-- `tenv_wall_ids.contains(&w.id)`: some wall with this id passes the rule -/
def Model.tenvHas (m : Model) (wid : Id) : Bool := m.walls.any (fun w => w.id = wid && w.isTenv m)

structure WallP where
  id : Id
  bounds : Bounds
  tilt : TiltC
  orient : Orient
  areaGross : Rat
  areaNet : Rat
  multiplier : Rat
  isTenv : Bool
  u : Option NV
  uOverride : Option Rat
  deriving Repr, Inhabited

/-- multiplier of a wall: that of its space in `props.spaces` (last space with that id), else 1 -/
def Model.wallMultiplier (m : Model) (w : Wall) : Rat :=
  (((lastById (·.id) m.spaces).find? (·.id = w.space)).map (·.multiplier)).getD 1

def Model.wallOverride (m : Model) (wid : Id) : Option Rat :=
  ((m.overrides.walls.find? (·.1 = wid)).bind (·.2))

def Model.wallProps (F : Fns) (m : Model) : List WallP :=
  (lastById (·.id) m.walls).map (fun w =>
    { id := w.id, bounds := w.bounds, tilt := w.tiltC, orient := w.orient, areaGross := w.area,
      areaNet := w.areaNet F m.windows, multiplier := m.wallMultiplier w, isTenv := m.tenvHas w.id,
      u := w.uValue F m, uOverride := m.wallOverride w.id })

structure WinConsP where
  id : Id
  c100 : Rat
  u : Option Rat
  gGlwi : Rat
  gGlshwi : Rat
  fF : Rat
  deriving Repr, Inhabited

def Model.winConsProps (F : Fns) (m : Model) : List WinConsP :=
  (lastById (·.id) m.cons.wincons).map (fun c =>
    let g := (c.gGlwi F m.cons).getD (77 / 100)
    { id := c.id, c100 := c.c100, u := c.uValue F m.cons, gGlwi := g,
      gGlshwi := (c.gGlshwiV F m.cons).getD g, fF := c.fF })

structure WinP where
  id : Id
  wall : Id
  cons : Id
  orient : Orient
  tilt : TiltC
  area : Rat
  multiplier : Rat
  bounds : Bounds
  isTenv : Bool
  u : Option Rat
  uOverride : Option Rat
  fShobst : Option Rat
  fShobstOverride : Option Rat
  deriving Repr, Inhabited

/-- `fsh`: the computed obstruction factors (from C12's model or, in the correspondence check of
C08–C10, taken from the implementation) -/
def Model.winProps (F : Fns) (m : Model) (fsh : Id → Option Rat) : List WinP :=
  let wp := m.wallProps F
  let wc := m.winConsProps F
  (lastById (·.id) m.windows).map (fun w =>
    let wall := wp.find? (·.id = w.wall)
    let ov := (m.overrides.windows.find? (·.1 = w.id)).map (·.2)
    { id := w.id, wall := w.wall, cons := w.cons,
      orient := (wall.map (·.orient)).getD .s,
      tilt := (wall.map (·.tilt)).getD .side,
      area := w.area,
      multiplier := (wall.map (·.multiplier)).getD 1,
      bounds := (wall.map (·.bounds)).getD .exterior,
      isTenv := m.tenvHas w.wall,
      u := (wc.find? (·.id = w.cons)).bind (·.u),
      uOverride := ov.bind (·.uValue),
      fShobst := fsh w.id,
      fShobstOverride := ov.bind (·.fShobst) })

structure SpaceP where
  id : Id
  kind : SpaceKind
  insideTenv : Bool
  area : Rat
  multiplier : Rat
  height : Rat
  heightNet : Rat
  deriving Repr, Inhabited

def Model.spaceProps (F : Fns) (m : Model) : List SpaceP :=
  (lastById (·.id) m.spaces).map (fun s =>
    { id := s.id, kind := s.kind, insideTenv := s.insideTenv, area := s.area m.walls,
      multiplier := s.multiplier, height := s.height, heightNet := s.heightNet F m.walls m.cons })

structure GlobalP where
  aRef : Rat
  aRefRaw : Rat
  volEnvGross : Rat
  volEnvGrossRaw : Rat
  volEnvNet : Rat
  volEnvNetRaw : Rat
  /-- the volume props.rs divides the ventilation flow by (as written in the code) -/
  volEnvInhNet : Rat
  exposedArea : Rat
  compactness : Rat
  ventilation : Vent
  cO100 : Rat
  deriving Repr, Inhabited

def Model.globalProps (F : Fns) (m : Model) : GlobalP :=
  let sp := m.spaceProps F
  let aRefRaw := rsum (sp.map (fun s => if s.insideTenv && s.kind != .uninhabited then s.area * s.multiplier else 0))
  let vgRaw := rsum (sp.map (fun s => if s.insideTenv then s.area * s.height * s.multiplier else 0))
  let vnRaw := rsum (sp.map (fun s => if s.insideTenv then s.area * s.heightNet * s.multiplier else 0))
  let vinh := F.r2 (rsum (sp.map (fun s =>
    if s.insideTenv && s.kind != .uninhabited then s.area * s.heightNet * s.multiplier else 0)))
  let exposed := rsum (((m.wallProps F).filter (fun w => w.isTenv && (w.bounds = .exterior || w.bounds = .ground))).map
    (fun w => w.areaGross * w.multiplier))
  let vg := F.r2 vgRaw
  { aRef := F.r2 aRefRaw, aRefRaw := aRefRaw, volEnvGross := vg, volEnvGrossRaw := vgRaw,
    volEnvNet := F.r2 vnRaw, volEnvNetRaw := vnRaw, volEnvInhNet := vinh, exposedArea := exposed,
    compactness := if exposed = 0 then 0 else vg / exposed,
    ventilation := ventOf m.info.globalVentilation vinh,
    cO100 := if m.info.isNewBuilding then 16 else 29 }

/-! ### K (indicators/k.rs) -/

structure KElem where
  a : Rat := 0
  au : Rat := 0
  uMax : Option Rat := none
  uMin : Option Rat := none
  uMean : Option Rat := none
  deriving Repr, Inhabited

def KElem.add (e : KElem) (area u : Rat) : KElem :=
  { e with a := e.a + area, au := e.au + area * u,
           uMax := some (match e.uMax with | some v => rmax v u | none => u),
           uMin := some (match e.uMin with | some v => rmin v u | none => u) }

def KElem.withMean (e : KElem) : KElem :=
  if e.a > 1 / 1000 then { e with uMean := some (e.au / e.a) } else e

structure KData where
  k : Rat
  a : Rat
  au : Rat
  opaquesA : Rat
  opaquesAu : Rat
  windowsA : Rat
  windowsAu : Rat
  tbsL : Rat
  tbsPsil : Rat
  walls : KElem
  roofs : KElem
  floors : KElem
  ground : KElem
  windows : KElem
  tbs : List (TbKind × Rat × Rat)     -- per kind: (l, psi·l)
  deriving Repr, Inhabited

def U_DEFAULT : Rat := 57 / 10

def allTbKinds : List TbKind :=
  [.roof, .balcony, .corner, .intermediatefloor, .internalwall, .groundfloor, .pillar, .window, .generic]

structure KAcc where
  walls : KElem := {}
  roofs : KElem := {}
  floors : KElem := {}
  ground : KElem := {}
  windows : KElem := {}
  deriving Repr, Inhabited

def kStep (wins : List WinP) (acc : KAcc) (w : WallP) : KAcc :=
  let acc1 : KAcc := (wins.filter (fun x => x.wall = w.id)).foldl (fun (a : KAcc) win =>
    let u := (win.uOverride.orElse (fun _ => win.u)).getD U_DEFAULT
    { a with windows := a.windows.add (w.multiplier * win.area) u }) acc
  let wu := (w.uOverride.orElse (fun _ => w.u.map (·.v))).getD U_DEFAULT
  let area := w.multiplier * w.areaNet
  match w.bounds, w.tilt with
  | .ground, _ => { acc1 with ground := acc1.ground.add area wu }
  | _, .top => { acc1 with roofs := acc1.roofs.add area wu }
  | _, .bottom => { acc1 with floors := acc1.floors.add area wu }
  | _, .side => { acc1 with walls := acc1.walls.add area wu }

/-- the loop's filter: `w.is_tenv && (w.bounds == EXTERIOR || w.bounds == GROUND)` -/
def WallP.inKScope (w : WallP) : Bool := w.isTenv && (w.bounds = .exterior || w.bounds = .ground)

def kData (walls : List WallP) (wins : List WinP) (tbs : List ThermalBridge) : KData :=
  let scope := walls.filter WallP.inKScope
  let acc := scope.foldl (kStep wins) {}
  let tbsK := allTbKinds.map (fun k =>
    let sel := tbs.filter (fun tb => tb.kind = k && ¬ tb.l < 0)
    (k, rsum (sel.map (·.l)), rsum (sel.map (fun tb => tb.psi * tb.l))))
  let opaquesA := acc.roofs.a + acc.floors.a + acc.walls.a + acc.ground.a
  let opaquesAu := acc.roofs.au + acc.floors.au + acc.walls.au + acc.ground.au
  let tbsL := rsum (tbsK.map (·.2.1))
  let tbsPsil := rsum (tbsK.map (·.2.2))
  let a := opaquesA + acc.windows.a
  let au := opaquesAu + acc.windows.au + tbsPsil
  { k := if a < 1 / 100 then 0 else au / a, a := a, au := au, opaquesA := opaquesA, opaquesAu := opaquesAu,
    windowsA := acc.windows.a, windowsAu := acc.windows.au, tbsL := tbsL, tbsPsil := tbsPsil,
    walls := acc.walls.withMean, roofs := acc.roofs.withMean, floors := acc.floors.withMean,
    ground := acc.ground.withMean, windows := acc.windows.withMean, tbs := tbsK }

/-! ### n50 (indicators/n50.rs) -/

structure N50Data where
  n50 : Rat
  n50Ref : Rat
  wallsA : Rat
  wallsCRef : Rat
  wallsCARef : Rat
  wallsC : Rat
  wallsCA : Rat
  windowsA : Rat
  windowsC : Rat
  windowsCA : Rat
  vol : Rat
  deriving Repr, Inhabited

def C100_DEFAULT : Rat := 100

/-- the n50 loop's filter: `w.is_tenv && w.bounds == EXTERIOR` -/
def WallP.inN50Scope (w : WallP) : Bool := w.isTenv && w.bounds = .exterior
/-- windows of a wall in `props.windows` -/
def winsOfWall (wins : List WinP) (w : WallP) : List WinP := wins.filter (fun x => x.wall = w.id)
/-- C_100 of a window: that of its construction, 100 when it has none -/
def winC100 (wc : List WinConsP) (x : WinP) : Rat := ((wc.find? (·.id = x.cons)).map (·.c100)).getD C100_DEFAULT

def n50Data (walls : List WallP) (wins : List WinP) (wc : List WinConsP) (vol cO : Rat)
    (test : Option Rat) : N50Data :=
  let scope := walls.filter WallP.inN50Scope
  let wallsA := rsum (scope.map (fun w => w.areaNet * w.multiplier))
  let windowsA := rsum (scope.map (fun w => rsum ((winsOfWall wins w).map (·.area)) * w.multiplier))
  let windowsCA := rsum (scope.map (fun w =>
    rsum ((winsOfWall wins w).map (fun x => x.area * winC100 wc x)) * w.multiplier))
  let windowsC : Rat := if windowsA > 1 / 1000 then windowsCA / windowsA else 0
  let wallsCARef := wallsA * cO
  let n50Ref : Rat := if vol > 1 / 1000 then 629 / 1000 * (wallsCARef + windowsCA) / vol else 0
  match test with
  | some t =>
    if wallsA > 1 / 1000 then
      let c := ((t * vol) / (629 / 1000) - windowsCA) / wallsA
      { n50 := t, n50Ref := n50Ref, wallsA := wallsA, wallsCRef := cO, wallsCARef := wallsCARef,
        wallsC := c, wallsCA := wallsA * c, windowsA := windowsA, windowsC := windowsC,
        windowsCA := windowsCA, vol := vol }
    else
      { n50 := t, n50Ref := n50Ref, wallsA := wallsA, wallsCRef := cO, wallsCARef := wallsCARef,
        wallsC := cO, wallsCA := wallsCARef, windowsA := windowsA, windowsC := windowsC,
        windowsCA := windowsCA, vol := vol }
  | none =>
    { n50 := n50Ref, n50Ref := n50Ref, wallsA := wallsA, wallsCRef := cO, wallsCARef := wallsCARef,
      wallsC := cO, wallsCA := wallsCARef, windowsA := windowsA, windowsC := windowsC,
      windowsCA := windowsCA, vol := vol }

/-! ### q_sol;jul (indicators/qsoljul.rs) -/

structure QDetail where
  orient : Orient
  gains : Rat
  a : Rat
  irradiance : Rat
  fFSum : Rat
  gSum : Rat
  fshSum : Rat
  deriving Repr, Inhabited

def QDetail.fFMean (d : QDetail) : Rat := if d.a > 0 then d.fFSum / d.a else d.fFSum
def QDetail.gMean (d : QDetail) : Rat := if d.a > 0 then d.gSum / d.a else d.gSum
def QDetail.fshMean (d : QDetail) : Rat := if d.a > 0 then d.fshSum / d.a else d.fshSum

structure QSolJul where
  qSum : Rat            -- Q_soljul
  aRef : Rat
  /-- q_sol;jul = Q_soljul / A_ref (0 when there is no reference area) -/
  q : Rat
  aWp : Rat
  irrSum : Rat
  fshSum : Rat
  gSum : Rat
  fFSum : Rat
  /-- the reported area-weighted means (left at 0 when there is no window in scope) -/
  irrMean : Rat
  fshMean : Rat
  gMean : Rat
  fFMean : Rat
  detail : List QDetail
  /-- an orientation whose irradiance is missing from the table (`unwrap` panics) -/
  missingRad : Bool
  deriving Repr, Inhabited

/-- `if a > 0.0 { s / a } else { s }`: the guarded division of the accumulated sums -/
def guardedMean (s a : Rat) : Rat := if a > 0 then s / a else s

structure QTerm where
  orient : Orient
  area : Rat
  g : Rat
  fF : Rat
  fsh : Rat
  rad : Rat
  deriving Repr, Inhabited

def G_DEFAULT : Rat := 77 / 100
def FF_DEFAULT : Rat := 20 / 100

def qTerms (wins : List WinP) (wc : List WinConsP) (rad : Orient → Option Rat) : List (Option QTerm) :=
  (wins.filter (fun w => w.isTenv && (w.bounds = .exterior || w.bounds = .ground))).map (fun w =>
    match rad w.orient with
    | none => none
    | some r =>
      let (g, ff) := match wc.find? (·.id = w.cons) with
        | some c => (c.gGlshwi, c.fF)
        | none => (G_DEFAULT, FF_DEFAULT)
      some { orient := w.orient, area := w.area * w.multiplier, g := g, fF := ff,
             fsh := (w.fShobstOverride.orElse (fun _ => w.fShobst)).getD 1, rad := r })

def QTerm.gains (t : QTerm) : Rat := t.fsh * t.g * (1 - t.fF) * t.area * t.rad

def allOrients : List Orient := [.n, .ne, .e, .se, .s, .sw, .w, .nw, .hz]

def qSolJul (wins : List WinP) (wc : List WinConsP) (rad : Orient → Option Rat) (aRef : Rat) : QSolJul :=
  let ts := qTerms wins wc rad
  let ok := ts.filterMap id
  let detail := allOrients.filterMap (fun o =>
    let sel := ok.filter (fun t => t.orient = o)
    match sel with
    | [] => none
    | t0 :: _ => some { orient := o, gains := rsum (sel.map QTerm.gains), a := rsum (sel.map (·.area)),
                        irradiance := t0.rad, fFSum := rsum (sel.map (fun t => t.fF * t.area)),
                        gSum := rsum (sel.map (fun t => t.g * t.area)),
                        fshSum := rsum (sel.map (fun t => t.fsh * t.area)) })
  let qSum := rsum (ok.map QTerm.gains)
  let aWp := rsum (ok.map (·.area))
  let irrSum := rsum (ok.map (fun t => t.rad * t.area))
  let fshSum := rsum (ok.map (fun t => t.fsh * t.area))
  let gSum := rsum (ok.map (fun t => t.g * t.area))
  let fFSum := rsum (ok.map (fun t => t.fF * t.area))
  { qSum := qSum, aRef := aRef, q := if aRef > 0 then qSum / aRef else 0, aWp := aWp,
    irrSum := irrSum, fshSum := fshSum, gSum := gSum, fFSum := fFSum,
    irrMean := guardedMean irrSum aWp, fshMean := guardedMean fshSum aWp, gMean := guardedMean gSum aWp,
    fFMean := guardedMean fFSum aWp, detail := detail, missingRad := ts.any Option.isNone }

end Cte
