/-
`bemodel::purge_unused` (bemodel/src/purge.rs): the ten retain steps in the code's order.
-/
import Cte.Model.Types
namespace Cte

def purgeSpaces (m : Model) : Model :=
  let used : List Id := m.walls.flatMap (fun w => w.space :: w.nextTo.toList)
  { m with spaces := m.spaces.filter (fun s => used.contains s.id) }

def purgePts (m : Model) : Model :=
  { m with thermalBridges := m.thermalBridges.filter (fun tb => decide (rabs tb.l > f32Eps)) }

def purgeWallcons (m : Model) : Model :=
  let used : List Id := m.walls.map (·.cons)
  { m with cons := { m.cons with wallcons := m.cons.wallcons.filter (fun c => used.contains c.id) } }

def purgeWincons (m : Model) : Model :=
  let used : List Id := m.windows.map (·.cons)
  { m with cons := { m.cons with wincons := m.cons.wincons.filter (fun c => used.contains c.id) } }

def purgeMaterials (m : Model) : Model :=
  let used : List Id := m.cons.wallcons.flatMap (fun c => c.layers.map (·.material))
  { m with cons := { m.cons with materials := m.cons.materials.filter (fun c => used.contains c.id) } }

def purgeGlasses (m : Model) : Model :=
  let used : List Id := m.cons.wincons.map (·.glass)
  { m with cons := { m.cons with glasses := m.cons.glasses.filter (fun c => used.contains c.id) } }

def purgeFrames (m : Model) : Model :=
  let used : List Id := m.cons.wincons.map (·.frame)
  { m with cons := { m.cons with frames := m.cons.frames.filter (fun c => used.contains c.id) } }

def purgeLoads (m : Model) : Model :=
  let used : List Id := m.spaces.filterMap (·.loads)
  { m with loads := m.loads.filter (fun c => used.contains c.id) }

def purgeThermostats (m : Model) : Model :=
  let used : List Id := m.spaces.filterMap (·.thermostat)
  { m with thermostats := m.thermostats.filter (fun c => used.contains c.id) }

def yearUsed (loads : List SpaceLoads) (thermostats : List Thermostat) : List Id :=
  loads.flatMap (fun v => v.peopleSchedule.toList ++ v.equipmentSchedule.toList ++ v.lightingSchedule.toList)
  ++ thermostats.flatMap (fun v => v.tempMax.toList ++ v.tempMin.toList)

def purgeSchedules (m : Model) : Model :=
  let yUsed := yearUsed m.loads m.thermostats
  let year := m.schedules.year.filter (fun s => yUsed.contains s.id)
  let wUsed : List Id := year.flatMap (fun s => s.values.map (·.1))
  let week := m.schedules.week.filter (fun s => wUsed.contains s.id)
  let dUsed : List Id := week.flatMap (fun s => s.values.map (·.1))
  let day := m.schedules.day.filter (fun s => dUsed.contains s.id)
  { m with schedules := { year := year, week := week, day := day } }

def purge (m : Model) : Model :=
  purgeSchedules <| purgeThermostats <| purgeLoads <| purgeFrames <| purgeGlasses <|
  purgeMaterials <| purgeWincons <| purgeWallcons <| purgePts <| purgeSpaces m

end Cte
