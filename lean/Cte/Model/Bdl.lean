/-
  C18 — the BDL block parser (hulc/src/bdl/blocks.rs, hulc/src/bdl/common.rs) as total functions on `List Char`.
  Code-shaped: each definition names the Rust function it follows.  The block-type table, the parent classes,
  the line filters and the preamble markers come from `Cte/Gen/BlockTypes.lean`, regenerated from the source.
-/
import Cte.Gen.BlockTypes

namespace Cte.Bdl

abbrev Str := List Char

/-- Rust `char::is_whitespace` (Unicode White_Space) -/
def isWs (c : Char) : Bool :=
  let n := c.toNat
  (9 ≤ n && n ≤ 13) || n == 32 || n == 0x85 || n == 0xA0 || n == 0x1680 || (0x2000 ≤ n && n ≤ 0x200A) ||
  n == 0x2028 || n == 0x2029 || n == 0x202F || n == 0x205F || n == 0x3000

def trimL (s : Str) : Str := s.dropWhile isWs
def trimR (s : Str) : Str := (s.reverse.dropWhile isWs).reverse
/-- `str::trim` -/
def trim (s : Str) : Str := trimR (trimL s)

/-- `str::trim_matches(c)` -/
def trimMatches (c : Char) (s : Str) : Str :=
  ((s.dropWhile (· == c)).reverse.dropWhile (· == c)).reverse

def startsWith (p s : Str) : Bool := p.isPrefixOf s
def endsWith (p s : Str) : Bool := p.reverse.isPrefixOf s.reverse

/-- `str::replace("\r\n", "\n")` -/
def replaceCrLf : Str → Str
  | '\r' :: '\n' :: t => '\n' :: replaceCrLf t
  | c :: t => c :: replaceCrLf t
  | [] => []

/-- pieces between newlines; never empty (`"" ↦ [""]`) -/
def splitNl : Str → List Str
  | [] => [[]]
  | c :: t =>
    if c = '\n' then [] :: splitNl t
    else match splitNl t with
      | h :: r => (c :: h) :: r
      | [] => [[c]]

def stripCr (l : Str) : Str :=
  match l.reverse with
  | '\r' :: r => r.reverse
  | _ => l

/-- `str::lines`: split at `\n`, a `\r` just before the `\n` goes too; no empty last line -/
def linesOf (s : Str) : List Str :=
  let ps := splitNl s
  let body := ps.dropLast.map stripCr
  match ps.getLast? with
  | some [] => body
  | some l => body ++ [l]
  | none => body

def joinWith (sep : Str) : List Str → Str
  | [] => []
  | [a] => a
  | a :: t => a ++ sep ++ joinWith sep t

/-- `clean_lines`: the line filter -/
def keepLine (l : Str) : Bool :=
  !l.isEmpty && !(Gen.droppedLinePrefixes.any (fun p => startsWith p.toList l)) &&
  !(Gen.droppedLines.any (fun p => p.toList == l))

/-- `clean_lines` -/
def cleanLines (input : Str) : Str :=
  joinWith ['\n'] (((linesOf ((replaceCrLf input).filter (· != 'ÿ'))).map trim).filter keepLine)

/-- `str::find(pat)` then `split_at`: text before the first occurrence, and from it on -/
def splitAtSub (pat : Str) : Str → Option (Str × Str)
  | [] => if pat.isEmpty then some ([], []) else none
  | c :: t =>
    if startsWith pat (c :: t) then some ([], c :: t)
    else (splitAtSub pat t).map (fun p => (c :: p.1, p.2))

/-- `sanitize_lider_data` -/
def sanitize (input : Str) : Str :=
  let clean := cleanLines input
  match Gen.preambleMarkers.findSome? (fun m => splitAtSub m.toList clean) with
  | some (lider, bdl) => "\"PARTELIDER\" = PARTELIDER\n".toList ++ lider ++ "\n..\n".toList ++ bdl
  | none => clean

/-- `str::split("..")`: leftmost, non-overlapping -/
def splitDots : Str → List Str
  | '.' :: '.' :: t => [] :: splitDots t
  | c :: t =>
    match splitDots t with
    | h :: r => (c :: h) :: r
    | [] => [[c]]
  | [] => [[]]

/-- `splitn(2, c)`: `none` when `c` does not occur -/
def splitFirst (c : Char) : Str → Option (Str × Str)
  | [] => none
  | x :: t => if x = c then some ([], t) else (splitFirst c t).map (fun p => (x :: p.1, p.2))

/-! ### numbers: `str::parse::<f32>()` as a recogniser that keeps the written decimal -/

inductive Num where
  | fin (neg : Bool) (mant : Nat) (exp : Int)   -- (-1)^neg * mant * 10^exp
  | inf (neg : Bool)
  | nan
  deriving DecidableEq, Repr

def isDigit (c : Char) : Bool := decide ('0' ≤ c ∧ c ≤ '9')
def digitVal (c : Char) : Nat := c.toNat - '0'.toNat
def digitsVal : Nat → Str → Nat
  | acc, [] => acc
  | acc, c :: t => digitsVal (acc * 10 + digitVal c) t

def lower (s : Str) : Str := s.map Char.toLower

/-- an optional sign: is it `-`, and the rest -/
def stripSign : Str → Bool × Str
  | '-' :: r => (true, r)
  | '+' :: r => (false, r)
  | r => (false, r)

/-- the digits after a decimal point, if there is one, and what follows -/
def fracPart : Str → Str × Str
  | '.' :: t => (t.takeWhile isDigit, t.dropWhile isDigit)
  | t => ([], t)

/-- exponent part after `e`/`E`: optional sign, one or more digits, nothing else -/
def parseExp (s : Str) : Option Int :=
  let neg := (stripSign s).1
  let ds := (stripSign s).2
  if ds.isEmpty || !ds.all isDigit then none
  else some (if neg then -(digitsVal 0 ds : Int) else (digitsVal 0 ds : Int))

/-- special values, case-insensitive, after the sign -/
def parseSpecial (neg : Bool) (r : Str) : Option Num :=
  if r.isEmpty then none
  else if lower r == "nan".toList then some Num.nan
  else if lower r == "inf".toList || lower r == "infinity".toList then some (Num.inf neg)
  else none

/-- Rust's decimal float grammar (`core::num::dec2flt`): `[+-] (digits [. digits] | . digits) [(e|E) [+-] digits]`,
    at least one mantissa digit; or, case-insensitively, `inf`, `infinity`, `nan` after the sign -/
def parseF32 (s : Str) : Option Num :=
  let neg := (stripSign s).1
  let r := (stripSign s).2
  let ip := r.takeWhile isDigit
  let fp := (fracPart (r.dropWhile isDigit)).1
  let r2 := (fracPart (r.dropWhile isDigit)).2
  if ip.isEmpty && fp.isEmpty then parseSpecial neg r
  else
    match r2 with
    | [] => some (Num.fin neg (digitsVal 0 (ip ++ fp)) (-(fp.length : Int)))
    | c :: t =>
      if c = 'e' || c = 'E' then
        (parseExp t).map (fun e => Num.fin neg (digitsVal 0 (ip ++ fp)) (e - fp.length))
      else none

inductive Val where
  | num (n : Num)
  | str (s : Str)
  deriving DecidableEq, Repr

/-- `AttrMap::insert` typing: a value that reads as a float is a number, anything else a trimmed string -/
def classify (v : Str) : Val :=
  match parseF32 v with
  | some n => Val.num n
  | none => Val.str (trim v)

/-- assoc-list `BTreeMap::insert`: the later value replaces the earlier one -/
def attrInsert (m : List (Str × Val)) (k : Str) (v : Val) : List (Str × Val) :=
  if m.any (·.1 == k) then m.map (fun e => if e.1 == k then (k, v) else e) else m ++ [(k, v)]

/-! ### `parse_attributes` as a fold over the trimmed lines -/

structure AttrSt where
  attrs : List (Str × Val) := []
  /-- an open parenthesised value: its key and the pieces read so far -/
  pending : Option (Str × Str) := none

def attrStep (st : AttrSt) (line : Str) : Except String AttrSt :=
  match st.pending with
  | some (key, acc) =>
    let acc' := acc ++ line
    if endsWith [')'] line then .ok { attrs := attrInsert st.attrs key (classify acc'), pending := none }
    else .ok { st with pending := some (key, acc') }
  | none =>
    if line == ['.', '.'] || line == ['"'] then .ok st
    else match splitFirst '=' line with
      | none => .error "no key = value"
      | some (k, v) =>
        let key := trim k
        let value := trim v
        if startsWith ['('] value && !endsWith [')'] value then .ok { st with pending := some (key, value) }
        else .ok { st with attrs := attrInsert st.attrs key (classify (trimMatches '"' value)) }

def attrFold : AttrSt → List Str → Except String AttrSt
  | st, [] => .ok st
  | st, l :: t =>
    match attrStep st l with
    | .ok st' => attrFold st' t
    | .error e => .error e

/-- `parse_attributes` -/
def parseAttributes (data : Str) : Except String (List (Str × Val)) :=
  match attrFold {} ((linesOf data).map trim) with
  | .error e => .error e
  | .ok st =>
    match st.pending with
    | some (key, acc) => .ok (attrInsert st.attrs key (classify acc))   -- ran out of lines inside a list
    | none => .ok st.attrs

structure Block where
  btype : Str
  name : Str
  parent : Option Str
  attrs : List (Str × Val)
  deriving DecidableEq, Repr

def knownType (t : Str) : Bool := Gen.blockTypes.any (fun p => p.1.toList == t)

/-- `BdlBlock::from_str` -/
def parseBlock (s : Str) : Except String Block :=
  match splitFirst '\n' s with
  | none =>
    let t := trim s
    if knownType t then .ok { btype := t, name := t, parent := none, attrs := [] } else .error "unknown block type"
  | some (h, d) =>
    let headline := trim h
    let bdata := trim d
    let parts : Option (Str × Str) :=
      match splitFirst '=' headline with
      | some (a, b) => some (trimMatches '"' (trim a), trimMatches '"' (trim b))
      | none =>
        let a := trimMatches '"' (trim headline)
        if endsWith "-REPORT".toList a then some (a, a) else none
    match parts with
    | none => .error "bad header"
    | some (name, btype) =>
      match parseAttributes bdata with
      | .error e => .error e
      | .ok attrs =>
        if knownType btype then .ok { btype := btype, name := trim name, parent := none, attrs := attrs }
        else .error "unknown block type"

structure Cursor where
  floor : Str := "Default".toList
  space : Str := []
  wall : Str := []

def isIn (l : List String) (t : Str) : Bool := l.any (fun p => p.toList == t)

/-- the four classes `build_blocks` tracks, by block type -/
inductive Kind where
  | floor | space | wall | child | other
  deriving DecidableEq, Repr

def kindOf (t : Str) : Kind :=
  if isIn Gen.floorTypes t then .floor
  else if isIn Gen.spaceTypes t then .space
  else if isIn Gen.wallTypes t then .wall
  else if isIn Gen.childTypes t then .child
  else .other

/-- parent of a block of type `t` named `name` given the cursor, and the cursor after it (`build_blocks`) -/
def track (c : Cursor) (t name : Str) : Option Str × Cursor :=
  match kindOf t with
  | .floor => (none, { c with floor := name })
  | .space => (some c.floor, { c with space := name })
  | .wall => (some c.space, { c with wall := name })
  | .child => (some c.wall, c)
  | .other => (none, c)

def skipped (b : Str) : Bool := Gen.skippedBlockPrefixes.any (fun p => startsWith p.toList b)

def blocksFold : Cursor → List Str → Except String (List Block)
  | _, [] => .ok []
  | c, b :: t =>
    if skipped b then blocksFold c t
    else match parseBlock b with
      | .error e => .error e
      | .ok blk =>
        let (parent, c') := track c blk.btype blk.name
        match blocksFold c' t with
        | .error e => .error e
        | .ok r => .ok ({ blk with parent := parent } :: r)

/-- `build_blocks` -/
def buildBlocks (input : Str) : Except String (List Block) :=
  blocksFold {} (((splitDots (sanitize input)).map trim).filter (fun b => !b.isEmpty))

end Cte.Bdl
