/-
`climatedata::total_radiation_in_july_by_orientation`: July irradiation (beam + diffuse) per
orientation class for a climate zone, read from the generated copy of `MONTHLYRADDATA`.
-/
import Cte.Gen.MonthlyRad
import Cte.Model.Types
namespace Cte

/-- month 7 is index 6 -/
def julyOfRow (r : Gen.MonthlyRow) : Option Rat :=
  match r.dir[6]?, r.dif[6]? with
  | some a, some b => some (a + b)
  | _, _ => none

/-- the `HashMap` built by `filter(zone).map(..).collect()`: the last row of a (zone, orientation)
pair wins; a missing row is a missing key -/
def radJulOf (table : List Gen.MonthlyRow) (zone : String) (o : Orient) : Option Rat :=
  match (table.filter (fun r => r.zone = zone && r.orient = o)).getLast? with
  | some r => julyOfRow r
  | none => none

def radJul (zone : String) (o : Orient) : Option Rat := radJulOf Gen.monthlyRad zone o

end Cte
