/-
  C03 — placement of spaces, walls and shades in global coordinates
  (`wall_geometry`, `orientation_bdl_to_52016`, `shades_from_bdl` in bemodel/src/convert/from_ctehexml.rs and
  `WallGeom::to_global_coords_matrix` in bemodel/src/types/opaques.rs), with every angle given by its
  (cos, sin) pair so that the statements are polynomial identities.
-/
import Cte.Model.Solar

namespace Cte.Place
open Cte

def Ang.neg (a : Ang) : Ang := ⟨a.c, -a.s⟩
def Ang.add (a b : Ang) : Ang := ⟨a.c * b.c - a.s * b.s, a.s * b.c + a.c * b.s⟩
def Ang.zero : Ang := ⟨1, 0⟩
/-- 180° -/
def Ang.pi : Ang := ⟨-1, 0⟩
/-- 90° -/
def Ang.half : Ang := ⟨0, 1⟩
def Ang.Unit (a : Ang) : Prop := a.c * a.c + a.s * a.s = 1

def vadd (a b : Vec3) : Vec3 := ⟨a.x + b.x, a.y + b.y, a.z + b.z⟩
def vsmul (k : Rat) (a : Vec3) : Vec3 := ⟨k * a.x, k * a.y, k * a.z⟩

/-- a space in the building: offset of its origin, clockwise angle with the building's north, storey height -/
structure SpaceP where
  off : Vec3
  ang : Ang
  height : Rat

/-- the source convention (DOE-2): a point in space coordinates turns clockwise with the space about the space origin,
    is offset to the space's position in the building and turns clockwise with the building's deviation from north -/
def placeSpec (g : Ang) (sp : SpaceP) (p : Vec3) : Vec3 :=
  rotZ (Ang.neg g) (vadd sp.off (rotZ (Ang.neg sp.ang) p))

/-- `wall_geometry`, position: `rot_global * (rot_space * local + space offset)` -/
def wallPosition (g : Ang) (sp : SpaceP) (loc : Vec3) : Vec3 :=
  rotZ (Ang.neg g) (vadd (rotZ (Ang.neg sp.ang) loc) sp.off)

/-- `orientation_bdl_to_52016(global + space + wall)`: 180° minus the clockwise-from-north angle -/
def azimuth52016 (g a w : Ang) : Ang := Ang.add Ang.pi (Ang.neg (Ang.add g (Ang.add a w)))

/-- `WallGeom::to_global_coords_matrix` applied to a polygon point `(u, v, 0)` -/
def toGlobal (pos : Vec3) (az tilt : Ang) (u v : Rat) : Vec3 :=
  vadd pos (rotZ az (rotX tilt ⟨u, v, 0⟩))

/-- `Polygon::rotate` on one point -/
def rot2 (a : Ang) (p : Rat × Rat) : Rat × Rat := (a.c * p.1 - a.s * p.2, a.s * p.1 + a.c * p.2)

/-- how a wall is located in its space -/
inductive Loc where
  /-- on the outline edge that starts at `p1` with unit direction `d` and length `width` -/
  | edge (p1 : Rat × Rat) (width : Rat)
  | top
  | bottom
  /-- own polygon -/
  | poly (pts : List (Rat × Rat))

structure WallSrc where
  loc : Loc
  x : Rat
  y : Rat
  z : Rat

/-- `wall_geometry`: position, azimuth, and polygon in wall coordinates; then the global corners -/
def wallCorners (g w t : Ang) (sp : SpaceP) (outline : List (Rat × Rat)) (ws : WallSrc) : List Vec3 :=
  let az := azimuth52016 g sp.ang w
  match ws.loc with
  | .edge p1 width =>
    let pos := wallPosition g sp ⟨p1.1 + ws.x, p1.2 + ws.y, ws.z⟩
    [(0, 0), (width, 0), (width, sp.height), (0, sp.height)].map (fun p => toGlobal pos az t p.1 p.2)
  | .top =>
    let pos := wallPosition g sp ⟨ws.x, ws.y, ws.z + sp.height⟩
    (outline.map (rot2 (Ang.add w Ang.pi))).map (fun p => toGlobal pos az t p.1 p.2)
  | .bottom =>
    let pos := wallPosition g sp ⟨ws.x, ws.y, ws.z⟩
    -- rotate, then mirror y; the vertex order (first, then the rest reversed) does not change the corner set
    ((outline.map (rot2 (Ang.add w Ang.pi))).map (fun p => (p.1, -p.2))).map (fun p => toGlobal pos az t p.1 p.2)
  | .poly pts =>
    let pos := wallPosition g sp ⟨ws.x, ws.y, ws.z⟩
    pts.map (fun p => toGlobal pos az t p.1 p.2)

/-- `shades_from_bdl`, rectangular `BUILDING-SHADE` (X, Y, Z, HEIGHT, WIDTH, AZIMUTH, TILT): the origin is turned by the building's
    deviation `g`, the azimuth accumulates shade azimuth and deviation, the polygon is the `width × height` rectangle; global corners -/
def rectShadeCorners (g a t : Ang) (o : Vec3) (w h : Rat) : List Vec3 :=
  [(0, 0), (w, 0), (w, h), (0, h)].map (fun p => toGlobal (rotZ (Ang.neg g) o) (azimuth52016 g Ang.zero a) t p.1 p.2)

/-- the source convention for a surface of BDL azimuth `a` (angle of its outward normal, clockwise from north) and tilt `t`: local x runs
    along `(−cos a, sin a, 0)`, local y along `(−cos t · sin a, −cos t · cos a, sin t)`; the building is then turned by `−g` -/
def rectShadeSpec (g a t : Ang) (o : Vec3) (u v : Rat) : Vec3 :=
  rotZ (Ang.neg g) (vadd o (vadd (vsmul u ⟨-a.c, a.s, 0⟩) (vsmul v ⟨-(t.c * a.s), -(t.c * a.c), t.s⟩)))

/-- `shades_from_bdl`, `BUILDING-SHADE` given by vertices: the polygon point of vertex `v` — move the first vertex `v0` to the origin,
    undo the shade's azimuth `a` (turn about z), undo its tilt `t` (turn about x), keep x and y -/
def vertShadeLocal (a t : Ang) (v0 v : Vec3) : Vec3 :=
  rotX (Ang.neg t) (rotZ (Ang.neg a) ⟨v.x - v0.x, v.y - v0.y, v.z - v0.z⟩)

/-- its global corner: position = first vertex turned by the building's deviation, azimuth = shade azimuth minus deviation -/
def vertShadeCorner (g a t : Ang) (v0 v : Vec3) : Vec3 :=
  toGlobal (rotZ (Ang.neg g) v0) (Ang.add a (Ang.neg g)) t (vertShadeLocal a t v0 v).x (vertShadeLocal a t v0 v).y

/-- a point of the wall's own frame in global coordinates (`to_global_coords_matrix`) -/
def wallToWorld (pos : Vec3) (az t : Ang) (p : Vec3) : Vec3 := vadd pos (rotZ az (rotX t p))

/-- `Window::shades_for_setback`: the global corners of the four reveal surfaces (head, left jamb, right jamb, sill) of a window at
    `(x, y)` of size `w × h` set back by `s` in a wall of pose `(pos, az, t)` -/
def reveals (pos : Vec3) (az t : Ang) (x y w h s : Rat) : List (List Vec3) :=
  let W := wallToWorld pos az t
  [ [(0, 0), (0, -s), (w, -s), (w, 0)].map (fun p => toGlobal (W ⟨x, y + h, 0⟩) az (Ang.add t Ang.half) p.1 p.2),
    -- the jambs are vertical surfaces turned ±90° from the wall; their polygon is turned within that plane by the wall's tilt
    [(0, 0), (0, -h), (s, -h), (s, 0)].map (fun p =>
      toGlobal (W ⟨x, y + h, 0⟩) (Ang.add az Ang.half) Ang.half (p.2 * t.c + p.1 * t.s) (p.2 * t.s - p.1 * t.c)),
    [(0, 0), (-s, 0), (-s, -h), (0, -h)].map (fun p =>
      toGlobal (W ⟨x + w, y + h, 0⟩) (Ang.add az (Ang.neg Ang.half)) Ang.half (p.1 * t.s - p.2 * t.c) (p.2 * t.s + p.1 * t.c)),
    [(0, 0), (w, 0), (w, s), (0, s)].map (fun p => toGlobal (W ⟨x, y, 0⟩) az (Ang.add t (Ang.neg Ang.half)) p.1 p.2) ]

/-- twice the signed area of the triangle (0, p, q): the shoelace term -/
def cross2 (p q : Rat × Rat) : Rat := p.1 * q.2 - q.1 * p.2

/-- twice the signed area of a polygon (shoelace), closing on `first` -/
def shoelaceFrom (first : Rat × Rat) : List (Rat × Rat) → Rat
  | [] => 0
  | [p] => cross2 p first
  | p :: q :: t => cross2 p q + shoelaceFrom first (q :: t)

def shoelace2 : List (Rat × Rat) → Rat
  | [] => 0
  | p :: t => shoelaceFrom p (p :: t)

end Cte.Place
