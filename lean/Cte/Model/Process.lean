/-
The process as a state machine (C05, C14): three global tables behind locks
(`MONTHLYRADDATA`, `CLIMATEMETADATA`, `JULYRADDATA`), threads that run programs of atomic steps.
The tables' content is never written after initialisation: the machine has no write transition.
-/
namespace Cte.Proc

inductive Tbl | monthly | meta_ | july
  deriving DecidableEq, Repr

inductive Act
  | lock (t : Tbl)
  | unlock (t : Tbl)
  | work                 -- a pure computation step (may read a table it holds)
  deriving DecidableEq, Repr

abbrev Prog := List Act

structure Thread where
  held : Option Tbl
  rest : Prog
  deriving DecidableEq, Repr

/-- a program takes one lock at a time and releases what it took: `lock t, work*, unlock t` -/
def wfFrom : Option Tbl → Prog → Bool
  | none, [] => true
  | some _, [] => false
  | none, .lock t :: r => wfFrom (some t) r
  | none, .work :: r => wfFrom none r
  | none, .unlock _ :: _ => false
  | some h, .unlock t :: r => decide (t = h) && wfFrom none r
  | some h, .work :: r => wfFrom (some h) r
  | some _, .lock _ :: _ => false

def Thread.ok (th : Thread) : Bool := wfFrom th.held th.rest

/-- `EnergyIndicators::compute`: monthly table (temporary guard), props, then `compute_fshobst`
takes the metadata guard for one lookup and holds the July table for the whole ray casting -/
def indicatorsProg : Prog :=
  [.lock .monthly, .work, .unlock .monthly, .work, .lock .meta_, .work, .unlock .meta_,
   .lock .july, .work, .work, .unlock .july, .work]

/-- conversion touches no global table -/
def convertProg : Prog := [.work, .work]

structure St where
  threads : List Thread
  /-- a panic while a guard was alive poisons that lock for ever -/
  poisoned : Tbl → Bool
  /-- version counter of each table's content: no transition changes it -/
  content : Tbl → Nat

def holds (ths : List Thread) (t : Tbl) : Bool := ths.any (fun th => th.held = some t)

/-- can thread `th` take its next step when the others are `others`? -/
def enabled (others : List Thread) (th : Thread) : Bool :=
  match th.rest with
  | [] => false
  | .lock t :: _ => !holds others t
  | _ => true

/-- one step of a thread (precondition: `enabled`) -/
def Thread.step (th : Thread) : Thread :=
  match th.rest with
  | [] => th
  | .lock t :: r => { held := some t, rest := r }
  | .unlock _ :: r => { held := none, rest := r }
  | .work :: r => { th with rest := r }

/-- a thread panics at its next step: the guard it holds (if any) poisons its lock, the thread ends -/
def panicAt (s : St) (i : Nat) : St :=
  match s.threads[i]? with
  | none => s
  | some th =>
    { s with
      threads := s.threads.set i { held := none, rest := [] }
      poisoned := fun t => s.poisoned t || decide (th.held = some t) }

def stepAt (s : St) (i : Nat) : St :=
  match s.threads[i]? with
  | none => s
  | some th => { s with threads := s.threads.set i th.step }

inductive Ev
  | step (i : Nat)
  | panic (i : Nat)
  deriving Repr

def St.run (s : St) : List Ev → St
  | [] => s
  | .step i :: r => (stepAt s i).run r
  | .panic i :: r => (panicAt s i).run r

/-! ### observed lock traces (the hook `cteenergymodel_verif` records every acquisition and release of the three tables) -/

/-- one observed event: thread `thread` acquired / released a table -/
structure Obs where
  thread : Nat
  act : Act
  deriving DecidableEq, Repr

/-- thread `i` runs the pure steps that precede its next lock action -/
def runWork : Nat → St → Nat → St
  | 0, s, _ => s
  | fuel + 1, s, i =>
    match s.threads[i]? with
    | some th =>
      match th.rest with
      | .work :: _ => runWork fuel (stepAt s i) i
      | _ => s
    | none => s

/-- replay one observation on the machine: after its pure steps, the thread's next action must be the observed one, and the
machine must allow it (a lock is granted only when nobody else holds the table) -/
def replayOne (fuel : Nat) (s : St) (o : Obs) : Option St :=
  let s1 := runWork fuel s o.thread
  match s1.threads[o.thread]? with
  | some th =>
    match th.rest with
    | a :: _ =>
      if a = o.act && enabled (s1.threads.eraseIdx o.thread) th then some (stepAt s1 o.thread) else none
    | [] => none
  | none => none

/-- replay a whole trace; `none` when the machine cannot produce it -/
def replay (fuel : Nat) (s : St) : List Obs → Option St
  | [] => some s
  | o :: r => (replayOne fuel s o).bind (fun s1 => replay fuel s1 r)

/-- every thread has run its program to the end (up to trailing pure steps) and holds nothing -/
def St.finished (s : St) : Bool :=
  s.threads.all (fun th => th.held.isNone && th.rest.all (fun a => a == .work))

/-- `n` threads that each compute the indicators `k` times in a row -/
def indicatorThreads (n k : Nat) : St :=
  { threads := List.replicate n { held := none, rest := (List.replicate k indicatorsProg).flatten },
    poisoned := fun _ => false, content := fun _ => 0 }

/-- a locked computation fails when its table is poisoned (`lock().unwrap()`) -/
def canLock (s : St) (t : Tbl) : Bool := !s.poisoned t

end Cte.Proc
