/-
JSON values with exact decimal numbers, a total text parser and a printer.
Numbers keep sign, mantissa and decimal exponent separately so that `-0.0` is representable
(the checker's sign test on bridge lengths needs it).
-/
import Cte.Model.Num
namespace Cte

inductive J where
  | null
  | bool (b : Bool)
  | num (neg : Bool) (mant : Nat) (exp : Int)
  | str (s : String)
  | arr (l : List J)
  | obj (kvs : List (String × J))
  deriving Repr, Inhabited

namespace J

def numVal (neg : Bool) (mant : Nat) (exp : Int) : Rat :=
  let v : Rat := (mant : Rat) * pow10 exp
  if neg then -v else v

def lookup (k : String) : List (String × J) → Option J
  | [] => none
  | (k', v) :: t => if k' = k then some v else lookup k t

/-- serde semantics for duplicate keys in a struct is an error; for maps last wins. We use first. -/
def get? (j : J) (k : String) : Option J :=
  match j with
  | obj kvs => lookup k kvs
  | _ => none

def ofRat (r : Rat) (digits : Nat := 9) : J :=
  let scaled := roundHalfAway (r * ((10 ^ digits : Nat) : Rat))
  J.num (scaled < 0) scaled.natAbs (-(digits : Int))

def ofInt (i : Int) : J := J.num (i < 0) i.natAbs 0
def ofNat (n : Nat) : J := J.num false n 0
def ofOptRat (r : Option Rat) : J := match r with | some x => ofRat x | none => null

end J

/-! ### Printer (compact) -/

def hexDigit (n : Nat) : Char :=
  if n < 10 then Char.ofNat (48 + n) else Char.ofNat (87 + n)

def escapeChar (c : Char) : List Char :=
  if c = '"' then ['\\', '"']
  else if c = '\\' then ['\\', '\\']
  else if c = '\n' then ['\\', 'n']
  else if c = '\r' then ['\\', 'r']
  else if c = '\t' then ['\\', 't']
  else if c.toNat < 32 then
    ['\\', 'u', '0', '0', hexDigit (c.toNat / 16), hexDigit (c.toNat % 16)]
  else [c]

def escapeStr (s : String) : String :=
  String.ofList (s.toList.flatMap escapeChar)

def numToString (neg : Bool) (mant : Nat) (exp : Int) : String :=
  (if neg then "-" else "") ++ toString mant ++ (if exp = 0 then "" else "e" ++ toString exp)

mutual
  def J.render : J → String
    | .null => "null"
    | .bool true => "true"
    | .bool false => "false"
    | .num n m e => numToString n m e
    | .str s => "\"" ++ escapeStr s ++ "\""
    | .arr l => "[" ++ renderList l ++ "]"
    | .obj kvs => "{" ++ renderKvs kvs ++ "}"
  def renderList : List J → String
    | [] => ""
    | [x] => x.render
    | x :: t => x.render ++ "," ++ renderList t
  def renderKvs : List (String × J) → String
    | [] => ""
    | [(k, v)] => "\"" ++ escapeStr k ++ "\":" ++ v.render
    | (k, v) :: t => "\"" ++ escapeStr k ++ "\":" ++ v.render ++ "," ++ renderKvs t
end

/-! ### Parser over `List Char`, total by fuel -/

def isWsC (c : Char) : Bool := c = ' ' || c = '\n' || c = '\r' || c = '\t'

def skipWs : List Char → List Char
  | c :: t => if isWsC c then skipWs t else c :: t
  | [] => []

def digitVal? (c : Char) : Option Nat :=
  if '0' ≤ c ∧ c ≤ '9' then some (c.toNat - 48) else none

def hexVal? (c : Char) : Option Nat :=
  if '0' ≤ c ∧ c ≤ '9' then some (c.toNat - 48)
  else if 'a' ≤ c ∧ c ≤ 'f' then some (c.toNat - 87)
  else if 'A' ≤ c ∧ c ≤ 'F' then some (c.toNat - 55)
  else none

/-- read digits, accumulating value and count -/
def readDigits : List Char → Nat → Nat → (Nat × Nat × List Char)
  | c :: t, acc, n =>
    match digitVal? c with
    | some d => readDigits t (acc * 10 + d) (n + 1)
    | none => (acc, n, c :: t)
  | [], acc, n => (acc, n, [])

/-- JSON number: -? int frac? exp? -/
def parseNum (cs : List Char) : Option (J × List Char) :=
  let (neg, cs) := match cs with
    | '-' :: t => (true, t)
    | _ => (false, cs)
  let (ip, n1, cs) := readDigits cs 0 0
  if n1 = 0 then none else
  let (mant, fracDigits, cs) := match cs with
    | '.' :: t =>
      let (m, n2, r) := readDigits t ip 0
      (m, n2, r)
    | _ => (ip, 0, cs)
  let (e, cs) : Int × List Char := match cs with
    | c :: t =>
      if c = 'e' || c = 'E' then
        let (eneg, t) := match t with
          | '-' :: u => (true, u)
          | '+' :: u => (false, u)
          | _ => (false, t)
        let (ev, n3, r) := readDigits t 0 0
        if n3 = 0 then (0, c :: t) else ((if eneg then -(ev : Int) else (ev : Int)), r)
      else (0, c :: t)
    | [] => (0, [])
  some (J.num neg mant (e - (fracDigits : Int)), cs)

def parseStrBody : List Char → List Char → Option (String × List Char)
  | '"' :: t, acc => some (String.ofList acc.reverse, t)
  | '\\' :: 'u' :: a :: b :: c :: d :: t, acc =>
    match hexVal? a, hexVal? b, hexVal? c, hexVal? d with
    | some a, some b, some c, some d =>
      parseStrBody t (Char.ofNat (a * 4096 + b * 256 + c * 16 + d) :: acc)
    | _, _, _, _ => none
  | '\\' :: c :: t, acc =>
    let r : Option Char :=
      if c = 'n' then some '\n' else if c = 't' then some '\t' else if c = 'r' then some '\r'
      else if c = 'b' then some (Char.ofNat 8) else if c = 'f' then some (Char.ofNat 12)
      else if c = '"' || c = '\\' || c = '/' then some c else none
    match r with
    | some ch => parseStrBody t (ch :: acc)
    | none => none
  | c :: t, acc => parseStrBody t (c :: acc)
  | [], _ => none

def stripPrefix : List Char → List Char → Option (List Char)
  | [], cs => some cs
  | p :: ps, c :: cs => if p = c then stripPrefix ps cs else none
  | _ :: _, [] => none

mutual
  def parseValue : Nat → List Char → Option (J × List Char)
    | 0, _ => none
    | fuel + 1, cs =>
      match skipWs cs with
      | 'n' :: t => (stripPrefix "ull".toList t).map (fun r => (J.null, r))
      | 't' :: t => (stripPrefix "rue".toList t).map (fun r => (J.bool true, r))
      | 'f' :: t => (stripPrefix "alse".toList t).map (fun r => (J.bool false, r))
      | '"' :: t => (parseStrBody t []).map (fun (s, r) => (J.str s, r))
      | '[' :: t =>
        match skipWs t with
        | ']' :: r => some (J.arr [], r)
        | t' => parseElems fuel t' []
      | '{' :: t =>
        match skipWs t with
        | '}' :: r => some (J.obj [], r)
        | t' => parseMembers fuel t' []
      | cs' => parseNum cs'
  def parseElems : Nat → List Char → List J → Option (J × List Char)
    | 0, _, _ => none
    | fuel + 1, cs, acc =>
      match parseValue fuel cs with
      | none => none
      | some (v, r) =>
        match skipWs r with
        | ',' :: r' => parseElems fuel r' (v :: acc)
        | ']' :: r' => some (J.arr (v :: acc).reverse, r')
        | _ => none
  def parseMembers : Nat → List Char → List (String × J) → Option (J × List Char)
    | 0, _, _ => none
    | fuel + 1, cs, acc =>
      match skipWs cs with
      | '"' :: t =>
        match parseStrBody t [] with
        | none => none
        | some (k, r) =>
          match skipWs r with
          | ':' :: r' =>
            match parseValue fuel r' with
            | none => none
            | some (v, r'') =>
              match skipWs r'' with
              | ',' :: r3 => parseMembers fuel r3 ((k, v) :: acc)
              | '}' :: r3 => some (J.obj ((k, v) :: acc).reverse, r3)
              | _ => none
          | _ => none
      | _ => none
end

/-- Parse a complete JSON document (trailing whitespace allowed, nothing else). -/
def J.parse (s : String) : Option J :=
  let cs := s.toList
  match parseValue (cs.length + 1) cs with
  | some (v, r) => if (skipWs r).isEmpty then some v else none
  | none => none

end Cte
