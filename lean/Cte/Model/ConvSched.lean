/-
`schedules_from_bdl` (bemodel/src/convert/from_ctehexml.rs): the converted daily, weekly and yearly schedules from the typed
BDL schedules of `BdlData`, by name (ids are one-to-one with names, `Conv.convert`).
-/
import Cte.Model.Schedules
import Cte.Model.BdlData
namespace Cte.ConvS
open Cte Cte.Bdl Cte.BdlData

inductive SchedV where
  | day (name : Str) (values : List TNum)
  | week (name : Str) (runs : List (String × Nat))
  | year (name : Str) (periods : List (Str × Nat))
  deriving Repr

/-- one schedule; `none` when the conversion rejects it (wrong length, dates going backwards, incoherent lists) -/
def convSched : Sched → Option SchedV
  | .day name _ values =>
    match values with
    | [v] => some (.day name (List.replicate 24 v))
    | vs => if vs.length = 24 then some (.day name vs) else none
  | .week name _ days =>
    match days with
    | [d] => some (.week name [(String.ofList d, 7)])
    | ds => if ds.length = 7 then some (.week name (weekRuns (ds.map String.ofList))) else none
  | .year name _ days months weeks =>
    let ends : List Int := (days.zip months).map (fun dm => dayOfYear dm.1 dm.2)
    match periodLengths ends with
    | none => none
    | some counts =>
      if counts.length = weeks.length && counts.length = months.length && counts.length = days.length then
        some (.year name (weeks.zip counts))
      else none

end Cte.ConvS
