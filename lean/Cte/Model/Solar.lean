/-
Solar geometry and radiation on a surface (`climate/src/solar.rs`), with every angle represented by
its (cos, sin) pair so that the statements are polynomial identities.
-/
import Cte.Model.Num
namespace Cte

/-! ### calendar -/

def MONTH_DAYS : List Nat := [31, 28, 31, 30, 31, 30, 31, 31, 30, 31, 30, 31]

/-- `nday_from_md` with its assertion as a guard (after the repair: `day <= 31`) -/
def ndayFromMd (month day : Nat) : Option Nat :=
  if month < 13 ∧ day ≤ 31 then some ((MONTH_DAYS.take (month - 1)).sum + day) else none

/-! ### directions: east = +x, south = −y, up = +z (the convention of `WallGeom` and `ray_dir_to_sun`) -/

/-- an angle given by its cosine and sine -/
structure Ang where
  c : Rat
  s : Rat
  deriving Repr, Inhabited

structure Vec3 where
  x : Rat
  y : Rat
  z : Rat
  deriving Repr, Inhabited, DecidableEq

def Vec3.dot (a b : Vec3) : Rat := a.x * b.x + a.y * b.y + a.z * b.z

/-- unit vector towards the sun from declination δ, hour angle ω (positive before noon) and latitude φ,
as (east, south, up) components -/
def sunEast (d h : Ang) : Rat := d.c * h.s
def sunSouth (d h w : Ang) : Rat := d.c * w.s * h.c - d.s * w.c
def sunUp (d h w : Ang) : Rat := d.s * w.s + d.c * w.c * h.c

/-- in model axes: x = east, y = −south, z = up -/
def sunVec (d h w : Ang) : Vec3 := ⟨sunEast d h, -(sunSouth d h w), sunUp d h w⟩

/-- `altitude_sol_from_data`: the sine of the altitude -/
def sinAltitude (d h w : Ang) : Rat := d.s * w.s + d.c * w.c * h.c

/-- `angle_sol_surf`: the cosine of the incidence angle, the code's five terms -/
def cosIncidence (d h w b g : Ang) : Rat :=
  d.s * w.s * b.c - d.s * w.c * b.s * g.c + d.c * w.c * b.c * h.c + d.c * w.s * b.s * g.c * h.c
    + d.c * b.s * g.s * h.s

/-- rotations about x (tilt) and z (azimuth) as `WallGeom::to_global_coords_matrix` composes them -/
def rotX (t : Ang) (v : Vec3) : Vec3 := ⟨v.x, t.c * v.y - t.s * v.z, t.s * v.y + t.c * v.z⟩
def rotZ (a : Ang) (v : Vec3) : Vec3 := ⟨a.c * v.x - a.s * v.y, a.s * v.x + a.c * v.y, v.z⟩

/-- outward normal of a surface of tilt β and azimuth γ: Rz(γ)·Rx(β)·(0,0,1) -/
def surfaceNormal (b g : Ang) : Vec3 := rotZ g (rotX b ⟨0, 0, 1⟩)

/-- `ray_dir_to_sun(azimuth, altitude)` (before normalisation, which is the identity on unit vectors) -/
def rayDirToSun (az alt : Ang) : Vec3 := ⟨alt.c * az.s, -(alt.c * az.c), alt.s⟩

/-! ### radiation on a tilted surface (`radiation_for_surface`) from the quantities it derives -/

structure RadIn where
  dirHor : Rat      -- beam on the horizontal
  difHor : Rat      -- diffuse on the horizontal
  sinAlt : Rat      -- sin of the altitude used by `G_sol_b` (clamped below at 0.01°)
  sinAltTrue : Rat  -- sin of the altitude itself (ground term)
  cosInc : Rat      -- cos of the incidence angle
  cosZen : Rat      -- cos of the zenith angle (= sin altitude)
  cos85 : Rat
  f1 : Rat          -- circumsolar brightness coefficient (already clamped at 0)
  f2 : Rat
  tilt : Ang
  albedo : Rat
  deriving Repr, Inhabited

def RadIn.beam (r : RadIn) : Rat := r.dirHor / r.sinAlt          -- G_sol_b
def RadIn.a (r : RadIn) : Rat := rmax 0 r.cosInc
def RadIn.b (r : RadIn) : Rat := rmax r.cos85 r.cosZen
def RadIn.iDir (r : RadIn) : Rat := rmax 0 (r.beam * r.cosInc)
def RadIn.iCircum (r : RadIn) : Rat := r.difHor * r.f1 * r.a / r.b
def RadIn.iDif (r : RadIn) : Rat :=
  r.difHor * ((1 - r.f1) * (1 / 2) * (1 + r.tilt.c) + r.f1 * r.a / r.b + r.f2 * r.tilt.s)
def RadIn.iGround (r : RadIn) : Rat := (r.difHor + r.beam * r.sinAltTrue) * r.albedo * (1 - r.tilt.c) / 2
def RadIn.dirTot (r : RadIn) : Rat := r.iDir + r.iCircum
def RadIn.difTot (r : RadIn) : Rat := r.iDif - r.iCircum + r.iGround

end Cte
