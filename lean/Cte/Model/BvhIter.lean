/-
The BVH construction as the code writes it (`bemodel/src/energy/raytracing/bvh.rs`): no recursion.
`generate_node_list` splits element lists with an explicit stack of pending work and numbers the nodes
with a running counter, emitting a flat list of `TreeElement`s in pre-order; `build_from_node_list`
pops that list from the end and reassembles the tree through two maps keyed by node id (`pending`:
parents still missing a child, `completed`: finished subtrees waiting for their parent).
Every `unwrap()` / `panic!()` of the code is a `none` here.
`Cte/Props/C13Iter.lean` proves that the two phases together compute `Bvh.build`.
-/
import Cte.Model.Bvh
namespace Cte.Bvh

variable {E Box Ray : Type}

inductive Side | L | R
  deriving DecidableEq, Repr

/-- `TreeElement(id, type, side, parent, elems)` -/
structure TElem (E : Type) where
  id : Nat
  leaf : Bool
  side : Side
  parent : Option Nat
  elems : Option (List E)

/-- an entry of the `pending` stack of `generate_node_list` (always `Node`-typed with `Some(elems)`) -/
structure Pend (E : Type) where
  id : Nat
  side : Side
  parent : Option Nat
  elems : List E

def pendWeight (n : Nat) : Nat := if n = 0 then 1 else 2 * n - 1

def pendMeasure (p : List (Pend E)) : Nat := (p.map (fun x => pendWeight x.elems.length)).sum

theorem partition_fst_length_pos {p : E → Bool} {es : List E} (h : (es.partition p).1 ≠ []) : 0 < (es.partition p).1.length :=
  List.length_pos_iff.mpr h

/-- the `while !pending.is_empty()` loop of `generate_node_list`: `pending` (top first), the id counter, the node list so far.
(The code unrolls the first iteration for the root; it is the same body.) -/
def genLoop (o : Ops E Box Ray) (k : Nat) : List (Pend E) → Nat → List (TElem E) → List (TElem E)
  | [], _, out => out
  | c :: rest, id, out =>
    if c.elems.length > k then
      if h : (c.elems.partition (o.sel c.elems)).1 = [] ∨ (c.elems.partition (o.sel c.elems)).2 = [] then
        genLoop o k rest id (out ++ [⟨c.id, true, c.side, c.parent,
          some ((c.elems.partition (o.sel c.elems)).1 ++ (c.elems.partition (o.sel c.elems)).2)⟩])
      else
        genLoop o k (⟨id + 1, .L, some c.id, (c.elems.partition (o.sel c.elems)).1⟩ ::
                     ⟨id + 2, .R, some c.id, (c.elems.partition (o.sel c.elems)).2⟩ :: rest) (id + 2)
          (out ++ [⟨c.id, false, c.side, c.parent, none⟩])
    else genLoop o k rest id (out ++ [⟨c.id, true, c.side, c.parent, some c.elems⟩])
termination_by p => pendMeasure p
decreasing_by
  · simp only [pendMeasure, List.map_cons, List.sum_cons]
    have : 0 < pendWeight c.elems.length := by unfold pendWeight; split <;> omega
    omega
  · simp only [pendMeasure, List.map_cons, List.sum_cons]
    have hl := partition_length (o.sel c.elems) c.elems
    have h1 : (c.elems.partition (o.sel c.elems)).1 ≠ [] := fun e => h (Or.inl e)
    have h2 : (c.elems.partition (o.sel c.elems)).2 ≠ [] := fun e => h (Or.inr e)
    have p1 := List.length_pos_iff.mpr h1
    have p2 := List.length_pos_iff.mpr h2
    unfold pendWeight
    split <;> split <;> split <;> omega
  · simp only [pendMeasure, List.map_cons, List.sum_cons]
    have : 0 < pendWeight c.elems.length := by unfold pendWeight; split <;> omega
    omega

/-- `generate_node_list` -/
def generate (o : Ops E Box Ray) (k : Nat) (es : List E) : List (TElem E) :=
  genLoop o k [⟨0, .L, none, es⟩] 0 []

/-! ### `build_from_node_list` -/

/-- a `BVHNode::Node` under construction -/
structure PNode (E Box : Type) where
  left : Option (Tree E Box) := none
  right : Option (Tree E Box) := none

/-- `BTreeMap<NodeId, _>` as an association list -/
def mget {V : Type} (k : Nat) : List (Nat × V) → Option V
  | [] => none
  | (a, v) :: t => if a = k then some v else mget k t

/-- `insert`: replaces the value of a present key, otherwise adds the entry -/
def mset {V : Type} (k : Nat) (v : V) : List (Nat × V) → List (Nat × V)
  | [] => [(k, v)]
  | (a, w) :: t => if a = k then (a, v) :: t else (a, w) :: mset k v t

/-- `remove` -/
def mdel {V : Type} (k : Nat) (m : List (Nat × V)) : List (Nat × V) := m.filter (fun x => x.1 ≠ k)

structure RState (E Box : Type) where
  pending : List (Nat × PNode E Box) := []
  completed : List (Nat × Tree E Box) := []

/-- attach a finished subtree to its parent: `pending.entry(parent).or_insert(empty node)`, `set_left` / `set_right`, and when both
children are there move the parent (with the joined box) to `completed` -/
def setSlot (o : Ops E Box Ray) (S : RState E Box) (p : Nat) (s : Side) (t : Tree E Box) : RState E Box :=
  let cur : PNode E Box := (mget p S.pending).getD {}
  let nw : PNode E Box := match s with
    | .L => { cur with left := some t }
    | .R => { cur with right := some t }
  match nw.left, nw.right with
  | some l, some r => { pending := mdel p S.pending, completed := mset p (.node (o.join l.box r.box) l r) S.completed }
  | _, _ => { pending := mset p nw S.pending, completed := S.completed }

/-- one iteration of the `while node_list.len() > 1` loop on the popped element -/
def recStep (o : Ops E Box Ray) (S : RState E Box) (e : TElem E) : Option (RState E Box) :=
  match e.parent with
  | none => none                                   -- `maybe_parent_id.unwrap()`
  | some p =>
    if e.leaf then
      match e.elems with
      | none => none                               -- `elems.unwrap()`
      | some es => some (setSlot o S p e.side (.leaf (boxOf o es) es))
    else
      match mget e.id S.completed with
      | none => none                               -- `completed.remove(&id).unwrap()`
      | some t => some (setSlot o { S with completed := mdel e.id S.completed } p e.side t)

def recRun (o : Ops E Box Ray) : List (TElem E) → RState E Box → Option (RState E Box)
  | [], S => some S
  | e :: t, S => match recStep o S e with
    | none => none
    | some S' => recRun o t S'

/-- `build_from_node_list`: `none` = a panic, `some none` = a BVH without root -/
def reconstruct (o : Ops E Box Ray) (l : List (TElem E)) : Option (Option (Tree E Box)) :=
  match l with
  | [⟨_, true, _, _, some es⟩] => some (some (.leaf (boxOf o es) es))
  | [] => some none
  | _ :: rest =>
    -- the elements are popped from the end while more than one is left: the first one is never popped
    match recRun o rest.reverse {} with
    | none => none
    | some S => some (mget 0 S.completed)

/-- `BVH::build(..).intersects(ray).is_some()` as the code computes it -/
def codeIntersects (o : Ops E Box Ray) (k : Nat) (r : Ray) (es : List E) : Option Bool :=
  match reconstruct o (generate o k es) with
  | none => none
  | some none => some false
  | some (some t) => some (walk o r [t])

end Cte.Bvh
