/-
  C02 — the referential skeleton of `Model::try_from(&CtehexmlData)` (bemodel/src/convert/from_ctehexml.rs):
  which names the parsed project holds and refers to, and which ids and references the converted model holds.
  An id is modelled by the name it is derived from, per collection (`IdMaps`: one name -> id map per kind; the ids
  themselves are md5 hashes of the element's debug text, assumed collision free).
-/
import Cte.Model.Damage
import Cte.Model.Schedules

namespace Cte.Conv

abbrev Name := String

structure BSpace where
  name : Name
  spaceconds : Name
  systemconds : Name
  nverts : Nat

structure BWall where
  name : Name
  space : Name
  cons : Name
  nextto : Option Name
  location : Option Name
  hasPolygon : Bool

structure BWindow where
  name : Name
  wall : Name
  cons : Name

structure BWallCons where
  key : Name
  name : Name
  materials : List Name

structure BWinCons where
  key : Name
  name : Name
  glass : Name
  frame : Name

structure BWeek where
  name : Name
  days : List Name

structure BYear where
  name : Name
  weeks : List Name
  months : List Nat
  days : List Nat

structure BLoads where
  key : Name
  name : Name
  numericOk : Bool
  people : Option Name
  equip : Option Name
  light : Option Name

structure BThermo where
  key : Name
  name : Name
  conditioned : Bool
  cool : Option Name
  heat : Option Name

/-- what `hulc::bdl::Data` holds, as far as references go -/
structure Bdl where
  spaces : List BSpace
  walls : List BWall
  windows : List BWindow
  wallcons : List BWallCons
  wincons : List BWinCons
  /-- keys of `db.materials`; `Data::new` and the catalogue insert every material under its own name -/
  materials : List Name
  glasses : List Name
  frames : List Name
  days : List Name
  weeks : List BWeek
  years : List BYear
  loads : List BLoads
  thermostats : List BThermo

structure MWall where
  id : Name
  cons : Name
  space : Name
  nextTo : Option Name
  deriving DecidableEq, Repr

structure MWindow where
  id : Name
  cons : Name
  wall : Name
  deriving DecidableEq, Repr

structure MSpace where
  id : Name
  loads : Option Name
  thermostat : Option Name
  deriving DecidableEq, Repr

structure MWallCons where
  id : Name
  layers : List Name
  deriving DecidableEq, Repr

structure MWinCons where
  id : Name
  glass : Name
  frame : Name
  deriving DecidableEq, Repr

structure MSched where
  id : Name
  refs : List Name
  deriving DecidableEq, Repr

structure MLoads where
  id : Name
  people : Name
  equip : Name
  light : Name
  deriving DecidableEq, Repr

structure MThermo where
  id : Name
  tmax : Option Name
  tmin : Option Name
  deriving DecidableEq, Repr

/-- ids and references of the converted model -/
structure Mdl where
  walls : List MWall
  windows : List MWindow
  spaces : List MSpace
  wallcons : List MWallCons
  wincons : List MWinCons
  materials : List Name
  glasses : List Name
  frames : List Name
  years : List MSched
  weeks : List MSched
  days : List Name
  loads : List MLoads
  thermostats : List MThermo
  deriving Repr

def has (l : List Name) (n : Name) : Bool := l.contains n

/-- `sort(); dedup()` of the used construction names: membership is all the skeleton needs, order is by name -/
def dedup : List Name → List Name
  | [] => []
  | a :: t => if (dedup t).contains a then dedup t else a :: dedup t

def mapM' {α β : Type} (f : α → Except String β) : List α → Except String (List β)
  | [] => .ok []
  | a :: t =>
    match f a with
    | .error e => .error e
    | .ok b =>
      match mapM' f t with
      | .error e => .error e
      | .ok r => .ok (b :: r)

def lookup (known : List Name) (what : String) (n : Name) : Except String Name :=
  if has known n then .ok n else .error (what ++ " " ++ n ++ " no identificado")

/-- `cons_from_bdl`: only the constructions walls and windows use, their materials, glazings and frames -/
def consFromBdl (b : Bdl) : Except String (List MWallCons × List MWinCons × List Name × List Name × List Name) :=
  let matNames := b.materials
  let usedWall := dedup (b.walls.map (·.cons))
  match mapM' (fun (wc : Name) =>
      match b.wallcons.find? (·.key == wc) with
      | none => Except.error ("Construcción de opaco no encontrada: " ++ wc)
      | some c =>
        match mapM' (lookup matNames "Material de opaco") c.materials with
        | .error e => .error e
        | .ok ids => .ok ({ id := wc, layers := ids } : MWallCons)) usedWall with
  | .error e => .error e
  | .ok wallcons =>
    let usedMats := wallcons.flatMap (·.layers)
    let materials := b.materials.filter (fun m => has usedMats m)
    let usedWin := dedup (b.windows.map (·.cons))
    match mapM' (fun (wc : Name) =>
        match b.wincons.find? (·.key == wc) with
        | none => Except.error ("Construcción de hueco no encontrada: " ++ wc)
        | some c =>
          if !has b.glasses c.glass then .error ("Vidrio no encontrado: " ++ c.glass)
          else if !has b.frames c.frame then .error ("Marco no encontrado: " ++ c.frame)
          else .ok ({ id := wc, glass := c.glass, frame := c.frame } : MWinCons)) usedWin with
    | .error e => .error e
    | .ok wincons =>
      let glasses := b.glasses.filter (fun g => has (wincons.map (·.glass)) g)
      let frames := b.frames.filter (fun f => has (wincons.map (·.frame)) f)
      .ok (wallcons, wincons, materials, glasses, frames)

/-- `wall_geometry` as accept / reject: which location kinds are understood -/
def wallGeomOk (b : Bdl) (w : BWall) : Bool :=
  match b.spaces.find? (·.name == w.space) with
  | none => false
  | some sp =>
    let edgeOk (v : Name) : Bool := (Cte.Damage.edgeVertices v.toList sp.nverts).isSome
    -- position: an edge name must resolve
    let posOk := match w.location with
      | some loc => if loc != "TOP" && loc != "BOTTOM" then edgeOk loc else true
      | none => true
    -- polygon
    let polyOk := match w.location, w.hasPolygon with
      | none, true => true
      | some "TOP", _ => true
      | some "BOTTOM", false => true
      | some v, _ => edgeOk v
      | none, false => false
    posOk && polyOk

def convertWall (b : Bdl) (w : BWall) : Except String MWall :=
  let spaceNames := b.spaces.map (·.name)
  if !has (b.walls.map (·.name)) w.name then .error "Muro no identificado"
  else if !has (b.wallcons.map (·.key)) w.cons then .error "Construcción de opaco no identificada"
  else if !has spaceNames w.space then .error "Espacio no identificado"
  else match w.nextto with
    | some n =>
      if !has spaceNames n then .error "Espacio no identificado"
      else if wallGeomOk b w then .ok { id := w.name, cons := w.cons, space := w.space, nextTo := some n } else .error "geometría"
    | none =>
      if wallGeomOk b w then .ok { id := w.name, cons := w.cons, space := w.space, nextTo := none } else .error "geometría"

def convertWindow (b : Bdl) (w : BWindow) : Except String MWindow :=
  if !has (b.walls.map (·.name)) w.wall then .error "Muro del hueco no encontrado"
  else .ok { id := w.name, cons := w.cons, wall := w.wall }

def convertYear (b : Bdl) (y : BYear) : Except String MSched :=
  -- `as u32` saturates a negative day number (month 0) to 0
  let ends := (y.days.zip y.months).map (fun dm => ((Cte.dayOfYear dm.1 dm.2).toNat : Int))
  match Cte.periodLengths ends with
  | none => .error "Fechas no crecientes en horario anual"
  | some counts =>
    if !(counts.length == y.weeks.length && counts.length == y.months.length && counts.length == y.days.length) then
      .error "Longitudes incoherentes en horario anual"
    else match mapM' (lookup (b.weeks.map (·.name)) "Horario") y.weeks with
      | .error e => .error e
      | .ok ws => .ok { id := y.name, refs := ws.zip counts |>.map (·.1) }

def convertWeek (b : Bdl) (w : BWeek) : Except String MSched :=
  match w.days with
  | [d] =>
    match lookup b.days "Horario" d with
    | .error e => .error e
    | .ok x => .ok { id := w.name, refs := [x] }
  | ds =>
    if ds.length == 7 then
      match mapM' (lookup b.days "Horario") ((Cte.weekRuns ds).map (·.1)) with
      | .error e => .error e
      | .ok rs => .ok { id := w.name, refs := rs }
    else .error "Longitud incorrecta de horario semanal"

def need (o : Option Name) : Except String Name :=
  match o with
  | some n => .ok n
  | none => .error "Atributo no encontrado"

def convertLoads (b : Bdl) (l : BLoads) : Except String MLoads :=
  let years := b.years.map (·.name)
  if !l.numericOk then .error "Atributo no encontrado" else
  match need l.people >>= lookup years "Horario", need l.equip >>= lookup years "Horario", need l.light >>= lookup years "Horario" with
  | .ok p, .ok e, .ok li => .ok { id := l.key, people := p, equip := e, light := li }
  | .error e, _, _ => .error e
  | _, .error e, _ => .error e
  | _, _, .error e => .error e

def convertThermo (b : Bdl) (t : BThermo) : Except String MThermo :=
  let years := b.years.map (·.name)
  if t.conditioned then
    match need t.cool >>= lookup years "Horario", need t.heat >>= lookup years "Horario" with
    | .ok c, .ok h => .ok { id := t.key, tmax := some c, tmin := some h }
    | .error e, _ => .error e
    | _, .error e => .error e
  else .ok { id := t.key, tmax := none, tmin := none }

/-- `spaces_from_bdl`: both conditions names must resolve -/
def convertSpace (b : Bdl) (s : BSpace) : Except String MSpace :=
  if !has (b.loads.map (·.key)) s.spaceconds then .error "Cargas de espacio no identificadas"
  else if !has (b.thermostats.map (·.key)) s.systemconds then .error "Consignas de espacio no identificadas"
  else .ok { id := s.name, loads := some s.spaceconds, thermostat := some s.systemconds }

/-- `Model::try_from`, references only -/
def convert (b : Bdl) : Except String Mdl :=
  match consFromBdl b with
  | .error e => .error e
  | .ok (wallcons, wincons, materials, glasses, frames) =>
    match mapM' (convertSpace b) b.spaces with
    | .error e => .error e
    | .ok spaces =>
    match mapM' (convertWall b) b.walls with
    | .error e => .error e
    | .ok walls =>
      match mapM' (convertWindow b) b.windows with
      | .error e => .error e
      | .ok windows =>
        match mapM' (convertWeek b) b.weeks, mapM' (convertYear b) b.years with
        | .error e, _ => .error e
        | _, .error e => .error e
        | .ok weeks, .ok years =>
          match mapM' (convertLoads b) b.loads with
          | .error e => .error e
          | .ok loads =>
            match mapM' (convertThermo b) b.thermostats with
            | .error e => .error e
            | .ok thermostats =>
              .ok { walls := walls, windows := windows, spaces := spaces, wallcons := wallcons, wincons := wincons,
                    materials := materials, glasses := glasses, frames := frames, years := years, weeks := weeks,
                    days := b.days, loads := loads, thermostats := thermostats }

/-- every reference of the model resolves inside the model -/
def closed (m : Mdl) : Bool :=
  let wc := m.wallcons.map (·.id)
  let sp := m.spaces.map (·.id)
  let wl := m.walls.map (·.id)
  let wnc := m.wincons.map (·.id)
  let ld := m.loads.map (·.id)
  let th := m.thermostats.map (·.id)
  let yr := m.years.map (·.id)
  let wk := m.weeks.map (·.id)
  m.walls.all (fun w => has wc w.cons && has sp w.space && (match w.nextTo with | some n => has sp n | none => true)) &&
  m.windows.all (fun w => has wnc w.cons && has wl w.wall) &&
  m.wallcons.all (fun c => c.layers.all (has m.materials)) &&
  m.wincons.all (fun c => has m.glasses c.glass && has m.frames c.frame) &&
  m.spaces.all (fun s => (match s.loads with | some l => has ld l | none => true) &&
                         (match s.thermostat with | some t => has th t | none => true)) &&
  m.loads.all (fun l => has yr l.people && has yr l.equip && has yr l.light) &&
  m.thermostats.all (fun t => (match t.tmax with | some x => has yr x | none => true) &&
                              (match t.tmin with | some x => has yr x | none => true)) &&
  m.years.all (fun y => y.refs.all (has wk)) &&
  m.weeks.all (fun w => w.refs.all (has m.days))

end Cte.Conv
