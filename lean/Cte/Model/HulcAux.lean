/-
  C18 — the two auxiliary HULC files: `KyGananciasSolares.txt` (hulc/src/kyg.rs) and `NewBDL_O.tbl` (hulc/src/tbl.rs),
  as total functions on `List Char`.  Numbers keep the written decimal (`Bdl.parseF32`).
-/
import Cte.Model.Bdl

namespace Cte.Aux
open Cte.Bdl

/-- pieces between the characters that satisfy `p`; never empty (`"" ↦ [""]`) -/
def splitBy (p : Char → Bool) : Str → List Str
  | [] => [[]]
  | x :: t =>
    if p x then [] :: splitBy p t
    else match splitBy p t with
      | h :: r => (x :: h) :: r
      | [] => [[x]]

/-- `str::split(c)` -/
def splitChar (c : Char) (s : Str) : List Str := splitBy (· == c) s

/-- `str::split_whitespace` -/
def splitWs (s : Str) : List Str := (splitBy isWs s).filter (fun w => !w.isEmpty)

/-- `v.replace(',', ".").parse::<f32>()` -/
def commaNum (s : Str) : Option Num := parseF32 (s.map (fun c => if c = ',' then '.' else c))

/-- `str::parse::<i32>()`: optional sign, digits, within range -/
def parseI32 (s : Str) : Option Int :=
  let neg := (stripSign s).1
  let ds := (stripSign s).2
  if ds.isEmpty || !ds.all isDigit then none
  else
    let v : Int := if neg then -(digitsVal 0 ds : Int) else (digitsVal 0 ds : Int)
    if -2147483648 ≤ v ∧ v ≤ 2147483647 then some v else none

/-! ### KyGananciasSolares.txt -/

structure KWindow where
  name : Str
  orientation : Str
  a : Num
  u : Num
  ff : Num              -- as written (per cent); the code divides by 100
  extra : Option (Num × Num × Num × Num × Str)   -- ggln, unknown1, unknown2, infcoeff_100, cons
  deriving Repr

structure KWall where
  name : Str
  a : Num
  u : Num
  btrx : Num
  extra : Option (Str × Str × Str)   -- wtype, orientation, cons
  deriving Repr

structure KTb where
  name : Str
  l : Num
  psi : Num
  sisdim : Str
  deriving Repr

structure KGain where
  name : Str
  azimuth : Num
  htot : Num
  h3 : Num
  deriving Repr

structure Kyg where
  k : Option Num := none
  windows : List KWindow := []
  walls : List KWall := []
  tbs : List KTb := []
  hfactors : List Num := []
  gains : List KGain := []
  deriving Repr

def nth (l : List Str) (i : Nat) : Str := l.getD i []

def replaceOW (s : Str) : Str := s.map (fun c => if c = 'O' then 'W' else c)

/-- one line of the file (already trimmed) -/
def kygLine (st : Kyg) (line : Str) : Except String Kyg :=
  if startsWith ['#'] line || line.isEmpty then .ok st
  else if startsWith "Muro".toList line || startsWith "Ventana".toList line || startsWith "PPTT".toList line then
    let vv := (splitChar ';' line).map trim
    let tipo := nth vv 0
    if tipo == "Ventana".toList then
      if vv.length < 6 then .error "formato de hueco"
      else
        let extra : Except String (Option (Num × Num × Num × Num × Str)) :=
          if vv.length > 10 then
            match commaNum (nth vv 6), commaNum (nth vv 7), commaNum (nth vv 8), commaNum (nth vv 9) with
            | some a, some b, some c, some d => .ok (some (a, b, c, d, nth vv 10))
            | _, _, _, _ => .error "número"
          else .ok none
        match extra, commaNum (nth vv 2), commaNum (nth vv 3), commaNum (nth vv 5) with
        | .ok ex, some a, some u, some ff =>
          .ok { st with windows := st.windows ++ [{ name := nth vv 1, orientation := replaceOW (nth vv 4), a := a, u := u, ff := ff, extra := ex }] }
        | _, _, _, _ => .error "número"
    else if tipo == "Muro".toList then
      if vv.length < 5 then .error "formato de opaco"
      else
        match commaNum (nth vv 2), commaNum (nth vv 3), commaNum (nth vv 4) with
        | some a, some u, some b =>
          let extra := if vv.length > 7 then some (nth vv 5, nth vv 6, nth vv 7) else none
          .ok { st with walls := st.walls ++ [{ name := nth vv 1, a := a, u := u, btrx := b, extra := extra }] }
        | _, _, _ => .error "número"
    else if tipo == "PPTT".toList then
      if vv.length < 4 then .error "formato de PT"
      else
        match commaNum (nth vv 1), commaNum (nth vv 2) with
        | some l, some psi =>
          .ok { st with tbs := st.tbs ++ [{ name := nth vv 3, l := l, psi := psi, sisdim := if vv.length > 4 then nth vv 4 else [] }] }
        | _, _ => .error "número"
    else .ok st   -- a type word followed by other characters: warned about and skipped
  else if startsWith ['"'] line then
    let vv := (splitChar ';' line).map trim
    if vv.length < 8 then .error "formato de ganancias"
    else
      match parseF32 (nth vv 1), parseF32 (nth vv 2), parseF32 (nth vv 3), parseF32 (nth vv 4), parseF32 (nth vv 5),
            parseF32 (nth vv 6), parseF32 (nth vv 7) with
      | some az, some _, some htot, some _, some _, some h3, some _ =>
        .ok { st with gains := st.gains ++ [{ name := trimMatches '"' (nth vv 0), azimuth := az, htot := htot, h3 := h3 }] }
      | _, _, _, _, _, _, _ => .error "número"
  else if startsWith "Coeficiente K".toList line then
    match (splitChar ';' line)[1]? with
    | none => .error "K"
    | some f => match commaNum (trim f) with
      | some k => .ok { st with k := some k }
      | none => .error "número"
  else if (match line with | c :: _ => "012345678".toList.contains c | [] => false) then
    match (splitChar ';' line)[1]? with
    | none => .error "factor"
    | some f => match commaNum (trim f) with
      | some v => .ok { st with hfactors := st.hfactors ++ [v] }
      | none => .error "número"
  else .ok st

def kygFold : Kyg → List Str → Except String Kyg
  | st, [] => .ok st
  | st, l :: t =>
    match kygLine st l with
    | .ok st' => kygFold st' t
    | .error e => .error e

/-- `kyg::parse` (before the final join of windows with their gains line, which the comparator does by name) -/
def kygParse (data : Str) : Except String Kyg := kygFold {} ((linesOf data).map trim)

/-! ### NewBDL_O.tbl -/

structure TElement where
  name : Str
  nums : List Num      -- area, u, w_or_inf, g_winter, g_summer, ang_north, tilt
  etype : Str
  idSurf : Int
  idSpace : Int
  deriving Repr

structure TSpace where
  name : Str
  idSpace : Int
  mult : Int
  area : Num
  qint : Num
  deriving Repr

def elemTypes : List String := ["0", "1", "2", "-2", "-3", "-4", "-5"]

def parseElement (s : Str) : Option TElement :=
  let d := splitWs s
  if d.length != 11 then none
  else
    match ((d.drop 1).take 7).mapM parseF32, parseI32 (nth d 9), parseI32 (nth d 10) with
    | some ns, some a, some b =>
      if elemTypes.any (fun t => t.toList == nth d 8) then some { name := nth d 0, nums := ns, etype := nth d 8, idSurf := a, idSpace := b } else none
    | _, _, _ => none

def parseSpace (s : Str) : Option TSpace :=
  let d := splitWs s
  if d.length != 5 then none
  else
    match parseI32 (nth d 1), parseI32 (nth d 2), parseF32 (nth d 3), parseF32 (nth d 4) with
    | some a, some b, some c, some e => some { name := nth d 0, idSpace := a, mult := b, area := c, qint := e }
    | _, _, _, _ => none

structure Tbl where
  elements : List (Str × TElement) := []
  spaces : List (Str × TSpace) := []
  deriving Repr

def assocInsert {α : Type} (m : List (Str × α)) (k : Str) (v : α) : List (Str × α) :=
  if m.any (·.1 == k) then m.map (fun e => if e.1 == k then (k, v) else e) else m ++ [(k, v)]

/-- the element loop: name line, values line; stops after `n` elements (a count of 0 never stops it) -/
def tblElements (fuel : Nat) (n : Int) (idx : Int) (acc : List (Str × TElement)) (lines : List Str) :
    Except String (List (Str × TElement) × List Str) :=
  match fuel with
  | 0 => .ok (acc, lines)
  | fuel + 1 =>
    match lines with
    | [] => .ok (acc, [])
    | line :: rest =>
      let name := trim (trimMatches '"' line)
      match rest with
      | [] => .error "sin línea de propiedades"
      | values :: rest' =>
        match parseElement (name ++ [' '] ++ values) with
        | none => .error "formato desconocido del elemento"
        | some e =>
          let acc' := assocInsert acc name e
          if idx + 1 = n then .ok (acc', rest') else tblElements fuel n (idx + 1) acc' rest'

def tblSpaces (fuel : Nat) (n : Int) (idx : Int) (acc : List (Str × TSpace)) (lines : List Str) :
    Except String (List (Str × TSpace)) :=
  match fuel with
  | 0 => .ok acc
  | fuel + 1 =>
    match lines with
    | [] => .ok acc
    | line :: rest =>
      let name := trimMatches '"' line
      match rest with
      | [] => .error "sin línea de propiedades"
      | values :: rest' =>
        match parseSpace (name ++ [' '] ++ values) with
        | none => .error "formato desconocido del espacio"
        | some e =>
          let acc' := assocInsert acc name e
          if idx + 1 = n then .ok acc' else tblSpaces fuel n (idx + 1) acc' rest'

/-- `tbl::parse` on the decoded text -/
def tblParse (data : Str) : Except String Tbl :=
  match (linesOf data).drop 2 with
  | [] => .error "sin número de elementos"
  | counts :: rest =>
    match (splitWs counts).mapM parseI32 with
    | none => .error "número de elementos"
    | some nums =>
      if nums.length < 2 then .error "formato del número de elementos"
      else
        match tblElements rest.length (nums.getD 0 0) 0 [] rest with
        | .error e => .error e
        | .ok (els, rest') =>
          match tblSpaces rest'.length (nums.getD 1 0) 0 [] rest' with
          | .error e => .error e
          | .ok sps => .ok { elements := els, spaces := sps }

end Cte.Aux
