/-
Walk of a JSON document along a schema of struct codecs: every struct level is decoded and re-encoded
with `Codec.decodeFields` / `Codec.encodeFields`, so the result is the canonical serialisation the
format prescribes (defaults omitted, unknown keys dropped, keys in declaration order).
-/
import Cte.Model.Codec
namespace Cte
open Codec

inductive Ty where
  | leaf
  | opt (t : Ty)
  | list (t : Ty)
  | tuple (ts : List Ty)
  | struct (name : String)
  | map (t : Ty)
  | untagged (name : String)
  deriving Inhabited

structure FieldT where
  field : Field
  ty : Ty
  /-- `#[serde(flatten)]`: the fields of the value are written into the parent object -/
  flatten : Bool := false
  deriving Inhabited

structure StructSpec where
  name : String
  fields : List FieldT
  deriving Inhabited

/-- numbers in canonical form: mantissa without trailing zeros, zero as 0e0 (the sign of zero is kept) -/
def canonNum (neg : Bool) (m : Nat) (e : Int) : J :=
  if m = 0 then J.num neg 0 0 else
    let rec go : Nat → Nat → Int → Nat × Int
      | 0, m, e => (m, e)
      | fuel + 1, m, e => if m % 10 = 0 then go fuel (m / 10) (e + 1) else (m, e)
    let r := go 400 m e
    J.num neg r.1 r.2

inductive WalkErr where
  | missing (where_ : String)
  | shape (where_ : String)
  | noVariant (where_ : String)
  | fuel
  deriving Repr, Inhabited

abbrev W := Except WalkErr

mutual
  /-- canonical re-serialisation of `j` at type `t` -/
  def recode (schema : List StructSpec) (alts : List (String × List (List FieldT))) : Nat → Ty → J → W J
    | 0, _, _ => throw .fuel
    | fuel + 1, t, j =>
      match t, j with
      | .leaf, .num n m e => pure (canonNum n m e)
      | .leaf, .arr l => do pure (J.arr (← l.mapM (recode schema alts fuel .leaf)))
      | .leaf, v => pure v
      | .opt _, .null => pure .null
      | .opt t', v => recode schema alts fuel t' v
      | .list t', .arr l => do pure (J.arr (← l.mapM (recode schema alts fuel t')))
      | .list _, _ => throw (.shape "list")
      | .tuple ts, .arr l =>
        if ts.length ≠ l.length then throw (.shape "tuple") else
          do pure (J.arr (← (ts.zip l).mapM (fun p => recode schema alts fuel p.1 p.2)))
      | .tuple _, _ => throw (.shape "tuple")
      | .map t', .obj kvs => do
        -- BTreeMap: keys sorted
        let kvs' ← kvs.mapM (fun kv => do pure (kv.1, ← recode schema alts fuel t' kv.2))
        pure (J.obj (kvs'.toArray.qsort (fun a b => a.1 < b.1)).toList)
      | .map _, _ => throw (.shape "map")
      | .struct name, .obj kvs =>
        match schema.find? (·.name = name) with
        | none => throw (.shape ("unknown struct " ++ name))
        | some s => do pure (J.obj (← recodeFields schema alts fuel s.fields kvs))
      | .struct name, _ => throw (.shape ("struct " ++ name))
      | .untagged name, .obj kvs =>
        match alts.find? (·.1 = name) with
        | none => throw (.shape ("unknown untagged " ++ name))
        | some (_, variants) => do pure (J.obj (← recodeAlts schema alts fuel name variants kvs))
      | .untagged name, _ => throw (.shape ("untagged " ++ name))
  /-- one struct level: decode every field (error on a missing required one), recode its value, encode -/
  def recodeFields (schema : List StructSpec) (alts : List (String × List (List FieldT))) :
      Nat → List FieldT → List (String × J) → W (List (String × J))
    | 0, _, _ => throw .fuel
    | _, [], _ => pure []
    | fuel + 1, f :: rest, obj => do
      let here ←
        if f.flatten then
          match recode schema alts fuel f.ty (J.obj obj) with
          | .ok (J.obj kvs) => pure kvs
          | .ok _ => throw (.shape "flatten")
          | .error e => throw e
        else
          match f.field.get (Codec.lookup f.field.key obj) with
          | none => throw (.missing f.field.key)
          | some v => do
            let v' ← recode schema alts fuel f.ty v
            pure (f.field.put v')
      let tail ← recodeFields schema alts fuel rest obj
      pure (here ++ tail)
  /-- `#[serde(untagged)]`: the first alternative that decodes -/
  def recodeAlts (schema : List StructSpec) (alts : List (String × List (List FieldT))) :
      Nat → String → List (List FieldT) → List (String × J) → W (List (String × J))
    | 0, _, _, _ => throw .fuel
    | _, name, [], _ => throw (.noVariant name)
    | fuel + 1, name, v :: vs, obj =>
      match recodeFields schema alts fuel v obj with
      | .ok r => pure r
      | .error _ => recodeAlts schema alts fuel name vs obj
end

end Cte
