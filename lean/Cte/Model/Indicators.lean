/-
The three headline indicators as functions of the model alone (`EnergyIndicators::compute`,
indicators/types.rs): K, n50 and q_sol;jul assembled from the props the way the code does it.
`fsh` carries the computed obstruction factors (C12's model, or the implementation's in the
correspondence runs), `rad` the July irradiation table of the model's climate zone.
-/
import Cte.Model.Energy
namespace Cte

/-- `KData::from(&props)`: thermal bridges come from the props' id-keyed map -/
def Model.kOf (F : Fns) (m : Model) (fsh : Id → Option Rat) : KData :=
  kData (m.wallProps F) (m.winProps F fsh) (lastById (·.id) m.thermalBridges)

/-- `N50Data::from(&props)` -/
def Model.n50Of (F : Fns) (m : Model) (fsh : Id → Option Rat) : N50Data :=
  let g := m.globalProps F
  n50Data (m.wallProps F) (m.winProps F fsh) (m.winConsProps F) g.volEnvNet g.cO100 m.info.n50Test

/-- `QSolJulData::from(&props)` -/
def Model.qsolOf (F : Fns) (m : Model) (fsh : Id → Option Rat) (rad : Orient → Option Rat) : QSolJul :=
  qSolJul (m.winProps F fsh) (m.winConsProps F) rad (m.globalProps F).aRef

end Cte
