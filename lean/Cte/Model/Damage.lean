/-
  C19 — the pieces of parsing/conversion that used to crash on damaged files, as total functions.
  `Polygon::edge_vertices` (hulc/src/bdl/envelope/geom.rs) and the year-schedule day counts
  (`schedules_from_bdl`, bemodel/src/convert/from_ctehexml.rs; the latter is `Schedules.periodLengths`).
-/
namespace Cte.Damage

def isDigit (c : Char) : Bool := decide ('0' ≤ c ∧ c ≤ '9')

def digitVal (c : Char) : Nat := c.toNat - '0'.toNat

/-- value of a digit string read left to right (accumulator first) -/
def digitsVal : Nat → List Char → Nat
  | acc, [] => acc
  | acc, c :: t => digitsVal (acc * 10 + digitVal c) t

/-- Rust `str::parse::<usize>()` on a 64-bit target: an optional leading `+`, then one or more ASCII digits;
    `-`, blanks, other characters, the empty string and values ≥ 2^64 are errors -/
def parseUsize (s : List Char) : Option Nat :=
  let ds := match s with
    | '+' :: r => r
    | r => r
  if ds.isEmpty then none
  else if ds.all isDigit then
    let v := digitsVal 0 ds
    if v < 2 ^ 64 then some v else none
  else none

/-- `Polygon::edge_vertices(name)` on an outline of `n` vertices: the indices of the two vertices of the edge
    that starts at vertex `Vk` (1-based), the last edge closing on vertex 0; `none` for every other name -/
def edgeVertices (name : List Char) (n : Nat) : Option (Nat × Nat) :=
  match name with
  | 'V' :: r =>
    match parseUsize r with
    | some k => if k = 0 then none else if k - 1 < n then some (k - 1, k % n) else none
    | none => none
  | _ => none

/-- what the three results of a parse-and-convert run can be; a crash is a separate constructor so that the
    implementation's observation can be mapped onto it and a theorem can say the model never produces it -/
inductive Verdict where
  | converted
  | rejected
  | crashed
  deriving DecidableEq, Repr

/-- verdict of a staged run whose stages return `Except` (the shape of `Data::new` then `Model::try_from`) -/
def verdict {E D M : Type} (parse : String → Except E D) (conv : D → Except E M) (text : String) : Verdict :=
  match parse text with
  | .error _ => .rejected
  | .ok d =>
    match conv d with
    | .error _ => .rejected
    | .ok _ => .converted

end Cte.Damage
