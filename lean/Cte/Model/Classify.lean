/-
Angle classifiers: `Tilt::from(f32)`, `Orientation::from(f32)` (bemodel/src/types/common.rs) and
`hulc::bdl::Wall::position`.
-/
import Cte.Model.Types
namespace Cte

def tiltClass (t : Rat) : TiltC :=
  let t := normalize t 0 360
  if t ≤ 60 then .top
  else if t < 120 then .side
  else if t < 240 then .bottom
  else if t < 300 then .side
  else .top

def orientClass (a : Rat) : Orient :=
  let a := normalize a 0 360
  if a < 18 then .s
  else if a < 69 then .se
  else if a < 120 then .e
  else if a < 315 / 2 then .ne
  else if a < 405 / 2 then .n
  else if a < 240 then .nw
  else if a < 291 then .w
  else if a < 342 then .sw
  else .s

def Wall.tiltC (w : Wall) : TiltC := tiltClass w.geometry.tilt

/-- `Orientation::from(&Wall)` -/
def Wall.orient (w : Wall) : Orient :=
  match w.tiltC with
  | .side => orientClass w.geometry.azimuth
  | _ => .hz

def TiltC.str : TiltC → String | .top => "TOP" | .side => "SIDE" | .bottom => "BOTTOM"
def Orient.str : Orient → String
  | .n => "N" | .ne => "NE" | .e => "E" | .se => "SE" | .s => "S" | .sw => "SW" | .w => "W"
  | .nw => "NW" | .hz => "HZ"
def Bounds.str : Bounds → String
  | .exterior => "EXTERIOR" | .interior => "INTERIOR" | .ground => "GROUND" | .adiabatic => "ADIABATIC"

end Cte
