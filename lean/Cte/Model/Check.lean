/-
`bemodel::check` (bemodel/src/checks.rs): the model checker, in the code's order.
-/
import Cte.Model.Types
namespace Cte

inductive WarnKind | wallSpace | wallCons | wallNextTo | winWall | winCons | tbNegative
  deriving DecidableEq, Repr, Inhabited

structure Warn where
  id : Id
  kind : WarnKind
  deriving DecidableEq, Repr, Inhabited

def Model.spaceIds (m : Model) : List Id := m.spaces.map (·.id)
def Model.wallIds (m : Model) : List Id := m.walls.map (·.id)
def Model.wallConsIds (m : Model) : List Id := m.cons.wallcons.map (·.id)
def Model.winConsIds (m : Model) : List Id := m.cons.wincons.map (·.id)

/-- `w.next_to.is_some() && !spaceids.contains(&w.next_to.unwrap())` -/
def nextToBroken (spaceIds : List Id) (w : Wall) : Bool :=
  match w.nextTo with
  | some n => !spaceIds.contains n
  | none => false

/-- warnings pushed for one wall, in the code's order -/
def wallWarns (spaceIds wallConsIds : List Id) (w : Wall) : List Warn :=
  (if !spaceIds.contains w.space then [⟨w.id, .wallSpace⟩] else []) ++
  (if !wallConsIds.contains w.cons then [⟨w.id, .wallCons⟩] else []) ++
  (if nextToBroken spaceIds w then [⟨w.id, .wallNextTo⟩] else [])

def winWarns (wallIds winConsIds : List Id) (w : Window) : List Warn :=
  (if !wallIds.contains w.wall then [⟨w.id, .winWall⟩] else []) ++
  (if !winConsIds.contains w.cons then [⟨w.id, .winCons⟩] else [])

/-- the length test: `tb.l < 0.0` (after the repair of F-C15; the pinned commit used the IEEE
sign bit, which also flags `-0.0`) -/
def tbWarns (tb : ThermalBridge) : List Warn :=
  if tb.l < 0 then [⟨tb.id, .tbNegative⟩] else []

def check (m : Model) : List Warn :=
  m.walls.flatMap (wallWarns m.spaceIds m.wallConsIds) ++
  m.windows.flatMap (winWarns m.wallIds m.winConsIds) ++
  m.thermalBridges.flatMap tbWarns

end Cte
