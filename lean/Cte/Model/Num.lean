/-
Exact-rational arithmetic helpers shared by every model file.
Import-free (core `Rat` only) so that the compiled driver can link.
-/
namespace Cte

/-- Round to the nearest integer, ties away from zero (Rust `f32::round`). -/
def roundHalfAway (x : Rat) : Int :=
  if x ≥ 0 then (x + 1/2).floor else -((-x + 1/2).floor)

/-- `fround2`: `(x * 100).round() / 100`. -/
def round2 (x : Rat) : Rat := (roundHalfAway (x * 100) : Rat) / 100

/-- `fround3`: `(x * 1000).round() / 1000`. -/
def round3 (x : Rat) : Rat := (roundHalfAway (x * 1000) : Rat) / 1000

/-- `utils::normalize`: wrap `v` into `[s, e)`. -/
def normalize (v s e : Rat) : Rat :=
  let w := e - s
  let o := v - s
  (o - ((o / w).floor : Rat) * w) + s

def rabs (x : Rat) : Rat := if x < 0 then -x else x

def rmax (a b : Rat) : Rat := if a < b then b else a
def rmin (a b : Rat) : Rat := if b < a then b else a

def rsum (l : List Rat) : Rat := l.foldl (· + ·) 0

/-- `f32::EPSILON` = 2⁻²³ -/
def f32Eps : Rat := 1 / 8388608

/-- `10^e` for an integer exponent. -/
def pow10 (e : Int) : Rat :=
  if e ≥ 0 then ((10 ^ e.toNat : Nat) : Rat) else 1 / ((10 ^ (-e).toNat : Nat) : Rat)

/-- Decimal rendering with `d` fractional digits (round half away), for the driver's output. -/
def ratToDec (r : Rat) (d : Nat := 9) : String :=
  let scaled := roundHalfAway (r * ((10 ^ d : Nat) : Rat))
  let neg := scaled < 0
  let n := scaled.natAbs
  let ip := n / 10 ^ d
  let fp := n % 10 ^ d
  let fs := toString fp
  let pad := String.ofList (List.replicate (d - fs.length) '0')
  (if neg then "-" else "") ++ toString ip ++ (if d = 0 then "" else "." ++ pad ++ fs)

/-- exact value of a finite IEEE-754 binary32 given by its bit pattern -/
def f32ToRat (bits : Nat) : Rat :=
  let sign := bits / 2147483648 % 2
  let e := bits / 8388608 % 256
  let m := bits % 8388608
  let mag : Rat :=
    if e = 0 then (m : Rat) / ((2 ^ 149 : Nat) : Rat)
    else
      let mant : Rat := ((m + 8388608 : Nat) : Rat)
      if e ≥ 150 then mant * ((2 ^ (e - 150) : Nat) : Rat) else mant / ((2 ^ (150 - e) : Nat) : Rat)
  if sign = 1 then -mag else mag

end Cte
