/-
`hulc2model::fix_ecdata_from_extra` (hulc2model/src/lib.rs): what `--use-extra` adds to the converted model from HULC's
result files — user U-values of walls (KyGananciasSolares.txt; NewBDL_O.tbl for partitions), obstruction factors of windows,
and the list `extra` of opaque elements whose U in the files differs from the computed one.
Values arrive already rounded to two decimals (`fround2`), as the code compares them.
-/
import Cte.Model.Num
namespace Cte.Extra

structure WallIn where
  name : String
  id : String
  interior : Bool
  /-- `fround2(computed U, 0 when there is none)` -/
  computedU : Rat
  deriving DecidableEq, Repr

structure WinIn where
  name : String
  id : String
  /-- computed obstruction factor, when the indicators have one for this window -/
  computedFsh : Option Rat
  deriving DecidableEq, Repr

/-- the parsed files: `fround2` of the U of each wall row / element row, `fround2` of each window's F_sh;obst -/
structure Files where
  kyg : Option (List (String × Rat) × List (String × Rat))    -- walls, windows
  tbl : Option (List (String × Rat))
  deriving Repr

def lookup (k : String) : List (String × Rat) → Option Rat
  | [] => none
  | (k', v) :: t => if k' = k then some v else lookup k t

def significantU (u computed : Rat) : Bool := decide (rabs (u - computed) > 1 / 1000)

/-- U of a wall after the KyG pass: the file's value when the wall is listed, else 0 -/
def uAfterKyg (f : Files) (w : WallIn) : Rat :=
  match f.kyg with
  | some (walls, _) => (lookup w.name walls).getD 0
  | none => 0

/-- U of a wall after both passes; `none` when the .tbl is given and lacks an interior wall (the code returns an error) -/
def uFinal (f : Files) (w : WallIn) : Option Rat :=
  match f.tbl with
  | some els => if w.interior then lookup w.name els else some (uAfterKyg f w)
  | none => some (uAfterKyg f w)

/-- wall overrides written by the two passes, in order (a later entry for the same id replaces the earlier one) -/
def wallOverrides (f : Files) (ws : List WallIn) : List (String × Rat) :=
  (match f.kyg with
   | some (walls, _) => ws.filterMap (fun w => match lookup w.name walls with
      | some u => if significantU u w.computedU then some (w.id, u) else none
      | none => none)
   | none => []) ++
  (match f.tbl with
   | some els => ws.filterMap (fun w => if w.interior then
        (match lookup w.name els with
         | some u => if significantU u w.computedU then some (w.id, u) else none
         | none => none) else none)
   | none => [])

/-- window overrides: the file's factor when it differs from the computed one by more than 0.01, or when there is none computed -/
def winOverrides (f : Files) (ws : List WinIn) : List (String × Rat) :=
  match f.kyg with
  | some (_, wins) => ws.filterMap (fun w => match lookup w.name wins with
      | some fs =>
        let significant := match w.computedFsh with
          | some c => decide (rabs (c - fs) > 1 / 100)
          | none => true
        if significant then some (w.id, fs) else none
      | none => none)
  | none => []

/-- names of the walls kept in `extra`, or `none` when the .tbl lacks a partition -/
def extraNames (f : Files) (ws : List WallIn) : Option (List String) :=
  (ws.mapM (fun w => (uFinal f w).map (fun u => (w, u)))).map
    (fun l => (l.filter (fun p => significantU p.2 p.1.computedU)).map (·.1.name))

end Cte.Extra
