/-
The sanity conditions of C14 as one executable test: `saneU F m` evaluates exactly the hypotheses
under which `Cte.C14S.saneU_walls_finite` proves that no U-value of the model carries a failed
division.  The driver evaluates it on the models the harness calls sane, so the reach of the theorem
on that population is measured, not assumed.
-/
import Cte.Model.Energy
namespace Cte

/-- resistance of the construction of a wall, when both resolve -/
def Wall.resOf (w : Wall) (m : Model) : Option Rat :=
  (m.cons.getWallCons w.cons).bind (fun c => c.resistance m.cons)

/-- what the partition formula needs from a space on its unconditioned side (the Boolean part of `UncondOK`) -/
def uncondOKb (F : Fns) (m : Model) (s : Space) : Bool :=
  decide (0 ≤ (s.uaExt F m).v) && decide (0 ≤ s.area m.walls * s.heightNet F m.walls m.cons) &&
  (match (match s.nV with | some n => Vent.fin n | none => m.globalVentilationU F) with
   | .fin n => decide (0 ≤ n)
   | _ => false)

def saneU (F : Fns) (m : Model) : Bool :=
  decide (F.bias = 0) && decide (0 < F.pi) &&
  m.walls.all (fun x => decide (0 < x.area)) &&
  m.walls.all (fun x => match x.resOf m with | some r => decide (0 ≤ r) | none => true) &&
  decide (0 ≤ m.info.dPerimInsulation) && decide (0 ≤ m.info.rnPerimInsulation) &&
  m.walls.all (fun w => w.bounds != .ground ||
    (match w.resOf m with | some r => decide (0 < F.r2 (uExteriorRaw w.tiltC r)) | none => true)) &&
  m.spaces.all (fun s => uncondOKb F m s)

/-- walls whose U-value carries a failed division -/
def nfWalls (F : Fns) (m : Model) : List Id :=
  (m.walls.filter (fun w => match w.uValue F m with | some u => u.nf | none => false)).map (·.id)

end Cte
