/-
Schedules: `SchedulesDb::get_year_as_day_sch` / `year_values` (types/schedules.rs), the HULC end-date
conversion (`schedules_from_bdl`, `day_of_year` in convert/from_ctehexml.rs) and the occupancy
figures of `EnergyProps::from` (props.rs).
-/
import Cte.Model.Types
import Cte.Model.Energy
namespace Cte

/-! ### expansion of yearly and weekly schedules -/

/-- `ScheduleWeek::to_day_sch` -/
def weekToDays (w : Schedule) : List Id := w.values.flatMap (fun e => List.replicate e.2 e.1)

def SchedulesDb.getYear (db : SchedulesDb) (id : Id) : Option Schedule := db.year.find? (·.id = id)
def SchedulesDb.getWeek (db : SchedulesDb) (id : Id) : Option Schedule := db.week.find? (·.id = id)
def SchedulesDb.getDay (db : SchedulesDb) (id : Id) : Option ScheduleDay := db.day.find? (·.id = id)

/-- `iter.cycle().skip(s).take(n)` of a list: nothing for an empty list -/
def cycleSkipTake (l : List Id) (s n : Nat) : List Id :=
  if h : l = [] then []
  else (List.range n).map (fun i => l[(s + i) % l.length]'(Nat.mod_lt _ (List.length_pos_iff.mpr h)))

/-- the loop of `get_year_as_day_sch`: (days so far, running day count) -/
def yearStep (db : SchedulesDb) (st : List Id × Nat) (e : Id × Nat) : List Id × Nat :=
  let days := ((db.getWeek e.1).map weekToDays).getD []
  (st.1 ++ cycleSkipTake days (st.2 % 7) e.2, st.2 + e.2)

/-- `SchedulesDb::get_year_as_day_sch` -/
def yearAsDays (db : SchedulesDb) (id : Id) : List Id :=
  match db.getYear id with
  | none => []
  | some y => (y.values.foldl (yearStep db) ([], 0)).1

/-- `ScheduleDay::values_is_not_zero`: |v| > 100·ε -/
def notZero (v : Rat) : Bool := decide (rabs v > 100 * f32Eps)

/-! ### HULC end dates → periods -/

/-- `day_of_year(day, month)`: ⌊275·m/9⌋ − 2·⌊(m+9)/12⌋ + d − 30 (non-leap year), truncated to u32 -/
def dayOfYear (day month : Nat) : Int :=
  ((275 * (month : Rat) / 9).floor) - 2 * (((month : Rat) + 9) / 12).floor + day - 30

/-- period lengths from the end dates: differences of consecutive day numbers starting from 0
(`checked_sub` on u32: a list that goes backwards is rejected; `none`) -/
def periodLengths (ends : List Int) : Option (List Nat) :=
  let rec go : Int → List Int → Option (List Nat)
    | _, [] => some []
    | prev, e :: t => if e < prev then none else (go e t).map (fun r => (e - prev).toNat :: r)
  go 0 ends

/-- runs of equal consecutive names of a 7-day week (`schedules_from_bdl`, `7 =>` arm) -/
def weekRuns : List String → List (String × Nat)
  | [] => []
  | d :: t =>
    let rec go : String → Nat → List String → List (String × Nat)
      | cur, n, [] => [(cur, n)]
      | cur, n, x :: xs => if x = cur then go cur (n + 1) xs else (cur, n) :: go x 1 xs
    go d 1 t

/-! ### occupancy figures (props.rs) -/

structure DayP where
  id : Id
  notZero : List Bool
  average : Rat
  deriving Repr, Inhabited

def Model.dayProps (m : Model) : List DayP :=
  (lastById (·.id) m.schedules.day).map (fun d =>
    { id := d.id, notZero := d.values.map notZero,
      average := rsum d.values / (d.values.length : Nat) })

/-- `get_avg`: mean of the daily averages over the expanded year; a day id missing from the daily
schedules is a panic site in the code (`sch_day[ds]`) — after the repair it counts as 0 -/
def Model.yearAvg (m : Model) (id : Id) : Rat :=
  let days := yearAsDays m.schedules id
  rsum (days.map (fun ds => (((m.dayProps).find? (·.id = ds)).map (·.average)).getD 0)) / (days.length : Nat)

structure LoadsP where
  id : Id
  peopleSchedule : Option Id
  loadsAvg : Rat
  deriving Repr, Inhabited

def Model.loadsProps (m : Model) : List LoadsP :=
  (lastById (·.id) m.loads).map (fun l =>
    let avg (o : Option Id) : Rat := match o with | some i => m.yearAvg i | none => 0
    { id := l.id, peopleSchedule := l.peopleSchedule,
      loadsAvg := avg l.peopleSchedule * l.peopleSensible + avg l.lightingSchedule * l.lighting
        + avg l.equipmentSchedule * l.equipment })

/-- habitable spaces inside the envelope that have a loads definition -/
def occupiedSpaces (m : Model) : List Space :=
  (lastById (·.id) m.spaces).filter (fun s => s.kind != .uninhabited && s.insideTenv && s.loads.isSome)

/-- the expanded people schedules of the occupied spaces -/
def occupiedDaySchedules (m : Model) : List (List Id) :=
  (occupiedSpaces m).filterMap (fun s =>
    (s.loads.bind (fun l => (m.loadsProps.find? (·.id = l)).bind (·.peopleSchedule))).map
      (yearAsDays m.schedules))

def orLists (a b : List Bool) : List Bool := List.zipWith (· || ·) a b

/-- hours of one day in which some listed daily schedule is non-zero (ids deduplicated first, which
does not change the OR) -/
def dayHoursInUse (m : Model) (ids : List Id) : Nat :=
  let dps := (ids.eraseDups).filterMap (fun i => m.dayProps.find? (·.id = i))
  ((dps.foldl (fun acc d => orLists acc d.notZero) (List.replicate 24 false)).filter id).length

/-- `occ_spaces_hours_in_use`: the year length is that of the first schedule; a shorter schedule
simply does not contribute on the days it lacks (after the repair of `s[day_idx]`) -/
def hoursInUse (m : Model) : Nat :=
  let scheds := occupiedDaySchedules m
  let yearLen := (scheds.head?.map List.length).getD 0
  ((List.range yearLen).map (fun k => dayHoursInUse m (scheds.filterMap (fun s => s[k]?)))).foldl (· + ·) 0

/-- `occ_spaces_average_load` -/
def averageLoad (F : Fns) (m : Model) : Rat :=
  let sp := occupiedSpaces m
  let area (s : Space) : Rat := s.area m.walls * s.multiplier
  let load (s : Space) : Rat :=
    ((s.loads.bind (fun l => m.loadsProps.find? (·.id = l))).map (·.loadsAvg)).getD 0
  let _ := F
  let totalArea := rsum (sp.map area)
  if totalArea > f32Eps then rsum (sp.map (fun s => load s * area s)) / totalArea else 0

end Cte
