/-
C03 — the shading devices attached to a window (`windows_and_shades_from_bdl` in bemodel/src/convert/from_ctehexml.rs):
overhang, left fin, right fin, as global corner points, with angles as (cos, sin) pairs.
-/
import Cte.Model.Placement
namespace Cte.Place

/-- tilt minus the overhang angle -/
def Ang.sub (a b : Ang) : Ang := Ang.add a (Ang.neg b)

/-- overhang `(a, b, depth, width, angle)` over a window at `(x, y)` of height `h` in a wall of pose `(pos, az, t)`:
position `wall2world · (x − a, y + h + b, 0)`, azimuth of the wall, tilt `t − angle`,
polygon `(0,0), (0,−depth), (width,−depth), (width,0)` -/
def overhangCorners (pos : Vec3) (az t : Ang) (x y h a b depth width : Rat) (ang : Ang) : List Vec3 :=
  [(0, 0), (0, -depth), (width, -depth), (width, 0)].map (fun p =>
    toGlobal (wallToWorld pos az t ⟨x - a, y + h + b, 0⟩) az (Ang.sub t ang) p.1 p.2)

/-- left fin `(a, b, depth, height)`: position `wall2world · (x − a, y + h − b, 0)`, azimuth of the wall − 90°, tilt of the wall,
polygon `(0,0), (0,−height), (depth,−height), (depth,0)` -/
def leftFinCorners (pos : Vec3) (az t : Ang) (x y h a b depth height : Rat) : List Vec3 :=
  [(0, 0), (0, -height), (depth, -height), (depth, 0)].map (fun p =>
    toGlobal (wallToWorld pos az t ⟨x - a, y + h - b, 0⟩) (Ang.add az (Ang.neg Ang.half)) t p.1 p.2)

/-- right fin: position `wall2world · (x + w + a, y + h − b, 0)`, same angles and polygon as the left one -/
def rightFinCorners (pos : Vec3) (az t : Ang) (x y w h a b depth height : Rat) : List Vec3 :=
  [(0, 0), (0, -height), (depth, -height), (depth, 0)].map (fun p =>
    toGlobal (wallToWorld pos az t ⟨x + w + a, y + h - b, 0⟩) (Ang.add az (Ang.neg Ang.half)) t p.1 p.2)

end Cte.Place
