/-
The export tool as an I/O automaton (`hulc2model/src/bin/cli/mod.rs::cli_main`): events are writes to
a file descriptor and the exit status; the library call is a parameter that reports what it wrote
and what it returned.
-/
namespace Cte.Cli

inductive Fd | out | err
  deriving DecidableEq, Repr

structure Write where
  fd : Fd
  text : String
  deriving DecidableEq, Repr

/-- what running the library (`collect_hulc_data`, `energy_indicators`, `as_json`) did -/
structure LibRun where
  writes : List Write
  /-- `Ok(json)` of the model, or the error -/
  result : Except String String

structure Run where
  writes : List Write
  status : Nat
  deriving Repr

def stdoutOf (ws : List Write) : List String := (ws.filter (fun w => w.fd = .out)).map (·.text)

/-- `cli_main(args)`; `args[0]` is the program name -/
def cliMain (args : List String) (lib : String → Bool → LibRun) : Run :=
  let banner : Write := ⟨.err, "banner"⟩
  match args with
  | [] | [_] => { writes := [banner, ⟨.err, "help"⟩], status := 1 }
  | _ :: rest =>
    let dir := rest.getLast!
    let opts := rest.dropLast
    let extra := opts.any (· == "--use-extra")
    let pre : List Write :=
      [banner] ++ (opts.filter (· == "--use-extra")).map (fun _ => ⟨.err, "se usará…"⟩) ++
      [⟨.err, "Localizando archivos de datos en '" ++ dir ++ "'"⟩] ++
      (if extra then [⟨.err, "- Se usarán los datos…"⟩] else [])
    let r := lib dir extra
    match r.result with
    | .error e => { writes := pre ++ r.writes ++ [⟨.err, "Error: " ++ e⟩], status := 1 }
    | .ok json =>
      { writes := pre ++ r.writes ++ [⟨.err, "ZC: …"⟩, ⟨.err, "Salida de resultados…"⟩, ⟨.out, json ++ "\n"⟩],
        status := 0 }

end Cte.Cli
