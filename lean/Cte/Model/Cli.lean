/-
The export tool as an I/O automaton (`hulc2model/src/bin/cli/mod.rs::cli_main`): events are writes to
a file descriptor and the exit status; the library call is a parameter that reports what it wrote
and what it returned.
-/
namespace Cte.Cli

inductive Fd | out | err
  deriving DecidableEq, Repr

structure Write where
  fd : Fd
  text : String
  deriving DecidableEq, Repr

/-- what running the library (`collect_hulc_data`, `energy_indicators`, `as_json`) did -/
structure LibRun where
  writes : List Write
  /-- `Ok(json)` of the model, or the error -/
  result : Except String String

structure Run where
  writes : List Write
  status : Nat
  deriving Repr

def stdoutOf (ws : List Write) : List String := (ws.filter (fun w => w.fd = .out)).map (·.text)

/-- `cli_main(args)`; `args[0]` is the program name -/
def cliMain (args : List String) (lib : String → Bool → LibRun) : Run :=
  let banner : Write := ⟨.err, "banner"⟩
  match args with
  | [] | [_] => { writes := [banner, ⟨.err, "help"⟩], status := 1 }
  | _ :: rest =>
    let dir := rest.getLast!
    let opts := rest.dropLast
    let extra := opts.any (· == "--use-extra")
    let pre : List Write :=
      [banner] ++ (opts.filter (· == "--use-extra")).map (fun _ => ⟨.err, "se usará…"⟩) ++
      [⟨.err, "Localizando archivos de datos en '" ++ dir ++ "'"⟩] ++
      (if extra then [⟨.err, "- Se usarán los datos…"⟩] else [])
    let r := lib dir extra
    match r.result with
    | .error e => { writes := pre ++ r.writes ++ [⟨.err, "Error: " ++ e⟩], status := 1 }
    | .ok json =>
      { writes := pre ++ r.writes ++ [⟨.err, "ZC: …"⟩, ⟨.err, "Salida de resultados…"⟩, ⟨.out, json ++ "\n"⟩],
        status := 0 }

/-! ### the companion tool `thor` (bemodel/src/bin/thor.rs) -/

/-- the part of the file system the tool can touch: path ↦ content -/
abbrev Fs := List (String × String)

def Fs.read (fs : Fs) (p : String) : Option String := (fs.find? (fun e => e.1 = p)).map (·.2)

/-- `File::create(path)` followed by `write_all(content)`: the file holds exactly the new content,
whatever it held before -/
def Fs.write (fs : Fs) (p c : String) : Fs := (p, c) :: fs.filter (fun e => e.1 ≠ p)

/-- the options clap hands to `main` -/
structure ThorArgs where
  input : String
  out : Option String := none       -- `-o`: model JSON
  res : Option String := none       -- `-r`: indicators JSON
  license : Bool := false           -- `-L`
  v : Nat := 0                      -- number of `-v`

structure ThorRun where
  writes : List Write
  status : Nat
  fs : Fs

/-- `writefile`: the optional notice on stdout (verbosity above 1), then create + write, or exit 73 -/
def thorWriteFile (v : Nat) (notice : String) (canCreate : String → Bool) (p content : String) (fs : Fs) :
    List Write × Fs × Bool :=
  let pre : List Write := if v > 1 then [⟨.out, notice ++ p⟩] else []
  if canCreate p then (pre, fs.write p content, true)
  else (pre ++ [⟨.err, "ERROR: no se ha podido crear el archivo"⟩], fs, false)

/-- `main` of thor.  `lib input` is parse + convert + serialise: the model JSON and the indicators JSON,
or the error (`exit(DATAERR)`, 65) -/
def thorMain (a : ThorArgs) (lib : String → Except String (String × String)) (canCreate : String → Bool)
    (fs : Fs) : ThorRun :=
  if a.license then { writes := [⟨.out, "license"⟩], status := 0, fs := fs } else
  match lib a.input with
  | .error e => { writes := [⟨.err, "ERROR: " ++ e⟩], status := 65, fs := fs }
  | .ok (mj, ij) =>
    let (w1, fs1, ok1) := match a.out with
      | some p => thorWriteFile a.v "Modelo en formato JSON: " canCreate p mj fs
      | none => ([], fs, true)
    if !ok1 then { writes := w1, status := 73, fs := fs1 } else
    let (w2, fs2, ok2) := match a.res with
      | some p => thorWriteFile a.v "Resultados de indicadores en formato JSON: " canCreate p ij fs1
      | none => ([], fs1, true)
    if !ok2 then { writes := w1 ++ w2, status := 73, fs := fs2 } else
    { writes := w1 ++ w2 ++ (if a.v > 0 then [⟨.out, ij ++ "\n"⟩] else []), status := 0, fs := fs2 }

end Cte.Cli
