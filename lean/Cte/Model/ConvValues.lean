/-
The values the conversion gives to spaces, thermal bridges and windows (`spaces_from_bdl`, `thermal_bridges_from_bdl`,
`windows_and_shades_from_bdl` in bemodel/src/convert/from_ctehexml.rs) from the typed BDL elements of `BdlData`.
Numbers are `TNum` (`none` = not a finite number), arithmetic exact; `fround2` is `round2`.
-/
import Cte.Model.Num
import Cte.Model.BdlData
namespace Cte.ConvV
open Cte Cte.Bdl Cte.BdlData

def tround2 (a : TNum) : TNum := a.map round2

inductive Kind | conditioned | unconditioned | uninhabited
  deriving DecidableEq, Repr

/-- `match s.stype { "CONDITIONED" => …, "UNHABITED" => …, _ => UNCONDITIONED }` -/
def spaceKindOf (stype : Str) : Kind :=
  if stype == "CONDITIONED".toList then .conditioned
  else if stype == "UNHABITED".toList then .uninhabited
  else .unconditioned

structure SpaceV where
  name : Str
  z : TNum
  height : TNum
  insideTenv : Bool
  multiplier : TNum
  kind : Kind
  nV : Option TNum
  /-- `Some(100·P/VEEI)` to two decimals when the VEEI objective and the result are above ε -/
  illuminance : Option TNum
  deriving Repr

def illuminanceOf (power veei : TNum) : Option TNum :=
  match veei with
  | some v =>
    if v > f32Eps then
      match power with
      | some p =>
        let i := round2 (100 * p / v)
        if i > f32Eps then some (some i) else none
      | none => none          -- NaN > ε is false
    else none
  | none => none

def convSpace (s : Space) : SpaceV :=
  { name := s.name, z := s.z, height := tround2 s.height, insideTenv := s.insidete,
    multiplier := tmul s.multiplier s.floorMultiplier, kind := spaceKindOf s.stype, nV := s.airchanges,
    illuminance := illuminanceOf s.power s.veeiObj }

inductive TbK | roof | balcony | corner | intermediatefloor | internalwall | groundfloor | pillar | window | generic
  deriving DecidableEq, Repr

def TbK.str : TbK → String
  | .roof => "ROOF" | .balcony => "BALCONY" | .corner => "CORNER" | .intermediatefloor => "INTERMEDIATEFLOOR"
  | .internalwall => "INTERNALWALL" | .groundfloor => "GROUNDFLOOR" | .pillar => "PILLAR" | .window => "WINDOW" | .generic => "GENERIC"

/-- the kind of a thermal bridge is read off its HULC name -/
def tbKindOf (name : Str) : TbK :=
  let n := String.ofList name
  if n == "UNION_CUBIERTA" || n == "ESQUINA_CONVEXA_FORJADO" then .roof
  else if n == "ESQUINA_CONCAVA" || n == "ESQUINA_CONVEXA" || n == "ESQUINA_CONCAVA_CERRAMIENTO" || n == "ESQUINA_CONVEXA_CERRAMIENTO" then .corner
  else if n == "FRENTE_FORJADO" then .intermediatefloor
  else if n == "PILAR" then .pillar
  else if n == "UNION_SOLERA_PAREDEXT" then .groundfloor
  else if n == "HUECO_VENTANA" || n == "HUECO_ALFEIZAR" || n == "HUECO_CAPIALZADO" || n == "HUECO_JAMBA" then .window
  else .generic

structure TbV where
  name : Str
  kind : TbK
  l : TNum
  psi : TNum
  deriving Repr

/-- the record of computed lengths is not a thermal bridge; a bridge without length has length 0 -/
def convTbs (tbs : List ThermalBridge) : List TbV :=
  (tbs.filter (fun tb => tb.name != "LONGITUDES_CALCULADAS".toList)).map (fun tb =>
    { name := tb.name, kind := tbKindOf tb.name, l := tround2 (tb.length.getD (some 0)), psi := tb.psi })

structure WinV where
  name : Str
  x : TNum
  y : TNum
  width : TNum
  height : TNum
  setback : TNum
  deriving Repr

def convWindow (w : Window) : WinV :=
  { name := w.name, x := w.x, y := w.y, width := w.width, height := w.height, setback := w.setback }

end Cte.ConvV
