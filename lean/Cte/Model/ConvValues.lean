/-
The values the conversion gives to spaces, thermal bridges and windows (`spaces_from_bdl`, `thermal_bridges_from_bdl`,
`windows_and_shades_from_bdl` in bemodel/src/convert/from_ctehexml.rs) from the typed BDL elements of `BdlData`.
Numbers are `TNum` (`none` = not a finite number), arithmetic exact; `fround2` is `round2`.
-/
import Cte.Model.Num
import Cte.Model.BdlData
namespace Cte.ConvV
open Cte Cte.Bdl Cte.BdlData

def tround2 (a : TNum) : TNum := a.map round2

inductive Kind | conditioned | unconditioned | uninhabited
  deriving DecidableEq, Repr

/-- `match s.stype { "CONDITIONED" => …, "UNHABITED" => …, _ => UNCONDITIONED }` -/
def spaceKindOf (stype : Str) : Kind :=
  if stype == "CONDITIONED".toList then .conditioned
  else if stype == "UNHABITED".toList then .uninhabited
  else .unconditioned

structure SpaceV where
  name : Str
  z : TNum
  height : TNum
  insideTenv : Bool
  multiplier : TNum
  kind : Kind
  nV : Option TNum
  /-- `Some(100·P/VEEI)` to two decimals when the VEEI objective and the result are above ε -/
  illuminance : Option TNum
  deriving Repr

def illuminanceOf (power veei : TNum) : Option TNum :=
  match veei with
  | some v =>
    if v > f32Eps then
      match power with
      | some p =>
        let i := round2 (100 * p / v)
        if i > f32Eps then some (some i) else none
      | none => none          -- NaN > ε is false
    else none
  | none => none

def convSpace (s : Space) : SpaceV :=
  { name := s.name, z := s.z, height := tround2 s.height, insideTenv := s.insidete,
    multiplier := tmul s.multiplier s.floorMultiplier, kind := spaceKindOf s.stype, nV := s.airchanges,
    illuminance := illuminanceOf s.power s.veeiObj }

inductive TbK | roof | balcony | corner | intermediatefloor | internalwall | groundfloor | pillar | window | generic
  deriving DecidableEq, Repr

def TbK.str : TbK → String
  | .roof => "ROOF" | .balcony => "BALCONY" | .corner => "CORNER" | .intermediatefloor => "INTERMEDIATEFLOOR"
  | .internalwall => "INTERNALWALL" | .groundfloor => "GROUNDFLOOR" | .pillar => "PILLAR" | .window => "WINDOW" | .generic => "GENERIC"

/-- the kind of a thermal bridge is read off its HULC name -/
def tbKindOf (name : Str) : TbK :=
  let n := String.ofList name
  if n == "UNION_CUBIERTA" || n == "ESQUINA_CONVEXA_FORJADO" then .roof
  else if n == "ESQUINA_CONCAVA" || n == "ESQUINA_CONVEXA" || n == "ESQUINA_CONCAVA_CERRAMIENTO" || n == "ESQUINA_CONVEXA_CERRAMIENTO" then .corner
  else if n == "FRENTE_FORJADO" then .intermediatefloor
  else if n == "PILAR" then .pillar
  else if n == "UNION_SOLERA_PAREDEXT" then .groundfloor
  else if n == "HUECO_VENTANA" || n == "HUECO_ALFEIZAR" || n == "HUECO_CAPIALZADO" || n == "HUECO_JAMBA" then .window
  else .generic

structure TbV where
  name : Str
  kind : TbK
  l : TNum
  psi : TNum
  deriving Repr

/-- the record of computed lengths is not a thermal bridge; a bridge without length has length 0 -/
def convTbs (tbs : List ThermalBridge) : List TbV :=
  (tbs.filter (fun tb => tb.name != "LONGITUDES_CALCULADAS".toList)).map (fun tb =>
    { name := tb.name, kind := tbKindOf tb.name, l := tround2 (tb.length.getD (some 0)), psi := tb.psi })

structure WinV where
  name : Str
  x : TNum
  y : TNum
  width : TNum
  height : TNum
  setback : TNum
  deriving Repr

def convWindow (w : Window) : WinV :=
  { name := w.name, x := w.x, y := w.y, width := w.width, height := w.height, setback := w.setback }

/-! ### loads (`loads_from_bdl`): one per SPACE-CONDITIONS block -/

structure LoadsV where
  name : Str
  areaPerPerson : TNum
  peopleSensible : TNum
  peopleLatent : TNum
  equipment : TNum
  lighting : TNum
  deriving Repr

/-- `fround2(heat gain per person / area per person)`, 0 when the area per person is 0 (a NaN area is "not 0") -/
def perArea (gain area : TNum) : TNum :=
  match area with
  | some a => if a = 0 then some 0 else gain.map (fun g => round2 (g / a))
  | none => none

/-- `none` when an attribute the code requires is missing (the conversion fails with an error) -/
def convLoads (name : Str) (a : Attrs) : Option LoadsV :=
  match getNum a "AREA/PERSON", getNum a "PEOPLE-HG-SENS", getNum a "PEOPLE-HG-LAT", getNum a "EQUIPMENT-W/AREA", getNum a "LIGHTING-W/AREA" with
  | some area, sens, lat, some eq, some li =>
    -- the gains are only read when the area per person is not 0
    let needGains : Bool := match area with | some x => decide (x ≠ 0) | none => true
    if needGains && (sens.isNone || lat.isNone) then none else
    some { name := name, areaPerPerson := area, peopleSensible := perArea (sens.getD (some 0)) area,
           peopleLatent := perArea (lat.getD (some 0)) area, equipment := eq, lighting := li }
  | _, _, _, _, _ => none

/-! ### constructions (`cons_from_bdl`): values are copied, layer by layer -/

structure WallConsV where
  name : Str
  thickness : List TNum
  absorptance : TNum
  deriving Repr

/-- layers pair materials with thicknesses (`zip`: the shorter list decides) -/
def convWallCons (c : WallCons) : WallConsV :=
  { name := c.name, thickness := (c.material.zip c.thickness).map (·.2), absorptance := c.absorptance }

structure WinConsV where
  name : Str
  fF : TNum
  deltaU : TNum
  gGlshwi : Option TNum
  c100 : TNum
  deriving Repr

def convWinCons (c : WinCons) : WinConsV :=
  { name := c.name, fF := c.framefrac, deltaU := c.deltau, gGlshwi := c.gglshwi, c100 := c.infcoeff }

structure GlassV where
  name : Str
  uValue : TNum
  gGln : TNum
  deriving Repr
def convGlass (g : Glass) : GlassV := { name := g.name, uValue := g.conductivity, gGln := g.gGln }

structure FrameV where
  name : Str
  uValue : TNum
  absorptivity : TNum
  deriving Repr
def convFrame (f : Frame) : FrameV := { name := f.name, uValue := f.conductivity, absorptivity := f.absorptivity }

end Cte.ConvV
