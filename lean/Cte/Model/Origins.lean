/-
`Model::ray_origins_for_window` (bemodel/src/energy/radiation.rs): the sample points of a window from which rays are cast towards
the sun.  The window is cut into `n_x × n_y` blocks, the centre of each block is taken in the frame of the wall polygon (origin at the
polygon's first vertex, x along its first edge: `to_polygon_coords_matrix`), moved to the wall's own frame, pushed back by the
set-back and sent to global coordinates (`to_global_coords_matrix`).  Angles are (cos, sin) pairs as in `Placement.lean`.
-/
import Cte.Model.Placement
namespace Cte.Place

/-- `10.min((d / 20.0).round() as usize).max(5)` -/
def nBlocks (d : Rat) : Nat := max 5 (min 10 (roundHalfAway (d / 20)).toNat)

/-- block centres along one dimension: `o + (i + 0.5) * d / n` -/
def centres (o d : Rat) (n : Nat) : List Rat := (List.range n).map (fun (i : Nat) => o + ((i : Rat) + 1 / 2) * (d / (n : Rat)))

/-- the centres of the blocks in the frame of the wall polygon, row by row -/
def samplePoints (x y w h : Rat) : List (Rat × Rat) :=
  (centres y h (nBlocks h)).flatMap (fun py => (centres x w (nBlocks w)).map (fun px => (px, py)))

/-- `to_polygon_coords_matrix * p`: turn by the direction `e` of the polygon's first edge, then move to its first vertex `v0` -/
def polyToWall (e : Ang) (v0 : Rat × Rat) (p : Rat × Rat) : Rat × Rat :=
  let q := rot2 e p
  (q.1 + v0.1, q.2 + v0.2)

/-- `ray_origins_for_window` -/
def rayOrigins (pos : Vec3) (az t e : Ang) (v0 : Rat × Rat) (x y w h s : Rat) : List Vec3 :=
  (samplePoints x y w h).map (fun p =>
    let q := polyToWall e v0 p
    wallToWorld pos az t ⟨q.1, q.2, -s⟩)

end Cte.Place
