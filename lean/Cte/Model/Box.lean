/-
Axis-aligned boxes and the slab test (`aabb.rs`) over exact rationals.
`none` is the empty box (`AABB::default()`: min = +inf, max = −inf).
-/
import Cte.Model.Num
import Cte.Model.Bvh
namespace Cte

structure V3 where
  x : Rat
  y : Rat
  z : Rat
  deriving DecidableEq, Repr, Inhabited

structure Box3 where
  lo : V3
  hi : V3
  deriving DecidableEq, Repr, Inhabited

structure RayQ where
  o : V3
  d : V3
  deriving DecidableEq, Repr, Inhabited

def Box3.join (a b : Box3) : Box3 :=
  { lo := ⟨rmin a.lo.x b.lo.x, rmin a.lo.y b.lo.y, rmin a.lo.z b.lo.z⟩,
    hi := ⟨rmax a.hi.x b.hi.x, rmax a.hi.y b.hi.y, rmax a.hi.z b.hi.z⟩ }

def joinOpt : Option Box3 → Option Box3 → Option Box3
  | none, b => b
  | a, none => a
  | some a, some b => some (a.join b)

/-- the box of one point -/
def Box3.ofPoint (p : V3) : Box3 := { lo := p, hi := p }

/-- `WallGeom::aabb` on the global corners of the polygon: six running minima / maxima started at ±inf
(`none` is that start: the box of no point at all) -/
def aabbOfPoints (pts : List V3) : Option Box3 :=
  pts.foldl (fun acc p => joinOpt acc (some (Box3.ofPoint p))) none

/-- bounds of the parameter t along one axis: (empty?, lower bound, upper bound) -/
structure Itv where
  empty : Bool
  lo : Option Rat
  hi : Option Rat
  deriving Repr, Inhabited

/-- the set of t with l ≤ o + t·d ≤ h -/
def axisItv (o d l h : Rat) : Itv :=
  if d = 0 then { empty := !(decide (l ≤ o) && decide (o ≤ h)), lo := none, hi := none }
  else if d > 0 then { empty := false, lo := some ((l - o) / d), hi := some ((h - o) / d) }
  else { empty := false, lo := some ((h - o) / d), hi := some ((l - o) / d) }

def maxOpt : Option Rat → Option Rat → Option Rat
  | none, b => b
  | a, none => a
  | some a, some b => some (rmax a b)
def minOpt : Option Rat → Option Rat → Option Rat
  | none, b => b
  | a, none => a
  | some a, some b => some (rmin a b)

def Itv.inter (a b : Itv) : Itv :=
  { empty := a.empty || b.empty, lo := maxOpt a.lo b.lo, hi := minOpt a.hi b.hi }

/-- is there a t in the interval? -/
def Itv.nonempty (i : Itv) : Bool :=
  !i.empty && (match i.lo, i.hi with
    | some a, some b => decide (a ≤ b)
    | _, _ => true)

/-- t ≥ 0 -/
def itvFront : Itv := { empty := false, lo := some 0, hi := none }

/-- the slab test: the ray o + t·d, t ≥ 0, meets the box -/
def Box3.hit (r : RayQ) (b : Box3) : Bool :=
  (((axisItv r.o.x r.d.x b.lo.x b.hi.x).inter (axisItv r.o.y r.d.y b.lo.y b.hi.y)).inter
    ((axisItv r.o.z r.d.z b.lo.z b.hi.z).inter itvFront)).nonempty

def hitOpt (r : RayQ) : Option Box3 → Bool
  | none => false
  | some b => b.hit r

def Box3.center (b : Box3) : V3 := ⟨(b.lo.x + b.hi.x) / 2, (b.lo.y + b.hi.y) / 2, (b.lo.z + b.hi.z) / 2⟩

/-- `partition_elements_by_centroid`: centre below the mean centre on the longest axis of the joint box -/
def centroidSel (es : List Box3) (e : Box3) : Bool :=
  match es.foldl (fun b x => joinOpt b (some x)) none with
  | none => false
  | some bb =>
    let dx := bb.hi.x - bb.lo.x
    let dy := bb.hi.y - bb.lo.y
    let dz := bb.hi.z - bb.lo.z
    let n : Rat := (es.length : Nat)
    if dx ≥ dy ∧ dx ≥ dz then decide (e.center.x < rsum (es.map (·.center.x)) / n)
    else if dy ≥ dz then decide (e.center.y < rsum (es.map (·.center.y)) / n)
    else decide (e.center.z < rsum (es.map (·.center.z)) / n)

/-- boxes as their own elements (`impl Intersectable for AABB`, `impl Bounded for AABB`) -/
def boxOps : Bvh.Ops Box3 (Option Box3) RayQ :=
  { box := some, join := joinOpt, empty := none, hit := fun r e => e.hit r, boxHit := hitOpt, sel := centroidSel }

end Cte
