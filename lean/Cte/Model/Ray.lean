/-
Ray–polygon intersection (`raytracing/ray.rs`): the ray is taken to the polygon's own coordinates
by the inverse pose, cut with the plane z = 0, and the crossing point tested with `point_in_poly`.
-/
import Cte.Model.Types
import Cte.Model.Box
namespace Cte

/-- one step of the `point_in_poly` loop; state = (inside, previous vertex v_j, y_0) -/
def pipStep (x y : Rat) (st : Bool × P2 × Bool) (vi : P2) : Bool × P2 × Bool :=
  let y1 := decide (vi.y ≥ y)
  let toggle := (st.2.2 != y1) &&
    (decide ((vi.y - y) * (st.2.1.x - vi.x) ≥ (vi.x - x) * (st.2.1.y - vi.y)) == y1)
  (if toggle then !st.1 else st.1, vi, y1)

/-- `point_in_poly` (the code indexes `poly[len-1]`: an empty polygon panics there; `none`) -/
def pointInPoly (x y : Rat) (poly : List P2) : Option Bool :=
  match poly.getLast? with
  | none => none
  | some vl => some (poly.foldl (pipStep x y) (false, vl, decide (vl.y ≥ y))).1

/-- `Polygon::normal` z component: +1 for counter-clockwise first corner, else −1 -/
def polyNormalZ (p : List P2) : Rat :=
  match p with
  | p0 :: p1 :: p2 :: _ =>
    if (p1.x - p0.x) * (p2.y - p0.y) ≥ (p1.y - p0.y) * (p2.x - p0.x) then 1 else -1
  | _ => 1

/-- an isometry given by its rotation matrix (rows) and translation: p ↦ R p + t -/
structure Pose where
  r0 : V3
  r1 : V3
  r2 : V3
  t : V3
  deriving Repr, Inhabited

def V3.dot (a b : V3) : Rat := a.x * b.x + a.y * b.y + a.z * b.z
def Pose.rot (p : Pose) (v : V3) : V3 := ⟨p.r0.dot v, p.r1.dot v, p.r2.dot v⟩
def Pose.app (p : Pose) (v : V3) : V3 :=
  let w := p.rot v
  ⟨w.x + p.t.x, w.y + p.t.y, w.z + p.t.z⟩

def RAY_EPS : Rat := 1 / 100000

structure RayHit where
  t : Rat
  px : Rat
  py : Rat
  deriving Repr, Inhabited

/-- `Ray::intersects_with_data` with `global_to_poly_matrix = inv`: `none` = no hit -/
def rayPolygon (inv : Pose) (poly : List P2) (r : RayQ) : Option RayHit :=
  match poly with
  | [] => none
  | _ :: _ =>
    let o := inv.app r.o
    let d := inv.rot r.d
    let nz := polyNormalZ poly
    let denom := nz * d.z
    if rabs denom < RAY_EPS then none else
      let t := nz * (0 - o.z) / denom
      if t < 0 then none else
        let px := o.x + t * d.x
        let py := o.y + t * d.y
        match pointInPoly px py poly with
        | some true => some { t := t, px := px, py := py }
        | _ => none

/-- crossing point of the ray with the polygon's plane, whatever the polygon (for the exclusion
zone of the comparison: distance of the crossing point to the outline) -/
def planeCrossing (inv : Pose) (r : RayQ) : Option RayHit :=
  let o := inv.app r.o
  let d := inv.rot r.d
  if d.z = 0 then none else
    let t := (0 - o.z) / d.z
    some { t := t, px := o.x + t * d.x, py := o.y + t * d.y }

/-- squared distance from a point to a segment -/
def distSqSeg (px py : Rat) (a b : P2) : Rat :=
  let dx := b.x - a.x
  let dy := b.y - a.y
  let l2 := dx * dx + dy * dy
  let u : Rat := if l2 = 0 then 0 else rmax 0 (rmin 1 (((px - a.x) * dx + (py - a.y) * dy) / l2))
  let qx := a.x + u * dx
  let qy := a.y + u * dy
  (px - qx) * (px - qx) + (py - qy) * (py - qy)

def distSqOutline (px py : Rat) (poly : List P2) : Option Rat :=
  match poly.getLast? with
  | none => none
  | some vl =>
    let edges := (vl :: poly).zip poly
    edges.foldl (fun acc e =>
      let d := distSqSeg px py e.1 e.2
      match acc with
      | none => some d
      | some m => some (rmin m d)) none

/-- how firmly the exact test decides, for comparing with an f32 computation: a hit / a miss with margins, or too close
to call (the crossing is within `tEps` of the ray origin — an obstacle in the window's own plane —, within `dEps` of the
obstacle's outline, or the ray is nearly parallel to the obstacle) -/
inductive Firm where
  | hit | miss | unsure
  deriving DecidableEq, Repr

def firmRayPolygon (inv : Pose) (poly : List P2) (r : RayQ) (tEps dEps : Rat) : Firm :=
  match poly with
  | [] => .miss
  | _ :: _ =>
    let o := inv.app r.o
    let d := inv.rot r.d
    let nz := polyNormalZ poly
    let denom := nz * d.z
    if rabs denom < RAY_EPS / 2 then .miss
    else if rabs denom < RAY_EPS * 2 then .unsure
    else
      let t := nz * (0 - o.z) / denom
      if t < -tEps then .miss
      else
        let px := o.x + t * d.x
        let py := o.y + t * d.y
        let near := match distSqOutline px py poly with | some q => decide (q < dEps * dEps) | none => false
        if near then .unsure
        else match pointInPoly px py poly with
          | some true => if t ≤ tEps then .unsure else .hit
          | _ => .miss

end Cte
