/-
Remote-obstruction factor (`radiation.rs`): `compute_fshobst` and `sunlit_fraction`.
The per-hour plane irradiances (beam, diffuse) come from the radiation model (C20's object) and
are inputs here; "blocked" is defined by testing every candidate occluder (C13 proves the
acceleration structure equal to that).
-/
import Cte.Model.Fns
import Cte.Model.Ray
namespace Cte

structure HourIn where
  f : Rat       -- sunlit fraction of the window at this hour
  dir : Rat     -- beam irradiance on the window plane
  dif : Rat     -- diffuse irradiance on the window plane
  deriving Repr, Inhabited

/-- (F_dir·I_dir + I_dif)/(I_dir + I_dif) -/
def fshTerm (h : HourIn) : Rat := (h.f * h.dir + h.dif) / (h.dir + h.dif)

/-- mean over the design-day hours -/
def fshobstRaw (hs : List HourIn) : Rat := rsum (hs.map fshTerm) / (hs.length : Nat)

def fshobst (F : Fns) (hs : List HourIn) : Rat := F.r2 (fshobstRaw hs)

/-- one candidate occluder: polygon, inverse pose, bounding box (`Occluder`) -/
structure Occ where
  poly : List P2
  inv : Pose
  aabb : Box3
  deriving Repr, Inhabited

/-- `impl Intersectable for &Occluder`: box test first, then the polygon test -/
def Occ.blocks (r : RayQ) (o : Occ) : Bool := o.aabb.hit r && (rayPolygon o.inv o.poly r).isSome

/-- a sample point is hidden when the line towards the sun meets some candidate occluder -/
def blocked (occ : List Occ) (dir : V3) (origin : V3) : Bool := occ.any (Occ.blocks { o := origin, d := dir })

/-- `Model::sunlit_fraction` (the window's wall exists): 1 without geometric position, 0 when the
sun is behind the window, 1 when there is no sample point, else the share of unblocked points -/
def sunlitFraction (wallHasPosition : Bool) (ndot : Rat) (origins : List V3) (dir : V3) (occ : List Occ) : Rat :=
  if !wallHasPosition then 1
  else if ndot < 1 / 100 then 0
  else if origins.isEmpty then 1
  else 1 - ((origins.filter (blocked occ dir)).length : Nat) / (origins.length : Nat)

/-- bracket of the sunlit fraction an f32 computation may report: points firmly lit / firmly hidden / too close to call
(the bounding-box pre-test is not used here: a firm polygon hit lies inside the box) -/
def sunlitBracket (wallHasPosition : Bool) (ndot : Rat) (origins : List V3) (dir : V3) (occ : List Occ) : Rat × Rat :=
  if !wallHasPosition then (1, 1)
  else if ndot < 1 / 100 then (0, 0)
  else if origins.isEmpty then (1, 1)
  else
    let cls := origins.map (fun o =>
      let fs := occ.map (fun oc => firmRayPolygon oc.inv oc.poly { o := o, d := dir } (1 / 2000) (1 / 500))
      if fs.any (· == Firm.hit) then Firm.hit else if fs.any (· == Firm.unsure) then Firm.unsure else Firm.miss)
    let n : Rat := (origins.length : Nat)
    let hit : Rat := ((cls.filter (· == Firm.hit)).length : Nat)
    let uns : Rat := ((cls.filter (· == Firm.unsure)).length : Nat)
    (1 - (hit + uns) / n, 1 - hit / n)

end Cte
