/-
Bounding-volume hierarchy (`bemodel/src/energy/raytracing/bvh.rs`), after the repair of the three
build defects: a list that fits in a leaf is a leaf (also when it is the whole input), and a
partition with an empty side becomes a leaf instead of being split again for ever.
The tree logic is generic in the element, box and ray types; `Cte/Model/Box.lean` instantiates it
with exact-rational boxes and the slab test.
-/
namespace Cte.Bvh

structure Ops (E Box Ray : Type) where
  box    : E → Box
  join   : Box → Box → Box
  empty  : Box
  hit    : Ray → E → Bool
  boxHit : Ray → Box → Bool
  /-- "centre < mean centre on the longest axis": may depend on the whole list -/
  sel    : List E → E → Bool

variable {E Box Ray : Type}

inductive Tree (E Box : Type) where
  | leaf (b : Box) (es : List E)
  | node (b : Box) (l r : Tree E Box)

def Tree.box : Tree E Box → Box
  | .leaf b _ => b
  | .node b _ _ => b

/-- `Vec<T>::aabb()`: fold of `join` from the empty box -/
def boxOf (o : Ops E Box Ray) (es : List E) : Box := es.foldl (fun b e => o.join b (o.box e)) o.empty

theorem partition_length (p : E → Bool) (es : List E) :
    (es.partition p).1.length + (es.partition p).2.length = es.length := by
  induction es with
  | nil => rfl
  | cons a t ih =>
    simp only [List.partition_eq_filter_filter] at ih ⊢
    by_cases h : p a <;> simp [List.filter_cons, h] <;> omega

/-- `BVH::build`: leaf when the list fits or when the partition is degenerate, else split -/
def build (o : Ops E Box Ray) (k : Nat) (es : List E) : Tree E Box :=
  if es.length ≤ k then .leaf (boxOf o es) es
  else
    let lr := es.partition (o.sel es)
    if h : lr.1 = [] ∨ lr.2 = [] then .leaf (boxOf o es) es
    else
      let l := build o k lr.1
      let r := build o k lr.2
      .node (o.join l.box r.box) l r
termination_by es.length
decreasing_by
  all_goals
    have hl := partition_length (o.sel es) es
    have h1 : lr.1 ≠ [] := fun c => h (Or.inl c)
    have h2 : lr.2 ≠ [] := fun c => h (Or.inr c)
    have p1 : 0 < lr.1.length := List.length_pos_iff.mpr h1
    have p2 : 0 < lr.2.length := List.length_pos_iff.mpr h2
    simp only [lr] at *
    omega

/-- `BVH::intersects(..).is_some()`: pre-order walk, a subtree is entered only if the ray meets its box -/
def query (o : Ops E Box Ray) (r : Ray) : Tree E Box → Bool
  | .leaf b es => o.boxHit r b && es.any (o.hit r)
  | .node b l rt => o.boxHit r b && (query o r l || query o r rt)

def Tree.size : Tree E Box → Nat
  | .leaf _ _ => 1
  | .node _ l r => 1 + l.size + r.size

def stackSize (st : List (Tree E Box)) : Nat := (st.map Tree.size).sum

/-- the code as written: `PreorderIter::next` pops a node from an explicit stack, drops it when the ray misses its box, otherwise pushes
its right and then its left child (so the left one is popped first); `BVH::intersects` looks into the leaves that come out and stops
at the first element hit -/
def walk (o : Ops E Box Ray) (r : Ray) : List (Tree E Box) → Bool
  | [] => false
  | .leaf b es :: st => if o.boxHit r b then (if es.any (o.hit r) then true else walk o r st) else walk o r st
  | .node b l rt :: st => if o.boxHit r b then walk o r (l :: rt :: st) else walk o r st
termination_by st => stackSize st
decreasing_by
  all_goals simp only [stackSize, List.map_cons, List.sum_cons, Tree.size]
  all_goals omega

def items : Tree E Box → List E
  | .leaf _ es => es
  | .node _ l r => items l ++ items r

/-- what the box test must satisfy for pruning to be safe -/
structure Laws (o : Ops E Box Ray) : Prop where
  sound : ∀ r e b, o.hit r e = true → o.boxHit r (o.join b (o.box e)) = true
  mono_l : ∀ r a b, o.boxHit r a = true → o.boxHit r (o.join a b) = true
  mono_r : ∀ r a b, o.boxHit r b = true → o.boxHit r (o.join a b) = true

end Cte.Bvh
