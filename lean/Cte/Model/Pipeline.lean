/-
  The whole path of a BDL text through the model: blocks (`Bdl.buildBlocks`), typed elements (`BdlData.dataNew`),
  the referential skeleton of the conversion (`Conv.convert`).  Used for the verdict (converted / rejected) of
  damaged project files (C19) and for end-to-end references (C02).
-/
import Cte.Model.BdlData
import Cte.Model.Convert

namespace Cte.Pipeline
open Cte.BdlData Cte.Bdl

def str (s : Str) : String := String.ofList s

def isZero (t : TNum) : Bool := t == some 0

/-- names and references of the typed data, as `Conv.convert` takes them -/
def skelOf (d : Data) : Conv.Bdl :=
  { spaces := d.spaces.map (fun s => { name := str s.name, spaceconds := str s.spaceconds, systemconds := str s.systemconds, nverts := s.polygon.pts.length }),
    walls := d.walls.map (fun w => { name := str w.name, space := str w.space, cons := str w.cons, nextto := w.nextto.map str, location := w.location.map str,
                                     hasPolygon := w.polygon.isSome }),
    windows := d.windows.map (fun w => { name := str w.name, wall := str w.wall, cons := str w.cons }),
    wallcons := (sortByKey d.wallcons).map (fun kv => { key := str kv.1, name := str kv.2.name, materials := kv.2.material.map str }),
    wincons := (sortByKey d.wincons).map (fun kv => { key := str kv.1, name := str kv.2.name, glass := str kv.2.glass, frame := str kv.2.frame }),
    materials := (sortByKey d.materials).map (fun kv => str kv.1),
    glasses := (sortByKey d.glasses).map (fun kv => str kv.1),
    frames := (sortByKey d.frames).map (fun kv => str kv.1),
    days := d.schedules.filterMap (fun s => match s with | .day n _ _ => some (str n) | _ => none),
    weeks := d.schedules.filterMap (fun s => match s with | .week n _ ds => some { name := str n, days := ds.map str } | _ => none),
    years := d.schedules.filterMap (fun s => match s with
      | .year n _ ds ms ws => some { name := str n, weeks := ws.map str, months := ms, days := ds }
      | _ => none),
    loads := (sortByKey d.spaceCondBlocks).map (fun kv =>
      let a := kv.2.attrs
      let area := getNum a "AREA/PERSON"
      let numericOk := area.isSome && ((match area with | some t => isZero t | none => false) ||
          ((getNum a "PEOPLE-HG-SENS").isSome && (getNum a "PEOPLE-HG-LAT").isSome)) &&
        (getNum a "EQUIPMENT-W/AREA").isSome && (getNum a "LIGHTING-W/AREA").isSome
      { key := str kv.1, name := str kv.2.name, numericOk := numericOk, people := (getStr a "PEOPLE-SCHEDULE").map str,
        equip := (getStr a "EQUIP-SCHEDULE").map str, light := (getStr a "LIGHTING-SCHEDULE").map str }),
    thermostats := (sortByKey d.systemCondBlocks).map (fun kv =>
      let a := kv.2.attrs
      { key := str kv.1, name := str kv.2.name, conditioned := getStr a "TYPE" == some "CONDITIONED".toList,
        cool := (getStr a "COOL-TEMP-SCH").map str, heat := (getStr a "HEAT-TEMP-SCH").map str }) }

inductive Verdict where
  | converted
  | rejected
  | crashed
  deriving DecidableEq, Repr

/-- parse and convert a BDL text (no catalogue) -/
def verdict (text : Str) : Verdict :=
  match dataNew text with
  | .panic _ => .crashed
  | .err _ => .rejected
  | .ok d =>
    match Conv.convert (skelOf d) with
    | .ok _ => .converted
    | .error _ => .rejected

/-- the converted model's references, end to end -/
def convertText (text : Str) : Option Conv.Mdl :=
  match dataNew text with
  | .ok d => (Conv.convert (skelOf d)).toOption
  | _ => none

end Cte.Pipeline
