/-
The bemodel data model (`bemodel/src/types/*.rs`), field for field, over exact rationals.
Ids are the canonical text of the UUID.
-/
import Cte.Model.Num
namespace Cte

abbrev Id := String

inductive Bounds | exterior | interior | ground | adiabatic
  deriving DecidableEq, Repr, Inhabited
inductive SpaceKind | conditioned | unconditioned | uninhabited
  deriving DecidableEq, Repr, Inhabited
inductive TiltC | bottom | top | side
  deriving DecidableEq, Repr, Inhabited
inductive Orient | n | ne | e | se | s | sw | w | nw | hz
  deriving DecidableEq, Repr, Inhabited
inductive TbKind | roof | balcony | corner | intermediatefloor | internalwall | groundfloor | pillar
  | window | generic
  deriving DecidableEq, Repr, Inhabited

structure P2 where
  x : Rat
  y : Rat
  deriving DecidableEq, Repr, Inhabited
structure P3 where
  x : Rat
  y : Rat
  z : Rat
  deriving DecidableEq, Repr, Inhabited

structure Space where
  id : Id
  name : String := ""
  multiplier : Rat := 1
  kind : SpaceKind := .conditioned
  insideTenv : Bool := true
  height : Rat
  z : Rat := 0
  loads : Option Id := none
  thermostat : Option Id := none
  nV : Option Rat := none
  illuminance : Option Rat := none
  deriving DecidableEq, Repr, Inhabited

structure WallGeom where
  tilt : Rat
  azimuth : Rat
  position : Option P3 := none
  polygon : List P2 := []
  deriving DecidableEq, Repr, Inhabited

structure Wall where
  id : Id
  name : String := ""
  bounds : Bounds
  cons : Id
  space : Id
  nextTo : Option Id := none
  geometry : WallGeom
  deriving DecidableEq, Repr, Inhabited

structure Shade where
  id : Id
  name : String := ""
  geometry : WallGeom
  deriving DecidableEq, Repr, Inhabited

structure WinGeom where
  position : Option P2 := none
  height : Rat
  width : Rat
  setback : Rat
  deriving DecidableEq, Repr, Inhabited

structure Window where
  id : Id
  name : String := ""
  cons : Id
  wall : Id
  geometry : WinGeom
  deriving DecidableEq, Repr, Inhabited

structure ThermalBridge where
  id : Id
  name : String := ""
  kind : TbKind := .generic
  l : Rat := 0
  /-- IEEE sign bit of `l` as loaded (distinguishes `-0.0`) -/
  lSign : Bool := false
  psi : Rat := 0
  deriving DecidableEq, Repr, Inhabited

structure Layer where
  material : Id
  e : Rat
  deriving DecidableEq, Repr, Inhabited

structure WallCons where
  id : Id
  name : String := ""
  layers : List Layer := []
  absorptance : Rat
  deriving DecidableEq, Repr, Inhabited

structure WinCons where
  id : Id
  name : String := ""
  glass : Id
  frame : Id
  fF : Rat
  deltaU : Rat
  gGlshwi : Option Rat := none
  c100 : Rat
  deriving DecidableEq, Repr, Inhabited

inductive MatProps where
  | detailed (conductivity density specificHeat : Rat) (vapourDiff : Option Rat)
  | resistance (resistance : Rat) (vapourDiff : Option Rat)
  deriving DecidableEq, Repr, Inhabited

structure Material where
  id : Id
  name : String := ""
  properties : MatProps
  deriving DecidableEq, Repr, Inhabited

structure Glass where
  id : Id
  name : String := ""
  uValue : Rat
  gGln : Rat
  deriving DecidableEq, Repr, Inhabited

structure Frame where
  id : Id
  name : String := ""
  uValue : Rat
  absorptivity : Rat
  deriving DecidableEq, Repr, Inhabited

structure ConsDb where
  wallcons : List WallCons := []
  wincons : List WinCons := []
  materials : List Material := []
  glasses : List Glass := []
  frames : List Frame := []
  deriving DecidableEq, Repr, Inhabited

structure Schedule where   -- year and week schedules: (id, count) pairs
  id : Id
  name : String := ""
  values : List (Id × Nat) := []
  deriving DecidableEq, Repr, Inhabited

structure ScheduleDay where
  id : Id
  name : String := ""
  values : List Rat := []
  deriving DecidableEq, Repr, Inhabited

structure SchedulesDb where
  year : List Schedule := []
  week : List Schedule := []
  day : List ScheduleDay := []
  deriving DecidableEq, Repr, Inhabited

structure SpaceLoads where
  id : Id
  name : String := ""
  areaPerPerson : Rat
  peopleSchedule : Option Id := none
  peopleSensible : Rat
  peopleLatent : Rat
  equipment : Rat
  equipmentSchedule : Option Id := none
  lighting : Rat
  lightingSchedule : Option Id := none
  deriving DecidableEq, Repr, Inhabited

structure Thermostat where
  id : Id
  name : String := ""
  tempMax : Option Id := none
  tempMin : Option Id := none
  deriving DecidableEq, Repr, Inhabited

structure Meta where
  name : String := ""
  isNewBuilding : Bool
  isDwelling : Bool
  numDwellings : Int
  climate : String
  globalVentilation : Option Rat := none
  n50Test : Option Rat := none
  dPerimInsulation : Rat := 0
  rnPerimInsulation : Rat := 0
  deriving DecidableEq, Repr, Inhabited

structure WinOverride where
  uValue : Option Rat := none
  fShobst : Option Rat := none
  deriving DecidableEq, Repr, Inhabited

structure Overrides where
  walls : List (Id × Option Rat) := []
  windows : List (Id × WinOverride) := []
  deriving DecidableEq, Repr, Inhabited

structure Model where
  info : Meta
  spaces : List Space := []
  walls : List Wall := []
  windows : List Window := []
  thermalBridges : List ThermalBridge := []
  shades : List Shade := []
  cons : ConsDb := {}
  schedules : SchedulesDb := {}
  loads : List SpaceLoads := []
  thermostats : List Thermostat := []
  overrides : Overrides := {}
  deriving DecidableEq, Repr, Inhabited

/-- `Meta::default()` -/
def Meta.dflt : Meta :=
  { name := "Nombre del proyecto", isNewBuilding := true, isDwelling := true, numDwellings := 1,
    climate := "D3" }

def Model.dflt : Model := { info := Meta.dflt }

end Cte
