/-
The serde field rules of the model format as a struct codec over JSON values, one level at a time:
a struct is a list of fields, each with a key and a rule (required / `Option` written as null /
`Option` skipped when `None` / default + skip when equal to the default / default, always written).
Field values are the JSON encodings of the sub-values (`null` stands for `None`).
-/
import Cte.Model.Json
namespace Cte

/-! ### structural equality of JSON values -/
mutual
  def J.beq : J → J → Bool
    | .null, .null => true
    | .bool a, .bool b => a == b
    | .num a b c, .num a' b' c' => a == a' && b == b' && c == c'
    | .str a, .str b => a == b
    | .arr a, .arr b => beqList a b
    | .obj a, .obj b => beqKvs a b
    | _, _ => false
  def beqList : List J → List J → Bool
    | [], [] => true
    | x :: xs, y :: ys => J.beq x y && beqList xs ys
    | _, _ => false
  def beqKvs : List (String × J) → List (String × J) → Bool
    | [], [] => true
    | (k, x) :: xs, (k', y) :: ys => k == k' && J.beq x y && beqKvs xs ys
    | _, _ => false
end

namespace Codec

inductive Rule where
  | req                 -- no serde attribute, not an `Option`
  | optNull             -- `Option<T>` without attributes: written as null, missing key reads as None
  | optSkip             -- `#[serde(default, skip_serializing_if = "Option::is_none")]`
  | dfltSkip (d : J)    -- `#[serde(default [= f], skip_serializing_if = p)]` with p v ⇔ v == default
  | dfltKeep (d : J)    -- default from the struct-level `#[serde(default)]`, always written
  deriving Inhabited

structure Field where
  key : String
  rule : Rule
  deriving Inhabited

def lookup (k : String) : List (String × J) → Option J
  | [] => none
  | (k', v) :: t => if k' = k then some v else lookup k t

/-- what serialisation writes for a field holding `v` -/
def Field.put (f : Field) (v : J) : List (String × J) :=
  match f.rule with
  | .req | .optNull | .dfltKeep _ => [(f.key, v)]
  | .optSkip => match v with
    | .null => []
    | _ => [(f.key, v)]
  | .dfltSkip d => if J.beq v d then [] else [(f.key, v)]

/-- what deserialisation reads for a field from the looked-up value -/
def Field.get (f : Field) (o : Option J) : Option J :=
  match f.rule, o with
  | _, some v => some v
  | .req, none => none
  | .optNull, none => some .null
  | .optSkip, none => some .null
  | .dfltSkip d, none => some d
  | .dfltKeep d, none => some d

def encodeFields : List Field → List J → List (String × J)
  | f :: fs, v :: vs => f.put v ++ encodeFields fs vs
  | _, _ => []

def decodeFields (fs : List Field) (obj : List (String × J)) : Option (List J) :=
  fs.mapM (fun f => f.get (lookup f.key obj))

/-! ### numbers that may not be finite (the indicators: `f32` and `Option<f32>` fields) -/

/-- an `f32` as serde_json sees it: a finite decimal, or NaN / ±inf -/
inductive F32J where
  | fin (neg : Bool) (mant : Nat) (exp : Int)
  | nonfinite
  deriving DecidableEq, Repr, Inhabited

/-- serde_json writes NaN and the infinities as `null` -/
def F32J.enc : F32J → J
  | .fin n m e => .num n m e
  | .nonfinite => .null

/-- a field of type `f32` does not accept `null` -/
def F32J.dec : J → Option F32J
  | .num n m e => some (.fin n m e)
  | _ => none

/-- a field of type `Option<f32>` reads `null` as `None` -/
def F32J.decOpt : J → Option (Option F32J)
  | .null => some none
  | .num n m e => some (some (.fin n m e))
  | _ => none

def F32J.encOpt : Option F32J → J
  | none => .null
  | some x => x.enc

end Codec
end Cte
