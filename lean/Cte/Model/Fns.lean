/-
Transcendental functions are parameters of the model (`Fns`); the driver instantiates them with
rational approximations good to ~1e-12, the theorems assume only the algebraic facts they use.
-/
import Cte.Model.Num
namespace Cte

structure Fns where
  ln : Rat → Rat
  pi : Rat
  sqrt : Rat → Rat
  /-- rounding bias used only by the correspondence check: −1/0/+1 shifts every value by about one
  f32 ulp before it is rounded, so that the three runs bracket what f32 noise can do at a rounding
  tie.  Every theorem is about `bias = 0`, where `r2 = round2` and `r3 = round3`. -/
  bias : Int := 0

def Fns.nudge (F : Fns) (x : Rat) : Rat := x + (F.bias : Rat) * (rabs x / 500000 + 1 / 1000000000)
/-- `fround2` -/
def Fns.r2 (F : Fns) (x : Rat) : Rat := round2 (F.nudge x)
/-- `fround3` -/
def Fns.r3 (F : Fns) (x : Rat) : Rat := round3 (F.nudge x)

/-- truncate to a dyadic grid of `2^-bits` (keeps numerators small in the series below) -/
def truncBits (x : Rat) (bits : Nat := 48) : Rat :=
  ((x * ((2 ^ bits : Nat) : Rat)).floor : Rat) / ((2 ^ bits : Nat) : Rat)

/-- Newton iteration for the square root, 40 steps from a power-of-two start, on a dyadic grid -/
def sqrtApprox (x : Rat) : Rat :=
  if x ≤ 0 then 0 else
    let start : Rat := if x ≥ 1 then x else 1
    let rec go : Nat → Rat → Rat
      | 0, y => y
      | n + 1, y => go n (truncBits ((y + x / y) / 2) 60)
    go 60 start

def ln2 : Rat := 6931471805599453094 / 10000000000000000000

/-- series `2·atanh y = 2 Σ y^(2i+1)/(2i+1)` with `terms` terms -/
def atanh2 (y : Rat) (terms : Nat) : Rat :=
  let y2 := y * y
  let rec go : Nat → Nat → Rat → Rat → Rat
    | 0, _, _, acc => acc
    | n + 1, i, p, acc => go n (i + 1) (truncBits (p * y2) 70) (acc + p / ((2 * i + 1 : Nat) : Rat))
  2 * go terms 0 y 0

/-- natural logarithm for `x > 0`: `x = m·2^k`, `m ∈ [1,2)`, `ln m = 2 atanh((m-1)/(m+1))` -/
def lnApprox (x : Rat) : Rat :=
  if x ≤ 0 then 0 else
    -- bring into [1,2) by at most 200 halvings/doublings
    let rec up : Nat → Rat → Int → Rat × Int
      | 0, m, k => (m, k)
      | n + 1, m, k => if m < 1 then up n (m * 2) (k - 1) else (m, k)
    let rec down : Nat → Rat → Int → Rat × Int
      | 0, m, k => (m, k)
      | n + 1, m, k => if m ≥ 2 then down n (m / 2) (k + 1) else (m, k)
    let (m1, k1) := up 200 x 0
    let (m, k) := down 200 m1 k1
    let m := truncBits m 56
    let y := (m - 1) / (m + 1)
    truncBits ((k : Rat) * ln2 + atanh2 y 22) 60

def piApprox : Rat := 3141592653589793238 / 1000000000000000000

def Fns.approx (bias : Int := 0) : Fns := { ln := lnApprox, pi := piApprox, sqrt := sqrtApprox, bias := bias }

end Cte
