/-
  C18 — the typed elements built from the blocks (`TryFrom<BdlBlock>` in hulc/src/bdl/envelope/*.rs, db/*.rs,
  systems/schedules.rs) and their assembly (`Data::new`, hulc/src/bdl/mod.rs), as total functions.
  Numbers are the exact decimals written in the file (`none` = a non-finite value, inf / nan words); values the
  code computes in f32 (sums, products) are computed exactly here and compared with a relative tolerance.
-/
import Cte.Model.Bdl
import Cte.Model.Damage

namespace Cte.BdlData
open Cte.Bdl

/-- a numeric value: the written decimal as a rational; `none` for inf / nan -/
abbrev TNum := Option Rat

def pow10 (e : Int) : Rat := if e ≥ 0 then ((10 : Rat) ^ e.toNat) else 1 / ((10 : Rat) ^ (-e).toNat)

/-- the least magnitude that `f32` parsing rounds to infinity: 2^128 − 2^103 (half an ulp above `f32::MAX`) -/
def f32Overflow : Rat := (2 : Rat) ^ 128 - (2 : Rat) ^ 103

def numRat : Num → TNum
  | .fin neg mant exp =>
    let v : Rat := (mant : Rat) * pow10 exp
    if v ≥ f32Overflow then none else some ((if neg then -1 else 1) * v)
  | _ => none

def tadd (a b : TNum) : TNum := a.bind (fun x => b.map (fun y => x + y))
def tmul (a b : TNum) : TNum := a.bind (fun x => b.map (fun y => x * y))

abbrev Attrs := List (Str × Val)

def getVal (a : Attrs) (k : String) : Option Val := (a.find? (·.1 == k.toList)).map (·.2)
/-- `AttrMap::get_f32` / `remove_f32` -/
def getNum (a : Attrs) (k : String) : Option TNum :=
  match getVal a k with
  | some (.num n) => some (numRat n)
  | _ => none
/-- `AttrMap::get_str` / `remove_str` -/
def getStr (a : Attrs) (k : String) : Option Str :=
  match getVal a k with
  | some (.str s) => some s
  | _ => none

def reqNum (a : Attrs) (k : String) : Except String TNum :=
  match getNum a k with | some v => .ok v | none => .error ("Atributo '" ++ k ++ "' no encontrado")
def reqStr (a : Attrs) (k : String) : Except String Str :=
  match getStr a k with | some v => .ok v | none => .error ("Atributo '" ++ k ++ "' no encontrado")
def numOr (a : Attrs) (k : String) (d : Rat) : TNum := (getNum a k).getD (some d)

/-- `str::trim_matches(&[' ', '(', ')'])` -/
def trimParen (s : Str) : Str :=
  let p := fun (c : Char) => c == ' ' || c == '(' || c == ')'
  ((s.dropWhile p).reverse.dropWhile p).reverse

/-- `str::split(c)` -/
def splitChar (c : Char) : Str → List Str
  | [] => [[]]
  | x :: t =>
    if x = c then [] :: splitChar c t
    else match splitChar c t with
      | h :: r => (x :: h) :: r
      | [] => [[x]]

/-- `extract_namesvec` -/
def extractNames (s : Str) : List Str :=
  (((splitChar '"' (trimParen s)).map trim).filter (fun v => v != [','] && !v.isEmpty))

/-- `extract_f32vec` -/
def extractNums (s : Str) : Option (List TNum) :=
  ((splitChar ',' (trimParen s)).map (fun v => (parseF32 (trim v)).map numRat)).mapM id

/-- `extract_u32vec` -/
def extractNats (s : Str) : Option (List Nat) :=
  ((splitChar ',' (trimParen s)).map (fun v =>
    let t := trim v
    let ds := match t with | '+' :: r => r | r => r
    if ds.isEmpty || !ds.all isDigit then none
    else let n := digitsVal 0 ds; if n < 4294967296 then some n else none)).mapM id

/-- `point2_from_str` / `point3_from_str` -/
def pointFromStr (n : Nat) (s : Str) : Option (List TNum) :=
  let parts := (splitChar ',' s).map trimParen
  if parts.length != n then none else (parts.map (fun p => (parseF32 p).map numRat)).mapM id

/-- `name.replace("  ", " ")` -/
def squeeze2 : Str → Str
  | ' ' :: ' ' :: t => ' ' :: squeeze2 t
  | c :: t => c :: squeeze2 t
  | [] => []

/-- vertices `V1`, `V2`, … while they are present as strings -/
def vertices (a : Attrs) (dim : Nat) : Nat → Nat → Except String (List (List TNum))
  | 0, _ => .ok []
  | fuel + 1, i =>
    match getStr a ("V" ++ toString i) with
    | none => .ok []
    | some v =>
      match pointFromStr dim v with
      | none => .error "Fallo al generar punto"
      | some p =>
        match vertices a dim fuel (i + 1) with
        | .error e => .error e
        | .ok r => .ok (p :: r)

structure Polygon where
  pts : List (List TNum)
  deriving Repr

def polygonOf (b : Block) : Except String Polygon :=
  match vertices b.attrs 2 (b.attrs.length + 1) 1 with
  | .ok v => .ok ⟨v⟩
  | .error e => .error e

structure Floor where
  name : Str
  z : TNum
  height : TNum
  multiplier : TNum
  previous : Str
  deriving Repr

inductive Res (α : Type) where
  | ok (v : α)
  | err (e : String)
  | panic (site : String)

def floorOf (b : Block) : Res Floor :=
  let z := numOr b.attrs "Z" 0
  -- an X or Y offset (or a NaN there) is rejected (before the repair: `assert!`)
  if numOr b.attrs "X" 0 != some 0 || numOr b.attrs "Y" 0 != some 0 then .err "Planta con desplazamiento X, Y no soportado" else
  match reqNum b.attrs "SPACE-HEIGHT", reqStr b.attrs "PREVIOUS" with
  | .ok h, .ok p => .ok { name := b.name, z := z, height := h, multiplier := numOr b.attrs "MULTIPLIER" 1, previous := p }
  | .error e, _ => .err e
  | _, .error e => .err e

structure Space where
  name : Str
  stype : Str
  height : TNum
  x : TNum
  y : TNum
  z : TNum
  angle : TNum
  insidete : Bool
  floor : Str
  power : TNum
  veeiObj : TNum
  veeiRef : TNum
  spacetype : Str
  spaceconds : Str
  systemconds : Str
  multiplier : TNum
  ismultiplied : Bool
  airchanges : Option TNum
  polygon : Polygon := ⟨[]⟩
  floorMultiplier : TNum := some 1
  deriving Repr

def rabsQ (q : Rat) : Rat := if q < 0 then -q else q

def spaceOf (b : Block) : Except String Space :=
  let a := b.attrs
  match reqStr a "SHAPE" with
  | .error e => .error e
  | .ok shape =>
    if shape != "POLYGON".toList then .error "Tipo de espacio desconocido" else
    match reqStr a "TYPE" with
    | .error e => .error e
    | .ok stype =>
      let insidete := match getStr a "perteneceALaEnvolventeTermica" with
        | some v => v == "SI".toList
        | none => stype == "CONDITIONED".toList
      match b.parent with
      | none => .error "No se encuentra la planta"
      | some floor =>
        match reqNum a "POWER", reqNum a "VEEI-OBJ", reqNum a "VEEI-REF", reqStr a "SPACE-TYPE", reqNum a "MULTIPLIER", reqNum a "MULTIPLIED" with
        | .ok power, .ok vo, .ok vr, .ok spacetype, .ok mult, .ok multd =>
          let spaceconds := (getStr a "SPACE-CONDITIONS").getD spacetype
          let systemconds := (getStr a "SYSTEM-CONDITIONS").getD spacetype
          let ismult := match multd with | some m => decide (rabsQ (m - 1) < 1 / 10) | none => false
          let air : Option TNum :=
            if stype == "UNHABITED".toList && spaceconds == "NIVEL_ESTANQUEIDAD_1".toList then some (some (1 / 10))
            else if stype == "UNHABITED".toList && spaceconds == "NIVEL_ESTANQUEIDAD_2".toList then some (some (1 / 2))
            else if stype == "UNHABITED".toList && spaceconds == "NIVEL_ESTANQUEIDAD_3".toList then some (some 1)
            else if stype == "UNHABITED".toList && spaceconds == "NIVEL_ESTANQUEIDAD_4".toList then some (some 3)
            else if stype == "UNHABITED".toList && spaceconds == "NIVEL_ESTANQUEIDAD_5".toList then some (some 10)
            else getNum a "AIR-CHANGES/HR"
          .ok { name := b.name, stype := stype, height := numOr a "HEIGHT" 0, x := numOr a "X" 0, y := numOr a "Y" 0, z := numOr a "Z" 0,
                angle := numOr a "AZIMUTH" 0, insidete := insidete, floor := floor, power := power, veeiObj := vo, veeiRef := vr,
                spacetype := spacetype, spaceconds := spaceconds, systemconds := systemconds, multiplier := mult, ismultiplied := ismult,
                airchanges := air }
        | .error e, _, _, _, _, _ => .error e
        | _, .error e, _, _, _, _ => .error e
        | _, _, .error e, _, _, _ => .error e
        | _, _, _, .error e, _, _ => .error e
        | _, _, _, _, .error e, _ => .error e
        | _, _, _, _, _, .error e => .error e

structure Wall where
  name : Str
  space : Str
  cons : Str
  location : Option Str
  x : TNum
  y : TNum
  z : TNum
  /-- `none` when the code computes it from the space outline (walls on an edge) -/
  angle : Option TNum
  tilt : TNum
  hasPolygon : Bool
  polygon : Option Polygon := none
  bounds : String
  nextto : Option Str
  deriving Repr

/-- `LOCATION`: TOP, BOTTOM, or the vertex name after `SPACE-` -/
def wallLocation (a : Attrs) : Except String (Option Str) :=
  match getStr a "LOCATION" with
  | none => .ok none
  | some loc =>
    if loc == "TOP".toList || loc == "BOTTOM".toList then .ok (some loc)
    else if startsWith "SPACE-".toList loc then .ok (some (loc.drop 6))
    else .error "localización desconocida"

/-- boundary type from the block type (and INT-WALL-TYPE for interior walls) -/
def wallBounds (b : Block) : Except String String :=
  if b.btype == "INTERIOR-WALL".toList then
    match reqStr b.attrs "INT-WALL-TYPE" with
    | .error e => .error e
    | .ok t => if t == "STANDARD".toList then .ok "INTERIOR" else if t == "ADIABATIC".toList then .ok "ADIABATIC" else .error "subtipo desconocido"
  else if b.btype == "UNDERGROUND-WALL".toList then .ok "GROUND"
  else if b.btype == "EXTERIOR-WALL".toList || b.btype == "ROOF".toList then .ok "EXTERIOR"
  else .error "tipo desconocido"

/-- written TILT, or the default of the element kind -/
def wallTilt (b : Block) (location : Option Str) : TNum :=
  match getNum b.attrs "TILT" with
  | some t => t
  | none =>
    if b.btype == "ROOF".toList || location == some "TOP".toList then some 0
    else if location == some "BOTTOM".toList then some 180
    else some 90

def wallOf (b : Block) : Except String Wall :=
  let a := b.attrs
  match b.parent, reqStr a "CONSTRUCTION", wallLocation a, wallBounds b with
  | none, _, _, _ => .error "Cerramiento sin espacio asociado"
  | some _, .error e, _, _ => .error e
  | some _, .ok _, .error e, _ => .error e
  | some _, .ok _, .ok _, .error e => .error e
  | some space, .ok cons, .ok location, .ok bounds =>
    .ok { name := b.name, space := space, cons := cons, location := location, x := numOr a "X" 0, y := numOr a "Y" 0, z := numOr a "Z" 0,
          angle := some (if location == some "BOTTOM".toList then some 180 else numOr a "AZIMUTH" 0),
          tilt := wallTilt b location, hasPolygon := (getStr a "POLYGON").isSome, bounds := bounds,
          nextto := if bounds == "INTERIOR" then getStr a "NEXT-TO" else none }

structure Window where
  name : Str
  wall : Str
  cons : Str
  x : TNum
  y : TNum
  height : TNum
  width : TNum
  setback : TNum
  coefs : Option (List TNum)
  overhang : Option (List TNum)
  leftFin : Option (List TNum)
  rightFin : Option (List TNum)
  deriving Repr

/-- a value with its kind of non-finiteness (needed where the code compares: `inf * 1.5 > 0.0` is true, `NaN > 0.0` is not) -/
inductive XV where
  | fin (q : Rat)
  | inf (neg : Bool)
  | nan
  deriving Repr

def xvOf : Num → XV
  | .fin neg mant exp =>
    let v : Rat := (mant : Rat) * pow10 exp
    if v ≥ f32Overflow then .inf neg else .fin ((if neg then -1 else 1) * v)
  | .inf neg => .inf neg
  | .nan => .nan

/-- `attrs.remove_f32(k).unwrap_or_default()` with the kind of the value kept -/
def xvAttr (a : Attrs) (k : String) : XV :=
  match getVal a k with
  | some (.num n) => xvOf n
  | _ => .fin 0

/-- `depth * width > 0.0` in IEEE arithmetic: `inf * 0` is NaN, NaN compares false -/
def xvProdPos : XV → XV → Bool
  | .fin x, .fin y => decide (x * y > 0)
  | .fin x, .inf n => if x = 0 then false else decide (x > 0) != n
  | .inf n, .fin x => if x = 0 then false else decide (x > 0) != n
  | .inf m, .inf n => m == n
  | _, _ => false

/-- `depth * width > 0.0` on the attributes `kd`, `kw` -/
def prodPos (a : Attrs) (kd kw : String) : Bool := xvProdPos (xvAttr a kd) (xvAttr a kw)

def windowOf (b : Block) : Except String Window :=
  let a := b.attrs
  match b.parent with
  | none => .error "Hueco sin opaco asociado"
  | some wall =>
    match reqStr a "GAP", reqNum a "X", reqNum a "Y", reqNum a "HEIGHT", reqNum a "WIDTH", reqNum a "SETBACK" with
    | .ok cons, .ok x, .ok y, .ok h, .ok w, .ok sb =>
      let coefsRes : Except String (Option (List TNum)) := match getStr a "COEFF" with
        | none => .ok none
        | some v => match extractNums v with
          | some l => if l.length == 4 then .ok (some l) else .error "coeficientes"
          | none => .error "coeficientes"
      match coefsRes with
      | .error e => .error e
      | .ok coefs =>
        let n := fun k => numOr a k 0
        let ov := [n "OVERHANG-A", n "OVERHANG-B", n "OVERHANG-D", n "OVERHANG-W", n "OVERHANG-ANGLE"]
        let lf := [n "LEFT-FIN-A", n "LEFT-FIN-B", n "LEFT-FIN-D", n "LEFT-FIN-H"]
        let rf := [n "RIGHT-FIN-A", n "RIGHT-FIN-B", n "RIGHT-FIN-D", n "RIGHT-FIN-H"]
        .ok { name := b.name, wall := wall, cons := cons, x := x, y := y, height := h, width := w, setback := sb, coefs := coefs,
              overhang := if prodPos a "OVERHANG-D" "OVERHANG-W" then some ov else none,
              leftFin := if prodPos a "LEFT-FIN-D" "LEFT-FIN-H" then some lf else none,
              rightFin := if prodPos a "RIGHT-FIN-D" "RIGHT-FIN-H" then some rf else none }
    | .error e, _, _, _, _, _ => .error e
    | _, .error e, _, _, _, _ => .error e
    | _, _, .error e, _, _, _ => .error e
    | _, _, _, .error e, _, _ => .error e
    | _, _, _, _, .error e, _ => .error e
    | _, _, _, _, _, .error e => .error e

structure Material where
  name : Str
  group : Str
  /-- thickness, conductivity, density, specific heat, vapour diffusivity -/
  properties : Option (Option TNum × TNum × TNum × TNum × Option TNum)
  resistance : Option TNum
  deriving Repr

def materialOf (b : Block) : Except String Material :=
  let a := b.attrs
  let group := (getStr a "GROUP").getD "Materiales".toList
  match reqStr a "TYPE" with
  | .error e => .error e
  | .ok t =>
    if t == "PROPERTIES".toList then
      match reqNum a "CONDUCTIVITY", reqNum a "DENSITY" with
      | .ok c, .ok d =>
        let props := (getNum a "THICKNESS", c, d, numOr a "SPECIFIC-HEAT" 800, getNum a "VAPOUR-DIFFUSIVITY-FACTOR")
        .ok { name := squeeze2 b.name, group := group, properties := some props, resistance := none }
      | .error e, _ => .error e
      | _, .error e => .error e
    else
      match reqNum a "RESISTANCE" with
      | .ok r => .ok { name := squeeze2 b.name, group := group, properties := none, resistance := some r }
      | .error e => .error e

structure WallCons where
  name : Str
  group : Str
  material : List Str
  thickness : List TNum
  absorptance : TNum
  deriving Repr

def utf8Len (c : Char) : Nat := if c.toNat < 0x80 then 1 else if c.toNat < 0x800 then 2 else if c.toNat < 0x10000 then 3 else 4

/-- the last 5 *bytes* of a name as text: `none` when byte 5 from the end falls inside a character (the slice panics) -/
def last5Bytes (s : Str) : Option Str :=
  let rec go (acc : Str) (n : Nat) : Str → Option Str
    | [] => if n == 5 then some acc else none
    | c :: t => if n == 5 then some acc else if n + utf8Len c > 5 then none else go (c :: acc) (n + utf8Len c) t
  go [] 0 s.reverse

def wallConsOf (b : Block) : Res WallCons :=
  let a := b.attrs
  let group := (getStr a "GROUP").getD "Capas".toList
  match reqStr a "MATERIAL", reqStr a "THICKNESS" with
  | .error e, _ => .err e
  | _, .error e => .err e
  | .ok ms, .ok ts =>
    let material := extractNames ms
    match extractNums ts with
    | none => .err "Error en la conversión numérica"
    | some thickness =>
      if material.length != thickness.length then .err "listas de distinta longitud"
      else
        -- the last 5 bytes of the name, when they are text (`str::get`; before the repair a slice that panicked off a char boundary)
        let fixed : List TNum := (material.zip thickness).map (fun mt =>
          if startsWith "Cámara de aire ".toList mt.1 then
            match last5Bytes mt.1 with
            | none => mt.2
            | some tail =>
              if tail == " 1 cm".toList then some (1 / 100)
              else if tail == " 2 cm".toList then some (2 / 100)
              else if tail == " 5 cm".toList then some (5 / 100)
              else if tail == "10 cm".toList then some (10 / 100)
              else mt.2
          else mt.2)
        .ok { name := b.name, group := group, material := material, thickness := fixed, absorptance := some 0 }

structure Construction where
  name : Str
  parent : Str
  layers : Str
  absorptance : TNum
  deriving Repr

def constructionOf (b : Block) : Except String Construction :=
  let a := b.attrs
  match reqStr a "TYPE" with
  | .error e => .error e
  | .ok t =>
    if t != "LAYERS".toList then .error "no definida por capas" else
    match reqStr a "LAYERS" with
    | .error e => .error e
    | .ok layers =>
      match b.parent with
      | none => .error "sin elemento"
      | some p => .ok { name := b.name, parent := p, layers := layers, absorptance := numOr a "ABSORPTANCE" (6 / 10) }

structure Glass where
  name : Str
  group : Str
  conductivity : TNum
  gGln : TNum
  deriving Repr

def glassOf (b : Block) : Except String Glass :=
  let a := b.attrs
  match reqStr a "TYPE" with
  | .error e => .error e
  | .ok t =>
    if t != "SHADING-COEF".toList then .error "vidrio por código" else
    match reqNum a "GLASS-CONDUCTANCE", reqNum a "SHADING-COEF" with
    | .ok c, .ok s => .ok { name := b.name, group := (getStr a "GROUP").getD "Vidrios".toList, conductivity := c, gGln := tmul s (some (86 / 100)) }
    | .error e, _ => .error e
    | _, .error e => .error e

structure Frame where
  name : Str
  group : Str
  conductivity : TNum
  absorptivity : TNum
  width : TNum
  deriving Repr

def frameOf (b : Block) : Except String Frame :=
  let a := b.attrs
  match reqStr a "GROUP", reqNum a "FRAME-CONDUCT", reqNum a "FRAME-ABS", reqNum a "FRAME-WIDTH" with
  | .ok g, .ok c, .ok ab, .ok w => .ok { name := b.name, group := g, conductivity := c, absorptivity := ab, width := w }
  | .error e, _, _, _ => .error e
  | _, .error e, _, _ => .error e
  | _, _, .error e, _ => .error e
  | _, _, _, .error e => .error e

structure WinCons where
  name : Str
  group : Str
  glass : Str
  frame : Str
  framefrac : TNum
  infcoeff : TNum
  deltau : TNum
  gglshwi : Option TNum
  deriving Repr

def winConsOf (b : Block) : Except String WinCons :=
  let a := b.attrs
  match reqStr a "GLASS-TYPE", reqStr a "GROUP-GLASS", reqStr a "NAME-FRAME", reqStr a "GROUP-FRAME", reqNum a "PORCENTAGE", reqNum a "INF-COEF" with
  | .ok g, .ok _, .ok f, .ok _, .ok p, .ok i =>
    .ok { name := b.name, group := (getStr a "GROUP").getD "Ventanas".toList, glass := g, frame := f, framefrac := tmul p (some (1 / 100)),
          infcoeff := i, deltau := numOr a "porcentajeIncrementoU" 0, gglshwi := getNum a "TransmisividadJulio" }
  | .error e, _, _, _, _, _ => .error e
  | _, .error e, _, _, _, _ => .error e
  | _, _, .error e, _, _, _ => .error e
  | _, _, _, .error e, _, _ => .error e
  | _, _, _, _, .error e, _ => .error e
  | _, _, _, _, _, .error e => .error e

inductive Sched where
  | day (name : Str) (kind : Str) (values : List TNum)
  | week (name : Str) (kind : Str) (days : List Str)
  | year (name : Str) (kind : Str) (days months : List Nat) (weeks : List Str)
  deriving Repr

def kindOk (k : Str) : Bool := k == "FRACTION".toList || k == "ON/OFF".toList || k == "TEMPERATURE".toList

def schedOf (b : Block) : Except String (Option Sched) :=
  let a := b.attrs
  if b.btype == "RUN-PERIOD-PD".toList then .ok none else
  match reqStr a "TYPE" with
  | .error e => .error e
  | .ok k =>
    if !kindOk k then .error "Tipo de horario desconocido" else
    if b.btype == "DAY-SCHEDULE-PD".toList then
      match reqStr a "VALUES" with
      | .error e => .error e
      | .ok v => match extractNums v with
        | none => .error "conversión numérica"
        | some vs => if vs.length == 24 || vs.length == 1 then .ok (some (.day (squeeze2 b.name) k vs)) else .error "longitud de valores horarios"
    else if b.btype == "WEEK-SCHEDULE-PD".toList then
      match reqStr a "DAY-SCHEDULES" with
      | .error e => .error e
      | .ok v =>
        let ds := extractNames v
        if ds.length == 7 || ds.length == 1 then .ok (some (.week (squeeze2 b.name) k ds)) else .error "longitud de valores semanales"
    else
      match reqStr a "DAY", reqStr a "MONTH", reqStr a "WEEK-SCHEDULES" with
      | .ok d, .ok m, .ok w =>
        match extractNats d, extractNats m with
        | some ds, some ms => .ok (some (.year (squeeze2 b.name) k ds ms (extractNames w)))
        | _, _ => .error "conversión numérica"
      | .error e, _, _ => .error e
      | _, .error e, _ => .error e
      | _, _, .error e => .error e

structure Shading where
  name : Str
  tran : TNum
  refl : TNum
  rect : Option (List TNum)      -- x, y, z, height, width, azimuth, tilt
  verts : Option (List (List TNum))
  deriving Repr

def shadingOf (b : Block) : Except String Shading :=
  let a := b.attrs
  match reqNum a "TRAN", reqNum a "REFL" with
  | .error e, _ => .error e
  | _, .error e => .error e
  | .ok t, .ok r =>
    if (getNum a "X").isSome then
      match reqNum a "X", reqNum a "Y", reqNum a "Z", reqNum a "HEIGHT", reqNum a "WIDTH", reqNum a "AZIMUTH", reqNum a "TILT" with
      | .ok x, .ok y, .ok z, .ok h, .ok w, .ok az, .ok ti => .ok { name := b.name, tran := t, refl := r, rect := some [x, y, z, h, w, az, ti], verts := none }
      | _, _, _, _, _, _, _ => .error "Atributo no encontrado"
    else
      match vertices a 3 (a.length + 1) 1 with
      | .error e => .error e
      | .ok vs => .ok { name := b.name, tran := t, refl := r, rect := none, verts := some vs }

/-- `ThermalBridge::try_from`: the fields the conversion uses, and the accept / reject conditions of the rest -/
structure ThermalBridge where
  name : Str
  length : Option TNum
  psi : TNum
  frsi : TNum
  tbtype : Str
  deriving Repr

def tbOf (b : Block) : Except String ThermalBridge :=
  let a := b.attrs
  let length := getNum a "LONG-TOTAL"
  let pf : Except String (TNum × TNum) :=
    if b.name == "LONGITUDES_CALCULADAS".toList then .ok (some 0, some 0)
    else match reqNum a "TTL", reqNum a "FRSI" with
      | .ok p, .ok f => .ok (p, f)
      | .error e, _ => .error e
      | _, .error e => .error e
  match pf with
  | .error e => .error e
  | .ok (psi, frsi) =>
    let tbtype := (getStr a "TYPE").getD []
    let geomOk : Bool :=
      if tbtype == "WINDOW-FRAME".toList || tbtype == "PILLAR".toList || tbtype.isEmpty then true
      else (getNum a "ANGLE-MIN").isSome && (getNum a "ANGLE-MAX").isSome && (getStr a "PARTITION").isSome
    if !geomOk then .error "Atributo no encontrado" else
    -- DEFINICION as i32 (truncation towards zero; NaN -> 0)
    let defn : Option Int := (getNum a "DEFINICION").map (fun v => match v with | some q => if q < 0 then -((-q).floor) else q.floor | none => 0)
    let catOk : Bool := match defn with
      | none => true
      | some 1 => true
      | some 2 => true
      | some 3 => (getStr a "LISTA-N").isSome && (match getStr a "LISTA-MARCO" with | some l => (extractNums l).isSome | none => true)
      | some _ => false
    if !catOk then .error "definición de puente térmico" else
    .ok { name := b.name, length := length, psi := psi, frsi := frsi, tbtype := tbtype }

/-- a name-keyed map as `BTreeMap::insert` fills it: the later value replaces the earlier one -/
def mapInsert {α : Type} (m : List (Str × α)) (k : Str) (v : α) : List (Str × α) :=
  if m.any (·.1 == k) then m.map (fun e => if e.1 == k then (k, v) else e) else m ++ [(k, v)]

def mapGet {α : Type} (m : List (Str × α)) (k : Str) : Option α := (m.find? (·.1 == k)).map (·.2)

/-- byte-wise order of the UTF-8 encodings = order of the code points: the order `BTreeMap<String, _>` iterates in -/
def strLt : Str → Str → Bool
  | [], [] => false
  | [], _ :: _ => true
  | _ :: _, [] => false
  | a :: s, b :: t => if a.toNat < b.toNat then true else if a.toNat > b.toNat then false else strLt s t

def insertSorted {α : Type} (e : Str × α) : List (Str × α) → List (Str × α)
  | [] => [e]
  | x :: t => if strLt e.1 x.1 then e :: x :: t else x :: insertSorted e t

def sortByKey {α : Type} (m : List (Str × α)) : List (Str × α) := m.foldr insertSorted []

structure Data where
  materials : List (Str × Material) := []
  glasses : List (Str × Glass) := []
  frames : List (Str × Frame) := []
  wallcons : List (Str × WallCons) := []
  wincons : List (Str × WinCons) := []
  spaces : List Space := []
  walls : List Wall := []
  windows : List Window := []
  tbs : List ThermalBridge := []
  shadings : List Shading := []
  schedules : List Sched := []
  spaceConds : List Str := []
  systemConds : List Str := []
  metaTypes : List Str := []
  /-- the SPACE-CONDITIONS / SYSTEM-CONDITIONS blocks themselves (the conversion reads their attributes), last one per name -/
  spaceCondBlocks : List (Str × Block) := []
  systemCondBlocks : List (Str × Block) := []
  deriving Repr

def isType (b : Block) (ts : List String) : Bool := ts.any (fun t => t.toList == b.btype)

structure DbSt where
  constructions : List (Str × Construction) := []
  materials : List (Str × Material) := []
  glasses : List (Str × Glass) := []
  frames : List (Str × Frame) := []
  layers : List (Str × WallCons) := []
  wincons : List (Str × WinCons) := []

def dbStep (st : DbSt) (b : Block) : Res DbSt :=
  if isType b ["CONSTRUCTION"] then
    match constructionOf b with | .ok c => .ok { st with constructions := mapInsert st.constructions b.name c } | .error e => .err e
  else if isType b ["MATERIAL"] then
    match materialOf b with | .ok m => .ok { st with materials := mapInsert st.materials m.name m } | .error e => .err e
  else if isType b ["NAME-FRAME"] then
    match frameOf b with | .ok f => .ok { st with frames := mapInsert st.frames f.name f } | .error e => .err e
  else if isType b ["GLASS-TYPE"] then
    match glassOf b with | .ok g => .ok { st with glasses := mapInsert st.glasses g.name g } | .error e => .err e
  else if isType b ["LAYERS"] then
    match wallConsOf b with
    | .ok w => .ok { st with layers := mapInsert st.layers w.name w }
    | .err e => .err e
    | .panic p => .panic p
  else
    match winConsOf b with | .ok w => .ok { st with wincons := mapInsert st.wincons w.name w } | .error e => .err e

def foldRes {σ α : Type} (f : σ → α → Res σ) : σ → List α → Res σ
  | st, [] => .ok st
  | st, x :: t =>
    match f st x with
    | .ok st' => foldRes f st' t
    | .err e => .err e
    | .panic p => .panic p

structure EnvSt where
  polygons : List (Str × Polygon)
  spaces : List Space := []
  walls : List Wall := []
  windows : List Window := []
  tbs : List ThermalBridge := []
  shadings : List Shading := []

def tenEps : Rat := 10 * (1 / 8388608)

/-- `compute_wall_angle_with_space_north`: keep the written azimuth, compute it from the outline (`none` here), or reject -/
def wallAngle (w : Wall) (spaces : List Space) : Except String (Option TNum) :=
  let horizontal := match w.tilt with
    | some t => decide (rabsQ t < tenEps) || decide (rabsQ (rabsQ t - 180) < tenEps)
    | none => false
  if w.location == some "BOTTOM".toList || w.location == some "TOP".toList || horizontal || w.hasPolygon then .ok w.angle
  else match w.location with
    | some _ => if spaces.any (fun s => s.name == w.space) then .ok none else .error "Espacio del cerramiento no encontrado"
    | none => .error "Imposible calcular azimut"

/-- the wall's own polygon is taken out of the map (`polygons.remove`): a second wall naming it finds nothing -/
def takePolygon (polys : List (Str × Polygon)) (pname : Option Str) : Except String (Option Polygon × List (Str × Polygon)) :=
  match pname with
  | none => .ok (none, polys)
  | some pn =>
    match mapGet polys pn with
    | none => .error "Polígono no encontrado para definición de opaco"
    | some p => .ok (some p, polys.filter (fun e => e.1 != pn))

def envStep (floors : List (Str × Floor)) (wallcons : List (Str × WallCons)) (st : EnvSt) (b : Block) : Res EnvSt :=
  if isType b ["SPACE"] then
    match reqStr b.attrs "POLYGON" with
    | .error e => .err e
    | .ok pname =>
      match spaceOf b with
      | .error e => .err e
      | .ok sp =>
        match mapGet st.polygons pname with
        | none => .err "Polígono no encontrado para el espacio"
        | some poly =>
          match mapGet floors sp.floor with
          | none => .err "No se ha encontrado la planta"
          | some fl =>
            .ok { st with spaces := st.spaces ++ [{ sp with polygon := poly, height := fl.height, z := tadd sp.z fl.z, floorMultiplier := fl.multiplier }] }
  else if isType b ["EXTERIOR-WALL", "ROOF", "INTERIOR-WALL", "UNDERGROUND-WALL"] then
    match wallOf b with
    | .error e => .err e
    | .ok w =>
      match takePolygon st.polygons (getStr b.attrs "POLYGON") with
      | .error e => .err e
      | .ok (poly, rest) =>
        if (mapGet wallcons w.cons).isNone then .err "Construcción no encontrada para definición de opaco" else
        match wallAngle w st.spaces with
        | .error e => .err e
        | .ok ang => .ok { st with polygons := rest, walls := st.walls ++ [{ w with polygon := poly, angle := ang }] }
  else if isType b ["WINDOW"] then
    match windowOf b with | .ok w => .ok { st with windows := st.windows ++ [w] } | .error e => .err e
  else if isType b ["THERMAL-BRIDGE"] then
    match tbOf b with | .ok t => .ok { st with tbs := st.tbs ++ [t] } | .error e => .err e
  else
    match shadingOf b with | .ok s => .ok { st with shadings := st.shadings ++ [s] } | .error e => .err e

/-- `Data::new` from the parsed blocks -/
def dataOfBlocks (blocks : List Block) : Res Data :=
  let db := blocks.filter (fun b => isType b ["CONSTRUCTION", "MATERIAL", "NAME-FRAME", "GLASS-TYPE", "LAYERS", "GAP"])
  let polys := blocks.filter (fun b => isType b ["POLYGON"])
  let floorBs := blocks.filter (fun b => isType b ["FLOOR"])
  let env := blocks.filter (fun b => isType b ["SPACE", "EXTERIOR-WALL", "ROOF", "INTERIOR-WALL", "UNDERGROUND-WALL", "THERMAL-BRIDGE", "WINDOW", "BUILDING-SHADE"])
  let scheds := blocks.filter (fun b => isType b ["WEEK-SCHEDULE-PD", "DAY-SCHEDULE-PD", "SCHEDULE-PD", "RUN-PERIOD-PD"])
  match foldRes dbStep {} db with
  | .err e => .err e
  | .panic p => .panic p
  | .ok dbst =>
    let layers0 := if (mapGet dbst.layers "Ninguno".toList).isSome then dbst.layers
      else dbst.layers ++ [("Ninguno".toList, { name := "Ninguno".toList, group := [], material := [], thickness := [], absorptance := some 0 })]
    -- constructions, in key order, on top of their layers
    let consRes : Except String (List (Str × WallCons)) := (sortByKey dbst.constructions).foldl (fun acc kc =>
      match acc with
      | .error e => .error e
      | .ok wc =>
        match mapGet layers0 kc.2.layers with
        | none => .error "No se ha encontrado la definición de capas"
        | some l => if kc.2.name != kc.2.layers then .ok (mapInsert wc kc.2.name { l with name := kc.2.name, absorptance := kc.2.absorptance }) else .ok wc) (.ok [])
    match consRes with
    | .error e => .err e
    | .ok wc1 =>
      let wallcons := (sortByKey layers0).foldl (fun wc kl =>
        mapInsert wc kl.2.name { kl.2 with absorptance := if kl.2.absorptance == some 0 then some (6 / 10) else kl.2.absorptance }) wc1
      match polys.foldl (fun acc b => match acc with
          | .error e => .error e
          | .ok m => match polygonOf b with | .ok p => .ok (mapInsert m b.name p) | .error e => .error e) (Except.ok ([] : List (Str × Polygon))) with
      | .error e => .err e
      | .ok polygons =>
        match foldRes (fun (m : List (Str × Floor)) b => match floorOf b with
            | .ok f => .ok (mapInsert m b.name f) | .err e => .err e | .panic p => .panic p) [] floorBs with
        | .err e => .err e
        | .panic p => .panic p
        | .ok floors =>
          match scheds.foldl (fun acc b => match acc with
              | .error e => .error e
              | .ok l => match schedOf b with | .ok (some s) => .ok (l ++ [s]) | .ok none => .ok l | .error e => .error e) (Except.ok ([] : List Sched)) with
          | .error e => .err e
          | .ok schedules =>
            match foldRes (envStep floors wallcons) { polygons := polygons } env with
            | .err e => .err e
            | .panic p => .panic p
            | .ok est =>
              let others := blocks.filter (fun b => !(isType b ["CONSTRUCTION", "MATERIAL", "NAME-FRAME", "GLASS-TYPE", "LAYERS", "GAP", "POLYGON", "FLOOR", "SPACE",
                "EXTERIOR-WALL", "ROOF", "INTERIOR-WALL", "UNDERGROUND-WALL", "THERMAL-BRIDGE", "WINDOW", "BUILDING-SHADE", "WEEK-SCHEDULE-PD", "DAY-SCHEDULE-PD",
                "SCHEDULE-PD", "RUN-PERIOD-PD"]))
              .ok { materials := dbst.materials, glasses := dbst.glasses, frames := dbst.frames, wallcons := wallcons, wincons := dbst.wincons,
                    spaces := est.spaces, walls := est.walls, windows := est.windows, tbs := est.tbs, shadings := est.shadings, schedules := schedules,
                    spaceConds := (others.filter (fun b => isType b ["SPACE-CONDITIONS"])).map (·.name),
                    systemConds := (others.filter (fun b => isType b ["SYSTEM-CONDITIONS"])).map (·.name),
                    metaTypes := (others.filter (fun b => isType b ["DEFECTOS", "GENERAL-DATA", "WORK-SPACE", "BUILD-PARAMETERS"])).map (·.btype),
                    spaceCondBlocks := (others.filter (fun b => isType b ["SPACE-CONDITIONS"])).foldl (fun m b => mapInsert m b.name b) [],
                    systemCondBlocks := (others.filter (fun b => isType b ["SYSTEM-CONDITIONS"])).foldl (fun m b => mapInsert m b.name b) [] }

/-- `Data::new(text)` -/
def dataNew (text : Str) : Res Data :=
  match buildBlocks text with
  | .error e => .err e
  | .ok blocks => dataOfBlocks blocks

end Cte.BdlData
