/-
Planar polygon measures (`bemodel/src/types/geometry.rs`).
-/
import Cte.Model.Types
import Cte.Model.Fns
namespace Cte

/-- twice the signed shoelace sum: Σ (v_i.x·v_{i+1}.y − v_i.y·v_{i+1}.x), cyclic -/
def shoelace2 (p : List P2) : Rat :=
  match p with
  | [] => 0
  | v0 :: _ =>
    let rec go : List P2 → Rat
      | [] => 0
      | [v] => v.x * v0.y - v.y * v0.x
      | v :: w :: t => (v.x * w.y - v.y * w.x) + go (w :: t)
    go p

/-- `Polygon::area`: 0 for fewer than 2 points, else |½ Σ| -/
def polyArea (p : List P2) : Rat :=
  if p.length < 2 then 0 else rabs (shoelace2 p / 2)

/-- `Polygon::perimeter` (needs a square root: parameter) -/
def polyPerimeter (F : Fns) (p : List P2) : Rat :=
  match p with
  | [] => 0
  | [_] => 0
  | v0 :: _ =>
    let d (a b : P2) : Rat := F.sqrt ((a.x - b.x) * (a.x - b.x) + (a.y - b.y) * (a.y - b.y))
    let rec go : List P2 → Rat
      | [] => 0
      | [v] => d v v0
      | v :: w :: t => d v w + go (w :: t)
    go p

def Wall.area (w : Wall) : Rat := polyArea w.geometry.polygon
def Window.area (w : Window) : Rat := w.geometry.width * w.geometry.height

/-- `Wall::area_net`: `fround2(gross − Σ windows of this wall)`; also the unrounded value -/
def Wall.areaNetRaw (w : Wall) (windows : List Window) : Rat :=
  w.area - rsum ((windows.filter (fun x => x.wall = w.id)).map Window.area)
def Wall.areaNet (F : Fns) (w : Wall) (windows : List Window) : Rat := F.r2 (w.areaNetRaw windows)

end Cte
