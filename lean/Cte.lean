import Cte.Model.Num
import Cte.Model.Json
import Cte.Model.Types
import Cte.Model.Decode
import Cte.Model.Check
import Cte.Model.Purge
