/-
Line-protocol driver: one JSON request per line on stdin, one JSON answer per line on stdout.
Imports only model files (no Mathlib) so that it links as a native executable.
-/
import Cte.Model.Json
import Cte.Model.Decode
import Cte.Model.Check
import Cte.Model.Purge
open Cte

def warnKindStr : WarnKind → String
  | .wallSpace => "wall-space" | .wallCons => "wall-cons" | .wallNextTo => "wall-nextto"
  | .winWall => "win-wall" | .winCons => "win-cons" | .tbNegative => "tb-negative"

def jStrs (l : List String) : J := J.arr (l.map J.str)

def opCheck (m : Model) : J :=
  J.obj [("warnings", J.arr ((check m).map (fun w => J.arr [J.str w.id, J.str (warnKindStr w.kind)])))]

def opPurge (m : Model) : J :=
  let p := purge m
  let p2 := purge p
  J.obj [
    ("spaces", jStrs (p.spaces.map (·.id))),
    ("walls", jStrs (p.walls.map (·.id))),
    ("windows", jStrs (p.windows.map (·.id))),
    ("shades", jStrs (p.shades.map (·.id))),
    ("thermal_bridges", jStrs (p.thermalBridges.map (·.id))),
    ("wallcons", jStrs (p.cons.wallcons.map (·.id))),
    ("wincons", jStrs (p.cons.wincons.map (·.id))),
    ("materials", jStrs (p.cons.materials.map (·.id))),
    ("glasses", jStrs (p.cons.glasses.map (·.id))),
    ("frames", jStrs (p.cons.frames.map (·.id))),
    ("loads", jStrs (p.loads.map (·.id))),
    ("thermostats", jStrs (p.thermostats.map (·.id))),
    ("year", jStrs (p.schedules.year.map (·.id))),
    ("week", jStrs (p.schedules.week.map (·.id))),
    ("day", jStrs (p.schedules.day.map (·.id))),
    ("idempotent", J.bool (decide (p2 = p)))]

def withModel (req : J) (f : Model → J) : J :=
  match req.get? "model" with
  | none => J.obj [("error", J.str "no model")]
  | some mj =>
    match Dec.model mj with
    | .ok m => f m
    | .error e => J.obj [("load_error", J.str e)]

def handle (line : String) : String :=
  match J.parse line with
  | none => "{\"error\":\"bad json\"}"
  | some req =>
    let id := (req.get? "id").getD J.null
    let ans : J :=
      match req.get? "op" with
      | some (J.str "check") => withModel req opCheck
      | some (J.str "purge") => withModel req opPurge
      | some (J.str "load") => withModel req (fun _ => J.obj [("ok", J.bool true)])
      | _ => J.obj [("error", J.str "unknown op")]
    match ans with
    | J.obj kvs => (J.obj (("id", id) :: kvs)).render
    | other => other.render

partial def loop (h : IO.FS.Stream) (out : IO.FS.Stream) : IO Unit := do
  let line ← h.getLine
  if line.isEmpty then return ()
  if line.trimAscii.toString.isEmpty then loop h out else
  out.putStrLn (handle line)
  loop h out

def main : IO Unit := do
  let out ← IO.getStdout
  loop (← IO.getStdin) out
  out.flush
