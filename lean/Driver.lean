/-
Line-protocol driver: one JSON request per line on stdin, one JSON answer per line on stdout.
Imports only model files (no Mathlib) so that it links as a native executable.
-/
import Cte.Model.Json
import Cte.Model.Process
import Cte.Model.Cli
import Cte.Model.Extra
import Cte.Model.Decode
import Cte.Model.Check
import Cte.Model.Purge
import Cte.Model.Energy
import Cte.Model.Indicators
import Cte.Model.Sane
import Cte.Model.RadTable
import Cte.Model.Bvh
import Cte.Model.BvhIter
import Cte.Model.Box
import Cte.Model.Ray
import Cte.Model.Fshobst
import Cte.Model.Schedules
import Cte.Model.Solar
import Cte.Model.Damage
import Cte.Model.Bdl
import Cte.Model.Convert
import Cte.Model.Placement
import Cte.Model.PlacementWin
import Cte.Model.Origins
import Cte.Model.HulcAux
import Cte.Model.BdlData
import Cte.Model.ConvValues
import Cte.Model.ConvSched
import Cte.Model.Pipeline
import Cte.Gen.Schema
open Cte

def warnKindStr : WarnKind → String
  | .wallSpace => "wall-space" | .wallCons => "wall-cons" | .wallNextTo => "wall-nextto"
  | .winWall => "win-wall" | .winCons => "win-cons" | .tbNegative => "tb-negative"

def jStrs (l : List String) : J := J.arr (l.map J.str)

def opCheck (m : Model) : J :=
  J.obj [("warnings", J.arr ((check m).map (fun w => J.arr [J.str w.id, J.str (warnKindStr w.kind)])))]

/-- op `saneu`: the sanity test of `C14S.saneU_walls_finite` and the walls whose U-value carries a failed division -/
def opSaneU (m : Model) : J :=
  let F := Fns.approx 0
  J.obj [("sane_u", J.bool (saneU F m)), ("nf_walls", jStrs (nfWalls F m)), ("walls", J.ofNat m.walls.length),
         ("with_u", J.ofNat (m.walls.filter (fun w => (w.uValue F m).isSome)).length)]

def opPurge (m : Model) : J :=
  let p := purge m
  let p2 := purge p
  J.obj [
    ("spaces", jStrs (p.spaces.map (·.id))),
    ("walls", jStrs (p.walls.map (·.id))),
    ("windows", jStrs (p.windows.map (·.id))),
    ("shades", jStrs (p.shades.map (·.id))),
    ("thermal_bridges", jStrs (p.thermalBridges.map (·.id))),
    ("wallcons", jStrs (p.cons.wallcons.map (·.id))),
    ("wincons", jStrs (p.cons.wincons.map (·.id))),
    ("materials", jStrs (p.cons.materials.map (·.id))),
    ("glasses", jStrs (p.cons.glasses.map (·.id))),
    ("frames", jStrs (p.cons.frames.map (·.id))),
    ("loads", jStrs (p.loads.map (·.id))),
    ("thermostats", jStrs (p.thermostats.map (·.id))),
    ("year", jStrs (p.schedules.year.map (·.id))),
    ("week", jStrs (p.schedules.week.map (·.id))),
    ("day", jStrs (p.schedules.day.map (·.id))),
    ("idempotent", J.bool (decide (p2 = p)))]

def jr (r : Rat) : J := J.ofRat r 9
def jo (r : Option Rat) : J := match r with | some x => jr x | none => J.null
def jnv (r : Option NV) : J := match r with
  | some x => J.obj [("v", jr x.v), ("nf", J.bool x.nf)]
  | none => J.null
def jvent : Vent → J
  | .fin r => jr r
  | .inf => J.str "inf"
  | .nan => J.str "nan"

def tbKindStr : TbKind → String
  | .roof => "roof" | .balcony => "balcony" | .corner => "corner"
  | .intermediatefloor => "intermediate_floor" | .internalwall => "internal_wall"
  | .groundfloor => "ground_floor" | .pillar => "pillar" | .window => "window" | .generic => "generic"

def orientOfStr : String → Option Orient
  | "N" => some .n | "NE" => some .ne | "E" => some .e | "SE" => some .se | "S" => some .s
  | "SW" => some .sw | "W" => some .w | "NW" => some .nw | "HZ" => some .hz | _ => none

def jKElem (e : KElem) : J :=
  J.obj [("a", jr e.a), ("au", jr e.au), ("u_max", jo e.uMax), ("u_min", jo e.uMin), ("u_mean", jo e.uMean)]

/-- op `indicators`: request carries the model, the obstruction factors computed by the
implementation (`fshobst`: window id → number|null) and the July irradiation per orientation
(`radjul`) -/
def indicatorsWith (F : Fns) (req : J) (m : Model) : J :=
  let fshJ := (req.get? "fshobst").getD (J.obj [])
  let fsh : Id → Option Rat := fun id => match fshJ.get? id with
    | some (J.num n mm e) => some (J.numVal n mm e)
    | _ => none
  let rad : Orient → Option Rat := radJul m.info.climate
  let wp := m.wallProps F
  let wc := m.winConsProps F
  let wins := m.winProps F fsh
  let g := m.globalProps F
  let k := m.kOf F fsh
  let n := m.n50Of F fsh
  let q := m.qsolOf F fsh rad
  J.obj [
    ("walls", J.obj (wp.map (fun w => (w.id, J.obj [
      ("u", jnv w.u), ("is_tenv", J.bool w.isTenv), ("area_net", jr w.areaNet), ("area_gross", jr w.areaGross),
      ("tilt", J.str w.tilt.str), ("orient", J.str w.orient.str), ("multiplier", jr w.multiplier),
      ("bounds", J.str w.bounds.str)])))),
    ("wall_area_net_raw", J.obj ((lastById (·.id) m.walls).map (fun w => (w.id, jr (w.areaNetRaw m.windows))))),
    ("wincons", J.obj (wc.map (fun c => (c.id, J.obj [
      ("u", jo c.u), ("g_glwi", jr c.gGlwi), ("g_glshwi", jr c.gGlshwi), ("c_100", jr c.c100), ("f_f", jr c.fF)])))),
    ("wincons_u_raw", J.obj ((lastById (·.id) m.cons.wincons).map (fun c => (c.id, jo (c.uValueRaw m.cons))))),
    ("windows", J.obj (wins.map (fun w => (w.id, J.obj [
      ("is_tenv", J.bool w.isTenv), ("orient", J.str w.orient.str), ("area", jr w.area),
      ("multiplier", jr w.multiplier), ("u", jo w.u), ("bounds", J.str w.bounds.str)])))),
    ("global", J.obj [
      ("a_ref", jr g.aRef), ("a_ref_raw", jr g.aRefRaw), ("vol_env_gross", jr g.volEnvGross),
      ("vol_env_gross_raw", jr g.volEnvGrossRaw), ("vol_env_net", jr g.volEnvNet),
      ("vol_env_net_raw", jr g.volEnvNetRaw), ("vol_env_inh_net", jr g.volEnvInhNet),
      ("compactness", jr g.compactness), ("exposed_area", jr g.exposedArea),
      ("ventilation", jvent g.ventilation), ("ventilation_u", jvent (m.globalVentilationU F)),
      ("c_o_100", jr g.cO100)]),
    ("K", J.obj [
      ("K", jr k.k), ("a", jr k.a), ("au", jr k.au), ("opaques_a", jr k.opaquesA), ("opaques_au", jr k.opaquesAu),
      ("windows_a", jr k.windowsA), ("windows_au", jr k.windowsAu), ("tbs_l", jr k.tbsL), ("tbs_psil", jr k.tbsPsil),
      ("walls", jKElem k.walls), ("roofs", jKElem k.roofs), ("floors", jKElem k.floors),
      ("ground", jKElem k.ground), ("windows", jKElem k.windows),
      ("tbs", J.obj (k.tbs.map (fun (kd, l, pl) => (tbKindStr kd, J.obj [("l", jr l), ("psil", jr pl)]))))]),
    ("n50", J.obj [
      ("n50", jr n.n50), ("n50_ref", jr n.n50Ref), ("walls_a", jr n.wallsA), ("walls_c_ref", jr n.wallsCRef),
      ("walls_c_a_ref", jr n.wallsCARef), ("walls_c", jr n.wallsC), ("walls_c_a", jr n.wallsCA),
      ("windows_a", jr n.windowsA), ("windows_c", jr n.windowsC), ("windows_c_a", jr n.windowsCA), ("vol", jr n.vol)]),
    ("qsoljul", J.obj [
      ("Q_soljul", jr q.qSum), ("q_soljul", jr q.q), ("a_ref", jr q.aRef), ("a_wp", jr q.aWp),
      ("irradiance_mean", jr q.irrMean), ("fshobst_mean", jr q.fshMean), ("gglshwi_mean", jr q.gMean),
      ("f_f_mean", jr q.fFMean), ("missing_rad", J.bool q.missingRad),
      ("detail", J.obj (q.detail.map (fun d => (d.orient.str, J.obj [
        ("gains", jr d.gains), ("a", jr d.a), ("irradiance", jr d.irradiance), ("f_f_mean", jr d.fFMean),
        ("gglshwi_mean", jr d.gMean), ("fshobst_mean", jr d.fshMean)]))))])]

/-- the three runs: exact rounding, and every rounding nudged down / up by about one f32 ulp -/
def opIndicators (req : J) (m : Model) : J :=
  J.obj [("base", indicatorsWith (Fns.approx 0) req m), ("lo", indicatorsWith (Fns.approx (-1)) req m),
         ("hi", indicatorsWith (Fns.approx 1) req m)]

def tiltCode : TiltC → Nat | .bottom => 0 | .top => 1 | .side => 2
def orientCode : Orient → Nat
  | .n => 0 | .ne => 1 | .e => 2 | .se => 3 | .s => 4 | .sw => 5 | .w => 6 | .nw => 7 | .hz => 8

/-- op `classify`: exact f32 angles (bit patterns) through the two classifiers of the model -/
def opClassify (req : J) : J :=
  match req.get? "points" with
  | some (J.arr pts) =>
    J.obj [("points", J.arr (pts.map (fun p =>
      match p.get? "bits" with
      | some (J.num false b 0) =>
        let x := f32ToRat b
        J.obj [("bits", J.ofNat b), ("tilt", J.ofNat (tiltCode (tiltClass x))), ("orient", J.ofNat (orientCode (orientClass x)))]
      | _ => J.null)))]
  | _ => J.obj [("error", J.str "no points")]

def jnum? : J → Option Rat
  | .num n m e => some (J.numVal n m e)
  | _ => none

def jnums (j : J) : List Rat :=
  match j with
  | .arr l => l.filterMap jnum?
  | _ => []

def box3Of (j : J) : Option Box3 :=
  match jnums j with
  | [a, b, c, d, e, f] => some { lo := ⟨a, b, c⟩, hi := ⟨d, e, f⟩ }
  | _ => none

def rayOf (j : J) : Option RayQ :=
  match jnums j with
  | [a, b, c, d, e, f] => some { o := ⟨a, b, c⟩, d := ⟨d, e, f⟩ }
  | _ => none

def v3Of (j : J) : Option V3 :=
  match jnums j with
  | [a, b, c] => some ⟨a, b, c⟩
  | _ => none

/-- pre-order fingerprint of a tree: -1 for an inner node, the element count for a leaf -/
def treeShape : Bvh.Tree Box3 (Option Box3) → List J
  | .leaf _ es => [J.num false es.length 0]
  | .node _ l r => J.num true 1 0 :: (treeShape l ++ treeShape r)

/-- op `bvh`: boxes as elements, leaf size, rays → accelerated and exhaustive answers of the model -/
def opBvh (req : J) : J :=
  let boxes := match req.get? "boxes" with | some (J.arr l) => l.filterMap box3Of | _ => []
  let rays := match req.get? "rays" with | some (J.arr l) => l.filterMap rayOf | _ => []
  let k := match req.get? "leaf" with | some (J.num false m 0) => m | _ => 30
  -- the code-shaped path: generate_node_list, build_from_node_list, explicit-stack walk (Props/C13Iter: equal to build + query)
  let answers := rays.map (fun r => Bvh.codeIntersects boxOps k r boxes)
  let shape : List J := match Bvh.reconstruct boxOps (Bvh.generate boxOps k boxes) with
    | some (some t) => treeShape t
    | _ => []
  J.obj [("bvh", J.arr (answers.map (fun a => match a with | some b => J.bool b | none => J.str "panic"))),
         ("shape", J.arr shape),
         ("exhaustive", J.arr (rays.map (fun r => J.bool (boxes.any (fun b => b.hit r)))))]

/-- op `raypoly`: polygon, inverse pose, rays → hit parameter or null, and the squared distance of the
plane crossing to the outline (for the 1 mm exclusion zone) -/
def opRayPoly (req : J) : J :=
  let poly : List P2 := match req.get? "polygon" with
    | some (J.arr l) => l.filterMap (fun p => match jnums p with | [a, b] => some ⟨a, b⟩ | _ => none)
    | _ => []
  let rays := match req.get? "rays" with | some (J.arr l) => l.filterMap rayOf | _ => []
  let pose : Option Pose := match req.get? "inv_rot", req.get? "inv_tr" with
    | some (J.arr [a, b, c]), some t =>
      match v3Of a, v3Of b, v3Of c, v3Of t with
      | some a, some b, some c, some t => some { r0 := a, r1 := b, r2 := c, t := t }
      | _, _, _, _ => none
    | _, _ => none
  match pose with
  | none => J.obj [("error", J.str "bad pose")]
  | some inv =>
    let corners : List V3 := match (req.get? "impl").bind (·.get? "corners") with
      | some (J.arr l) => l.filterMap v3Of
      | _ => []
    J.obj [("aabb", match aabbOfPoints corners with
              | some b => J.arr [jr b.lo.x, jr b.lo.y, jr b.lo.z, jr b.hi.x, jr b.hi.y, jr b.hi.z]
              | none => J.null),
           ("hits", J.arr (rays.map (fun r => match rayPolygon inv poly r with
              | some h => jr h.t | none => J.null))),
           ("crossing", J.arr (rays.map (fun r => match planeCrossing inv r with
              | some h => J.obj [("t", jr h.t), ("d2", jo (distSqOutline h.px h.py poly)),
                                 ("denom", jr (polyNormalZ poly * (inv.rot r.d).z))]
              | none => J.null)))]

def poseOf (rot tr : Option J) : Option Pose :=
  match rot, tr with
  | some (J.arr [a, b, c]), some t =>
    match v3Of a, v3Of b, v3Of c, v3Of t with
    | some a, some b, some c, some t => some { r0 := a, r1 := b, r2 := c, t := t }
    | _, _, _, _ => none
  | _, _ => none

def occOf (j : J) : Option Occ :=
  let poly : List P2 := match j.get? "polygon" with
    | some (J.arr l) => l.filterMap (fun p => match jnums p with | [a, b] => some ⟨a, b⟩ | _ => none)
    | _ => []
  match poseOf (j.get? "inv_rot") (j.get? "inv_tr"), (j.get? "aabb").bind box3Of with
  | some inv, some bb => some { poly := poly, inv := inv, aabb := bb }
  | _, _ => none

/-- op `fshobst`: per window, the factor from the per-hour inputs (definition) in the three rounding
regimes, and for the hours that carry the ray-casting problem, the exact sunlit fraction -/
def opFshobst (req : J) : J :=
  let wins := match req.get? "windows" with | some (J.arr l) => l | _ => []
  J.obj [("windows", J.arr (wins.map (fun w =>
    let hours := match w.get? "hours" with | some (J.arr l) => l | _ => []
    let ins : List HourIn := hours.filterMap (fun h =>
      match (h.get? "f").bind jnum?, (h.get? "dir").bind jnum?, (h.get? "dif").bind jnum? with
      | some f, some d, some i => some { f := f, dir := d, dif := i }
      | _, _, _ => none)
    let detail := hours.map (fun h =>
      match h.get? "detail" with
      | some d =>
        let origins := match d.get? "origins" with | some (J.arr l) => l.filterMap v3Of | _ => []
        let occ := match d.get? "occluders" with | some (J.arr l) => l.filterMap occOf | _ => []
        let hasPos := match d.get? "has_position" with | some (J.bool b) => b | _ => false
        match (h.get? "sun").bind v3Of, (h.get? "ndot").bind jnum? with
        | some sun, some nd =>
          let br := sunlitBracket hasPos nd origins sun occ
          J.arr [jr (sunlitFraction hasPos nd origins sun occ), jr br.1, jr br.2]
        | some sun, none => J.arr [jr (sunlitFraction false 0 origins sun occ), J.ofNat 1, J.ofNat 1]
        | _, _ => J.null
      | none => J.null)
    J.obj [("window", (w.get? "window").getD J.null), ("n_hours", J.ofNat ins.length),
           ("all_hours_finite", J.bool (ins.length = hours.length)),
           ("factor", J.arr [jr (fshobst (Fns.approx 0) ins), jr (fshobst (Fns.approx (-1)) ins), jr (fshobst (Fns.approx 1) ins)]),
           ("raw", jr (fshobstRaw ins)), ("f_detail", J.arr detail)])))]

/-- op `yeardays`: every yearly schedule of the model expanded to its daily-schedule ids -/
def opYearDays (m : Model) : J :=
  J.obj [("years", J.arr (m.schedules.year.map (fun y =>
    let days := yearAsDays m.schedules y.id
    J.obj [("id", J.str y.id), ("days", jStrs days),
           ("n_values", J.ofNat ((days.map (fun d => ((m.schedules.getDay d).map (·.values.length)).getD 0)).foldl (· + ·) 0))])))]

/-- op `enddates`: [[day, month], …] → period lengths -/
def opEndDates (req : J) : J :=
  let dates : List (Nat × Nat) := match req.get? "dates" with
    | some (J.arr l) => l.filterMap (fun p => match p with
        | J.arr [J.num false d 0, J.num false mo 0] => some (d, mo)
        | _ => none)
    | _ => []
  let ends := dates.map (fun dm => dayOfYear dm.1 dm.2)
  J.obj [("ends", J.arr (ends.map J.ofInt)),
         ("counts", match periodLengths ends with
            | some l => J.arr (l.map J.ofNat)
            | none => J.null)]

/-- op `weekruns`: the 7 written day names of a weekly schedule → runs (name, count) -/
def opWeekRuns (req : J) : J :=
  let days : List String := match req.get? "days" with
    | some (J.arr l) => l.filterMap (fun x => match x with | J.str s => some s | _ => none)
    | _ => []
  J.obj [("runs", J.arr ((weekRuns days).map (fun r => J.arr [J.str r.1, J.ofNat r.2])))]

/-- op `edgevert`: `Polygon::edge_vertices(name)` on an outline of `n` vertices -/
def opEdgeVert (req : J) : J :=
  let name := match req.get? "name" with | some (J.str s) => s | _ => ""
  let n := match req.get? "n" with | some (J.num false k 0) => k | _ => 0
  match Damage.edgeVertices name.toList n with
  | some (i, j) => J.obj [("r", J.obj [("some", J.arr [J.ofNat i, J.ofNat j])])]
  | none => J.obj [("r", J.str "none")]

def jNum : Bdl.Num → J
  | .fin neg mant e => J.obj [("neg", J.bool neg), ("mant", J.str (toString mant)), ("exp", J.ofInt e)]
  | .inf neg => J.obj [("inf", J.bool neg)]
  | .nan => J.str "nan"

def jVal : Bdl.Val → J
  | .num n => J.obj [("n", jNum n)]
  | .str s => J.obj [("s", J.str (String.ofList s))]

def jBlock (b : Bdl.Block) : J :=
  J.obj [("btype", J.str (String.ofList b.btype)), ("name", J.str (String.ofList b.name)),
         ("parent", match b.parent with | some p => J.str (String.ofList p) | none => J.null),
         ("attrs", J.arr (b.attrs.map (fun kv => J.arr [J.str (String.ofList kv.1), jVal kv.2])))]

/-- op `bdlblocks`: `build_blocks(text)` -/
def opBdlBlocks (req : J) : J :=
  let text := match req.get? "text" with | some (J.str s) => s | _ => ""
  match Bdl.buildBlocks text.toList with
  | .ok bs => J.obj [("ok", J.arr (bs.map jBlock))]
  | .error e => J.obj [("err", J.str e)]

namespace SkelIO
open Cte.Conv
def str (j : J) (k : String) : String := match j.get? k with | some (J.str s) => s | _ => ""
def ostr (j : J) (k : String) : Option String := match j.get? k with | some (J.str s) => some s | _ => none
def bool (j : J) (k : String) : Bool := match j.get? k with | some (J.bool b) => b | _ => false
def nat (j : J) (k : String) : Nat := match j.get? k with | some (J.num false n 0) => n | _ => 0
def arr (j : J) (k : String) : List J := match j.get? k with | some (J.arr l) => l | _ => []
def strs (j : J) (k : String) : List String := (arr j k).filterMap (fun x => match x with | J.str s => some s | _ => none)
def nats (j : J) (k : String) : List Nat := (arr j k).filterMap (fun x => match x with | J.num false n 0 => some n | _ => none)

def bdlOf (j : J) : Bdl :=
  { spaces := (arr j "spaces").map (fun s => { name := str s "name", spaceconds := str s "spaceconds", systemconds := str s "systemconds", nverts := nat s "nverts" }),
    walls := (arr j "walls").map (fun w => { name := str w "name", space := str w "space", cons := str w "cons", nextto := ostr w "nextto",
                                             location := ostr w "location", hasPolygon := bool w "has_polygon" }),
    windows := (arr j "windows").map (fun w => { name := str w "name", wall := str w "wall", cons := str w "cons" }),
    wallcons := (arr j "wallcons").map (fun c => { key := str c "key", name := str c "name", materials := strs c "materials" }),
    wincons := (arr j "wincons").map (fun c => { key := str c "key", name := str c "name", glass := str c "glass", frame := str c "frame" }),
    materials := (arr j "materials").map (fun m => str m "key"),
    glasses := strs j "glasses", frames := strs j "frames",
    days := (arr j "days").map (fun d => str d "name"),
    weeks := (arr j "weeks").map (fun w => { name := str w "name", days := strs w "days" }),
    years := (arr j "years").map (fun y => { name := str y "name", weeks := strs y "weeks", months := nats y "months", days := nats y "days" }),
    loads := (arr j "loads").map (fun l => { key := str l "key", name := str l "name", numericOk := bool l "numeric_ok", people := ostr l "people",
                                             equip := ostr l "equip", light := ostr l "light" }),
    thermostats := (arr j "thermostats").map (fun t => { key := str t "key", name := str t "name", conditioned := bool t "conditioned",
                                                         cool := ostr t "cool", heat := ostr t "heat" }) }

def jo (o : Option String) : J := match o with | some s => J.str s | none => J.null

def mdlJ (m : Mdl) : J :=
  J.obj [("walls", J.arr (m.walls.map (fun w => J.obj [("id", J.str w.id), ("cons", J.str w.cons), ("space", J.str w.space), ("next_to", jo w.nextTo)]))),
         ("windows", J.arr (m.windows.map (fun w => J.obj [("id", J.str w.id), ("cons", J.str w.cons), ("wall", J.str w.wall)]))),
         ("spaces", J.arr (m.spaces.map (fun s => J.obj [("id", J.str s.id), ("loads", jo s.loads), ("thermostat", jo s.thermostat)]))),
         ("wallcons", J.arr (m.wallcons.map (fun c => J.obj [("id", J.str c.id), ("layers", jStrs c.layers)]))),
         ("wincons", J.arr (m.wincons.map (fun c => J.obj [("id", J.str c.id), ("glass", J.str c.glass), ("frame", J.str c.frame)]))),
         ("materials", jStrs m.materials), ("glasses", jStrs m.glasses), ("frames", jStrs m.frames),
         ("years", J.arr (m.years.map (fun y => J.obj [("id", J.str y.id), ("refs", jStrs y.refs)]))),
         ("weeks", J.arr (m.weeks.map (fun y => J.obj [("id", J.str y.id), ("refs", jStrs y.refs)]))),
         ("days", jStrs m.days),
         ("loads", J.arr (m.loads.map (fun l => J.obj [("id", J.str l.id), ("people", J.str l.people), ("equip", J.str l.equip), ("light", J.str l.light)]))),
         ("thermostats", J.arr (m.thermostats.map (fun t => J.obj [("id", J.str t.id), ("tmax", jo t.tmax), ("tmin", jo t.tmin)]))),
         ("closed", J.bool (closed m))]
end SkelIO

/-- op `skelconvert`: the referential skeleton of `Model::try_from` on the parsed project's names -/
def opSkelConvert (req : J) : J :=
  match (req.get? "impl").bind (fun i => i.get? "bdl") with
  | none => J.obj [("skip", J.bool true)]
  | some b =>
    match Conv.convert (SkelIO.bdlOf b) with
    | .ok m => J.obj [("ok", SkelIO.mdlJ m)]
    | .error e => J.obj [("err", J.str e)]

namespace PlaceIO
open Cte.Place
def num (j : J) (k : String) : Rat := match (j.get? k).bind jnum? with | some r => r | none => 0
def ang (j : J) (k : String) : Ang := match (j.get? k).map jnums with | some [c, s] => ⟨c, s⟩ | _ => ⟨1, 0⟩
def pts (j : Option J) : List (Rat × Rat) :=
  match j with
  | some (J.arr l) => l.filterMap (fun p => match jnums p with | [x, y] => some (x, y) | _ => none)
  | _ => []

/-- global corners of one source wall, or `none` when the conversion rejects its location kind -/
def wallOf (spaces : List J) (w : J) : Option (List Vec3) :=
  let spName := SkelIO.str w "space"
  match spaces.find? (fun s => SkelIO.str s "name" == spName) with
  | none => none
  | some sj =>
    let tr := (w.get? "trig").getD J.null
    let g := ang tr "g"
    let sp : Place.SpaceP := { off := ⟨num sj "x", num sj "y", num sj "z"⟩, ang := ang tr "a", height := num sj "height" }
    let outline := pts (sj.get? "pts")
    let own := w.get? "pts"
    let loc : Option Loc :=
      match SkelIO.ostr w "location", own with
      | none, some (J.arr _) => some (.poly (pts own))
      | some "TOP", some (J.arr _) => some (.poly (pts own))
      | some "TOP", _ => some .top
      | some "BOTTOM", some (J.arr _) => none
      | some "BOTTOM", _ => some .bottom
      | some _, _ =>
        match w.get? "edge" with
        | some (J.obj kv) => match jnums ((J.obj kv).get? "p1" |>.getD J.null) with
          | [x, y] => some (.edge (x, y) (num (J.obj kv) "width"))
          | _ => none
        | _ => none
      | none, _ => none
    loc.map (fun l => wallCorners g (ang tr "w") (ang tr "t") sp outline { loc := l, x := num w "x", y := num w "y", z := num w "z" })
end PlaceIO

/-- op `placement`: global corners of every wall of the parsed project -/
def opPlacement (req : J) : J :=
  match (req.get? "impl").bind (fun i => i.get? "source") with
  | none => J.obj [("skip", J.bool true)]
  | some src =>
    let spaces := SkelIO.arr src "spaces"
    J.obj [("walls", J.arr ((SkelIO.arr src "walls").map (fun w =>
      J.obj [("name", J.str (SkelIO.str w "name")),
             ("corners", match PlaceIO.wallOf spaces w with
                | some cs => J.arr (cs.map (fun c => J.arr [J.ofRat c.x 6, J.ofRat c.y 6, J.ofRat c.z 6]))
                | none => J.null)]))),
           ("shades", J.arr ((
             -- the overhang of a window: from the written offsets and the pose the conversion gave its wall
             let mwalls := match (req.get? "impl").bind (fun i => i.get? "model") with | some m => SkelIO.arr m "walls" | none => []
             (SkelIO.arr src "windows").filterMap (fun w =>
               match w.get? "overhang" with
               | some (J.obj o) =>
                 let oj := J.obj o
                 match mwalls.find? (fun m => SkelIO.str m "name" == SkelIO.str w "wall") with
                 | some mw =>
                   let gj := (mw.get? "geometry").getD J.null
                   match (gj.get? "position").map jnums with
                   | some [px, py, pz] =>
                     let tr := (gj.get? "trig").getD J.null
                     let cs := Place.overhangCorners ⟨px, py, pz⟩ (PlaceIO.ang tr "az") (PlaceIO.ang tr "t") (PlaceIO.num w "x") (PlaceIO.num w "y")
                       (PlaceIO.num w "h") (PlaceIO.num oj "a") (PlaceIO.num oj "b") (PlaceIO.num oj "depth") (PlaceIO.num oj "width") (PlaceIO.ang oj "trig")
                     some (J.obj [("name", J.str (SkelIO.str w "name" ++ "_overhang")),
                                  ("corners", J.arr (cs.map (fun c => J.arr [J.ofRat c.x 6, J.ofRat c.y 6, J.ofRat c.z 6])))])
                   | _ => none
                 | none => none
               | _ => none)) ++ (SkelIO.arr src "shades").filterMap (fun sh =>
             match sh.get? "rect", sh.get? "trig" with
             | some (J.obj r), some tr =>
               let rj := J.obj r
               let cs := Place.rectShadeCorners (PlaceIO.ang tr "g") (PlaceIO.ang tr "a") (PlaceIO.ang tr "t")
                 ⟨PlaceIO.num rj "x", PlaceIO.num rj "y", PlaceIO.num rj "z"⟩ (PlaceIO.num rj "width") (PlaceIO.num rj "height")
               some (J.obj [("name", J.str (SkelIO.str sh "name")),
                            ("corners", J.arr (cs.map (fun c => J.arr [J.ofRat c.x 6, J.ofRat c.y 6, J.ofRat c.z 6])))])
             | _, _ =>
               -- a shade given by vertices: the angles are the ones the implementation derived (they come from acos / atan2); what the
               -- model checks is the polygon and the position built around them
               let mshades := match (req.get? "impl").bind (fun i => i.get? "model") with | some m => SkelIO.arr m "shades" | none => []
               let nm := SkelIO.str sh "name"
               match sh.get? "verts", mshades.find? (fun m => SkelIO.str m "name" == nm) with
               | some (J.arr vs), some ms =>
                 let mt := ((ms.get? "geometry").bind (fun g => g.get? "trig")).getD J.null
                 let g := PlaceIO.ang src "trig_g"
                 let a := Place.Ang.add (PlaceIO.ang mt "az") g
                 let t := PlaceIO.ang mt "t"
                 let pts : List Vec3 := vs.filterMap (fun p => match jnums p with | [x, y, z] => some ⟨x, y, z⟩ | _ => none)
                 match pts with
                 | v0 :: _ =>
                   some (J.obj [("name", J.str nm),
                     ("corners", J.arr (pts.map (fun v => let c := Place.vertShadeCorner g a t v0 v; J.arr [J.ofRat c.x 6, J.ofRat c.y 6, J.ofRat c.z 6])))])
                 | [] => none
               | _, _ => none)))]

namespace AuxIO
open Cte.Aux Cte.Bdl
def js (s : Str) : J := J.str (String.ofList s)
def kygJ (k : Kyg) : J :=
  J.obj [("k", match k.k with | some n => jNum n | none => J.null),
         ("windows", J.arr (k.windows.map (fun w => J.obj [("name", js w.name), ("orientation", js w.orientation), ("a", jNum w.a), ("u", jNum w.u),
            ("ff_pct", jNum w.ff), ("extra", match w.extra with
              | some (a, b, c, d, cons) => J.arr [jNum a, jNum b, jNum c, jNum d, js cons]
              | none => J.null)]))),
         ("walls", J.arr (k.walls.map (fun w => J.obj [("name", js w.name), ("a", jNum w.a), ("u", jNum w.u), ("btrx", jNum w.btrx),
            ("extra", match w.extra with | some (a, b, c) => J.arr [js a, js b, js c] | none => J.null)]))),
         ("tbs", J.arr (k.tbs.map (fun t => J.obj [("name", js t.name), ("l", jNum t.l), ("psi", jNum t.psi), ("sisdim", js t.sisdim)]))),
         ("hfactors", J.arr (k.hfactors.map jNum)),
         ("gains", J.arr (k.gains.map (fun g => J.obj [("name", js g.name), ("azimuth", jNum g.azimuth), ("htot", jNum g.htot), ("h3", jNum g.h3)])))]
def tblJ (t : Tbl) : J :=
  J.obj [("elements", J.arr (t.elements.map (fun kv => J.obj [("key", js kv.1), ("name", js kv.2.name), ("nums", J.arr (kv.2.nums.map jNum)),
            ("type", js kv.2.etype), ("id_surf", J.ofInt kv.2.idSurf), ("id_space", J.ofInt kv.2.idSpace)]))),
         ("spaces", J.arr (t.spaces.map (fun kv => J.obj [("key", js kv.1), ("name", js kv.2.name), ("id_space", J.ofInt kv.2.idSpace),
            ("mult", J.ofInt kv.2.mult), ("area", jNum kv.2.area), ("qint", jNum kv.2.qint)])))]
end AuxIO

/-- ops `kyg` / `tbl`: the auxiliary HULC files -/
def opKyg (req : J) : J :=
  let text := match req.get? "text" with | some (J.str s) => s | _ => ""
  match Aux.kygParse text.toList with
  | .ok k => J.obj [("ok", AuxIO.kygJ k)]
  | .error e => J.obj [("err", J.str e)]

def opTbl (req : J) : J :=
  let text := match req.get? "text" with | some (J.str s) => s | _ => ""
  match Aux.tblParse text.toList with
  | .ok t => J.obj [("ok", AuxIO.tblJ t)]
  | .error e => J.obj [("err", J.str e)]

namespace DataIO
open Cte.BdlData Cte.Bdl
def js (s : Str) : J := J.str (String.ofList s)
def jos (o : Option Str) : J := match o with | some s => js s | none => J.null
def jt (t : TNum) : J := match t with | some r => J.ofRat r 9 | none => J.str "nonfinite"
def jot (t : Option TNum) : J := match t with | some x => jt x | none => J.null
def jts (l : List TNum) : J := J.arr (l.map jt)
def jots (l : Option (List TNum)) : J := match l with | some x => jts x | none => J.null
def jpoly (p : Polygon) : J := J.arr (p.pts.map jts)

def dataJ (d : Data) : J :=
  J.obj [
    ("materials", J.arr (d.materials.map (fun kv => J.obj [("key", js kv.1), ("name", js kv.2.name), ("group", js kv.2.group),
        ("properties", match kv.2.properties with
          | some (th, c, de, sh, vd) => J.arr [jot th, jt c, jt de, jt sh, jot vd]
          | none => J.null), ("resistance", jot kv.2.resistance)]))),
    ("glasses", J.arr (d.glasses.map (fun kv => J.obj [("key", js kv.1), ("name", js kv.2.name), ("group", js kv.2.group), ("conductivity", jt kv.2.conductivity), ("g_gln", jt kv.2.gGln)]))),
    ("frames", J.arr (d.frames.map (fun kv => J.obj [("key", js kv.1), ("name", js kv.2.name), ("group", js kv.2.group), ("conductivity", jt kv.2.conductivity),
        ("absorptivity", jt kv.2.absorptivity), ("width", jt kv.2.width)]))),
    ("wallcons", J.arr (d.wallcons.map (fun kv => J.obj [("key", js kv.1), ("name", js kv.2.name), ("group", js kv.2.group), ("material", J.arr (kv.2.material.map js)),
        ("thickness", jts kv.2.thickness), ("absorptance", jt kv.2.absorptance)]))),
    ("wincons", J.arr (d.wincons.map (fun kv => J.obj [("key", js kv.1), ("name", js kv.2.name), ("group", js kv.2.group), ("glass", js kv.2.glass), ("frame", js kv.2.frame),
        ("framefrac", jt kv.2.framefrac), ("infcoeff", jt kv.2.infcoeff), ("deltau", jt kv.2.deltau), ("gglshwi", jot kv.2.gglshwi)]))),
    ("spaces", J.arr (d.spaces.map (fun s => J.obj [("name", js s.name), ("stype", js s.stype), ("polygon", jpoly s.polygon), ("height", jt s.height), ("x", jt s.x), ("y", jt s.y),
        ("z", jt s.z), ("angle", jt s.angle), ("insidete", J.bool s.insidete), ("floor", js s.floor), ("power", jt s.power), ("veei_obj", jt s.veeiObj), ("veei_ref", jt s.veeiRef),
        ("spacetype", js s.spacetype), ("spaceconds", js s.spaceconds), ("systemconds", js s.systemconds), ("floor_multiplier", jt s.floorMultiplier),
        ("multiplier", jt s.multiplier), ("ismultiplied", J.bool s.ismultiplied), ("airchanges_h", jot s.airchanges)]))),
    ("walls", J.arr (d.walls.map (fun w => J.obj [("name", js w.name), ("space", js w.space), ("cons", js w.cons), ("location", jos w.location), ("x", jt w.x), ("y", jt w.y),
        ("z", jt w.z), ("angle", match w.angle with | some a => jt a | none => J.str "computed"), ("tilt", jt w.tilt),
        ("polygon", match w.polygon with | some p => jpoly p | none => J.null), ("bounds", J.str w.bounds), ("nextto", jos w.nextto)]))),
    ("windows", J.arr (d.windows.map (fun w => J.obj [("name", js w.name), ("wall", js w.wall), ("cons", js w.cons), ("x", jt w.x), ("y", jt w.y), ("height", jt w.height),
        ("width", jt w.width), ("setback", jt w.setback), ("coefs", jots w.coefs), ("overhang", jots w.overhang), ("left_fin", jots w.leftFin), ("right_fin", jots w.rightFin)]))),
    ("thermal_bridges", J.arr (d.tbs.map (fun t => J.obj [("name", js t.name), ("length", jot t.length), ("psi", jt t.psi), ("frsi", jt t.frsi), ("tbtype", js t.tbtype)]))),
    ("shadings", J.arr (d.shadings.map (fun s => J.obj [("name", js s.name), ("tran", jt s.tran), ("refl", jt s.refl), ("rect", jots s.rect),
        ("verts", match s.verts with | some v => J.arr (v.map jts) | none => J.null)]))),
    ("schedules", J.arr (d.schedules.map (fun s => match s with
        | .day n k v => J.obj [("kind", J.str "day"), ("name", js n), ("type", js k), ("values", jts v)]
        | .week n k ds => J.obj [("kind", J.str "week"), ("name", js n), ("type", js k), ("days", J.arr (ds.map js))]
        | .year n k ds ms ws => J.obj [("kind", J.str "year"), ("name", js n), ("type", js k), ("days", J.arr (ds.map J.ofNat)), ("months", J.arr (ms.map J.ofNat)),
            ("weeks", J.arr (ws.map js))]))),
    ("space_conditions", J.arr (d.spaceConds.map js)), ("system_conditions", J.arr (d.systemConds.map js)), ("meta", J.arr (d.metaTypes.map js))]
end DataIO

/-- op `bdldata`: `Data::new(text)`, the typed elements -/
def opBdlData (req : J) : J :=
  let text := match req.get? "text" with | some (J.str s) => s | _ => ""
  match BdlData.dataNew text.toList with
  | .ok d => J.obj [("ok", DataIO.dataJ d)]
  | .err e => J.obj [("err", J.str e)]
  | .panic p => J.obj [("panic", J.str p)]

/-- op `convvalues`: text → typed elements (`Data::new`) → the values the conversion gives to spaces, thermal bridges and windows -/
def opConvValues (req : J) : J :=
  let text := match req.get? "text" with | some (J.str s) => s | _ => ""
  match BdlData.dataNew text.toList with
  | .ok d =>
    J.obj [("spaces", J.arr (d.spaces.map (fun s =>
              let v := ConvV.convSpace s
              J.obj [("name", DataIO.js v.name), ("z", DataIO.jt v.z), ("height", DataIO.jt v.height), ("inside_tenv", J.bool v.insideTenv),
                     ("multiplier", DataIO.jt v.multiplier),
                     ("kind", J.str (match v.kind with | .conditioned => "CONDITIONED" | .unconditioned => "UNCONDITIONED" | .uninhabited => "UNINHABITED")),
                     ("n_v", DataIO.jot v.nV), ("illuminance", DataIO.jot v.illuminance)]))),
           ("tbs", J.arr ((ConvV.convTbs d.tbs).map (fun t =>
              J.obj [("name", DataIO.js t.name), ("kind", J.str t.kind.str), ("l", DataIO.jt t.l), ("psi", DataIO.jt t.psi)]))),
           ("loads", J.arr (d.spaceCondBlocks.map (fun kb => match ConvV.convLoads kb.1 kb.2.attrs with
              | some v => J.obj [("name", DataIO.js v.name), ("area_per_person", DataIO.jt v.areaPerPerson), ("people_sensible", DataIO.jt v.peopleSensible),
                                 ("people_latent", DataIO.jt v.peopleLatent), ("equipment", DataIO.jt v.equipment), ("lighting", DataIO.jt v.lighting)]
              | none => J.obj [("name", DataIO.js kb.1), ("rejected", J.bool true)]))),
           ("wallcons", J.arr (d.wallcons.map (fun kc => let v := ConvV.convWallCons kc.2
              J.obj [("name", DataIO.js kc.1), ("thickness", DataIO.jts v.thickness), ("absorptance", DataIO.jt v.absorptance)]))),
           ("wincons", J.arr (d.wincons.map (fun kc => let v := ConvV.convWinCons kc.2
              J.obj [("name", DataIO.js kc.1), ("f_f", DataIO.jt v.fF), ("delta_u", DataIO.jt v.deltaU), ("g_glshwi", DataIO.jot v.gGlshwi), ("c_100", DataIO.jt v.c100)]))),
           ("glasses", J.arr (d.glasses.map (fun kc => let v := ConvV.convGlass kc.2
              J.obj [("name", DataIO.js kc.1), ("u_value", DataIO.jt v.uValue), ("g_gln", DataIO.jt v.gGln)]))),
           ("frames", J.arr (d.frames.map (fun kc => let v := ConvV.convFrame kc.2
              J.obj [("name", DataIO.js kc.1), ("u_value", DataIO.jt v.uValue), ("absorptivity", DataIO.jt v.absorptivity)]))),
           ("schedules", J.arr (d.schedules.map (fun sc => match ConvS.convSched sc with
              | some (.day n vs) => J.obj [("kind", J.str "day"), ("name", DataIO.js n), ("values", DataIO.jts vs)]
              | some (.week n runs) => J.obj [("kind", J.str "week"), ("name", DataIO.js n), ("runs", J.arr (runs.map (fun r => J.arr [J.str r.1, J.ofNat r.2])))]
              | some (.year n ps) => J.obj [("kind", J.str "year"), ("name", DataIO.js n), ("periods", J.arr (ps.map (fun r => J.arr [DataIO.js r.1, J.ofNat r.2])))]
              | none => J.obj [("rejected", J.bool true)]))),
           ("windows", J.arr (d.windows.map (fun w =>
              let v := ConvV.convWindow w
              J.obj [("name", DataIO.js v.name), ("x", DataIO.jt v.x), ("y", DataIO.jt v.y), ("width", DataIO.jt v.width),
                     ("height", DataIO.jt v.height), ("setback", DataIO.jt v.setback)])))]
  | .err e => J.obj [("err", J.str e)]
  | .panic p => J.obj [("panic", J.str p)]

/-- op `verdict`: blocks → typed elements → conversion skeleton on a BDL text (no catalogue) -/
def opVerdict (req : J) : J :=
  let text := match req.get? "text" with | some (J.str s) => s | _ => ""
  J.obj [("v", J.str (match Pipeline.verdict text.toList with | .converted => "converted" | .rejected => "rejected" | .crashed => "crashed"))]

/-- op `reveals`: global corners of the four reveal surfaces of a set-back window -/
def opReveals (req : J) : J :=
  let tr := (req.get? "trig").getD J.null
  let pos := match (req.get? "position").map jnums with | some [a, b, c] => (⟨a, b, c⟩ : Vec3) | _ => ⟨0, 0, 0⟩
  let w := (req.get? "window").getD J.null
  let rs := Place.reveals pos (PlaceIO.ang tr "az") (PlaceIO.ang tr "t") (PlaceIO.num w "x") (PlaceIO.num w "y") (PlaceIO.num w "w")
    (PlaceIO.num w "h") (PlaceIO.num w "setback")
  J.obj [("reveals", J.arr (rs.map (fun r => J.arr (r.map (fun c => J.arr [J.ofRat c.x 6, J.ofRat c.y 6, J.ofRat c.z 6])))))]

/-- op `origins`: the sample points of a window (`Place.rayOrigins`) -/
def opOrigins (req : J) : J :=
  let tr := (req.get? "trig").getD J.null
  let pos := match (req.get? "position").map jnums with | some [a, b, c] => (⟨a, b, c⟩ : Vec3) | _ => ⟨0, 0, 0⟩
  let v0 := match (req.get? "v0").map jnums with | some [a, b] => (a, b) | _ => (0, 0)
  let w := (req.get? "window").getD J.null
  let os := Place.rayOrigins pos (PlaceIO.ang tr "az") (PlaceIO.ang tr "t") (PlaceIO.ang tr "e") v0 (PlaceIO.num w "x") (PlaceIO.num w "y")
    (PlaceIO.num w "w") (PlaceIO.num w "h") (PlaceIO.num w "setback")
  J.obj [("origins", J.arr (os.map (fun c => J.arr [J.ofRat c.x 6, J.ofRat c.y 6, J.ofRat c.z 6])))]

/-- op `occupancy`: yearly occupied time and mean internal load -/
def opOccupancy (m : Model) : J :=
  J.obj [("hours_in_use", J.ofNat (hoursInUse m)), ("average_load", jr (averageLoad (Fns.approx 0) m)),
         ("loads_avg", J.obj (m.loadsProps.map (fun l => (l.id, jr l.loadsAvg))))]

def angOf (j : Option J) : Option Ang :=
  match j.map jnums with
  | some [c, s] => some ⟨c, s⟩
  | _ => none

/-- op `solar`: the algebraic model evaluated on given (cos, sin) pairs -/
def opSolar (req : J) : J :=
  let pts := match req.get? "points" with | some (J.arr l) => l | _ => []
  J.obj [("points", J.arr (pts.map (fun p =>
    match angOf (p.get? "d"), angOf (p.get? "h"), angOf (p.get? "w"), angOf (p.get? "b"), angOf (p.get? "g"),
          angOf (p.get? "az"), angOf (p.get? "alt") with
    | some d, some h, some w, some b, some g, some az, some alt =>
      let n := surfaceNormal b g
      let r := rayDirToSun az alt
      let sv := sunVec d h w
      J.obj [("cos_incidence", jr (cosIncidence d h w b g)), ("normal_dot_sun", jr (n.dot sv)),
             ("sin_altitude", jr (sinAltitude d h w)), ("normal", J.arr [jr n.x, jr n.y, jr n.z]),
             ("ray_dir", J.arr [jr r.x, jr r.y, jr r.z]), ("sun", J.arr [jr sv.x, jr sv.y, jr sv.z])]
    | _, _, _, _, _, _, _ => J.null)))]

/-- op `recode`: canonical re-serialisation of a model document along the generated schema -/
def opRecode (req : J) : J :=
  match req.get? "json" with
  | none => J.obj [("error", J.str "no json")]
  | some j =>
    match recode Gen.schema Gen.untaggedAlts 64 (.struct "Model") j with
    | .ok r => J.obj [("ok", J.bool true), ("json", r)]
    | .error (.missing w) => J.obj [("ok", J.bool false), ("kind", J.str "missing"), ("where", J.str w)]
    | .error (.shape w) => J.obj [("ok", J.bool false), ("kind", J.str "shape"), ("where", J.str w)]
    | .error (.noVariant w) => J.obj [("ok", J.bool false), ("kind", J.str "no-variant"), ("where", J.str w)]
    | .error .fuel => J.obj [("ok", J.bool false), ("kind", J.str "fuel")]

def withModel (req : J) (f : Model → J) : J :=
  match req.get? "model" with
  | none => J.obj [("error", J.str "no model")]
  | some mj =>
    match Dec.model mj with
    | .ok m => f m
    | .error e => J.obj [("load_error", J.str e)]

/-- op `cli`: the export tool's automaton on the given argument list; the library's behaviour is what the
harness observed in-process (`lib_ok`), the JSON stands for itself -/
def opCli (req : J) : J :=
  let args : List String := match req.get? "args" with
    | some (J.arr l) => l.filterMap (fun x => match x with | J.str s => some s | _ => none)
    | _ => []
  let libOk := match req.get? "lib_ok" with | some (J.bool b) => b | _ => false
  let lib : String → Bool → Cli.LibRun := fun _ _ =>
    { writes := [], result := if libOk then .ok "MODEL" else .error "no project" }
  let r := Cli.cliMain args lib
  let out := Cli.stdoutOf r.writes
  J.obj [("status", J.ofNat r.status),
         ("stdout", J.str (if out = ["MODEL\n"] then "model-json-newline" else if out = [] then "empty" else "other")),
         ("use_extra_passed", J.bool ((args.drop 1).dropLast.any (· == "--use-extra")))]

/-- op `thor`: the companion tool's automaton: `thor FILE -o P [-v]*` with P holding `existing` before -/
def opThor (req : J) : J :=
  let v := match req.get? "v" with | some (J.num false k 0) => k | _ => 0
  let libOk := match req.get? "lib_ok" with | some (J.bool b) => b | _ => false
  let existing : Cli.Fs := match req.get? "existing" with | some (J.str c) => [("P", c)] | _ => []
  let a : Cli.ThorArgs := { input := "FILE", out := some "P", v := v }
  let r := Cli.thorMain a (fun _ => if libOk then .ok ("MODEL", "IND") else .error "bad file") (fun _ => true) existing
  J.obj [("status", J.ofNat r.status),
         ("file", match r.fs.read "P" with
            | some c => J.str (if c = "MODEL" then "model-json" else "other")
            | none => J.null),
         ("stdout_writes", J.ofNat (Cli.stdoutOf r.writes).length)]

/-- op `locktrace`: the lock events recorded by the hook (thread index, lock / unlock, table) replayed on the process machine,
`threads` threads each computing the indicators `runs` times -/
def opLockTrace (req : J) : J :=
  let n := match req.get? "threads" with | some (J.num false k 0) => k | _ => 0
  let k := match req.get? "runs" with | some (J.num false k 0) => k | _ => 0
  let tbl : String → Option Proc.Tbl := fun s => match s with
    | "july" => some .july | "meta" => some .meta_ | "monthly" => some .monthly | _ => none
  let evs : List (Option Proc.Obs) := match req.get? "events" with
    | some (J.arr l) => l.map (fun e => match e with
        | J.arr [J.num false i 0, J.str a, J.str t] =>
          (tbl t).bind (fun tb => match a with
            | "lock" => some ⟨i, .lock tb⟩
            | "unlock" => some ⟨i, .unlock tb⟩
            | _ => none)
        | _ => none)
    | _ => []
  if evs.any Option.isNone then J.obj [("accepted", J.bool false), ("why", J.str "an event names no known table or action")] else
  let tr := evs.filterMap id
  let fuel := 16 * (k + 1)
  let rec go (s : Proc.St) (idx : Nat) : List Proc.Obs → Option Proc.St × Nat
    | [] => (some s, idx)
    | o :: r => match Proc.replayOne fuel s o with
      | some s1 => go s1 (idx + 1) r
      | none => (none, idx)
  match go (Proc.indicatorThreads n k) 0 tr with
  | (some s, _) => J.obj [("accepted", J.bool true), ("finished", J.bool s.finished), ("events", J.ofNat tr.length)]
  | (none, idx) => J.obj [("accepted", J.bool false), ("first_rejected", J.ofNat idx)]

/-- op `fixextra`: `fix_ecdata_from_extra` on the walls / windows of a converted project (with the computed U and F_sh;obst the
implementation reported) and the parsed result files -/
def opFixExtra (req : J) : J :=
  let str (j : J) (k : String) : String := match j.get? k with | some (J.str s) => s | _ => ""
  let numOf (j : J) : Option Rat := match j with | J.num n m e => some (J.numVal n m e) | _ => none
  let pairs (j : Option J) : Option (List (String × Rat)) := match j with
    | some (J.arr l) => some (l.filterMap (fun p => match p with
        | J.arr [J.str k, v] => (numOf v).map (fun x => (k, x))
        | _ => none))
    | _ => none
  let walls : List Extra.WallIn := match req.get? "walls" with
    | some (J.arr l) => l.map (fun w =>
        let interior : Bool := match w.get? "interior" with | some (J.bool b) => b | _ => false
        let cu : Rat := ((w.get? "computed_u").bind numOf).getD 0
        ({ name := str w "name", id := str w "id", interior := interior, computedU := cu } : Extra.WallIn))
    | _ => []
  let wins : List Extra.WinIn := match req.get? "windows" with
    | some (J.arr l) => l.map (fun w => { name := str w "name", id := str w "id", computedFsh := (w.get? "computed_fsh").bind numOf })
    | _ => []
  let kyg : Option (List (String × Rat) × List (String × Rat)) := match req.get? "kyg" with
    | some k@(J.obj _) => some ((pairs (k.get? "walls")).getD [], (pairs (k.get? "windows")).getD [])
    | _ => none
  let f : Extra.Files := { kyg := kyg, tbl := pairs (req.get? "tbl") }
  let lastWins (l : List (String × Rat)) : List (String × Rat) :=
    l.foldl (fun acc p => (acc.filter (fun q => q.1 != p.1)) ++ [p]) []
  let jp (l : List (String × Rat)) : J := J.arr (l.map (fun p => J.arr [J.str p.1, jr p.2]))
  J.obj [("wall_overrides", jp (lastWins (Extra.wallOverrides f walls))),
         ("win_overrides", jp (lastWins (Extra.winOverrides f wins))),
         ("extra", match Extra.extraNames f walls with | some l => jStrs l | none => J.null)]

def handle (line : String) : String :=
  match J.parse line with
  | none => "{\"error\":\"bad json\"}"
  | some req =>
    let id := (req.get? "id").getD J.null
    let ans : J :=
      match req.get? "op" with
      | some (J.str "check") => withModel req opCheck
      | some (J.str "purge") => withModel req opPurge
      | some (J.str "saneu") => withModel req opSaneU
      | some (J.str "yeardays") => withModel req opYearDays
      | some (J.str "occupancy") => withModel req opOccupancy
      | some (J.str "enddates") => opEndDates req
      | some (J.str "edgevert") => opEdgeVert req
      | some (J.str "weekruns") => opWeekRuns req
      | some (J.str "bdlblocks") => opBdlBlocks req
      | some (J.str "skelconvert") => opSkelConvert req
      | some (J.str "placement") => opPlacement req
      | some (J.str "reveals") => opReveals req
      | some (J.str "origins") => opOrigins req
      | some (J.str "kyg") => opKyg req
      | some (J.str "bdldata") => opBdlData req
      | some (J.str "verdict") => opVerdict req
      | some (J.str "convvalues") => opConvValues req
      | some (J.str "tbl") => opTbl req
      | some (J.str "indicators") => withModel req (opIndicators req)
      | some (J.str "classify") => opClassify req
      | some (J.str "bvh") => opBvh req
      | some (J.str "recode") => opRecode req
      | some (J.str "solar") => opSolar req
      | some (J.str "fshobst") => opFshobst req
      | some (J.str "raypoly") => opRayPoly req
      | some (J.str "noop") => J.obj []
      | some (J.str "locktrace") => opLockTrace req
      | some (J.str "fixextra") => opFixExtra req
      | some (J.str "cli") => opCli req
      | some (J.str "thor") => opThor req
      | some (J.str "load") => withModel req (fun _ => J.obj [("ok", J.bool true)])
      | _ => J.obj [("error", J.str "unknown op")]
    match ans with
    | J.obj kvs => (J.obj (("id", id) :: kvs)).render
    | other => other.render

partial def loop (h : IO.FS.Stream) (out : IO.FS.Stream) : IO Unit := do
  let line ← h.getLine
  if line.isEmpty then return ()
  if line.trimAscii.toString.isEmpty then loop h out else
  out.putStrLn (handle line)
  loop h out

def main : IO Unit := do
  let out ← IO.getStdout
  loop (← IO.getStdin) out
  out.flush
