#!/bin/sh
# Build the framework from files on disk only (offline): Lean library + driver, Rust harness.
set -e
cd "$(dirname "$0")"
export CARGO_NET_OFFLINE=true
mkdir -p .cache evidence replays
[ -f harness/Cargo.lock ] || cp /repo/Cargo.lock harness/Cargo.lock
(cd lean && lake build Cte ctedriver)
(cd harness && CARGO_TARGET_DIR=../.cache/target-harness cargo build --release --offline --quiet)
echo setup-ok
