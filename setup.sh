#!/bin/sh
# Build the framework from files on disk only (offline): Rust harness, generated Lean tables,
# Lean library + driver.
set -e
cd "$(dirname "$0")"
export CARGO_NET_OFFLINE=true
mkdir -p .cache/gen evidence replays
[ -f harness/Cargo.lock ] || cp /repo/Cargo.lock harness/Cargo.lock
(cd harness && CARGO_TARGET_DIR=../.cache/target-harness cargo build --release --offline --quiet)
.cache/target-harness/release/cteverif dump --out .cache/gen >/dev/null 2>&1 && python3 tools/gen_tables.py .cache/gen/tables.json && python3 tools/gen_schema.py .cache/gen/tables.json && python3 tools/gen_stdout_sites.py >/dev/null && python3 tools/gen_lock_sites.py >/dev/null && python3 tools/gen_bdl_types.py >/dev/null
# the harness once more with the verification hook of /repo on (lock traces for C05)
(cd harness && RUSTFLAGS="--cfg cteenergymodel_verif" CARGO_TARGET_DIR=../.cache/target-harness-hook cargo build --release --offline --quiet)
(cd lean && lake build Cte ctedriver)
echo setup-ok
