#!/usr/bin/env python3
"""Translator: the serde schema of the model format, read from the struct definitions of
bemodel/src/types/*.rs (field, type, `default`, `skip_serializing_if`, `flatten`, `untagged`), written as
lean/Cte/Gen/Schema.lean.  Fails closed: anything it cannot parse is reported as a problem."""
import json
import os
import re
import sys

VERIF = os.path.dirname(os.path.dirname(os.path.abspath(__file__)))
TYPES = "/repo/bemodel/src/types"
FILES = ["common.rs", "model.rs", "meta.rs", "space.rs", "opaques.rs", "window.rs", "thermalbridge.rs", "constructions.rs",
         "schedules.rs", "space_loads.rs", "thermostat.rs", "overrides.rs"]
ROOT = "Model"


def jlit(v):
    """Lean term of type J for a python JSON value (numbers canonical: mantissa not divisible by 10)"""
    if v is None:
        return "J.null"
    if isinstance(v, bool):
        return "J.bool " + ("true" if v else "false")
    if isinstance(v, (int, float)):
        from decimal import Decimal
        d = Decimal(repr(v)) if isinstance(v, float) else Decimal(v)
        sign, digits, exp = d.normalize().as_tuple()
        m = int("".join(map(str, digits)))
        if m == 0:
            return "J.num false 0 0"
        return f"J.num {'true' if sign else 'false'} {m} ({exp})"
    if isinstance(v, str):
        return "J.str " + json.dumps(v, ensure_ascii=False)
    if isinstance(v, list):
        return "J.arr [" + ", ".join(jlit(x) for x in v) + "]"
    if isinstance(v, dict):
        return "J.obj [" + ", ".join(f"({json.dumps(k, ensure_ascii=False)}, {jlit(x)})" for k, x in v.items()) + "]"
    raise ValueError(v)


def strip_comments(src):
    return "\n".join(re.sub(r"//.*$", "", l) for l in src.splitlines())


def parse_all():
    structs, enums_default, problems, enums = {}, {}, [], set()
    untagged = {}
    for fn in FILES:
        path = os.path.join(TYPES, fn)
        if not os.path.exists(path):
            problems.append(f"missing source file {fn}")
            continue
        src = strip_comments(open(path).read())
        for m in re.finditer(r"impl Default for (\w+)\s*\{\s*fn default\(\)\s*->\s*Self\s*\{\s*(?:Self|\w+)::(\w+)\s*\}", src):
            enums_default[m.group(1)] = m.group(2)
        for m in re.finditer(r"((?:#\[[^\]]*\]\s*)+)pub enum (\w+)\s*\{(.*?)\n\}", src, re.S):
            attrs, name, body = m.groups()
            if "Serialize" not in attrs:
                continue
            if "untagged" in attrs:
                alts = []
                for am in re.finditer(r"(\w+)\s*\{(.*?)\}", body, re.S):
                    alts.append((am.group(1), parse_fields(am.group(2), False, problems, f"{name}::{am.group(1)}", bare=True)))
                untagged[name] = alts
            else:
                enums.add(name)
        for m in re.finditer(r"((?:#\[[^\]]*\]\s*)+)pub struct (\w+)\s*\{(.*?)\n\}", src, re.S):
            attrs, name, body = m.groups()
            if "Serialize" not in attrs or "Deserialize" not in attrs:
                continue
            struct_default = bool(re.search(r"#\[serde\(default\)\]", attrs))
            structs[name] = {"struct_default": struct_default, "fields": parse_fields(body, struct_default, problems, name)}
    return structs, enums, enums_default, untagged, problems


def parse_fields(body, struct_default, problems, owner, bare=False):
    fields = []
    pending = []
    for line in body.splitlines():
        line = line.strip()
        if not line:
            continue
        if line.startswith("#["):
            pending.append(line)
            continue
        m = re.match(r"(?:pub(?:\(crate\))?\s+)?(\w+)\s*:\s*(.+?),?$", line)
        if not m:
            problems.append(f"{owner}: cannot parse field line {line!r}")
            pending = []
            continue
        name, ty = m.group(1), m.group(2).strip()
        attr = " ".join(pending)
        pending = []
        serde = re.findall(r"#\[serde\((.*?)\)\]", attr)
        opts = {}
        for s in serde:
            for part in re.split(r",\s*(?![^\"]*\"\s*(?:,|$))", s):
                part = part.strip()
                if "=" in part:
                    k, v = part.split("=", 1)
                    opts[k.strip()] = v.strip().strip('"')
                elif part:
                    opts[part] = True
        fields.append({"name": name, "ty": ty, "opts": opts})
    return fields


def ty_expr(ty, structs, enums, untagged, problems, owner):
    ty = ty.strip()
    m = re.match(r"Option<(.+)>$", ty)
    if m:
        return f".opt ({ty_expr(m.group(1), structs, enums, untagged, problems, owner)})"
    m = re.match(r"Vec<(.+)>$", ty)
    if m:
        return f".list ({ty_expr(m.group(1), structs, enums, untagged, problems, owner)})"
    m = re.match(r"BTreeMap<\s*Uuid\s*,\s*(.+)>$", ty)
    if m:
        return f".map ({ty_expr(m.group(1), structs, enums, untagged, problems, owner)})"
    m = re.match(r"\((.+)\)$", ty)
    if m:
        parts = [p.strip() for p in m.group(1).split(",")]
        return ".tuple [" + ", ".join(ty_expr(p, structs, enums, untagged, problems, owner) for p in parts) + "]"
    if ty in ("f32", "f64", "i32", "u32", "usize", "bool", "String", "Uuid", "Point2", "Point3", "ClimateZone") or ty in enums:
        return ".leaf"
    if ty == "Polygon":
        return ".list (.leaf)"
    if ty in structs:
        return f'.struct "{ty}"'
    if ty in untagged:
        return f'.untagged "{ty}"'
    problems.append(f"{owner}: unknown field type {ty}")
    return ".leaf"


def type_default(ty, enums_default, dumped, problems, owner):
    ty = ty.strip()
    if ty in ("f32", "f64"):
        return 0.0
    if ty in ("i32", "u32", "usize"):
        return 0
    if ty == "bool":
        return False
    if ty == "String":
        return ""
    if ty.startswith("Vec<") or ty == "Polygon":
        return []
    if ty.startswith("Option<"):
        return None
    if ty in enums_default:
        return enums_default[ty]
    if ty in ("ConsDb", "SchedulesDb"):
        return {}        # every collection inside is skipped when empty
    if ty in dumped:
        return dumped[ty]
    problems.append(f"{owner}: no known Default for type {ty}")
    return None


def rule_of(f, struct_default, sname, enums_default, dumped, problems):
    o, ty = f["opts"], f["ty"]
    owner = f"{sname}.{f['name']}"
    known = {"default", "skip_serializing_if", "flatten", "rename"}
    for k in o:
        if k not in known:
            problems.append(f"{owner}: unsupported serde attribute {k}")
    has_default = "default" in o
    skip = o.get("skip_serializing_if")
    if has_default:
        d = o["default"]
        if d is True:
            dv = type_default(ty, enums_default, dumped, problems, owner)
        elif d == "default_1":
            dv = 1.0
        elif d == "default_true":
            dv = True
        else:
            problems.append(f"{owner}: unknown default function {d}")
            dv = None
        if skip is None:
            return f".dfltKeep ({jlit(dv)})"
        if skip == "Option::is_none":
            if not ty.startswith("Option<"):
                problems.append(f"{owner}: Option::is_none on a non-Option field")
            return ".optSkip"
        # every other skip predicate of the code base must mean "equals the default"
        means = {"String::is_empty": "", "Vec::is_empty": [], "multiplier_is_1": 1.0, "is_true": True, "is_default": dv,
                 "ConsDb::is_empty": {}, "SchedulesDb::is_empty": {}, "PropsOverrides::is_empty": dumped.get("PropsOverrides")}
        if skip not in means:
            problems.append(f"{owner}: unknown skip predicate {skip}")
            return f".dfltKeep ({jlit(dv)})"
        if means[skip] != dv:
            problems.append(f"{owner}: skip predicate {skip} (skips {means[skip]!r}) is not paired with its default ({dv!r}): a value would not survive a round trip")
        return f".dfltSkip ({jlit(dv)})"
    if skip is not None:
        problems.append(f"{owner}: skip_serializing_if without default: the field cannot be read back when skipped")
        return ".req"
    if struct_default:
        dv = (dumped.get(sname) or {}).get(f["name"], "__missing__")
        if dv == "__missing__":
            dv = type_default(ty, enums_default, dumped, problems, owner)
        return f".dfltKeep ({jlit(dv)})"
    if ty.startswith("Option<"):
        return ".optNull"
    return ".req"


def main(tables_path):
    dumped = {}
    try:
        dumped = json.load(open(tables_path)).get("defaults", {})
    except Exception as e:      # noqa
        return [f"cannot read dumped defaults: {e}"]
    structs, enums, enums_default, untagged, problems = parse_all()
    if ROOT not in structs:
        problems.append("struct Model not found")
    out = ["/- GENERATED by tools/gen_schema.py from bemodel/src/types/*.rs — do not edit -/",
           "import Cte.Model.SchemaWalk", "namespace Cte.Gen", "open Cte.Codec", ""]
    names = []
    for sname, st in structs.items():
        fl = []
        for f in st["fields"]:
            if f["opts"].get("flatten"):
                fl.append(f'  {{ field := {{ key := "{f["name"]}", rule := .req }}, ty := {ty_expr(f["ty"], structs, enums, untagged, problems, sname)}, flatten := true }}')
                continue
            key = f["opts"].get("rename", f["name"])
            fl.append(f'  {{ field := {{ key := "{key}", rule := {rule_of(f, st["struct_default"], sname, enums_default, dumped, problems)} }}, '
                      f'ty := {ty_expr(f["ty"], structs, enums, untagged, problems, sname)} }}')
        out.append(f"def fields_{sname} : List FieldT := [\n" + ",\n".join(fl) + "]\n")
        names.append(sname)
    for uname, alts in untagged.items():
        for aname, fields in alts:
            fl = [f'  {{ field := {{ key := "{f["opts"].get("rename", f["name"])}", rule := {rule_of(f, False, uname + "::" + aname, enums_default, dumped, problems)} }}, '
                  f'ty := {ty_expr(f["ty"], structs, enums, untagged, problems, uname)} }}' for f in fields]
            out.append(f"def fields_{uname}_{aname} : List FieldT := [\n" + ",\n".join(fl) + "]\n")
    out.append("def schema : List StructSpec := [" + ", ".join(f'{{ name := "{n}", fields := fields_{n} }}' for n in names) + "]\n")
    out.append("def untaggedAlts : List (String × List (List FieldT)) := [" + ", ".join(
        f'("{u}", [' + ", ".join(f"fields_{u}_{a}" for a, _ in alts) + "])" for u, alts in untagged.items()) + "]\n")
    out.append("end Cte.Gen\n")
    path = os.path.join(VERIF, "lean", "Cte", "Gen", "Schema.lean")
    txt = "\n".join(out)
    if not os.path.exists(path) or open(path).read() != txt:
        open(path, "w").write(txt)
    return problems


if __name__ == "__main__":
    for p in main(sys.argv[1] if len(sys.argv) > 1 else os.path.join(VERIF, ".cache", "gen", "tables.json")):
        print("problem:", p)
