#!/bin/bash
# regress_some.sh <seed> <out> <name>...: like regress_seeds.sh, for the named seeded changes only
cd "$(dirname "$0")/.."
seed=$1; out=$2; shift 2
: > $out
if [ -n "$(git -C /repo status --porcelain --untracked-files=no)" ]; then echo "/repo is not clean"; exit 2; fi
for name in "$@"; do
  d=seeded/$name; prop=${name%-*}
  if ! git -C /repo apply --check "$PWD/$d/patch.diff" 2>/dev/null; then echo "$name does-not-apply" >> $out; continue; fi
  git -C /repo apply "$PWD/$d/patch.diff"
  VERIF_SEED=$seed ./check $prop --tier quick > /tmp/regress_one.log 2>&1; rc=$?
  git -C /repo apply -R "$PWD/$d/patch.diff" || git -C /repo checkout -- .
  echo "$name rc=$rc $(grep -E '^\[C' /tmp/regress_one.log | sed 's/.*disagreements/disagreements/')" >> $out
done
echo finished >> $out
