"""Generic per-property run: proof obligations + correspondence + oracles + decision."""
import importlib
import json
import os
import sys
import time
import collections

from framework import *  # noqa


def load_prop(pid):
    sys.path.insert(0, os.path.join(VERIF, "tools", "props"))
    return importlib.import_module(pid.lower())


def run_property(pid, tier, seed, replay=None):
    t0 = time.time()
    P = load_prop(pid)
    rundir = os.path.join(CACHE, "run", f"{pid}-{tier}")
    os.makedirs(rundir, exist_ok=True)
    replays = os.path.join(VERIF, "replays")
    os.makedirs(replays, exist_ok=True)
    known = load_known()
    notes = []

    # ---- 0. regenerate generated model files, if the property has any
    gen_problems = []
    if hasattr(P, "generate"):
        gen_problems = P.generate(rundir, tier) or []

    # ---- 1. proof obligations
    ok_build, build_out, failing = lake_build(P.LEAN_MODS + ["ctedriver"])
    all_thms = []
    for m in P.LEAN_MODS:
        all_thms += theorems_of(m)
    axioms, audit_problems = ({}, [])
    unchecked = []          # names of obligations that no longer check
    rechecked = False
    if ok_build:
        axioms, audit_problems = audit(P.LEAN_MODS)
        for pr in audit_problems:
            unchecked.append(pr)
        if tier == "thorough":
            lc = leanchecker(P.LEAN_MODS)
            rechecked = not lc
            for pr in lc:
                unchecked.append(pr)
    else:
        for f, decls in failing.items():
            for d in decls:
                unchecked.append(f"{f}: {d}")
        if not unchecked:
            unchecked.append("lake build failed: " + build_out[-400:])
        with open(os.path.join(rundir, "lake.log"), "w") as fh:
            fh.write(build_out)
    for g in gen_problems:
        unchecked.append("generator: " + g)

    # ---- 2. harness + driver
    ok_cargo, cargo_out = cargo_build()
    if not ok_cargo:
        with open(os.path.join(rundir, "cargo.log"), "w") as fh:
            fh.write(cargo_out)
        unchecked.append("harness does not build against /repo (API changed?): see " + os.path.join(rundir, "cargo.log"))
    n = P.N[tier]
    if hasattr(P, "extra_coverage") and tier == "thorough" and getattr(P, "PROP", "") == "C14":
        pass
    cases_path = os.path.join(rundir, "cases.jsonl")
    model_path = os.path.join(rundir, "model.jsonl")
    for p_ in (cases_path, model_path):
        if os.path.exists(p_):
            os.remove(p_)
    evaluations = 0
    disagreements = []      # model vs impl
    violations = []         # impl vs property
    knowns = []
    branches = collections.Counter()
    distinct = set()
    samples = []
    driver_ok = os.path.exists(DRIVER)
    if ok_cargo:
        extra = dict(getattr(P, "HARNESS_ARGS", {}).get(tier, {}))
        if replay:
            extra["replay"] = replay
        rc = run_harness(P.HARNESS, rundir, seed, n, tier, extra, timeout=P.TIMEOUT.get(tier, 3000) if hasattr(P, "TIMEOUT") else 3000)
        if rc != 0 or not os.path.exists(cases_path):
            unchecked.append(f"harness run failed rc={rc} (see {rundir}/harness.log)")
        else:
            outs = None
            if driver_ok and getattr(P, "USES_DRIVER", True):
                rc2, err = run_driver(cases_path, model_path)
                if rc2 != 0:
                    unchecked.append(f"model driver failed rc={rc2}: {err[-300:]}")
                else:
                    outs = read_jsonl(model_path)
            for case in read_jsonl(cases_path):
                evaluations += 1
                out = None
                if outs is not None:
                    out = next(outs, None)
                    if out is None or out.get("id") != case.get("id"):
                        unchecked.append(f"driver output out of step at case {case.get('id')}")
                        outs = None
                        out = None
                if out is not None:
                    for fam, detail in P.compare(case, out):
                        if fam in getattr(P, "SPEC_FAMILIES", ()):
                            # the model side of this family is proved equal to the property's own
                            # specification, so a disagreement is a failing input of the property
                            key = {"class": "differs-from-proved-spec", "family": fam}
                            kf = match_known(pid, key, known)
                            if kf is not None:
                                knowns.append((kf, {"what": detail}))
                            else:
                                violations.append(({"what": f"{fam}: {detail}", "key": key, "case_id": case.get("id"), "label": case.get("label")}, case))
                        disagreements.append({"family": fam, "detail": detail, "case": case.get("id"), "label": case.get("label")})
                        if len(disagreements) <= 3:
                            _write(os.path.join(replays, f"{pid}-disagreement-{len(disagreements)}.json"),
                                   {"property": pid, "kind": "model-vs-implementation", "family": fam,
                                    "detail": detail, "case": case, "model_output": out})
                for v in P.oracle(case):
                    k = match_known(pid, v.get("key", {}), known)
                    if k is not None:
                        knowns.append((k, v))
                    else:
                        v["case_id"] = case.get("id")
                        v["label"] = case.get("label")
                        violations.append((v, case))
                if P.nontrivial(case):
                    distinct.add(P.distinct_key(case) if hasattr(P, "distinct_key") else case_hash(case.get("model", case.get("in", case))))
                branches[P.branch(case, out) if hasattr(P, "branch") else "-"] += 1
                if len(samples) < 3 and P.nontrivial(case):
                    samples.append(P.sample(case, out))

    # ---- 3. decision
    printed = set()
    for k, v in knowns:
        line = f"KNOWN-FINDING: property={pid} {k.get('what', '')}"
        if line not in printed:
            print(line)
            printed.add(line)
    rc = 0
    nviol = 0
    if violations:
        v, case = violations[0]
        path = os.path.join(replays, f"{pid}-violation.json")
        _write(path, {"property": pid, "kind": "failing-input", "what": v.get("what"), "key": v.get("key"),
                      "count_this_run": len(violations), "seed": seed, "tier": tier, "case": case})
        print(f"VIOLATION property={pid} replay={path}")
        for v2, _ in violations[:5]:
            log("  violation:", v2.get("what"), v2.get("label"))
        rc = 1
        nviol = len(violations)
    elif unchecked or disagreements:
        path = os.path.join(replays, f"{pid}-unchecked.json")
        _write(path, {"property": pid, "kind": "unchecked-obligation",
                      "theorems_or_correspondences_that_no_longer_check": unchecked + [
                          f"correspondence {d['family']}: {d['detail']} (case {d['label']})" for d in disagreements[:20]],
                      "first_disagreeing_case": (os.path.join(replays, f"{pid}-disagreement-1.json") if disagreements else None),
                      "seed": seed, "tier": tier})
        print(f"VIOLATION property={pid} replay={path} no-failing-input-found")
        for u in unchecked[:10]:
            log("  unchecked:", u)
        for d in disagreements[:5]:
            log("  disagreement:", d)
        rc = 1
        nviol = len(unchecked) + len(disagreements)

    # ---- 4. evidence
    fams = list(getattr(P, "CORRESPONDENCES", []))
    bad_fams = {d["family"] for d in disagreements}
    obligations = len(all_thms) + len(fams) + len(getattr(P, "GENERATED_OBLIGATIONS", []))
    discharged = 0
    if ok_build:
        discharged += sum(1 for t in all_thms if t in axioms and all(a in ALLOWED_AXIOMS for a in axioms[t]))
        discharged += len(getattr(P, "GENERATED_OBLIGATIONS", [])) - len(gen_problems)
    if ok_cargo and evaluations:
        discharged += sum(1 for f in fams if f not in bad_fams)
    used_axioms = sorted({a for t in axioms.values() for a in t})
    coverage = {
        "obligations": obligations,
        "discharged": discharged,
        "checker_cmd": "cd /verif/lean && lake build " + " ".join(P.LEAN_MODS) + " && lake env lean <#print axioms for every theorem>"
                       + (" && lake env leanchecker " + " ".join(P.LEAN_MODS) if rechecked else ""),
        "trusted_base": [
            "Lean 4.33.0 kernel",
            "axioms used by these theorems: " + (", ".join(used_axioms) or "none"),
            "correspondence check (harness generators, canonicalisation, tolerances, comparator) ties the hand-written model to /repo",
        ] + list(getattr(P, "TRUSTED", [])),
        "theorems": all_thms,
        "correspondence_families": fams,
        "evaluations": evaluations,
        "distinct_nontrivial": len(distinct),
        "rule": P.RULE,
        "samples": samples,
        "traces_validated_against_impl": evaluations,
        "disagreements_checked": len(disagreements),
        "branches": dict(branches.most_common(40)),
        "unchecked": unchecked[:20],
        "known_findings_reproduced": sorted({k.get("id", k.get("what", "")) for k, _ in knowns}),
        "explanation": getattr(P, "EXPLANATION", ""),
    }
    if hasattr(P, "extra_coverage"):
        coverage.update(P.extra_coverage())
    write_evidence(pid, tier, seed, coverage, time.time() - t0, nviol, list(getattr(P, "ASSUMPTIONS", [])))
    log(f"[{pid}] tier={tier} seed={seed} theorems={len(all_thms)} cases={evaluations} distinct_nontrivial={len(distinct)} "
        f"disagreements={len(disagreements)} violations={len(violations)} known={len(knowns)} unchecked={len(unchecked)} "
        f"wall={time.time()-t0:.1f}s rc={rc}")
    return rc


def _write(path, obj):
    with open(path, "w") as f:
        json.dump(obj, f, indent=1, ensure_ascii=False)
