#!/bin/bash
# try_seed_ns.sh <dir-with-patch.diff> <property> [namespace-dir]: like try_seed.sh, but on COPIES of /repo and /verif bind-mounted over
# the real ones inside a private mount namespace (unshare -m): the real /repo is never touched, so this can run beside other checks.
set -u
dir=$(readlink -f "$1"); prop=$2; ns=${3:-/var/tmp/ns2}
mkdir -p $ns/repo $ns/verif
rsync -a --delete --exclude target /repo/ $ns/repo/
rsync -a --exclude .cache/run --exclude .cache/target-repo-hook --exclude .git /verif/ $ns/verif/
unshare -m sh -c "mount --bind $ns/repo /repo && mount --bind $ns/verif /verif && cd /verif && git -C /repo checkout -q -- . && git -C /repo apply '$dir/patch.diff' && ./check $prop --tier quick 2>&1 | grep -v '^KNOWN\|^gen_' | tail -${4:-6}; git -C /repo checkout -q -- ."
