"""Common machinery of ./check: builds, audit, runs, comparison, known findings, evidence."""
import fcntl
import hashlib
import json
import os
import re
import subprocess
import sys
import time

VERIF = os.path.dirname(os.path.dirname(os.path.abspath(__file__)))
LEAN = os.path.join(VERIF, "lean")
HARNESS = os.path.join(VERIF, "harness")
CACHE = os.path.join(VERIF, ".cache")
TARGET = os.path.join(CACHE, "target-harness")
DRIVER = os.path.join(LEAN, ".lake", "build", "bin", "ctedriver")
HARNESS_BIN = os.path.join(TARGET, "release", "cteverif")
ALLOWED_AXIOMS = {"propext", "Classical.choice", "Quot.sound"}
FORBIDDEN = re.compile(
    r"\b(sorry|admit|native_decide|bv_decide|implemented_by|unsafe)\b|^\s*axiom\s|maxHeartbeats\s+0\b")
ENV = dict(os.environ, CARGO_NET_OFFLINE="true", CARGO_TARGET_DIR=TARGET)


def log(*a):
    print(*a, file=sys.stderr, flush=True)


class Lock:
    """serialise builds (lake / cargo) between concurrently running checks"""

    def __init__(self, name):
        os.makedirs(CACHE, exist_ok=True)
        self.path = os.path.join(CACHE, name + ".lock")

    def __enter__(self):
        self.f = open(self.path, "w")
        fcntl.flock(self.f, fcntl.LOCK_EX)
        return self

    def __exit__(self, *a):
        fcntl.flock(self.f, fcntl.LOCK_UN)
        self.f.close()


def run(cmd, cwd=None, env=None, timeout=None, stdin=None, stdout=None):
    t0 = time.time()
    p = subprocess.run(cmd, cwd=cwd, env=env or ENV, timeout=timeout, stdin=stdin,
                       stdout=stdout if stdout is not None else subprocess.PIPE,
                       stderr=subprocess.STDOUT if stdout is None else subprocess.PIPE, text=stdout is None)
    return p, time.time() - t0


# --------------------------------------------------------------------------- Lean side

def strip_comments(src):
    """remove /- -/ (nested) and -- comments, keeping line structure"""
    out, i, depth, n = [], 0, 0, len(src)
    while i < n:
        if src.startswith("/-", i):
            depth += 1
            i += 2
        elif depth and src.startswith("-/", i):
            depth -= 1
            i += 2
        elif depth:
            if src[i] == "\n":
                out.append("\n")
            i += 1
        elif src.startswith("--", i):
            while i < n and src[i] != "\n":
                i += 1
        else:
            out.append(src[i])
            i += 1
    return "".join(out)


def lean_module_path(mod):
    return os.path.join(LEAN, *mod.split(".")) + ".lean"


def theorems_of(mod):
    """(namespace-qualified theorem names, in order) declared in a module"""
    src = strip_comments(open(lean_module_path(mod)).read())
    ns, names = [], []
    for line in src.splitlines():
        m = re.match(r"\s*namespace\s+(\S+)", line)
        if m:
            ns.append(m.group(1))
            continue
        m = re.match(r"\s*end\s+(\S+)", line)
        if m and ns and ns[-1] == m.group(1):
            ns.pop()
            continue
        m = re.match(r"\s*(?:@\[[^\]]*\]\s*)?(?:private\s+|protected\s+)?theorem\s+(\S+)", line)
        if m:
            names.append(".".join(ns + [m.group(1)]))
    return names


def imports_closure(mods):
    """project-local modules reachable from `mods` through `import Cte.…`"""
    seen, todo = [], list(mods)
    while todo:
        m = todo.pop()
        if m in seen or not os.path.exists(lean_module_path(m)):
            continue
        seen.append(m)
        for line in open(lean_module_path(m)):
            mm = re.match(r"\s*import\s+(Cte\.\S+)", line)
            if mm:
                todo.append(mm.group(1))
    return seen


def forbidden_tokens(mods):
    hits = []
    for m in imports_closure(mods):
        src = strip_comments(open(lean_module_path(m)).read())
        for ln, line in enumerate(src.splitlines(), 1):
            if FORBIDDEN.search(line):
                hits.append(f"{m}:{ln}: {line.strip()[:80]}")
    return hits


def lake_build(targets):
    """returns (ok, output, failing module → [enclosing theorem names])"""
    with Lock("lake"):
        p, dt = run(["lake", "build"] + targets, cwd=LEAN, timeout=3000)
    out = p.stdout
    failing = {}
    if p.returncode != 0:
        for m in re.finditer(r"error: (\S+?\.lean):(\d+):(\d+):", out):
            path, ln = m.group(1), int(m.group(2))
            full = path if os.path.isabs(path) else os.path.join(LEAN, path)
            failing.setdefault(path, set()).add(enclosing_decl(full, ln))
    return p.returncode == 0, out, {k: sorted(v) for k, v in failing.items()}


def enclosing_decl(path, ln):
    try:
        lines = open(path).read().splitlines()
    except OSError:
        return "?"
    for i in range(min(ln, len(lines)) - 1, -1, -1):
        m = re.match(r"\s*(?:@\[[^\]]*\]\s*)?(?:private\s+|protected\s+)?(theorem|def|example|instance|lemma)\s*(\S*)", lines[i])
        if m:
            return m.group(2) or f"example@{i+1}"
    return "?"


def audit(prop_mods):
    """`#print axioms` for every theorem of the property modules.
    returns (theorems: {name: [axioms]}, problems: [str])"""
    names = []
    for m in prop_mods:
        names += theorems_of(m)
    if not names:
        return {}, ["no theorems found in " + ",".join(prop_mods)]
    os.makedirs(os.path.join(CACHE, "audit"), exist_ok=True)
    tag = hashlib.md5(",".join(prop_mods).encode()).hexdigest()[:8]
    f = os.path.join(CACHE, "audit", f"Audit_{tag}.lean")
    with open(f, "w") as fh:
        for m in prop_mods:
            fh.write(f"import {m}\n")
        for n in names:
            fh.write(f"#print axioms {n}\n")
    p, dt = run(["lake", "env", "lean", f], cwd=LEAN, timeout=1200)
    res, problems = {}, []
    txt = p.stdout
    for m in re.finditer(r"'([^']+)' depends on axioms: \[([^\]]*)\]", txt):
        res[m.group(1)] = [a.strip() for a in m.group(2).replace("\n", " ").split(",") if a.strip()]
    for m in re.finditer(r"'([^']+)' does not depend on any axioms", txt):
        res[m.group(1)] = []
    for n in names:
        if n not in res:
            problems.append(f"{n}: not checked ({'audit failed' if p.returncode else 'missing'})")
        else:
            bad = [a for a in res[n] if a not in ALLOWED_AXIOMS]
            if bad:
                problems.append(f"{n}: depends on {bad}")
    for h in forbidden_tokens(prop_mods):
        problems.append("forbidden token: " + h)
    return res, problems


def leanchecker(prop_mods):
    """thorough tier: the compiled property modules re-checked by Lean's independent checker (replays every declaration of the
    modules through the kernel). returns a list of problems"""
    import shutil
    if shutil.which("leanchecker") is None:
        return ["leanchecker is not on PATH"]
    p, dt = run(["lake", "env", "leanchecker"] + list(prop_mods), cwd=LEAN, timeout=3000)
    if p.returncode != 0:
        return [f"leanchecker rejects {' '.join(prop_mods)}: {(p.stdout or '')[-300:]}"]
    return []


# --------------------------------------------------------------------------- Rust side

def cargo_build():
    with Lock("cargo"):
        lock_src = "/repo/Cargo.lock"
        lock_dst = os.path.join(HARNESS, "Cargo.lock")
        if os.path.exists(lock_src) and not os.path.exists(lock_dst):
            import shutil
            shutil.copy(lock_src, lock_dst)
        p, dt = run(["cargo", "build", "--release", "--offline", "--quiet"], cwd=HARNESS, timeout=3000)
    return p.returncode == 0, p.stdout


def run_harness(prop, outdir, seed, n, tier, extra=None, timeout=3000):
    os.makedirs(outdir, exist_ok=True)
    cmd = [HARNESS_BIN, prop, "--seed", str(seed), "--n", str(n), "--out", outdir, "--tier", tier]
    for k, v in (extra or {}).items():
        cmd += ["--" + k, str(v)]
    with open(os.path.join(outdir, "harness.log"), "w") as lf:
        p = subprocess.run(cmd, stdout=lf, stderr=subprocess.STDOUT, env=ENV, timeout=timeout)
    return p.returncode


def run_driver(cases, out, timeout=3000, jobs=None):
    """pipe the case file through the model driver, dealt round-robin to parallel workers; outputs are
    re-interleaved so that line i of the output answers line i of the input"""
    jobs = jobs or min(16, os.cpu_count() or 4)
    with open(cases, "rb") as f:
        lines = f.readlines()
    if len(lines) < 2 * jobs:
        jobs = 1
    procs = []
    for k in range(jobs):
        chunk = lines[k::jobs]          # round-robin: big real models spread over the workers
        if not chunk:
            continue
        cin, cout = f"{out}.{k}.in", f"{out}.{k}.out"
        with open(cin, "wb") as f:
            f.writelines(chunk)
        procs.append((subprocess.Popen([DRIVER], stdin=open(cin, "rb"), stdout=open(cout, "wb"),
                                       stderr=subprocess.PIPE), cin, cout))
    rc, err = 0, ""
    t_end = time.time() + timeout
    outs = []
    if True:
        for p, cin, cout in procs:
            try:
                _, e = p.communicate(timeout=max(1, t_end - time.time()))
            except subprocess.TimeoutExpired:
                p.kill()
                _, e = p.communicate()
                rc = rc or 124
            if p.returncode:
                rc = rc or p.returncode
                err += e.decode(errors="replace")[-1000:]
            with open(cout, "rb") as f:
                outs.append(f.readlines())
            os.remove(cin)
            os.remove(cout)
    with open(out, "wb") as fo:
        i = 0
        while any(i < len(o) for o in outs):
            for o in outs:
                if i < len(o):
                    fo.write(o[i])
            i += 1
    return rc, err[-2000:]


def read_jsonl(path):
    with open(path) as f:
        for line in f:
            line = line.strip()
            if line:
                yield json.loads(line)


# --------------------------------------------------------------------------- numbers

def close_r2(impl, model, unrounded=None, tie_window=2e-4):
    """values the code passes through fround2: equal to two decimals; a difference of one
    hundredth is accepted only next to a rounding tie of the exact value"""
    if impl is None or model is None:
        return impl is None and model is None
    d = abs(impl - model)
    if d < 0.005:
        return True
    if d < 0.0150001 and unrounded is not None:
        frac = (abs(unrounded) * 100) % 1.0
        return abs(frac - 0.5) <= tie_window * 100
    return False


def close_rel(impl, model, rel=1e-3, ab=0.0):
    if impl is None or model is None:
        return impl is None and model is None
    return abs(impl - model) <= ab + rel * max(1.0, abs(model))


# --------------------------------------------------------------------------- findings, evidence

def load_known():
    p = os.path.join(VERIF, "known_findings.json")
    if not os.path.exists(p):
        return []
    return json.load(open(p)).get("findings", [])


def match_known(prop, key, known):
    """a violation is known iff an entry with status 'finding' for this property has a `match`
    dict all of whose items equal the violation's key"""
    for e in known:
        if e.get("property") != prop or e.get("status") != "finding":
            continue
        mt = e.get("match", {})
        if mt and all(key.get(k) == v for k, v in mt.items()):
            return e
    return None


def write_evidence(prop, tier, seed, coverage, wall_s, violations, assumptions):
    os.makedirs(os.path.join(VERIF, "evidence"), exist_ok=True)
    ev = {
        "property_id": prop, "tier": tier, "seed": seed, "level": "proof",
        "coverage": coverage, "assumptions": assumptions, "wall_s": round(wall_s, 2),
        "violations": violations,
    }
    tmp = os.path.join(VERIF, "evidence", prop + ".json.tmp")
    with open(tmp, "w") as f:
        json.dump(ev, f, indent=1, ensure_ascii=False)
    os.replace(tmp, os.path.join(VERIF, "evidence", prop + ".json"))


def case_hash(obj):
    return hashlib.md5(json.dumps(obj, sort_keys=True).encode()).hexdigest()
