"""C11 — reference area, volumes, compactness and envelope membership are consistent."""
import collections
from spec import M, finite, r2
import indcommon as ic

PROP = "C11"
LEAN_MODS = ["Cte.Props.C11", "Cte.Props.C11Classes"]
HARNESS = "c11"
N = {"quick": 200, "thorough": 5000}
CORRESPONDENCES = ["global props: a_ref, vol_env_gross, vol_env_net, vol_env_inh_net, compactness, global_ventilation_rate (both implementations)",
                   "per wall: is_tenv, tilt class, orientation class, multiplier, gross area",
                   "classifiers at exact f32 angles around every threshold, periods -2..2"]
RULE = ("real and generated models (spaces inside/outside, three kinds, multipliers, several floors per space, ceilings from either "
        "side) each with a scaled twin (s in {0.25,0.5,1.5,2,3,4}); plus every f32 in [-720,1080] for Tilt::from and "
        "Orientation::from and every f32 in [0,360] for parser-vs-model (exhaustive scan on the implementation); "
        "non-trivial = reference area > 0; distinct = distinct model JSON")
ASSUMPTIONS = ["where the angle reduced modulo 360 is not representable in f32 (negative angles within one ulp of a threshold) the class "
               "of the f32-rounded reduced angle is accepted as well: the property is about angles, not about the last bit",
               "scaled values are compared after the code's rounding to two decimals (absolute slack 0.006*(1+s^k))"]
TRUSTED = ["modelled: Model.globalProps, Space.area/heightNet, Wall.isTenv, tiltClass/orientClass/normalize"]
_stats = collections.Counter()
_scan = {}


def compare(case, out):
    res = []
    if case.get("op") == "classify":
        import struct
        import math
        from spec import tiltc, orientc
        TC = {"BOTTOM": 0, "TOP": 1, "SIDE": 2}
        OC = {"N": 0, "NE": 1, "E": 2, "SE": 3, "S": 4, "SW": 5, "W": 6, "NW": 7}
        mp = {p["bits"]: p for p in out.get("points", []) if p}
        for p in case["points"]:
            q = mp.get(p["bits"])
            _stats["threshold_points"] += 1
            if q is None or q["tilt"] != p["tilt"] or q["orient"] != p["orient"]:
                # where the reduced angle is not an f32 the implementation classifies its f32 rounding:
                # accepted when the class of that rounded value is what the implementation reports
                x = struct.unpack("<f", struct.pack("<I", p["bits"]))[0]
                red = x - math.floor(x / 360.0) * 360.0
                red32 = struct.unpack("<f", struct.pack("<f", red))[0]
                red32 = 0.0 if red32 >= 360.0 else red32
                if q is not None and red32 != red and TC[tiltc(red32)] == p["tilt"] and OC[orientc(red32)] == p["orient"]:
                    _stats["threshold_points_f32_reduction"] += 1
                    continue
                res.append((CORRESPONDENCES[2], f"bits {p['bits']}: impl tilt={p['tilt']} orient={p['orient']} model={q}"))
        return res[:5]
    if case.get("op") != "indicators" or not ic.ok_case(case):
        return res
    if "base" not in out:
        return [(CORRESPONDENCES[0], f"model gave {str(out)[:200]}")]
    ind = ic.impl_ind(case)
    g = ind["props"]["global"]
    for k in ("a_ref", "vol_env_gross", "vol_env_net", "vol_env_inh_net"):
        if not ic.r2_match(g[k], ic.get(out, ["global", k])):
            res.append((CORRESPONDENCES[0], f"{k}: impl={g[k]} model={ic.get(out, ['global', k])}"))
    if not ic.rel_match(g["compactness"], ic.get(out, ["global", "compactness"]), rel=1e-3, ab=1e-3):
        res.append((CORRESPONDENCES[0], f"compactness: impl={g['compactness']} model={ic.get(out, ['global', 'compactness'])[0]}"))
    for k_i, k_m, impl in (("global_ventilation_rate", "ventilation", g["global_ventilation_rate"]),
                           ("Model::global_ventilation_rate", "ventilation_u", case["impl"].get("vent_u"))):
        vals = ic.get(out, ["global", k_m])
        if any(v in ("inf", "nan") for v in vals):
            if finite(impl) and vals[0] in ("inf", "nan"):
                res.append((CORRESPONDENCES[0], f"{k_i}: impl={impl} model={vals[0]}"))
        elif not ic.rel_match(impl, vals, rel=2e-3, ab=1e-4):
            res.append((CORRESPONDENCES[0], f"{k_i}: impl={impl} model={vals[0]}"))
    pw = ind["props"]["walls"]
    for wid, w in out["base"]["walls"].items():
        i = pw.get(wid)
        if i is None:
            continue
        if i["is_tenv"] != w["is_tenv"] or i["tilt"] != w["tilt"] or i["orientation"] != w["orient"].replace("HZ", "HZ"):
            res.append((CORRESPONDENCES[1], f"wall {wid}: impl tenv={i['is_tenv']} {i['tilt']} {i['orientation']} model tenv={w['is_tenv']} {w['tilt']} {w['orient']}"))
        if not ic.rel_match(i["area_gross"], ic.get(out, ["walls", wid, "area_gross"]), rel=1e-4, ab=1e-3) or \
           not ic.rel_match(i["multiplier"], ic.get(out, ["walls", wid, "multiplier"]), rel=1e-6, ab=1e-6):
            res.append((CORRESPONDENCES[1], f"wall {wid}: gross area / multiplier differ"))
    return res[:6]


def oracle(case):
    v = []
    if case.get("label") == "classifier-scan":
        sc = case["impl"]["scan"]
        _scan.update({k: sc[k]["n"] for k in sc})
        for k in ("tilt", "orientation"):
            if sc[k]["mismatches"]:
                v.append({"what": f"{k} class does not depend only on the angle modulo 360: {sc[k]['mismatches'][0]}", "key": {"class": "classifier-mod-360", "which": k}})
        if sc["parser_vs_model"]["mismatches"]:
            v.append({"what": f"parser and model classify a tilt differently: {sc['parser_vs_model']['mismatches'][0]}", "key": {"class": "parser-vs-model"}})
        return v
    if case.get("op") != "indicators" or not ic.ok_case(case):
        return v
    ind = ic.impl_ind(case)
    m = M(case["model"])
    if len({s["id"] for s in m.spaces_l}) != len(m.spaces_l) or len({w["id"] for w in m.walls}) != len(m.walls):
        return v
    g = ind["props"]["global"]
    aref = r2(sum(m.sparea(s) * m.mult(s) for s in m.spaces_l if m.inside(s) and m.kind(s) != "UNINHABITED"))
    vg = r2(sum(m.sparea(s) * s["height"] * m.mult(s) for s in m.spaces_l if m.inside(s)))
    vn = r2(sum(m.sparea(s) * m.hnet(s) * m.mult(s) for s in m.spaces_l if m.inside(s)))
    for lab, x, y in (("a_ref", aref, g["a_ref"]), ("vol_env_gross", vg, g["vol_env_gross"]), ("vol_env_net", vn, g["vol_env_net"])):
        if not finite(y) or abs(x - y) > 1e-4 * abs(x) + 0.0101:
            v.append({"what": f"{lab}={y}, definition gives {x}", "key": {"class": "global-" + lab}})
    exposed = sum(m.warea(w) * (m.mult(m.space(w["space"])) if m.space(w["space"]) else 1.0) for w in m.walls
                  if m.is_tenv(w) and w["bounds"] in ("EXTERIOR", "GROUND"))
    comp = 0.0 if exposed == 0 else vg / exposed
    if not finite(g["compactness"]) or abs(comp - g["compactness"]) > 1e-3 * max(1.0, abs(comp)):
        v.append({"what": f"compactness={g['compactness']}, V/A gives {comp}", "key": {"class": "compactness"}})
    # the ventilation rate reported with the indicators is the one used inside the U-value calculation
    rep, used = g["global_ventilation_rate"], case["impl"].get("vent_u")
    if m.meta.get("global_ventilation_l_s") is not None:
        same = (not finite(rep) and not finite(used)) or (finite(rep) and finite(used) and abs(rep - used) <= 2e-3 * max(1.0, abs(used)))
        if not same:
            v.append({"what": f"ventilation rate reported with the indicators ({rep} 1/h) is not the one used in the U-value calculation ({used} 1/h)",
                      "key": {"class": "ventilation-consistent"}})
    for w in m.walls:
        if ind["props"]["walls"][w["id"]]["is_tenv"] != m.is_tenv(w):
            v.append({"what": f"wall {w.get('name')} ({w['bounds']}): is_tenv={not m.is_tenv(w)}, the envelope rule gives {m.is_tenv(w)}",
                      "key": {"class": "tenv-rule", "bounds": w["bounds"]}})
            break
    sc = case.get("scaling")
    if sc and sc["before"] and sc["after"]:
        s = sc["s"]
        for k, p in (("a_ref", 2), ("vol_env_gross", 3), ("exposed", 2)):
            b, a = sc["before"][k], sc["after"][k]
            if finite(b) and finite(a) and abs(a - b * s ** p) > 2e-4 * abs(a) + 0.006 * (1 + s ** p):
                v.append({"what": f"scaling all lengths by {s}: {k} went from {b} to {a}, expected x{s ** p}", "key": {"class": "scaling", "what": k}})
        b, a = sc["before"]["compactness"], sc["after"]["compactness"]
        # V/A with V rounded to the centimetre-cube and A a sum of areas rounded to the centimetre-square, before and after: the
        # relative error of each rounding is 0.005 / V resp. (0.005 per element) / A — visible once a building is scaled down
        va, vb = sc["after"].get("vol_env_net") or 0.0, sc["before"].get("vol_env_net") or 0.0
        ea, eb = sc["after"].get("exposed") or 0.0, sc["before"].get("exposed") or 0.0
        rel = 2e-3 + (0.0051 * (1 / va + 1 / vb) + 0.03 * (1 / ea + 1 / eb) if min(va, vb, ea, eb) > 0 else 1.0)
        if finite(b) and finite(a) and b > 0 and abs(a - b * s) > rel * max(1.0, abs(a)):
            v.append({"what": f"scaling all lengths by {s}: compactness went from {b} to {a}, expected x{s}", "key": {"class": "scaling", "what": "compactness"}})
        _stats["scaled_pairs"] += 1
    return v[:3]


def nontrivial(case):
    return case.get("op") == "indicators" and ic.ok_case(case) and finite(ic.impl_ind(case)["area_ref"]) and ic.impl_ind(case)["area_ref"] > 0


def distinct_key(case):
    import framework
    return framework.case_hash(case.get("model", case.get("label")))


def branch(case, out):
    return case.get("op", "?")


def sample(case, out):
    g = ic.impl_ind(case)["props"]["global"]
    return {"label": case["label"], "impl_global": g, "model_global": (out or {}).get("base", {}).get("global"), "scaling": case.get("scaling")}


def extra_coverage():
    return {"f32_angles_scanned": _scan, "exhaustive": bool(_scan), "threshold_points_sent_to_model": _stats["threshold_points"],
            "threshold_points_where_f32_reduction_rounds": _stats["threshold_points_f32_reduction"],
            "scaled_pairs": _stats["scaled_pairs"]}
