"""C16 — purging removes exactly the unreachable items and changes no indicator."""
import math

PROP = "C16"
LEAN_MODS = ["Cte.Props.C16", "Cte.Props.C16Indicators"]
HARNESS = "c16"
N = {"quick": 500, "thorough": 20000}
KINDS = ["spaces", "walls", "windows", "shades", "thermal_bridges", "wallcons", "wincons", "materials",
         "glasses", "frames", "loads", "thermostats", "year", "week", "day"]
CORRESPONDENCES = ["ids kept per collection, in order (15 collections)", "idempotence flag"]
RULE = ("models: shipped files + converted projects (+ legacy files in thorough) + generated models with unused "
        "items of every kind inserted at random positions and shared constructions/schedules; non-trivial = purge "
        "removes at least one item; distinct = distinct model JSON")
ASSUMPTIONS = ["indicators before/after are compared on the implementation with the REL tolerance; K may move by "
               "sum(|psi|)*2^-23 when near-zero bridges are removed"]
TRUSTED = ["modelled: Cte/Model/Purge.lean (hand-written, the ten retain steps in the code's order)"]


def _spec(m):
    """statement-level reachability, independent of the order of the code's steps"""
    walls = m.get("walls", [])
    windows = m.get("windows", [])
    cons = m.get("cons", {})
    sch = m.get("schedules", {})
    used_spaces = set()
    for w in walls:
        used_spaces.add(w["space"])
        if w.get("next_to") is not None:
            used_spaces.add(w["next_to"])
    spaces = [s for s in m.get("spaces", []) if s["id"] in used_spaces]
    eps = 2.0 ** -23
    tbs = [t for t in m.get("thermal_bridges", []) if abs(t.get("l", 0.0)) > eps]
    wc_used = {w["cons"] for w in walls}
    wallcons = [c for c in cons.get("wallcons", []) if c["id"] in wc_used]
    wn_used = {w["cons"] for w in windows}
    wincons = [c for c in cons.get("wincons", []) if c["id"] in wn_used]
    mat_used = {l["material"] for c in wallcons for l in c.get("layers", [])}
    materials = [x for x in cons.get("materials", []) if x["id"] in mat_used]
    glasses = [x for x in cons.get("glasses", []) if x["id"] in {c["glass"] for c in wincons}]
    frames = [x for x in cons.get("frames", []) if x["id"] in {c["frame"] for c in wincons}]
    loads = [x for x in m.get("loads", []) if x["id"] in {s.get("loads") for s in spaces if s.get("loads")}]
    therm = [x for x in m.get("thermostats", []) if x["id"] in {s.get("thermostat") for s in spaces if s.get("thermostat")}]
    yused = set()
    for l in loads:
        for k in ("people_schedule", "equipment_schedule", "lighting_schedule"):
            if l.get(k):
                yused.add(l[k])
    for t in therm:
        for k in ("temp_max", "temp_min"):
            if t.get(k):
                yused.add(t[k])
    year = [x for x in sch.get("year", []) if x["id"] in yused]
    wused = {e[0] for y in year for e in y.get("values", [])}
    week = [x for x in sch.get("week", []) if x["id"] in wused]
    dused = {e[0] for w in week for e in w.get("values", [])}
    day = [x for x in sch.get("day", []) if x["id"] in dused]
    ids = lambda l: [x["id"] for x in l]
    return {"spaces": ids(spaces), "walls": ids(walls), "windows": ids(windows), "shades": ids(m.get("shades", [])),
            "thermal_bridges": ids(tbs), "wallcons": ids(wallcons), "wincons": ids(wincons),
            "materials": ids(materials), "glasses": ids(glasses), "frames": ids(frames), "loads": ids(loads),
            "thermostats": ids(therm), "year": ids(year), "week": ids(week), "day": ids(day)}


def compare(case, out):
    res = []
    if "spaces" not in out:
        return [(CORRESPONDENCES[0], f"model gave {out}")]
    for k in KINDS:
        if case["impl"]["ids"][k] != out[k]:
            res.append((CORRESPONDENCES[0], f"{k}: impl keeps {len(case['impl']['ids'][k])}, model keeps {len(out[k])}"))
    if case["impl"]["idempotent"] != out["idempotent"]:
        res.append((CORRESPONDENCES[1], f"impl {case['impl']['idempotent']} model {out['idempotent']}"))
    return res


def _num(x):
    return isinstance(x, (int, float)) and math.isfinite(x)


def oracle(case):
    v = []
    spec = _spec(case["model"])
    impl = case["impl"]["ids"]
    for k in KINDS:
        if impl[k] != spec[k]:
            kept_wrong = [i for i in impl[k] if i not in spec[k]]
            removed_wrong = [i for i in spec[k] if i not in impl[k]]
            what = "order changed" if not kept_wrong and not removed_wrong else \
                f"wrongly kept {len(kept_wrong)}, wrongly removed {len(removed_wrong)}"
            v.append({"what": f"purge: {k}: {what}", "key": {"class": "purge-exact", "kind": k}})
    if not case["impl"]["idempotent"]:
        v.append({"what": "purging twice differs from purging once", "key": {"class": "idempotent"}})
    if not case["impl"]["kept_identical"]:
        v.append({"what": "an item that was kept was modified", "key": {"class": "kept-modified"}})
    before = {(w[0], w[1]) for w in case["impl"]["warnings_before"]}
    after = {(w[0], w[1]) for w in case["impl"]["warnings_after"]}
    if not after <= before:
        v.append({"what": f"purge introduced broken links {sorted(after - before)[:3]}", "key": {"class": "new-broken-link"}})
    a, b = case["impl"]["ind_before"], case["impl"]["ind_after"]
    if ("panic" in a) != ("panic" in b):
        v.append({"what": f"indicator computation outcome differs before/after purge: {a if 'panic' in a else b}",
                  "key": {"class": "indicator-outcome"}})
    elif "panic" not in a:
        for k in a:
            x, y = a[k], b[k]
            if x is None or y is None or not _num(x) or not _num(y):
                if x != y and not (not _num(x) and not _num(y)):
                    v.append({"what": f"indicator {k} changed by purge: {x} -> {y}", "key": {"class": "indicator", "name": k}})
                continue
            if abs(x - y) > 1e-3 * max(1.0, abs(x)):
                v.append({"what": f"indicator {k} changed by purge: {x} -> {y}", "key": {"class": "indicator", "name": k}})
    return v


def _removed(case):
    m = case["model"]
    cons = m.get("cons", {})
    sch = m.get("schedules", {})
    tot = sum(len(m.get(k, [])) for k in ("spaces", "thermal_bridges", "loads", "thermostats")) + \
        sum(len(cons.get(k, [])) for k in ("wallcons", "wincons", "materials", "glasses", "frames")) + \
        sum(len(sch.get(k, [])) for k in ("year", "week", "day"))
    kept = sum(len(case["impl"]["ids"][k]) for k in KINDS if k not in ("walls", "windows", "shades"))
    return tot - kept


def nontrivial(case):
    return _removed(case) > 0


def branch(case, out):
    spec = _spec(case["model"])
    m = case["model"]
    cons = m.get("cons", {})
    sch = m.get("schedules", {})
    src = {"spaces": m.get("spaces", []), "thermal_bridges": m.get("thermal_bridges", []), "loads": m.get("loads", []),
           "thermostats": m.get("thermostats", []), "wallcons": cons.get("wallcons", []), "wincons": cons.get("wincons", []),
           "materials": cons.get("materials", []), "glasses": cons.get("glasses", []), "frames": cons.get("frames", []),
           "year": sch.get("year", []), "week": sch.get("week", []), "day": sch.get("day", [])}
    ks = [k for k in src if len(src[k]) != len(spec[k])]
    return "removes:" + (",".join(ks) if ks else "nothing")


def sample(case, out):
    return {"label": case["label"], "removed_items": _removed(case),
            "kept": {k: len(case["impl"]["ids"][k]) for k in KINDS},
            "ind_before": case["impl"]["ind_before"], "ind_after": case["impl"]["ind_after"]}
