"""C10 — q_sol;jul follows the DB-HE solar-control formula."""
import collections
from spec import M, finite
import indcommon as ic
import gen_common

PROP = "C10"
LEAN_MODS = ["Cte.Props.C10", "Cte.Props.C10Mono"]
HARNESS = "ind"
N = {"quick": 250, "thorough": 6000}
CORRESPONDENCES = ["q_soljul_data: q_soljul, Q_soljul, a_wp, four means, per-orientation detail (gains, a, irradiance, three means)"]
GENERATED_OBLIGATIONS = ["Cte/Gen/MonthlyRad.lean regenerated from bemodel::climatedata::MONTHLYRADDATA (qsol_table_total, qsol_table_nonneg, table_keys_nodup re-checked)"]
RULE = ("real and generated models over the 32 climate zones (windows in all orientation classes incl. skylights, overrides on "
        "random subsets, missing constructions, multipliers, models without windows in scope); non-trivial = at least one "
        "window in scope; distinct = distinct model JSON")
ASSUMPTIONS = ["computed obstruction factors are taken from the implementation (they are C12's object)",
               "relative tolerance 1e-3; tie-affected cases fall back on the implementation-vs-definition oracle"]
TRUSTED = ["modelled: qSolJul, qTerms in Cte/Model/Energy.lean; Cte/Model/RadTable.lean over the generated table",
           "translator: harness `dump` + tools/gen_tables.py (table contents dumped from the running statics)"]
_stats = collections.Counter()
MEANS = ("irradiance_mean", "fshobst_mean", "gglshwi_mean", "f_f_mean")


def generate(rundir, tier):
    return gen_common.regenerate_tables()


def compare(case, out):
    if not ic.ok_case(case):
        return []
    if "base" not in out:
        return [(CORRESPONDENCES[0], f"model gave {str(out)[:200]}")]
    Q = ic.impl_ind(case)["q_soljul_data"]
    bad = []

    def chk(name, impl, path):
        vals = ic.get(out, ["qsoljul"] + path)
        if not ic.rel_match(impl, vals, rel=1e-3, ab=1e-3):
            bad.append(f"{name}: impl={impl} model={vals[0]}")

    for k in ("q_soljul", "Q_soljul", "a_wp") + MEANS:
        chk(k, Q[k], [k])
    md = out["base"]["qsoljul"]["detail"]
    if set(md) != set(Q["detail"]):
        bad.append(f"detail orientations: impl={sorted(Q['detail'])} model={sorted(md)}")
    else:
        for o in md:
            for k in ("gains", "a", "irradiance", "f_f_mean", "gglshwi_mean", "fshobst_mean"):
                chk(f"detail.{o}.{k}", Q["detail"][o][k], ["detail", o, k])
    if out["base"]["qsoljul"]["missing_rad"]:
        bad.append("model: irradiance missing from the table")
    if bad:
        if ic.elem_flips(case, out):
            _stats["tie_skipped"] += 1
            return []
        return [(CORRESPONDENCES[0], "; ".join(bad[:4]))]
    return []


def oracle(case):
    v = []
    if not ic.ok_case(case):
        return v
    ind = ic.impl_ind(case)
    m = M(case["model"])
    if len({w["id"] for w in m.walls}) != len(m.walls) or len({w["id"] for w in m.windows}) != len(m.windows):
        return v
    Q = ind["q_soljul_data"]
    pw, pc = ind["props"]["windows"], ind["props"]["wincons"]
    walls = {w["id"]: w for w in m.walls}
    q = 0.0
    a = 0.0
    det = collections.defaultdict(float)
    n_scope = 0
    for x in m.windows:
        w = walls.get(x["wall"])
        if w is None or not (m.is_tenv(w) and w["bounds"] in ("EXTERIOR", "GROUND")):
            continue
        n_scope += 1
        px = pw[x["id"]]
        c = pc.get(x["cons"])
        gg, ff = (c["g_glshwi"], c["f_f"]) if c else (0.77, 0.2)
        # the user's factor is read from the model's overrides, the computed one from compute_fshobst() itself: neither through the props
        ov = ((case["model"].get("overrides") or {}).get("windows") or {}).get(x["id"]) or {}
        fs = ov.get("f_shobst")
        direct = case["impl"].get("fshobst_direct")
        if fs is None:
            fs = direct.get(x["id"]) if direct is not None else px.get("f_shobst")
        fs = 1.0 if fs is None else fs
        o = "HZ" if m.tilt(w) != "SIDE" else __import__("spec").orientc(w["geometry"]["azimuth"])
        H = case["radjul"].get(o)
        if H is None:
            v.append({"what": f"no tabulated July irradiation for {o}", "key": {"class": "rad-missing"}})
            continue
        sp = m.space(w["space"])
        mult = m.mult(sp) if sp else 1.0
        g = fs * gg * (1 - ff) * m.winarea(x) * mult * H
        q += g
        a += m.winarea(x) * mult
        det[o] += g
    tol = lambda x: 1e-3 * max(1.0, abs(x)) + 1e-3
    for k in ("q_soljul", "Q_soljul", "a_wp") + MEANS:
        if not finite(Q[k]):
            if n_scope == 0:
                v.append({"what": f"model without window in scope: {k} is not a finite number", "key": {"class": "no-window-not-finite"}})
            elif a > 0 and ind["props"]["global"]["a_ref"] and ind["props"]["global"]["a_ref"] > 0:
                v.append({"what": f"{k} is not a finite number", "key": {"class": "qsol-not-finite"}})
            return v[:2]
    if abs(Q["Q_soljul"] - q) > tol(q):
        v.append({"what": f"Q_soljul={Q['Q_soljul']}, formula gives {q}", "key": {"class": "qsol-value"}})
    aref = ind["props"]["global"]["a_ref"]
    if finite(aref) and aref > 0 and abs(Q["q_soljul"] - q / aref) > tol(q / aref):
        v.append({"what": f"q_soljul={Q['q_soljul']}, Q/A_ref = {q / aref}", "key": {"class": "qsol-per-area"}})
    if abs(Q["a_wp"] - a) > tol(a):
        v.append({"what": f"a_wp={Q['a_wp']}, window area in scope is {a}", "key": {"class": "qsol-area"}})
    ds = Q["detail"]
    if all(finite(d["gains"]) and finite(d["a"]) for d in ds.values()):
        if abs(sum(d["gains"] for d in ds.values()) - Q["Q_soljul"]) > tol(q) or abs(sum(d["a"] for d in ds.values()) - Q["a_wp"]) > tol(a):
            v.append({"what": "per-orientation breakdown does not add up to the totals", "key": {"class": "qsol-breakdown"}})
        for o, d in ds.items():
            if abs(d["gains"] - det.get(o, 0.0)) > tol(det.get(o, 0.0)):
                v.append({"what": f"orientation {o}: gains={d['gains']}, formula gives {det.get(o, 0.0)}", "key": {"class": "qsol-detail"}})
    if a > 0 and finite(Q["gglshwi_mean"]) and not (-1e-6 <= Q["f_f_mean"] <= 1 + 1e-6 or True):
        pass
    return v[:3]


def nontrivial(case):
    return ic.ok_case(case) and finite(ic.impl_ind(case)["q_soljul_data"]["a_wp"]) and ic.impl_ind(case)["q_soljul_data"]["a_wp"] > 0


def branch(case, out):
    if not ic.ok_case(case):
        return case["impl"].get("outcome")
    Q = ic.impl_ind(case)["q_soljul_data"]
    return case["model"].get("meta", {}).get("climate", "?") + ":" + ("none" if not Q["detail"] else "+".join(sorted(Q["detail"])))


def sample(case, out):
    Q = dict(ic.impl_ind(case)["q_soljul_data"])
    return {"label": case["label"], "impl": Q, "model": (out or {}).get("base", {}).get("qsoljul")}


def extra_coverage():
    return {"aggregate_comparisons_skipped_for_rounding_ties": _stats["tie_skipped"]}
