"""C01 — the export tool writes exactly the model JSON to standard output."""
import collections
import os
import subprocess
from framework import CACHE, ENV, Lock

PROP = "C01"
LEAN_MODS = ["Cte.Props.C01", "Cte.Props.C01Extra"]
HARNESS = "c01"
N = {"quick": 0, "thorough": 0}
CORRESPONDENCES = ["hulc2model as a process = Cli.cliMain on the same argument list with the library outcome observed in-process: exit status and "
                   "standard output (exactly the JSON + newline / empty)",
                   "thor FILE -o P [-v]* as a process = Cli.thorMain: exit status, content of P afterwards (model JSON whatever P held before), "
                   "whether anything goes to standard output",
                   "fix_ecdata_from_extra (what --use-extra adds to the converted model) = Extra.wallOverrides / winOverrides / extraNames on the "
                   "same walls, windows, computed values and parsed result files: U overrides by wall id, F_sh;obst overrides by window id, the "
                   "names in `extra`, or the error when the .tbl lacks a partition"]
GENERATED_OBLIGATIONS = ["Cte/Gen/StdoutSites.lean regenerated from the sources of hulc, bemodel, climate, hulc2model (repo_lib_silent re-checked)"]
BINDIR = os.path.join(CACHE, "target-repo", "debug")
HARNESS_ARGS = {"quick": {"bindir": BINDIR}, "thorough": {"bindir": BINDIR}}
RULE = ("the real hulc2model and thor binaries built from /repo, run as processes on the 12 shipped project directories x {default, --use-extra}, "
        "on synthetic projects (generated BDL inside the XML envelope of a shipped project: 6 quick, 40 thorough), on copies holding exactly one of the two result files, on an empty directory, a directory without project and a missing directory; thor -o x {fresh file, existing longer file, existing shorter file} x "
        "{-, -v, -vv}; non-trivial = the library converts the directory; distinct = distinct (directory, flags, binary)")
ASSUMPTIONS = ["'the same model JSON' for thor is read as: equal to the library conversion of the file, and equal to hulc2model's model up to the "
               "`extra`/`overrides` fields only hulc2model adds",
               "a write to fd 1 that is not a print macro in the scanned crates (a dependency, an unsafe write) is visible only to the process runs"]
TRUSTED = ["modelled: Cte/Model/Cli.lean (I/O automaton of cli_main); translator tools/gen_stdout_sites.py (over-approximates reachability, allow-list in the script)"]
_stats = collections.Counter()


def generate(rundir, tier):
    import gen_stdout_sites
    probs, _ = gen_stdout_sites.main()
    # the binaries under test, built from /repo's working tree
    with Lock("cargo-repo"):
        p = subprocess.run(["cargo", "build", "--offline", "--quiet", "-p", "hulc2model", "-p", "bemodel", "--bins"], cwd="/repo",
                           env=dict(ENV, CARGO_TARGET_DIR=os.path.join(CACHE, "target-repo")), stdout=subprocess.PIPE, stderr=subprocess.STDOUT)
    if p.returncode != 0:
        probs.append("the export tools do not build: " + p.stdout.decode(errors="replace")[-300:])
    return probs


def compare(case, out):
    i = case["impl"]
    res = []
    if case.get("op") == "cli" and "spawn_error" not in i:
        _stats["cli_runs_compared_with_automaton"] += 1
        if "status" not in out:
            return [(CORRESPONDENCES[0], f"model gave {str(out)[:120]}")]
        if i["status"] != out["status"]:
            res.append((CORRESPONDENCES[0], f"{case['label']}: exit status {i['status']}, automaton {out['status']}"))
        got = "empty" if i["stdout_len"] == 0 else ("model-json-newline" if i.get("stdout_is_exactly_library_json") else "other")
        if got != out["stdout"]:
            res.append((CORRESPONDENCES[0], f"{case['label']}: standard output is {got}, automaton says {out['stdout']}"))
    elif case.get("op") == "fixextra":
        _stats["fix_extra_runs_compared"] += 1
        fam = CORRESPONDENCES[2]
        if "extra" not in out:
            return [(fam, f"model gave {str(out)[:120]}")]
        if i["outcome"] == "err":
            if out["extra"] is not None:
                res.append((fam, f"{case['label']}: implementation fails ({i['msg'][:60]}), the model lists {len(out['extra'])} names"))
        elif i["outcome"] == "ok":
            if out["extra"] is None:
                res.append((fam, f"{case['label']}: implementation succeeds, the model says a partition is missing from the .tbl"))
            else:
                if i.get("overrides_before", 0) == 0:
                    for key in ("wall_overrides", "win_overrides"):
                        got = sorted((a, round(b, 4)) for a, b in i[key])
                        want = sorted((a, round(b, 4)) for a, b in out[key])
                        if got != want:
                            d = [x for x in got if x not in want][:2] + [x for x in want if x not in got][:2]
                            res.append((fam, f"{case['label']}: {key}: implementation {len(got)}, model {len(want)}; differing entries {d}"))
                if list(i["extra"] or []) != list(out["extra"]):
                    res.append((fam, f"{case['label']}: extra list: implementation {len(i['extra'] or [])} names, model {len(out['extra'])}"))
                _stats["fix_extra_wall_overrides"] += len(i["wall_overrides"])
                _stats["fix_extra_win_overrides"] += len(i["win_overrides"])
    elif case.get("op") == "thor":
        _stats["thor_runs_compared_with_automaton"] += 1
        if "status" not in out:
            return [(CORRESPONDENCES[1], f"model gave {str(out)[:120]}")]
        if i["library_converts"]:
            if i["status"] != out["status"]:
                res.append((CORRESPONDENCES[1], f"{case['label']}: exit status {i['status']}, automaton {out['status']}"))
            if i["file"] != out["file"]:
                res.append((CORRESPONDENCES[1], f"{case['label']}: the -o file holds {i['file']}, automaton says {out['file']}"))
            if i["stdout_nonempty"] != (out["stdout_writes"] > 0):
                res.append((CORRESPONDENCES[1], f"{case['label']}: standard output non-empty = {i['stdout_nonempty']}, automaton writes {out['stdout_writes']}"))
        elif (i["status"] == 0) != (out["status"] == 0):
            res.append((CORRESPONDENCES[1], f"{case['label']}: exit status {i['status']} on a file the library rejects, automaton {out['status']}"))
    return res


def oracle(case):
    v = []
    i = case["impl"]
    if "spawn_error" in i:
        return [{"what": f"cannot run the tool: {i['spawn_error']}", "key": {"class": "spawn"}}]
    if case["kind"] == "fixextra":
        if i.get("outcome") == "panic":
            v.append({"what": f"{case['label']}: the library conversion with result files crashes: {i.get('msg', '')[:80]}", "key": {"class": "fixextra-panic"}})
    elif case["kind"] == "tool-noargs":
        if i["status"] in (0, None) or i["stdout_len"] != 0:
            v.append({"what": f"without arguments the tool exits with {i['status']} and writes {i['stdout_len']} bytes to standard output", "key": {"class": "no-arguments"}})
    elif case["kind"] == "tool":
        _stats["tool_runs"] += 1
        if i["library_converts"]:
            _stats["convertible"] += 1
            if i["status"] != 0:
                v.append({"what": f"{case['label']}: exit status {i['status']} on a directory the library converts", "key": {"class": "status-nonzero"}})
            elif not i["stdout_is_exactly_library_json"]:
                if i["json_documents_on_stdout"] != 1 or (i["bytes_before_json"] or 0) > 0:
                    v.append({"what": f"{case['label']}: standard output is not exactly one JSON document: {i['bytes_before_json']} bytes before it "
                                      f"(starts with {i['stdout_prefix'][:40]!r}), {i['json_documents_on_stdout']} documents",
                              "key": {"class": "stdout-not-only-json", "prefix": i["stdout_prefix"][:8]}})
                elif i["first_document_equals_library_model"] is False:
                    v.append({"what": f"{case['label']}: the JSON on standard output is not the model the library conversion yields for this directory"
                                      f" (extra={case['extra']})", "key": {"class": "model-differs", "extra": case["extra"]}})
                else:
                    v.append({"what": f"{case['label']}: standard output differs from the library JSON + newline", "key": {"class": "stdout-bytes"}})
            if i["first_document_loads_as_model"] is False:
                v.append({"what": f"{case['label']}: the document on standard output does not load as a model", "key": {"class": "not-a-model"}})
        else:
            if i["status"] == 0:
                v.append({"what": f"{case['label']}: exit status 0 although the library reports {i['library_error']}", "key": {"class": "status-zero-on-error"}})
            if i["stdout_len"] != 0 and (i["json_documents_on_stdout"] not in (0, "not-json") or b"{" in str(i["stdout_prefix"]).encode()):
                v.append({"what": f"{case['label']}: JSON written to standard output for a directory without (convertible) project", "key": {"class": "json-on-error"}})
    elif case["kind"] == "thor":
        _stats["thor_runs"] += 1
        if i["library_converts"]:
            if any(s != 0 for s in i["statuses"]) or not all(i["file_written"]):
                v.append({"what": f"{case['label']}: thor -o fails (statuses {i['statuses']})", "key": {"class": "thor-status"}})
            elif i["file_equals_library_json"] is False:
                v.append({"what": f"{case['label']}: the file written by thor -o is not the model JSON of the library conversion", "key": {"class": "thor-file"}})
            elif not i["independent_of_verbosity"]:
                v.append({"what": f"{case['label']}: the -o file depends on -v", "key": {"class": "thor-verbosity"}})
            elif i["same_model_as_hulc2model"] is False:
                v.append({"what": f"{case['label']}: thor and hulc2model write different models for the same project", "key": {"class": "thor-vs-hulc2model"}})
    return v


def nontrivial(case):
    return bool(case["impl"].get("library_converts"))


def distinct_key(case):
    return case["label"]


def branch(case, out):
    i = case["impl"]
    return case["kind"] + "/" + ("converts" if i.get("library_converts") else "no-project")


def sample(case, out):
    return {"label": case["label"], "impl": case["impl"]}


def extra_coverage():
    return dict(_stats)
