"""C08 — K is the area-weighted mean transmittance of the thermal envelope."""
import collections
from spec import M, finite
import indcommon as ic

PROP = "C08"
LEAN_MODS = ["Cte.Props.C08"]
HARNESS = "ind"
N = {"quick": 250, "thorough": 6000}
CORRESPONDENCES = ["K_data: K, summary (a, au, opaques, windows, bridges), five element categories (a, au, u_min, u_max, u_mean), nine bridge kinds",
                   "envelope membership and net area per wall"]
RULE = ("real and generated models (inside/outside spaces, all boundary kinds and tilts, multipliers, U overrides on random "
        "subsets, bridges of every kind incl. negative/zero lengths, windows with and without resolvable construction); "
        "non-trivial = envelope area > 0; distinct = distinct model JSON")
ASSUMPTIONS = ["sums compared with relative tolerance 1e-3; when f32 resolved a rounding tie of an element-level value "
               "differently from exact arithmetic, the aggregate is compared in the three rounding regimes and, failing that, "
               "only the implementation-vs-definition oracle is applied (counted as tie_skipped)"]
TRUSTED = ["modelled: kData, kStep, KElem, Wall.isTenv, Wall.areaNet in Cte/Model/Energy.lean"]
_stats = collections.Counter()
CATS = ("walls", "roofs", "floors", "ground", "windows")
TBK = ("roof", "balcony", "corner", "intermediate_floor", "internal_wall", "ground_floor", "pillar", "window", "generic")


def compare(case, out):
    if not ic.ok_case(case):
        return []
    if "base" not in out:
        return [(CORRESPONDENCES[0], f"model gave {str(out)[:200]}")]
    res = []
    ind = ic.impl_ind(case)
    pw = ind["props"]["walls"]
    for wid, w in out["base"]["walls"].items():
        if wid not in pw:
            continue
        if pw[wid]["is_tenv"] != w["is_tenv"]:
            res.append((CORRESPONDENCES[1], f"wall {wid}: is_tenv impl={pw[wid]['is_tenv']} model={w['is_tenv']}"))
        if not ic.r2_match(pw[wid]["area_net"], ic.get(out, ["walls", wid, "area_net"])):
            res.append((CORRESPONDENCES[1], f"wall {wid}: area_net impl={pw[wid]['area_net']} model={ic.get(out, ['walls', wid, 'area_net'])}"))
        if pw[wid]["tilt"] != w["tilt"] or pw[wid]["bounds"] != w["bounds"]:
            res.append((CORRESPONDENCES[1], f"wall {wid}: class impl={pw[wid]['tilt']} model={w['tilt']}"))
    K = ind["K_data"]
    flips = ic.elem_flips(case, out)
    nfw = any(u is not None and u.get("nf") for wid in out["base"]["walls"] for u in [out["base"]["walls"][wid]["u"]])
    bad = []

    def chk(name, impl, path, opt=False):
        vals = ic.get(out, ["K"] + path)
        if opt and vals[0] is None:
            if impl is not None:
                bad.append(f"{name}: impl={impl} model none")
            return
        if not ic.rel_match(impl, vals):
            bad.append(f"{name}: impl={impl} model={vals[0]}")

    chk("K", K["K"], ["K"])
    for k in ("a", "au", "opaques_a", "opaques_au", "windows_a", "windows_au", "tbs_l", "tbs_psil"):
        chk("summary." + k, K["summary"][k], [k])
    for c in CATS:
        chk(c + ".a", K[c]["a"], [c, "a"])
        chk(c + ".au", K[c]["au"], [c, "au"])
        for k in ("u_max", "u_min", "u_mean"):
            chk(f"{c}.{k}", K[c][k], [c, k], opt=True)
    for t in TBK:
        chk(f"tbs.{t}.l", K["tbs"][t]["l"], ["tbs", t, "l"])
        chk(f"tbs.{t}.psil", K["tbs"][t]["psil"], ["tbs", t, "psil"])
    if bad:
        if nfw:
            _stats["nf_skipped"] += 1
        elif flips:
            _stats["tie_skipped"] += 1
        else:
            res.append((CORRESPONDENCES[0], "; ".join(bad[:4])))
    return res[:6]


def oracle(case):
    """K recomputed from the implementation's own element-level props by the definition"""
    v = []
    if not ic.ok_case(case):
        return v
    ind = ic.impl_ind(case)
    m = M(case["model"])
    pw, pwin = ind["props"]["walls"], ind["props"]["windows"]
    K = ind["K_data"]
    wids = [w["id"] for w in m.walls]
    if len(set(wids)) != len(wids) or len({w["id"] for w in m.windows}) != len(m.windows):
        return v
    a = au = 0.0
    cat = collections.defaultdict(lambda: [0.0, 0.0, []])
    for w in m.walls:
        p = pw[w["id"]]
        want_tenv = m.is_tenv(w)
        if p["is_tenv"] != want_tenv:
            v.append({"what": f"wall {w.get('name')} ({w['bounds']}): is_tenv={p['is_tenv']}, the envelope rule gives {want_tenv}",
                      "key": {"class": "tenv-rule", "bounds": w["bounds"]}})
        if not (want_tenv and w["bounds"] in ("EXTERIOR", "GROUND")):
            continue
        sp = m.space(w["space"])
        mult = m.mult(sp) if sp else 1.0
        # the user's value is read from the model's own overrides, not from the props under test
        ov = (((case["model"].get("overrides") or {}).get("walls") or {}).get(w["id"]) or {}).get("u_value")
        uu = ov if ov is not None else p["u_value"]
        uu = 5.7 if uu is None else uu
        if not finite(uu):
            return v[:3]
        an = m.anet(w)
        if abs(an - p["area_net"]) > 0.0101:
            v.append({"what": f"wall {w.get('name')}: area_net={p['area_net']}, gross minus windows is {an}", "key": {"class": "area-net"}})
        # the element's own net area as the implementation reports it (rounded to the centimetre, checked just above against
        # gross minus windows): summing the unrounded areas instead would differ by up to 0.005 * multiplier per element
        an = p["area_net"]
        a += mult * an
        au += mult * an * uu
        c = "ground" if w["bounds"] == "GROUND" else {"TOP": "roofs", "BOTTOM": "floors", "SIDE": "walls"}[m.tilt(w)]
        cat[c][0] += mult * an
        cat[c][1] += mult * an * uu
        cat[c][2].append(uu)
        for x in m.windows:
            if x["wall"] != w["id"]:
                continue
            px = pwin[x["id"]]
            ux = (((case["model"].get("overrides") or {}).get("windows") or {}).get(x["id"]) or {}).get("u_value")
            ux = px["u_value"] if ux is None else ux
            ux = 5.7 if ux is None else ux
            a += mult * m.winarea(x)
            au += mult * m.winarea(x) * ux
            cat["windows"][0] += mult * m.winarea(x)
            cat["windows"][1] += mult * m.winarea(x) * ux
            cat["windows"][2].append(ux)
    tbs = case["model"].get("thermal_bridges", [])
    psil = sum(t.get("psi", 0.0) * t.get("l", 0.0) for t in tbs if t.get("l", 0.0) >= 0)
    k = 0.0 if a < 0.01 else (au + psil) / a
    tol = lambda x: 1e-3 * max(1.0, abs(x)) + 1e-3
    if K["K"] is None or abs(k - K["K"]) > tol(k):
        v.append({"what": f"K={K['K']}, definition gives {k} (A={a}, AU={au}, psiL={psil})", "key": {"class": "k-value"}})
    s = K["summary"]
    if finite(s["a"]) and finite(s["au"]):
        if abs(s["opaques_a"] + s["windows_a"] - s["a"]) > tol(s["a"]) or \
           abs(s["opaques_au"] + s["windows_au"] + s["tbs_psil"] - s["au"]) > tol(s["au"]) or \
           abs(sum(K[c]["a"] for c in CATS[:4]) - s["opaques_a"]) > tol(s["a"]) or \
           abs(sum(K["tbs"][t]["psil"] for t in TBK) - s["tbs_psil"]) > tol(s["tbs_psil"]) or \
           abs(sum(K["tbs"][t]["l"] for t in TBK) - s["tbs_l"]) > tol(s["tbs_l"]):
            v.append({"what": "K breakdown does not add up to the totals", "key": {"class": "k-breakdown"}})
    for c in CATS:
        e = K[c]
        if abs(e["a"] - cat[c][0]) > tol(cat[c][0]) or abs(e["au"] - cat[c][1]) > tol(cat[c][1]):
            v.append({"what": f"K category {c}: a={e['a']} au={e['au']}, definition gives {cat[c][0]}, {cat[c][1]}", "key": {"class": "k-category", "cat": c}})
        if e["u_mean"] is not None and e["u_min"] is not None and all(x >= 0 for x in cat[c][2]) and cat[c][0] > 0:
            if not (e["u_min"] - 1e-3 <= e["u_mean"] <= e["u_max"] + 1e-3):
                v.append({"what": f"K category {c}: mean {e['u_mean']} outside [{e['u_min']},{e['u_max']}]", "key": {"class": "k-mean-between"}})
    return v[:3]


def nontrivial(case):
    return ic.ok_case(case) and finite(ic.impl_ind(case)["K_data"]["summary"]["a"]) and ic.impl_ind(case)["K_data"]["summary"]["a"] > 0


def branch(case, out):
    if not ic.ok_case(case):
        return case["impl"].get("outcome")
    K = ic.impl_ind(case)["K_data"]
    return "cats:" + ",".join(c for c in CATS if K[c]["a"] and K[c]["a"] > 0)


def sample(case, out):
    K = ic.impl_ind(case)["K_data"]
    return {"label": case["label"], "impl_K": K["K"], "model_K": (out or {}).get("base", {}).get("K", {}).get("K"), "summary": K["summary"]}


def extra_coverage():
    return {"aggregate_comparisons_skipped_for_rounding_ties": _stats["tie_skipped"], "skipped_for_zero_denominators": _stats["nf_skipped"]}
