"""C07 — window U-value and solar factors follow their definitions."""
import collections
from spec import M, r2, finite, first
import indcommon as ic

PROP = "C07"
LEAN_MODS = ["Cte.Props.C07"]
HARNESS = "ind"
N = {"quick": 250, "thorough": 6000}
CORRESPONDENCES = ["window construction props: u_value (Option exactly, value to 2 decimals), g_glwi, g_glshwi, c_100, f_f"]
RULE = ("every window construction of real and generated models (F_f in {0,1,...}, dU in [0,50], optional shading factor, "
        "glazing/frame present, nil or dangling); a case is a model; non-trivial = at least one window construction; "
        "distinct = distinct model JSON")
ASSUMPTIONS = ["values compared to two decimals; rounding ties may go either way in f32 (three regimes)"]
TRUSTED = ["modelled: WinCons.uValue/gGlwi/gGlshwiV, Model.winConsProps in Cte/Model/Energy.lean"]
_stats = collections.Counter()


def compare(case, out):
    if not ic.ok_case(case):
        return []
    if "base" not in out:
        return [(CORRESPONDENCES[0], f"model gave {str(out)[:200]}")]
    res = []
    pc = ic.impl_ind(case)["props"]["wincons"]
    for cid, c in out["base"]["wincons"].items():
        i = pc.get(cid)
        if i is None:
            res.append((CORRESPONDENCES[0], f"wincons {cid} missing in impl"))
            continue
        us = ic.get(out, ["wincons", cid, "u"])
        if us[0] is None:
            if i["u_value"] is not None:
                res.append((CORRESPONDENCES[0], f"wincons {cid}: impl U={i['u_value']} model none"))
        elif not ic.r2_match(i["u_value"], us):
            res.append((CORRESPONDENCES[0], f"wincons {cid}: impl U={i['u_value']} model {us}"))
        for k in ("g_glwi", "g_glshwi", "c_100", "f_f"):
            if not ic.r2_match(i[k], ic.get(out, ["wincons", cid, k])):
                res.append((CORRESPONDENCES[0], f"wincons {cid}: {k} impl={i[k]} model={ic.get(out, ['wincons', cid, k])}"))
        _stats["wincons"] += 1
    return res[:5]


def oracle(case):
    v = []
    if not ic.ok_case(case):
        return v
    m = M(case["model"])
    pc = ic.impl_ind(case)["props"]["wincons"]
    ids = [c["id"] for c in m.wincons_l]
    for c in m.wincons_l:
        if ids.count(c["id"]) > 1:
            continue
        i = pc[c["id"]]
        g = first(m.glasses_l, lambda x: x["id"] == c["glass"])
        f = first(m.frames_l, lambda x: x["id"] == c["frame"])
        if g is None or f is None:
            _stats["unresolved"] += 1
            if i["u_value"] is not None:
                v.append({"what": f"window construction {c.get('name')} has U={i['u_value']} although glazing or frame is missing",
                          "key": {"class": "winu-should-be-none"}})
        else:
            k = 1 + c["delta_u"] / 100
            u = k * (f["u_value"] * c["f_f"] + g["u_value"] * (1 - c["f_f"]))
            if i["u_value"] is None or abs(i["u_value"] - r2(u)) > 0.0101:
                v.append({"what": f"window construction {c.get('name')}: U={i['u_value']}, definition gives {r2(u)}",
                          "key": {"class": "winu-value"}})
            lo, hi = k * min(f["u_value"], g["u_value"]), k * max(f["u_value"], g["u_value"])
            if 0 <= c["f_f"] <= 1 and i["u_value"] is not None and not (lo - 0.0051 <= i["u_value"] <= hi + 0.0051):
                v.append({"what": f"window construction {c.get('name')}: U={i['u_value']} outside [{lo},{hi}]", "key": {"class": "winu-between"}})
        gw = r2(g["g_gln"] * 0.9) if g is not None else 0.77
        if abs(i["g_glwi"] - gw) > 0.0101:
            v.append({"what": f"window construction {c.get('name')}: g_glwi={i['g_glwi']}, definition gives {gw}", "key": {"class": "g_glwi"}})
        gs = r2(c["g_glshwi"]) if c.get("g_glshwi") is not None else None
        if gs is not None:
            if abs(i["g_glshwi"] - gs) > 0.0101:
                v.append({"what": f"window construction {c.get('name')}: g_glshwi={i['g_glshwi']} but the user value is {gs}", "key": {"class": "g_glshwi-user"}})
        elif abs(i["g_glshwi"] - i["g_glwi"]) > 1e-6:
            v.append({"what": f"window construction {c.get('name')}: g_glshwi={i['g_glshwi']} differs from the unshaded factor {i['g_glwi']}", "key": {"class": "g_glshwi-fallback"}})
    v = v[:3]
    # "the documented defaults are what downstream indicators use": when a window in the scope of K / q_sol;jul has a construction
    # without U-value (or none at all), the K and q_sol;jul figures must be the ones their definitions give with 5.7 and 0.77
    cons_without_u = {c["id"] for c in m.wincons_l if pc.get(c["id"], {}).get("u_value") is None}
    known = {c["id"] for c in m.wincons_l}
    if any(w.get("cons") in cons_without_u or w.get("cons") not in known for w in case["model"].get("windows", [])):
        _stats["models_with_defaulted_windows"] += 1
        import c08
        import c10
        for x in c08.oracle(case):
            if x["key"].get("class") in ("k-value", "k-category") and x["key"].get("cat", "windows") == "windows":
                v.append({"what": "a window without U-value is in the model: " + x["what"], "key": dict(x["key"], downstream="K")})
                break
        for x in c10.oracle(case):
            if x["key"].get("class", "").startswith("qsol"):
                v.append({"what": "a window without construction data is in the model: " + x["what"], "key": dict(x["key"], downstream="q_soljul")})
                break
    return v[:4]


def nontrivial(case):
    return ic.ok_case(case) and len(case["model"].get("cons", {}).get("wincons", [])) > 0


def branch(case, out):
    return case["impl"].get("outcome", "?")


def sample(case, out):
    pc = ic.impl_ind(case)["props"]["wincons"]
    k = next(iter(pc), None)
    return {"label": case["label"], "wincons": len(pc), "first": {"impl": pc.get(k), "model": (out or {}).get("base", {}).get("wincons", {}).get(k)}}


def extra_coverage():
    return {"window_constructions_compared": _stats["wincons"], "with_missing_glazing_or_frame": _stats["unresolved"]}
