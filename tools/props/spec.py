"""Statement-level recomputation of the indicator formulas in f64 (independent of the Lean model):
the search oracle of C06–C11.  Dispatch follows the standards as the properties state them."""
import math


def r2(x):
    return math.floor(abs(x) * 100 + 0.5) / 100 * (1 if x >= 0 else -1)


def r3(x):
    return math.floor(abs(x) * 1000 + 0.5) / 1000 * (1 if x >= 0 else -1)


def norm(v, s, e):
    w = e - s
    o = v - s
    return (o - math.floor(o / w) * w) + s


def tiltc(t):
    t = norm(t, 0, 360)
    return 'TOP' if t <= 60 else 'SIDE' if t < 120 else 'BOTTOM' if t < 240 else 'SIDE' if t < 300 else 'TOP'


def orientc(a):
    a = norm(a, 0, 360)
    for lim, n in ((18, 'S'), (69, 'SE'), (120, 'E'), (157.5, 'NE'), (202.5, 'N'), (240, 'NW'), (291, 'W'), (342, 'SW')):
        if a < lim:
            return n
    return 'S'


def area(p):
    n = len(p)
    if n < 2:
        return 0.0
    return abs(0.5 * sum(p[i][0] * p[(i + 1) % n][1] - p[i][1] * p[(i + 1) % n][0] for i in range(n)))


def perim(p):
    n = len(p)
    if n < 2:
        return 0.0
    return sum(math.dist(p[i], p[(i + 1) % n]) for i in range(n))


RSI = {'TOP': 0.10, 'SIDE': 0.13, 'BOTTOM': 0.17}
RSE = 0.04
LG = 2.0
LI = 0.035


def first(lst, pred):
    for x in lst:
        if pred(x):
            return x
    return None


class M:
    """a model JSON with the lookups the formulas need (first match wins, as `iter().find`)"""

    def __init__(s, j):
        s.j = j
        s.spaces_l = j.get('spaces', [])
        s.walls = j.get('walls', [])
        s.windows = j.get('windows', [])
        c = j.get('cons', {})
        s.wallcons_l = c.get('wallcons', [])
        s.wincons_l = c.get('wincons', [])
        s.mats_l = c.get('materials', [])
        s.glasses_l = c.get('glasses', [])
        s.frames_l = c.get('frames', [])
        s.meta = j.get('meta', {})

    def space(s, i):
        return first(s.spaces_l, lambda x: x['id'] == i) if i is not None else None

    def wallcons(s, i):
        return first(s.wallcons_l, lambda x: x['id'] == i)

    def wincons(s, i):
        return first(s.wincons_l, lambda x: x['id'] == i)

    def warea(s, w):
        return area(w['geometry'].get('polygon', []))

    def winarea(s, w):
        return w['geometry']['width'] * w['geometry']['height']

    def anet_raw(s, w):
        return s.warea(w) - sum(s.winarea(x) for x in s.windows if x['wall'] == w['id'])

    def anet(s, w):
        return r2(s.anet_raw(w))

    def tilt(s, w):
        return tiltc(w['geometry']['tilt'])

    def resistance(s, cid):
        c = s.wallcons(cid)
        if c is None:
            return None
        tot = 0.0
        for l in c.get('layers', []):
            m = first(s.mats_l, lambda x: x['id'] == l['material'])
            if m is None:
                return None
            if 'conductivity' in m and 'density' in m and 'specific_heat' in m:
                if m['conductivity'] > 0:
                    tot += l['e'] / m['conductivity']
                else:
                    return None
            else:
                tot += m['resistance']
        return tot

    def thickness(s, cid):
        c = s.wallcons(cid)
        return r3(sum(l['e'] for l in c.get('layers', []))) if c else None

    def sparea(s, sp):
        return sum(s.warea(w) for w in s.walls if w['space'] == sp['id'] and s.tilt(w) == 'BOTTOM')

    def hnet(s, sp):
        top = None
        for w in s.walls:
            t = s.tilt(w)
            if (t == 'TOP' and w['space'] == sp['id']) or (t == 'BOTTOM' and w.get('next_to') == sp['id']):
                top = w
                break
        th = 0.0
        if top is not None and s.wallcons(top['cons']) is not None:
            th = s.thickness(top['cons'])
        return sp['height'] - th

    def spwalls(s, sp):
        return [w for w in s.walls if w['space'] == sp['id'] or w.get('next_to') == sp['id']]

    def mult(s, sp):
        return sp.get('multiplier', 1.0)

    def inside(s, sp):
        return sp.get('inside_tenv', True)

    def kind(s, sp):
        return sp.get('kind', 'CONDITIONED')

    def vol_inh_inside(s):
        return r2(sum(s.sparea(sp) * s.hnet(sp) * s.mult(sp) for sp in s.spaces_l
                      if s.inside(sp) and s.kind(sp) != 'UNINHABITED'))

    def gvr(s):
        """building ventilation rate [1/h] used in the U-value calculation"""
        n = s.meta.get('global_ventilation_l_s')
        if n is None:
            return 0.0
        vol = s.vol_inh_inside()
        if vol == 0:
            return math.inf if n != 0 else math.nan
        return 3.6 * n / vol

    def uext(s, w, r):
        if r is None:
            return None
        d = r + RSI[s.tilt(w)] + RSE
        return r2(1 / d) if d != 0 else math.nan

    def wincons_u(s, cid):
        c = s.wincons(cid)
        if c is None:
            return None
        g = first(s.glasses_l, lambda x: x['id'] == c['glass'])
        f = first(s.frames_l, lambda x: x['id'] == c['frame'])
        if g is None or f is None:
            return None
        return r2((1 + c['delta_u'] / 100) * (f['u_value'] * c['f_f'] + g['u_value'] * (1 - c['f_f'])))

    def slab_dt(s, sp):
        sl = [w for w in s.spwalls(sp) if s.tilt(w) == 'BOTTOM' and w['bounds'] == 'GROUND']
        if not sl:
            return None
        e = 0
        a = 0
        for w in sl:
            A = s.warea(w)
            a += A
            r = s.resistance(w['cons']) or 0.0
            e += A * (0.3 + LG * (0.17 + r + RSE))
        return e / a if a else math.nan

    def chardim(s, sp):
        sw = s.spwalls(sp)
        fl = [w for w in sw if w['space'] == sp['id'] and s.tilt(w) == 'BOTTOM' and w['bounds'] == 'GROUND']
        if not fl:
            return None
        g = fl[0]
        A = s.warea(g)
        if A < 0.001:
            return 0.0
        tot = 0
        ext = 0
        for w in sw:
            if s.tilt(w) != 'SIDE':
                continue
            a = s.warea(w)
            b = w['bounds']
            if b in ('EXTERIOR', 'GROUND'):
                tot += a
                ext += a
            elif b == 'INTERIOR':
                nx = s.space(w.get('next_to'))
                if nx is not None and s.kind(sp) == 'CONDITIONED' and s.kind(nx) != 'CONDITIONED':
                    tot += a
                    ext += a
                else:
                    tot += a
            else:
                tot += a
        p = 0.0 if tot < 0.001 else r2(perim(g['geometry']['polygon']) * ext / tot)
        p = max(p, 0.01)
        return r2(A / (0.5 * p))

    def u(s, w):
        try:
            return s._u(w)
        except (ZeroDivisionError, ValueError, OverflowError):
            return math.nan

    def _u(s, w):
        if s.wallcons(w['cons']) is None:
            return None
        r = s.resistance(w['cons'])
        b = w['bounds']
        t = s.tilt(w)
        if b in ('ADIABATIC', 'EXTERIOR'):
            return s.uext(w, r)
        sp = s.space(w['space'])
        if b == 'GROUND':
            Uw = s.uext(w, r)
            if Uw is None or sp is None:
                return None
            dt = s.slab_dt(sp)
            if dt is None:
                return None
            d1 = s.meta.get('rn_perim_insulation', 0.0) * (LG - LI)
            D = s.meta.get('d_perim_insulation', 0.0)
            psi = r3(-LG / math.pi * (math.log(1 + D / dt) - math.log(1 + D / (dt + d1))))
            cd = s.chardim(sp) or 0.0
            hn = s.hnet(sp)
            z = max(-sp.get('z', 0.0), 0.0)
            if t == 'TOP':
                return Uw
            if t == 'BOTTOM':
                B = dt + 0.5 * z
                if cd == 0:
                    return math.nan
                Ubf = (2 * LG / (math.pi * cd + B)) * math.log(1 + math.pi * cd / B) if B < cd else LG / (0.457 * cd + B)
                return r2(Ubf + 2 * psi / cd)
            if abs(z) < 0.01:
                return Uw
            dw = LG / Uw
            dtt = min(dw, dt)
            Ubw = r2((2 * LG / (math.pi * z)) * (1 + 0.5 * dtt / (dtt + z)) * math.log(z / dw + 1))
            h = hn - z if hn > z else 0.0
            return Ubw if abs(h) < 1.2e-7 else r2((z * Ubw + h * Uw) / hn)
        # partitions
        if sp is None:
            return None
        if w.get('next_to') is None:
            if r is None:
                return None
            return r2(1 / (r + 2 * RSI[t]))
        nx = s.space(w['next_to'])
        if nx is None:
            return None
        tc = s.kind(sp) == 'CONDITIONED'
        nc = s.kind(nx) == 'CONDITIONED'
        if r is None:
            return None
        # heat flows from the conditioned to the unconditioned space: downwards through a floor of the
        # conditioned space / a ceiling of the unconditioned one, upwards in the mirrored cases
        if (tc, nc, t) in ((True, False, 'BOTTOM'), (False, True, 'TOP')):
            Rf = r + 2 * 0.17
        elif (tc, nc, t) in ((True, False, 'TOP'), (False, True, 'BOTTOM')):
            Rf = r + 2 * 0.10
        else:
            Rf = r + 2 * 0.13
        if tc == nc:
            return r2(1 / Rf)
        un = nx if tc else sp
        UA = 0.0
        for ww in s.spwalls(un):
            if ww['bounds'] not in ('GROUND', 'EXTERIOR'):
                continue
            uu = s.u(ww)
            if uu is None:
                continue
            wa = 0.0
            for x in s.windows:
                if x['wall'] != ww['id']:
                    continue
                ux = s.wincons_u(x['cons'])
                if ux is None:
                    continue
                wa += s.winarea(x) * ux
            UA += s.anet(ww) * uu + wa
        vol = s.sparea(un) * s.hnet(un)
        nv = un.get('n_v')
        nv = s.gvr() if nv is None else nv
        H = UA + 0.33 * vol * nv
        if H == 0:
            return 0.0 if s.warea(w) > 0 else math.nan
        Ru = s.warea(w) / H
        return r2(1 / (Rf + Ru))

    def is_tenv(s, w):
        a = s.space(w['space'])
        ti = bool(a and s.inside(a))
        b = s.space(w.get('next_to')) if w.get('next_to') else None
        ni = bool(b and s.inside(b))
        return ti if w['bounds'] != 'INTERIOR' else ti != ni


def finite(x):
    return isinstance(x, (int, float)) and math.isfinite(x)
