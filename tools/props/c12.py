"""C12 — obstruction factors are bounded, monotone and ~1 for unobstructed windows."""
import collections
import math

PROP = "C12"
LEAN_MODS = ["Cte.Props.C12", "Cte.Props.C12Origins", "Cte.Props.C12Gains"]
HARNESS = "c12"
N = {"quick": 120, "thorough": 3000}
CORRESPONDENCES = ["obstruction factor of every window from the per-hour inputs (definition; two decimals, tie-aware)",
                   "sunlit fraction at sampled (window, hour) pairs by exact ray casting against every candidate occluder",
                   "the sample points of a window (ray_origins_for_window) = Place.rayOrigins on the wall pose as (cos, sin) pairs, to 2 mm"]
RULE = ("real models and generated box buildings with coherent positions (0..40 free-standing shades, set-back windows, windows "
        "and walls without position, skylights, 32 climate zones), each with a twin that has one more obstacle; "
        "non-trivial = at least one window with a factor below 1; distinct = distinct model JSON")
ASSUMPTIONS = ["per-hour plane irradiances are taken from climate::radiation_for_surface (C20's object)",
               "poses enter the exact model as the f32 matrices the implementation uses"]
TRUSTED = ["modelled: Cte/Model/Fshobst.lean (aggregation, back-face test, candidate counting), Ray.lean, Box.lean"]
# the model's sunlit fraction is the property's own statement evaluated in exact arithmetic (ray_hit_iff, pip_eq_evenodd), with a firm
# bracket for the sample points too close to call: an implementation value outside the bracket is a failing input of the property
SPEC_FAMILIES = (CORRESPONDENCES[1],)
_stats = collections.Counter()


def fin(x):
    return isinstance(x, (int, float)) and math.isfinite(x)


def compare(case, out):
    res = []
    if case.get("op") == "origins":
        a, b = case["impl"]["origins"], out.get("origins")
        _stats["origin_sets"] += 1
        if b is None or len(a) != len(b):
            return [(CORRESPONDENCES[2], f"{len(a)} sample points in the implementation, {None if b is None else len(b)} in the model")]
        for k, (p, q) in enumerate(zip(a, b)):
            tol = 2e-3 * max(1.0, max(abs(c) for c in p))
            if any(abs(x - y) > tol for x, y in zip(p, q)):
                return [(CORRESPONDENCES[2], f"sample point {k}: implementation {p}, model {q}")]
        return []
    f = case["impl"]["fshobst"]
    if "failed" in f or "windows" not in out:
        return res
    for w, mw in zip(case["windows"], out["windows"]):
        fs = f.get(w["window"])
        if not fin(fs) or not mw["all_hours_finite"]:
            continue
        _stats["factors"] += 1
        if not any(abs(fs - v) < 0.005 for v in mw["factor"]):
            res.append((CORRESPONDENCES[0], f"window {w['window']}: impl {fs}, model {mw['factor'][0]} (raw {mw['raw']})"))
        for h, fd in zip(w["hours"], mw["f_detail"]):
            if fd is None or not fin(h["f"]):
                continue
            _stats["ray_casting_problems"] += 1
            n = max(1, w["n_origins"])
            # fd = [exact fraction, lowest, highest]: the bracket leaves out of the count the sample points whose ray meets an
            # obstacle within 0.5 mm of its own origin (an obstacle lying in the window's plane), within 2 mm of the obstacle's
            # outline, or nearly parallel to it — there the f32 computation may fall either way
            exact, lo, hi = fd if isinstance(fd, list) else (fd, fd, fd)
            if lo < hi:
                _stats["hours_with_unsure_points"] += 1
            if not (lo - 1.0 / n - 1e-6 <= h["f"] <= hi + 1.0 / n + 1e-6):          # one sample point of slack (grazing rays)
                res.append((CORRESPONDENCES[1], f"window {w['window']} hour {h['hour']}: impl f={h['f']}, exact {exact} (firm bracket [{lo}, {hi}])"))
            elif abs(h["f"] - exact) > 1e-6:
                _stats["one_ray_off"] += 1
    return res[:4]


def oracle(case):
    v = []
    if case.get("op") == "origins":
        return v
    f = case["impl"]["fshobst"]
    if "failed" in f:
        v.append({"what": f"computing the obstruction factors fails: {f['failed'][:160]}", "key": {"class": "fshobst-crash"}})
        return v
    more = case["impl"]["fshobst_with_extra_obstacle"]
    # what can hide a window, by the statement: exterior or adiabatic walls and shades (those with a geometric position and an
    # outline), plus each window's own reveals (checked below) — nothing else, in particular no ground-contact or interior wall
    ids = case.get("occluder_ids")
    mdl = case.get("model")
    if isinstance(ids, list) and isinstance(mdl, dict):
        def placed(e):
            g = e.get("geometry") or {}
            return g.get("position") is not None and len(g.get("polygon") or []) > 0
        want = sorted([e["id"] for e in mdl.get("walls", []) if e.get("bounds") in ("EXTERIOR", "ADIABATIC") and placed(e)]
                      + [e["id"] for e in mdl.get("shades", []) if placed(e)])
        _stats["occluder_sets_checked"] += 1
        got = sorted(ids)
        if got != want:
            by_id = {e["id"]: e for e in mdl.get("walls", [])}
            extra = [i for i in got if i not in want]
            missing = [i for i in want if i not in got]
            kinds = sorted({by_id[i].get("bounds", "?") if i in by_id else "shade" for i in extra})
            v.append({"what": f"the obstacles considered are not the exterior/adiabatic walls and shades with a position: "
                              f"{len(extra)} unexpected ({', '.join(kinds) or '-'}), {len(missing)} missing",
                      "key": {"class": "occluder-set", "unexpected": kinds, "missing": len(missing) > 0}})
    for w in case["windows"]:
        fs = f.get(w["window"])
        if fs is None and w["window"] in f:
            fs = float("nan")
        no_pos = not w["wall_has_position"] or not w["window_has_position"]
        if no_pos:
            if not fin(fs) or abs(fs - 1.0) > 1e-6:
                v.append({"what": f"window or wall without geometric position: factor {fs}, must be 1",
                          "key": {"class": "no-position-not-one", "wall_has_position": w["wall_has_position"]}})
            continue
        if not fin(fs):
            v.append({"what": f"obstruction factor of a positioned window is not a finite number ({fs})", "key": {"class": "factor-not-finite"}})
            continue
        # the window's own reveal surfaces are part of what can hide it: a set-back window has four of them (head, sill, two jambs),
        # a flush one none — whatever the wall's tilt (their geometry is C13's object)
        if "n_reveals" in w:
            want = 4 if abs(w["setback"]) >= 0.01 else 0
            _stats["windows_with_reveals" if want else "flush_windows"] += 1
            if w["n_reveals"] != want:
                v.append({"what": f"a window with set-back {w['setback']} is given {w['n_reveals']} reveal surfaces as obstacles, expected {want}",
                          "key": {"class": "reveal-set", "n": w["n_reveals"]}})
        pl = w.get("placement")
        if pl and pl["origins"]:
            # the sample points are points of the window: mapped back into the frame of the wall polygon (origin at its first vertex, x along
            # its first edge) they lie inside the window rectangle, on the set-back plane, centred on it
            import math
            az, tl = math.radians(pl["azimuth"]), math.radians(pl["tilt"])
            ex, ey = pl["v1"][0] - pl["v0"][0], pl["v1"][1] - pl["v0"][1]
            n = math.hypot(ex, ey)
            if n > 1e-9:
                cx, sx = ex / n, ey / n
                us, vs, bad = [], [], None
                for P in pl["origins"]:
                    dx, dy, dz = P[0] - pl["pos"][0], P[1] - pl["pos"][1], P[2] - pl["pos"][2]
                    # undo the turn about z, then the tilt about x
                    x1, y1 = math.cos(az) * dx + math.sin(az) * dy, -math.sin(az) * dx + math.cos(az) * dy
                    y2, z2 = math.cos(tl) * y1 + math.sin(tl) * dz, -math.sin(tl) * y1 + math.cos(tl) * dz
                    lx, ly = x1 - pl["v0"][0], y2 - pl["v0"][1]
                    u, vv = cx * lx + sx * ly, -sx * lx + cx * ly
                    us.append(u)
                    vs.append(vv)
                    tol = 2e-3 * max(1.0, abs(P[0]), abs(P[1]), abs(P[2]))
                    if abs(z2 + pl["setback"]) > tol or not (pl["x"] - tol <= u <= pl["x"] + pl["w"] + tol) or not (pl["y"] - tol <= vv <= pl["y"] + pl["h"] + tol):
                        bad = (P, u, vv, z2)
                _stats["windows_with_sample_points_checked"] += 1
                if bad is None:
                    tol = 2e-3 * max(1.0, max(abs(c) for P in pl["origins"] for c in P))
                    if abs(sum(us) / len(us) - (pl["x"] + pl["w"] / 2)) > tol or abs(sum(vs) / len(vs) - (pl["y"] + pl["h"] / 2)) > tol:
                        bad = ("centroid", sum(us) / len(us), sum(vs) / len(vs), 0.0)
                if bad is not None:
                    v.append({"what": f"sample point {bad[0]} of a window at ({pl['x']}, {pl['y']}) size {pl['w']} x {pl['h']} set back {pl['setback']} lies at "
                                      f"({bad[1]:.3f}, {bad[2]:.3f}, depth {bad[3]:.3f}) in the frame of its wall polygon: not on the window",
                              "key": {"class": "sample-points-off-window", "canonical_polygon": abs(pl["v0"][0]) + abs(pl["v0"][1]) < 1e-9 and abs(sx) < 1e-9}})
        if fs < -1e-6 or fs > 1 + 1e-6:
            v.append({"what": f"obstruction factor {fs} outside [0,1]", "key": {"class": "factor-out-of-range"}})
        hrs = w["hours"]
        if all(fin(h["f"]) and fin(h["dir"]) and fin(h["dif"]) and h["dir"] + h["dif"] > 0 for h in hrs) and hrs:
            mean = sum((h["f"] * h["dir"] + h["dif"]) / (h["dir"] + h["dif"]) for h in hrs) / len(hrs)
            if abs(mean - fs) > 0.0101:
                v.append({"what": f"factor {fs} is not the mean over the design-day hours of (f*beam+diffuse)/(beam+diffuse) = {mean:.4f}",
                          "key": {"class": "factor-not-mean"}})
            for h in hrs:
                if h["ndot"] is not None and h["ndot"] < 0.0099 and abs(h["f"]) > 1e-6:
                    v.append({"what": f"hour {h['hour']}: sun behind the window (n.d={h['ndot']:.3f}) but sunlit fraction {h['f']}", "key": {"class": "backface"}})
                if h["f"] < -1e-6 or h["f"] > 1 + 1e-6:
                    v.append({"what": f"sunlit fraction {h['f']} outside [0,1]", "key": {"class": "fraction-out-of-range"}})
            if w["n_candidates"] == 0:
                _stats["unobstructed_windows"] += 1
                if fs < 0.97 - 1e-6:
                    v.append({"what": f"a window nothing can hide has factor {fs} < 0.97", "key": {"class": "unobstructed-low"}})
        m2 = more.get(w["window"]) if isinstance(more, dict) else None
        if fin(m2) and m2 > fs + 0.0051:
            v.append({"what": f"adding an obstacle raised the factor of a window from {fs} to {m2}", "key": {"class": "not-monotone"}})
    return v[:4]


def nontrivial(case):
    if case.get("op") == "origins":
        return len(case["impl"]["origins"]) > 0
    f = case["impl"]["fshobst"]
    return "failed" not in f and any(fin(x) and x < 0.995 for x in f.values())


def branch(case, out):
    if case.get("op") == "origins":
        return "origins/" + ("canonical-polygon" if case["v0"] == [0.0, 0.0] and abs(case["trig"]["e"][1]) < 1e-9 else "other-polygon-frame")
    n = case.get("n_occluders", 0)
    return "occluders:" + ("0" if n == 0 else "1-30" if n <= 30 else ">30")


def sample(case, out):
    if case.get("op") == "origins":
        return {"label": case["label"], "window": case["window"], "first_point": case["impl"]["origins"][:1], "model_first_point": (out or {}).get("origins", [])[:1]}
    f = case["impl"]["fshobst"]
    w = case["windows"][0] if case["windows"] else None
    return {"label": case["label"], "occluders": case.get("n_occluders"), "factors": dict(list(f.items())[:4]),
            "first_window_hours": [{k: h[k] for k in ("hour", "f", "dir", "dif")} for h in (w["hours"][:3] if w else [])],
            "model": (out or {}).get("windows", [None])[0]}


def extra_coverage():
    return dict(_stats)
