"""C14 — indicator computation is total: never crashes or hangs, finite on sane models."""
import collections

PROP = "C14"
HARNESS = "c14"
N = {"quick": 4000, "thorough": 0}     # thorough: every single edit of every base model (exhaustive)
LEAN_MODS = ["Cte.Props.C14", "Cte.Props.C14Sane", "Cte.Props.C14Json"]
CORRESPONDENCES = ["on models the harness calls sane (one in three): when the sanity test of the theorem holds (saneU, evaluated by the driver), the "
                   "model has no U-value with a failed division (as saneU_nfWalls_empty proves) and the implementation reports no non-finite number",
                   "for every model that computes: the indicators load back from their JSON exactly when no required number of theirs is non-finite "
                   "(record_loads_back_iff: serde_json writes NaN / inf as null, a plain f32 field refuses null)"]
RULE = ("every model reachable from the 7 shipped model files, generated models (with geometric positions, shades, schedules) and "
        "editor-minimal models grown element by element, by 1..3 structural edits of the JSON tree (delete key/item, empty, duplicate "
        "or truncate an array, nil or redirect an id, zero or negate a number); quick: seeded sample; thorough: all single edits; "
        "each case in a worker process with a watchdog; non-trivial = the edited model loads; distinct = distinct edited tree")
ASSUMPTIONS = ["sane = checker silent, unique ids, resolvable materials/glazing/frame with positive data, positive sizes, polygons of positive "
               "area, interior walls with a neighbour, consistent schedules (24/7/365), and habitable floor area inside the envelope when a "
               "building-wide ventilation flow is given",
               "stack overflow and allocation failure are runtime behaviours outside the model; a hang shows as a watchdog timeout"]
TRUSTED = ["the theorems state that every division of the modelled pipeline is guarded or has a positive denominator; the schedule lookups "
           "of the model cannot fail by construction",
           "the exhaustive single-edit enumeration runs on the implementation"]
EXPLANATION = ("fault enumeration on the implementation (exhaustive single edits in the thorough tier) beside Lean theorems about the guarded "
               "divisions of the model")
_stats = collections.Counter()
_sites = collections.Counter()


def compare(case, out):
    res0 = []
    i = case["impl"]
    if i.get("outcome") == "ok" and "loads_back" in i:
        _stats["results_checked_for_loads_back_iff_finite"] += 1
        if bool(i["loads_back"]) != (not i.get("non_finite_at")):
            res0.append((CORRESPONDENCES[1], f"{case['label']}: loads back = {i['loads_back']} but non-finite required number at {i.get('non_finite_at')}"))
    if case.get("op") != "saneu":
        return res0
    if "sane_u" not in out:
        return [(CORRESPONDENCES[0], f"model gave {str(out)[:160]}")]
    _stats["sane_models_given_to_the_model"] += 1
    res = []
    if out["sane_u"]:
        _stats["sane_models_on_which_the_theorem_applies"] += 1
        _stats["walls_proved_finite"] += out.get("with_u", 0)
        if out["nf_walls"]:
            res.append((CORRESPONDENCES[0], f"{case['label']}: saneU holds but the model lists failed divisions at {out['nf_walls'][:3]}"))
        if case["impl"].get("non_finite_at"):
            res.append((CORRESPONDENCES[0], f"{case['label']}: saneU holds (no failed division in the model) but the implementation reports a non-finite number at "
                        f"{case['impl']['non_finite_at']}"))
    elif out["nf_walls"]:
        _stats["sane_models_with_a_failed_division_in_the_model"] += 1
    return res0 + res


def oracle(case):
    v = []
    i = case["impl"]
    _stats[i["outcome"]] += 1
    if i["outcome"] == "panic":
        _sites[i.get("site", "?")] += 1
        v.append({"what": f"indicator computation crashes at {i.get('site')} ({i.get('msg', '')[:60]}) on a model that loads; edits: {case.get('edits')}",
                  "key": {"class": "panic", "site": (i.get("site") or "").split(":")[0], "msg": i.get("msg", "")[:30]}})
        if not i.get("later_computation_ok", True):
            v.append({"what": "after that failure a later computation on a sane model in the same process fails too", "key": {"class": "failure-not-isolated"}})
    elif i["outcome"] in ("timeout", "abort", "garbled"):
        v.append({"what": f"indicator computation {i['outcome']}: {case.get('label')} edits {case.get('edits')}", "key": {"class": i["outcome"]}})
    elif i["outcome"] == "ok" and i.get("sane"):
        _stats["sane"] += 1
        if i.get("non_finite_at"):
            v.append({"what": f"sane model: reported number at {i['non_finite_at']} is not finite; edits: {case.get('edits')}", "key": {"class": "sane-not-finite", "at": i["non_finite_at"].split("/")[-1]}})
        elif not i.get("loads_back"):
            v.append({"what": f"sane model: the indicators do not load back from their JSON; edits: {case.get('edits')}", "key": {"class": "sane-not-loading-back"}})
    return v


def nontrivial(case):
    return case["impl"]["outcome"] != "rejected-at-load"


def distinct_key(case):
    return case["label"] + "|" + "|".join(case.get("edits", []))


def branch(case, out):
    i = case["impl"]
    return i["outcome"] + ("/sane" if i.get("sane") else "")


def sample(case, out):
    return {"label": case["label"], "edits": case.get("edits"), "impl": case["impl"]}


def extra_coverage():
    return {"outcomes": dict(_stats), "panic_sites": dict(_sites), "exhaustive": False}
