"""C18 — HULC file parsers recover every value that is written in the file."""
import collections
import json
import math
import os
from fractions import Fraction

from framework import CACHE

PROP = "C18"
LEAN_MODS = ["Cte.Props.C18", "Cte.Props.C18Typed", "Cte.Props.C18Aux", "Cte.Props.C18Tbl", "Cte.Props.C18Kyg"]
HARNESS = "c18"
N = {"quick": 400, "thorough": 6000}
CORRESPONDENCES = ["build_blocks(text) = Bdl.buildBlocks text: accept/reject, and per block type, name, parent and every attribute value "
                   "(numbers as the f32 nearest to the written decimal)",
                   "kyg::parse(text) = Aux.kygParse text: accept/reject, K, every window / wall / thermal-bridge row, insolation factors, gains lines",
                   "tbl::parse(file) = Aux.tblParse text: accept/reject, every element and space row",
                   "Data::new(text) = BdlData.dataNew text: accept/reject/crash, and every field of every typed element (spaces, walls, windows, "
                   "materials, layer and window constructions, glazing, frames, schedules, thermal bridges, shades), defaults included"]
GENERATED_OBLIGATIONS = ["Cte/Gen/BlockTypes.lean regenerated from hulc/src/bdl/blocks.rs (type table, parent classes, line filters, markers)"]
SPEC_FAMILIES = ()
RULE = ("the 12 BDL sections of the shipped .ctehexml files, the 56 legacy .cte files and the embedded catalogue as they are; the same files "
        "re-printed from their parsed blocks in a random layout (indentation with blanks/tabs, 0..14 blanks around '=', trailing blanks, CRLF, "
        "comment and blank lines, quoted or bare strings, lists on one or several lines with the closing parenthesis on its own line or not); "
        "documents printed from random descriptions of 1..40 blocks over all 53 block types, well nested (floor > space > wall > window / "
        "construction / door) or, in the odd stream, with orphans, duplicate keys, numeric words (inf, nan) and near-numbers (1e, 1.2.3, 0x10); "
        "numbers in 30 written forms (+3.5, .5, 5., 1e20, 1E-3, 00012, 1e-40, 1e39, 16777217 ...); and the generated documents damaged by one "
        "edit (line deleted / duplicated / swapped, block removed, '=' or quote dropped, '..' appended, truncated); non-trivial = the text is "
        "accepted; distinct = distinct text")
ASSUMPTIONS = ["the decimal a model number carries is rounded to f32 by this module (exact rational arithmetic, ties to even); Rust's own "
               "decimal-to-float conversion is part of what is compared, not trusted",
               "KyGananciasSolares.txt and NewBDL_O.tbl parsers and the typed elements built from the blocks are covered by the kyg/tbl/typed "
               "families when present in this run (see coverage)"]
TRUSTED = ["modelled: Cte/Model/Bdl.lean (clean_lines, sanitize_lider_data, build_blocks, BdlBlock::from_str, parse_attributes, AttrMap::insert "
           "typing as a recogniser of Rust's float grammar); generated: Cte/Gen/BlockTypes.lean"]
_stats = collections.Counter()
_types = None


def generate(rundir, tier):
    import gen_bdl_types
    try:
        gen_bdl_types.main()
    except SystemExit as e:
        return [f"gen_bdl_types failed ({e.code}): hulc/src/bdl/blocks.rs no longer has the shape the translator reads"]
    return []


def types():
    global _types
    if _types is None:
        t = json.load(open(os.path.join(CACHE, "gen", "blocktypes.json")))["types"]
        _types = {s: v for s, v in t}
    return _types


def f32_of_decimal(neg, mant, exp):
    """the f32 nearest to (-1)^neg * mant * 10^exp (ties to even), as a Python float / inf"""
    sign = -1.0 if neg else 1.0
    if mant == 0:
        return sign * 0.0
    if exp > 400:
        return sign * float("inf")
    if exp < -6000:
        return sign * 0.0
    x = Fraction(mant) * Fraction(10) ** exp
    e = x.numerator.bit_length() - x.denominator.bit_length()
    if x < Fraction(2) ** e:
        e -= 1
    e = max(e, -126)
    ulp = Fraction(2) ** (e - 23)
    q = x / ulp
    m = q.numerator // q.denominator
    rem = q - m
    if rem > Fraction(1, 2) or (rem == Fraction(1, 2) and m % 2 == 1):
        m += 1
    val = m * ulp
    if val >= Fraction(2) ** 128:
        return sign * float("inf")
    return sign * float(val)


def model_num(n):
    if n == "nan":
        return "nan"
    if "inf" in n:
        return "-inf" if n["inf"] else "inf"
    v = f32_of_decimal(n["neg"], int(n["mant"]), n["exp"])
    if v == float("inf"):
        return "inf"
    if v == float("-inf"):
        return "-inf"
    return v


def norm_val(v, model):
    if v is None:
        return ("?",)
    if "s" in v:
        return ("s", v["s"])
    n = model_num(v["n"]) if model else v["n"]
    if isinstance(n, float) or isinstance(n, int):
        n = float(n)
        return ("n", n, str(n)[0] == "-")      # keeps the sign of zero
    return ("n", n)


def norm_blocks(bs, model):
    out = []
    for b in bs:
        bt = types().get(b["btype"], "?" + b["btype"]) if model else b["btype"]
        out.append((bt, b["name"], b["parent"], tuple(sorted((k, norm_val(v, model)) for k, v in b["attrs"]))))
    return out


def first_diff(a, b):
    if len(a) != len(b):
        return f"{len(a)} blocks vs {len(b)}"
    for i, (x, y) in enumerate(zip(a, b)):
        if x != y:
            for f, (p, q) in zip(("type", "name", "parent"), zip(x[:3], y[:3])):
                if p != q:
                    return f"block {i} ({x[1]!r}): {f} {p!r} vs {q!r}"
            da, db = dict(x[3]), dict(y[3])
            for k in sorted(set(da) | set(db)):
                if da.get(k) != db.get(k):
                    return f"block {i} ({x[1]!r}): attribute {k!r} {da.get(k)} vs {db.get(k)}"
            return f"block {i} differs"
    return None


TBL_TYPES = {"0": "EXTWALL", "1": "WINDOW", "2": "DOOR", "-2": "ADBWALL", "-3": "GNDWALL", "-4": "INTWALL", "-5": "INTFLOOR"}


def mnum(n):
    """model number -> the implementation's representation (float | 'inf' | '-inf' | 'nan')"""
    return None if n is None else model_num(n)


def feq(a, b):
    if isinstance(a, float) and isinstance(b, (int, float)):
        return a == float(b) and (str(a)[0] == "-") == (str(float(b))[0] == "-") or (a == 0 == b)
    return a == b


def last_by_name(rows):
    d = {}
    for r in rows:
        d[r["name"]] = r
    return d


def compare_kyg(case, out):
    imp = case["impl"]
    fam = CORRESPONDENCES[1]
    if "panic" in imp:
        return [(fam, "implementation panics")]
    if ("ok" in imp) != ("ok" in out):
        return [(fam, f"implementation {'accepts' if 'ok' in imp else 'rejects (' + imp.get('err', '')[:60] + ')'}, model {'accepts' if 'ok' in out else 'rejects'}")]
    if "ok" not in imp:
        return []
    a, b = imp["ok"], out["ok"]
    _stats["kyg_rows_compared"] += len(a["windows"]) + len(a["walls"]) + len(a["tbs"])
    if not feq(mnum(b["k"]) if b["k"] is not None else 0.0, a["k"]):
        return [(fam, f"K: implementation {a['k']}, model {mnum(b['k'])}")]
    if [mnum(x) for x in b["hfactors"]] != a["hfactors"]:
        return [(fam, f"insolation factors: implementation {a['hfactors']}, model {[mnum(x) for x in b['hfactors']]}")]
    gains = last_by_name(b["gains"])
    mw = last_by_name(b["windows"])
    if sorted(mw) != sorted(w["name"] for w in a["windows"]):
        return [(fam, f"window names differ: {sorted(mw)[:3]} vs {[w['name'] for w in a['windows']][:3]}")]
    for w in a["windows"]:
        m = mw[w["name"]]
        ff = mnum(m["ff_pct"])
        exp = {"orientation": m["orientation"], "a": mnum(m["a"]), "u": mnum(m["u"])}
        for k, v in exp.items():
            if not feq(v, w[k]):
                return [(fam, f"window {w['name']}: {k} implementation {w[k]}, model {v}")]
        if isinstance(ff, float) and isinstance(w["ff"], (int, float)) and abs(ff / 100.0 - w["ff"]) > 1e-6 * max(1.0, abs(ff)):
            return [(fam, f"window {w['name']}: frame fraction implementation {w['ff']}, model {ff}/100")]
        mex = None if m["extra"] is None else [mnum(x) for x in m["extra"][:4]] + [m["extra"][4]]
        if (mex is None) != (w["extra"] is None) or (mex is not None and any(not feq(x, y) for x, y in zip(mex, w["extra"]))):
            return [(fam, f"window {w['name']}: extra columns implementation {w['extra']}, model {mex}")]
        g = gains.get(w["name"])
        az = mnum(g["azimuth"]) if g else 0.0
        if not feq(az, w["azimuth_n"]):
            return [(fam, f"window {w['name']}: azimuth implementation {w['azimuth_n']}, model {az}")]
        if g:
            h3, ht = mnum(g["h3"]), mnum(g["htot"])
            if isinstance(h3, float) and isinstance(ht, float) and ht != 0 and isinstance(w["fshobst"], (int, float)):
                if abs(h3 / ht - w["fshobst"]) > 1e-5 * max(1.0, abs(h3 / ht)):
                    return [(fam, f"window {w['name']}: obstruction factor implementation {w['fshobst']}, model {h3}/{ht}")]
    for coll, keys in (("walls", ("a", "u", "btrx")), ("tbs", ("l", "psi"))):
        mm = last_by_name(b[coll])
        if sorted(mm) != sorted(x["name"] for x in a[coll]):
            return [(fam, f"{coll}: names differ")]
        for x in a[coll]:
            m = mm[x["name"]]
            for k in keys:
                if not feq(mnum(m[k]), x[k]):
                    return [(fam, f"{coll} {x['name']}: {k} implementation {x[k]}, model {mnum(m[k])}")]
            if coll == "walls" and m["extra"] != x["extra"]:
                return [(fam, f"wall {x['name']}: extra columns implementation {x['extra']}, model {m['extra']}")]
            if coll == "tbs" and m["sisdim"] != x["sisdim"]:
                return [(fam, f"thermal bridge {x['name']}: sisdim implementation {x['sisdim']!r}, model {m['sisdim']!r}")]
    return []


def compare_tbl(case, out):
    imp = case["impl"]
    fam = CORRESPONDENCES[2]
    if "panic" in imp:
        return [(fam, "implementation panics")]
    if ("ok" in imp) != ("ok" in out):
        return [(fam, f"implementation {'accepts' if 'ok' in imp else 'rejects (' + imp.get('err', '')[:60] + ')'}, model {'accepts' if 'ok' in out else 'rejects (' + str(out.get('err')) + ')'}")]
    if "ok" not in imp:
        return []
    a, b = imp["ok"], out["ok"]
    _stats["tbl_rows_compared"] += len(a["elements"]) + len(a["spaces"])
    me = {e["key"]: e for e in b["elements"]}
    if sorted(me) != sorted(e["key"] for e in a["elements"]):
        return [(fam, "element keys differ")]
    for e in a["elements"]:
        m = me[e["key"]]
        got = (m["name"], [mnum(x) for x in m["nums"]], TBL_TYPES.get(m["type"]), m["id_surf"], m["id_space"])
        want = (e["name"], e["nums"], e["type"], e["id_surf"], e["id_space"])
        if got[0] != want[0] or any(not feq(x, y) for x, y in zip(got[1], want[1])) or got[2:] != want[2:]:
            return [(fam, f"element {e['key']}: implementation {want}, model {got}")]
    ms = {e["key"]: e for e in b["spaces"]}
    if sorted(ms) != sorted(e["key"] for e in a["spaces"]):
        return [(fam, "space keys differ")]
    for e in a["spaces"]:
        m = ms[e["key"]]
        got = (m["name"], m["id_space"], m["mult"], mnum(m["area"]), mnum(m["qint"]))
        want = (e["name"], e["id_space"], e["mult"], e["area"], e["qint"])
        if got[:3] != want[:3] or not feq(got[3], want[3]) or not feq(got[4], want[4]):
            return [(fam, f"space {e['key']}: implementation {want}, model {got}")]
    return []


SCHED_KIND = {"FRACTION": "Fraction", "ON/OFF": "OnOff", "TEMPERATURE": "Temperature"}


def tnum_eq(m, i):
    """model number (exact decimal, 9 digits / 'nonfinite' / None) vs implementation f32 (float / 'inf' / 'nan' / None)"""
    if m is None or i is None:
        return m is None and i is None
    if m == "nonfinite":
        return isinstance(i, str)
    if isinstance(i, str):
        return abs(m) > 3.0e38        # a finite decimal beyond f32 range reads as inf
    return abs(m - i) <= 2e-6 * max(1.0, abs(m), abs(i)) or (abs(i) < 1e-37 and abs(m) < 1e-37)


def deep_eq(m, i, path=""):
    """first difference between model and implementation values, or None"""
    if isinstance(m, dict) and isinstance(i, dict):
        for k in m:
            if k not in i:
                continue
            d = deep_eq(m[k], i[k], path + "." + k)
            if d:
                return d
        return None
    if isinstance(m, list) and isinstance(i, list):
        if len(m) != len(i):
            return f"{path}: {len(i)} vs {len(m)} items"
        for n, (a, b) in enumerate(zip(m, i)):
            d = deep_eq(a, b, f"{path}[{n}]")
            if d:
                return d
        return None
    if isinstance(m, bool) or isinstance(i, bool) or (isinstance(m, str) and m != "nonfinite" and not isinstance(i, (int, float))):
        return None if m == i else f"{path}: implementation {i!r}, model {m!r}"
    if isinstance(m, (int, float)) or m == "nonfinite" or isinstance(i, (int, float)):
        return None if tnum_eq(m, i) else f"{path}: implementation {i!r}, model {m!r}"
    return None if m == i else f"{path}: implementation {i!r}, model {m!r}"


def edge_normal_azimuth(pts, loc):
    """`Polygon::edge_normal_to_y` in double precision (degrees clockwise from north); 0 for an unknown vertex"""
    if not (loc and loc.startswith("V")):
        return 0.0
    t = loc[1:]
    if t.startswith("+"):
        t = t[1:]
    if not t.isdigit() or not (1 <= int(t) <= len(pts)):
        return 0.0
    k = int(t) - 1
    p1, p2 = pts[k], pts[(k + 1) % len(pts)]
    if any(isinstance(c, str) for c in p1 + p2):
        return None
    n = (p2[1] - p1[1], -(p2[0] - p1[0]))
    if n == (0.0, 0.0) or n == (0, 0):
        return None
    return math.degrees(math.atan2(n[0], n[1])) % 360


def compare_data(case, out):
    imp = case["impl"]
    fam = CORRESPONDENCES[3]
    verdict = lambda o: "ok" if "ok" in o else ("panic" if "panic" in o else "err")
    if verdict(imp) != verdict(out):
        return [(fam, f"implementation: {verdict(imp)} ({str(imp.get('err', ''))[:80]}), model: {verdict(out)} ({str(out.get('err', out.get('panic', '')))[:80]})")]
    if "ok" not in imp:
        _stats["typed_rejected_by_both" if "err" in imp else "typed_crash_by_both"] += 1
        return []
    a, b = imp["ok"], out["ok"]
    for coll in ("materials", "glasses", "frames", "wallcons", "wincons"):
        ia, ib = {e["key"]: e for e in a[coll]}, {e["key"]: e for e in b[coll]}
        if sorted(ia) != sorted(ib):
            return [(fam, f"{coll}: keys differ: only implementation {sorted(set(ia) - set(ib))[:3]}, only model {sorted(set(ib) - set(ia))[:3]}")]
        for k in ia:
            d = deep_eq(ib[k], ia[k], f"{coll}[{k}]")
            if d:
                return [(fam, d)]
        _stats["typed_" + coll] += len(ia)
    spaces = {s["name"]: s for s in a["spaces"]}
    for coll in ("spaces", "walls", "windows", "thermal_bridges", "shadings", "schedules"):
        if len(a[coll]) != len(b[coll]):
            return [(fam, f"{coll}: implementation has {len(a[coll])}, model {len(b[coll])}")]
        for x, y in zip(a[coll], b[coll]):
            y = dict(y)
            if coll == "walls" and y["angle"] == "computed":
                # computed by the code from the space outline with atan2: compared with the double-precision value
                sp = spaces.get(x["space"])
                exp = edge_normal_azimuth(sp["polygon"], x["location"]) if sp else None
                got = x["angle"]
                if exp is not None and isinstance(got, (int, float)):
                    dd = abs((got - exp + 180) % 360 - 180)
                    if dd > 0.06:     # f32 acos near 0 / 180 degrees is only good to ~sqrt(eps) radians
                        return [(fam, f"wall {x['name']}: azimuth of the outline edge {x['location']}: implementation {got}, expected {exp:.3f}")]
                y.pop("angle")
                x = {k: v for k, v in x.items() if k != "angle"}
            if coll == "schedules":
                y["type"] = SCHED_KIND.get(y["type"], y["type"])
            d = deep_eq(y, x, f"{coll}[{x.get('name')}]")
            if d:
                return [(fam, d)]
        _stats["typed_" + coll] += len(a[coll])
    for k in ("space_conditions", "system_conditions"):
        if sorted(set(a[k])) != sorted(set(b[k])):
            return [(fam, f"{k}: implementation {sorted(a[k])[:4]}, model {sorted(b[k])[:4]}")]
    if sorted(set(a["meta"])) != sorted(set(types().get(t, t) for t in b["meta"])):
        return [(fam, f"meta blocks: implementation {a['meta']}, model {b['meta']}")]
    return []


def compare(case, out):
    if case.get("op") == "bdldata":
        _stats["family:" + case["kind"]] += 1
        return compare_data(case, out)
    if case.get("op") == "kyg":
        _stats["family:" + case["kind"]] += 1
        return compare_kyg(case, out)
    if case.get("op") == "tbl":
        _stats["family:" + case["kind"]] += 1
        return compare_tbl(case, out)
    if case.get("op") != "bdlblocks":
        return []
    imp = case["impl"]
    _stats["family:" + case["kind"]] += 1
    if "panic" in imp:
        return [(CORRESPONDENCES[0], "implementation panics; model: " + ("ok" if "ok" in out else "err"))]
    if ("ok" in imp) != ("ok" in out):
        return [(CORRESPONDENCES[0], f"implementation {'accepts' if 'ok' in imp else 'rejects (' + imp.get('err', '')[:80] + ')'}, "
                 f"model {'accepts' if 'ok' in out else 'rejects (' + str(out.get('err'))[:80] + ')'}")]
    if "ok" not in imp:
        _stats["rejected_by_both"] += 1
        return []
    a, b = norm_blocks(imp["ok"], False), norm_blocks(out["ok"], True)
    _stats["blocks_compared"] += len(a)
    _stats["attributes_compared"] += sum(len(x[3]) for x in a)
    d = first_diff(a, b)
    return [(CORRESPONDENCES[0], "implementation vs model: " + d)] if d else []


def oracle(case):
    """the abstract description the text was printed from is what must be read back"""
    if case.get("op") == "bdldata" and case.get("description"):
        if "ok" in case["impl"]:
            return typed_vs_description(case)
        # the text was printed from a well-formed description, in the syntax HULC writes
        return [{"what": f"{case['label']}: a project printed from a well-formed description is not read: {str(case['impl'])[:160]}",
                 "key": {"class": "printed-project-rejected"}}]
    exp = case.get("expected")
    if exp is None:
        return []
    imp = case["impl"]
    kind = case["kind"]
    if "ok" not in imp:
        return [{"what": f"{case['label']}: a well-formed printed document is rejected: {imp}", "key": {"class": "printed-document-rejected", "kind": kind}}]
    a, b = norm_blocks(imp["ok"], False), norm_blocks(exp, False)
    d = first_diff(a, b)
    _stats["documents_checked_against_description"] += 1
    if d:
        return [{"what": f"{case['label']}: parsed blocks differ from the description the text was printed from: {d}",
                 "key": {"class": "value-not-recovered", "kind": kind}}]
    return []


AIR_GAP_SIZES = {" 1 cm": 0.01, " 2 cm": 0.02, " 5 cm": 0.05, "10 cm": 0.10}


def _close(a, b):
    return isinstance(a, (int, float)) and isinstance(b, (int, float)) and abs(a - b) <= 1e-6 * max(1.0, abs(b))


def typed_vs_description(case):
    """the typed elements built from a generated project carry what its description (the thing the text was printed from) says:
    layer materials and thicknesses (the library air-gap sizes being the documented exception), window sizes and offsets, daily values"""
    d, t = case["description"], case["impl"]["ok"]
    v = []
    _stats["typed_documents_checked_against_description"] += 1
    cons = {c["key"]: c for c in t["wallcons"]}
    for l in d.get("layers", []):
        c = cons.get(l["name"])
        if c is None:
            v.append({"what": f"{case['label']}: layer construction {l['name']!r} written in the file is not among the typed constructions", "key": {"class": "typed-missing", "coll": "wallcons"}})
            continue
        want_m = [m.replace("  ", " ") for m in l["materials"]]
        got_m = [m.replace("  ", " ") for m in c["material"]]
        if want_m != got_m:
            v.append({"what": f"{case['label']}: construction {l['name']!r}: materials written {want_m}, typed {got_m}", "key": {"class": "typed-value", "field": "wallcons.material"}})
            continue
        for k, (m, th) in enumerate(zip(l["materials"], l["thickness"])):
            want = AIR_GAP_SIZES.get(m[-5:], th) if m.startswith("Cámara de aire") else th
            got = c["thickness"][k] if k < len(c["thickness"]) else None
            if not _close(got, want):
                v.append({"what": f"{case['label']}: construction {l['name']!r}, layer {k} ({m!r}): thickness written {th}"
                                  + (f" (library air-gap size {want})" if want != th else "") + f", typed {got}", "key": {"class": "typed-value", "field": "wallcons.thickness"}})
                break
    wins = {w["name"]: w for w in t["windows"]}
    for f in d.get("floors", []):
        for sp in f.get("spaces", []):
            for wl in sp.get("walls", []):
                for w in wl.get("windows", []):
                    g = wins.get(w["name"])
                    if g is None:
                        v.append({"what": f"{case['label']}: window {w['name']!r} written in the file is not among the typed windows", "key": {"class": "typed-missing", "coll": "windows"}})
                        continue
                    for fld, src in (("x", "x"), ("y", "y"), ("width", "w"), ("height", "h"), ("setback", "setback")):
                        if not _close(g[fld], w[src]):
                            v.append({"what": f"{case['label']}: window {w['name']!r}: {fld} written {w[src]}, typed {g[fld]}", "key": {"class": "typed-value", "field": "windows." + fld}})
    days = {x["name"]: x for x in t["schedules"] if x.get("kind") == "day"}
    for dd in d.get("days", []):
        g = days.get(dd["name"])
        if g is not None and len(dd["values"]) == 24 and not (len(g["values"]) == 24 and all(_close(a, b) for a, b in zip(g["values"], dd["values"]))):
            v.append({"what": f"{case['label']}: daily schedule {dd['name']!r}: values written {dd['values'][:4]}.., typed {g['values'][:4]}..", "key": {"class": "typed-value", "field": "day.values"}})
    return v[:3]


def nontrivial(case):
    return "ok" in case["impl"]


def distinct_key(case):
    return hash(case.get("text"))


def branch(case, out):
    return case["kind"] + (":ok" if "ok" in case["impl"] else ":err")


def sample(case, out):
    ok = case["impl"].get("ok", [])
    return {"label": case["label"], "kind": case["kind"], "blocks": len(ok) if isinstance(ok, list) else None, "layout": case.get("layout")}


def extra_coverage():
    return dict(_stats)
