"""C18 — HULC file parsers recover every value that is written in the file."""
import collections
import json
import os
from fractions import Fraction

from framework import CACHE

PROP = "C18"
LEAN_MODS = ["Cte.Props.C18"]
HARNESS = "c18"
N = {"quick": 400, "thorough": 6000}
CORRESPONDENCES = ["build_blocks(text) = Bdl.buildBlocks text: accept/reject, and per block type, name, parent and every attribute value "
                   "(numbers as the f32 nearest to the written decimal)"]
GENERATED_OBLIGATIONS = ["Cte/Gen/BlockTypes.lean regenerated from hulc/src/bdl/blocks.rs (type table, parent classes, line filters, markers)"]
SPEC_FAMILIES = ()
RULE = ("the 12 BDL sections of the shipped .ctehexml files, the 56 legacy .cte files and the embedded catalogue as they are; the same files "
        "re-printed from their parsed blocks in a random layout (indentation with blanks/tabs, 0..14 blanks around '=', trailing blanks, CRLF, "
        "comment and blank lines, quoted or bare strings, lists on one or several lines with the closing parenthesis on its own line or not); "
        "documents printed from random descriptions of 1..40 blocks over all 53 block types, well nested (floor > space > wall > window / "
        "construction / door) or, in the odd stream, with orphans, duplicate keys, numeric words (inf, nan) and near-numbers (1e, 1.2.3, 0x10); "
        "numbers in 30 written forms (+3.5, .5, 5., 1e20, 1E-3, 00012, 1e-40, 1e39, 16777217 ...); and the generated documents damaged by one "
        "edit (line deleted / duplicated / swapped, block removed, '=' or quote dropped, '..' appended, truncated); non-trivial = the text is "
        "accepted; distinct = distinct text")
ASSUMPTIONS = ["the decimal a model number carries is rounded to f32 by this module (exact rational arithmetic, ties to even); Rust's own "
               "decimal-to-float conversion is part of what is compared, not trusted",
               "KyGananciasSolares.txt and NewBDL_O.tbl parsers and the typed elements built from the blocks are covered by the kyg/tbl/typed "
               "families when present in this run (see coverage)"]
TRUSTED = ["modelled: Cte/Model/Bdl.lean (clean_lines, sanitize_lider_data, build_blocks, BdlBlock::from_str, parse_attributes, AttrMap::insert "
           "typing as a recogniser of Rust's float grammar); generated: Cte/Gen/BlockTypes.lean"]
_stats = collections.Counter()
_types = None


def generate(rundir, tier):
    import gen_bdl_types
    try:
        gen_bdl_types.main()
    except SystemExit as e:
        return [f"gen_bdl_types failed ({e.code}): hulc/src/bdl/blocks.rs no longer has the shape the translator reads"]
    return []


def types():
    global _types
    if _types is None:
        t = json.load(open(os.path.join(CACHE, "gen", "blocktypes.json")))["types"]
        _types = {s: v for s, v in t}
    return _types


def f32_of_decimal(neg, mant, exp):
    """the f32 nearest to (-1)^neg * mant * 10^exp (ties to even), as a Python float / inf"""
    sign = -1.0 if neg else 1.0
    if mant == 0:
        return sign * 0.0
    if exp > 400:
        return sign * float("inf")
    if exp < -6000:
        return sign * 0.0
    x = Fraction(mant) * Fraction(10) ** exp
    e = x.numerator.bit_length() - x.denominator.bit_length()
    if x < Fraction(2) ** e:
        e -= 1
    e = max(e, -126)
    ulp = Fraction(2) ** (e - 23)
    q = x / ulp
    m = q.numerator // q.denominator
    rem = q - m
    if rem > Fraction(1, 2) or (rem == Fraction(1, 2) and m % 2 == 1):
        m += 1
    val = m * ulp
    if val >= Fraction(2) ** 128:
        return sign * float("inf")
    return sign * float(val)


def model_num(n):
    if n == "nan":
        return "nan"
    if "inf" in n:
        return "-inf" if n["inf"] else "inf"
    v = f32_of_decimal(n["neg"], int(n["mant"]), n["exp"])
    if v == float("inf"):
        return "inf"
    if v == float("-inf"):
        return "-inf"
    return v


def norm_val(v, model):
    if v is None:
        return ("?",)
    if "s" in v:
        return ("s", v["s"])
    n = model_num(v["n"]) if model else v["n"]
    if isinstance(n, float) or isinstance(n, int):
        n = float(n)
        return ("n", n, str(n)[0] == "-")      # keeps the sign of zero
    return ("n", n)


def norm_blocks(bs, model):
    out = []
    for b in bs:
        bt = types().get(b["btype"], "?" + b["btype"]) if model else b["btype"]
        out.append((bt, b["name"], b["parent"], tuple(sorted((k, norm_val(v, model)) for k, v in b["attrs"]))))
    return out


def first_diff(a, b):
    if len(a) != len(b):
        return f"{len(a)} blocks vs {len(b)}"
    for i, (x, y) in enumerate(zip(a, b)):
        if x != y:
            for f, (p, q) in zip(("type", "name", "parent"), zip(x[:3], y[:3])):
                if p != q:
                    return f"block {i} ({x[1]!r}): {f} {p!r} vs {q!r}"
            da, db = dict(x[3]), dict(y[3])
            for k in sorted(set(da) | set(db)):
                if da.get(k) != db.get(k):
                    return f"block {i} ({x[1]!r}): attribute {k!r} {da.get(k)} vs {db.get(k)}"
            return f"block {i} differs"
    return None


def compare(case, out):
    if case.get("op") != "bdlblocks":
        return []
    imp = case["impl"]
    _stats["family:" + case["kind"]] += 1
    if "panic" in imp:
        return [(CORRESPONDENCES[0], "implementation panics; model: " + ("ok" if "ok" in out else "err"))]
    if ("ok" in imp) != ("ok" in out):
        return [(CORRESPONDENCES[0], f"implementation {'accepts' if 'ok' in imp else 'rejects (' + imp.get('err', '')[:80] + ')'}, "
                 f"model {'accepts' if 'ok' in out else 'rejects (' + str(out.get('err'))[:80] + ')'}")]
    if "ok" not in imp:
        _stats["rejected_by_both"] += 1
        return []
    a, b = norm_blocks(imp["ok"], False), norm_blocks(out["ok"], True)
    _stats["blocks_compared"] += len(a)
    _stats["attributes_compared"] += sum(len(x[3]) for x in a)
    d = first_diff(a, b)
    return [(CORRESPONDENCES[0], "implementation vs model: " + d)] if d else []


def oracle(case):
    """the abstract description the text was printed from is what must be read back"""
    exp = case.get("expected")
    if exp is None:
        return []
    imp = case["impl"]
    kind = case["kind"]
    if "ok" not in imp:
        return [{"what": f"{case['label']}: a well-formed printed document is rejected: {imp}", "key": {"class": "printed-document-rejected", "kind": kind}}]
    a, b = norm_blocks(imp["ok"], False), norm_blocks(exp, False)
    d = first_diff(a, b)
    _stats["documents_checked_against_description"] += 1
    if d:
        return [{"what": f"{case['label']}: parsed blocks differ from the description the text was printed from: {d}",
                 "key": {"class": "value-not-recovered", "kind": kind}}]
    return []


def nontrivial(case):
    return "ok" in case["impl"]


def distinct_key(case):
    return hash(case.get("text"))


def branch(case, out):
    return case["kind"] + (":ok" if "ok" in case["impl"] else ":err")


def sample(case, out):
    return {"label": case["label"], "kind": case["kind"], "blocks": len(case["impl"].get("ok", [])), "layout": case.get("layout")}


def extra_coverage():
    return dict(_stats)
