"""C04 — the JSON model format is lossless, idempotent and stable."""
import collections
import math
import gen_common

PROP = "C04"
LEAN_MODS = ["Cte.Props.C04", "Cte.Props.C04Schema"]
HARNESS = "c04"
N = {"quick": 150, "thorough": 3000}
CORRESPONDENCES = ["canonical re-serialisation of a document along the generated schema = what the implementation writes after loading it "
                   "(JSON values; load errors as a class)"]
GENERATED_OBLIGATIONS = ["Cte/Gen/Schema.lean regenerated from bemodel/src/types/*.rs (schema_keys_nodup, schema_closed, untagged_ok, matprops_* re-checked; "
                         "every skip predicate must be paired with the default it skips)"]
RULE = ("the 7 shipped model files, converted projects and generated models covering every field (both material variants, present/absent "
        "options, values equal to and different from each default, empty and non-empty collections, override entries that set nothing, "
        "empty `extra`), plus mutants: a deleted key, a default written explicitly, unknown keys; non-trivial = the document loads; "
        "distinct = distinct document")
ASSUMPTIONS = ["numbers are compared as values (f32 shortest-decimal printing and correctly rounded parsing are serde_json/ryu, not modelled)",
               "models containing NaN or infinity are outside the statement (they print as null)"]
TRUSTED = ["modelled: Cte/Model/Codec.lean (field rules), Cte/Model/SchemaWalk.lean (walk along the schema); translator tools/gen_schema.py "
           "(fails closed on what it cannot parse); serde's derive is modelled by the field rules and validated differentially"]
_stats = collections.Counter()


def generate(rundir, tier):
    probs = gen_common.regenerate_tables()
    if probs:
        return probs
    import gen_schema
    import os
    from framework import CACHE
    return gen_schema.main(os.path.join(CACHE, "gen", "tables.json"))


def _eq(a, b, path=""):
    """JSON value equality with numbers compared as f32-level values; returns first difference or None"""
    if isinstance(a, bool) or isinstance(b, bool):
        return None if a is b else f"{path}: {a!r} vs {b!r}"
    if isinstance(a, (int, float)) and isinstance(b, (int, float)):
        if a == b or abs(a - b) <= 1e-6 * max(abs(a), abs(b)):
            return None
        return f"{path}: {a!r} vs {b!r}"
    if type(a) != type(b):
        return f"{path}: {type(a).__name__} vs {type(b).__name__}"
    if isinstance(a, dict):
        if set(a) != set(b):     # key order is not observable through the harness (maps are read into sorted maps)
            return f"{path}: keys differ: only left {sorted(set(a) - set(b))[:3]}, only right {sorted(set(b) - set(a))[:3]}"
        for k in a:
            d = _eq(a[k], b[k], path + "/" + k)
            if d:
                return d
        return None
    if isinstance(a, list):
        if len(a) != len(b):
            return f"{path}: length {len(a)} vs {len(b)}"
        for i, (x, y) in enumerate(zip(a, b)):
            d = _eq(x, y, f"{path}/{i}")
            if d:
                return d
        return None
    return None if a == b else f"{path}: {a!r} vs {b!r}"


def compare(case, out):
    imp = case["impl"]
    _stats[case["kind"]] += 1
    if imp["outcome"] == "ok":
        if not out.get("ok"):
            return [(CORRESPONDENCES[0], f"{case['kind']} {case.get('note')}: implementation loads it, model rejects it: {out}")]
        d = _eq(imp["reser"], out["json"])
        if d:
            return [(CORRESPONDENCES[0], f"{case['kind']} {case.get('note')}: re-serialisations differ at {d}")]
    elif imp["outcome"] == "load-error":
        _stats["load-errors"] += 1
        if out.get("ok"):
            return [(CORRESPONDENCES[0], f"{case['kind']} {case.get('note')}: implementation rejects it ({imp['msg'][:60]}), model accepts it")]
    return []


def oracle(case):
    v = []
    imp = case["impl"]
    kind = case["kind"]
    if kind in ("shipped", "model"):
        if imp["outcome"] != "ok":
            v.append({"what": f"a serialised model does not load back: {imp.get('msg')}", "key": {"class": "does-not-load-back"}})
            return v
        d = _eq(case["json"], imp["reser"])
        if d:
            v.append({"what": f"{'shipped model file' if kind == 'shipped' else 'model'} does not survive load + serialise: {d}",
                      "key": {"class": "not-lossless", "kind": kind, "where": d.split(":")[0].split("/")[1] if "/" in d else ""}})
        if kind == "model" and isinstance(case.get("note"), dict) and case["note"].get("reloaded_equals_in_memory_model") is False:
            v.append({"what": "serialising a model and loading it back does not give a model equal in every field (Debug renderings differ)",
                      "key": {"class": "not-lossless-in-memory"}})
        if not imp["stable"]:
            v.append({"what": "serialising again does not give the identical text", "key": {"class": "not-idempotent"}})
    elif kind == "explicit-default" and imp["outcome"] == "ok":
        # a document with the default written out loads like the one with the key omitted (= the original)
        pass
    elif kind == "unknown-keys" and imp["outcome"] != "ok":
        v.append({"what": f"unknown keys make a model fail to load: {imp.get('msg')}", "key": {"class": "unknown-keys"}})
    return v


def nontrivial(case):
    return case["impl"]["outcome"] == "ok"


def distinct_key(case):
    import framework
    return framework.case_hash(case["json"])


def branch(case, out):
    return case["kind"] + "/" + case["impl"]["outcome"]


def sample(case, out):
    return {"label": case["label"], "kind": case["kind"], "note": case.get("note"), "outcome": case["impl"]["outcome"],
            "top_level_keys": list(case["json"].keys()) if isinstance(case["json"], dict) else None}


def extra_coverage():
    return dict(_stats)
