"""C17 — schedules: calendar partition, weekday alignment, occupancy and load means."""
import collections
import math

PROP = "C17"
LEAN_MODS = ["Cte.Props.C17", "Cte.Props.C17Occ", "Cte.Props.C17Conv"]
HARNESS = "c17"
N = {"quick": 200, "thorough": 4000}
CORRESPONDENCES = ["expansion of every yearly schedule to daily-schedule ids (get_year_as_day_sch) and number of hourly values",
                   "period lengths of a converted HULC yearly schedule from its end dates",
                   "occ_spaces_hours_in_use, occ_spaces_average_load and loads_avg of each loads definition",
                   "runs (daily schedule, number of days) of a converted HULC weekly schedule = weekRuns of its 7 written day names"]
RULE = ("yearly schedules with 1..12 periods over 7-day, 1-run, short, long, empty and dangling weekly schedules; a shipped project "
        "re-converted with its yearly schedule rewritten to random increasing end-date lists (all 364 single cut dates in thorough); "
        "real and generated models with 1..6 occupied spaces sharing or not sharing schedules; non-trivial = more than one period / "
        "occupied hours > 0; distinct = distinct input")
ASSUMPTIONS = ["a missing daily schedule counts as 0 in averages and contributes no occupied hour (behaviour after the repair of the panics)",
               "loads compared with relative tolerance 1e-3"]
TRUSTED = ["modelled: Cte/Model/Schedules.lean"]
DIM = [31, 28, 31, 30, 31, 30, 31, 31, 30, 31, 30, 31]
_stats = collections.Counter()


def fin(x):
    return isinstance(x, (int, float)) and math.isfinite(x)


def compare(case, out):
    res = []
    op = case["op"]
    if op == "yeardays":
        if "years" not in out:
            return [(CORRESPONDENCES[0], f"model gave {str(out)[:200]}")]
        for i, mo in zip(case["impl"]["years"], out["years"]):
            _stats["yearly_schedules"] += 1
            if i["days"] != mo["days"]:
                res.append((CORRESPONDENCES[0], f"schedule {i['id']}: impl {len(i['days'])} days, model {len(mo['days'])} days; first difference at "
                            f"{next((k for k, (a, b) in enumerate(zip(i['days'], mo['days'])) if a != b), 'length')}"))
            elif i["n_values"] != mo["n_values"]:
                res.append((CORRESPONDENCES[0], f"schedule {i['id']}: impl {i['n_values']} hourly values, model {mo['n_values']}"))
    elif op == "enddates":
        imp = case["impl"]
        if imp["outcome"] == "ok":
            if out.get("counts") != imp["counts"]:
                res.append((CORRESPONDENCES[1], f"dates {case['dates']}: impl periods {imp['counts']}, model {out.get('counts')}"))
        elif out.get("counts") is not None and imp["outcome"] != "err":
            res.append((CORRESPONDENCES[1], f"dates {case['dates']}: impl {imp}, model {out.get('counts')}"))
    elif op == "weekruns":
        _stats["weekly_schedules"] += 1
        got = [tuple(r) for r in case["impl"]["runs"]]
        want = [tuple(r) for r in out.get("runs", [])]
        if len(case["days"]) == 7 and got != want:
            res.append((CORRESPONDENCES[3], f"week {case['label']} written {case['days']}: implementation runs {got}, model {want}"))
    elif op == "occupancy":
        imp = case["impl"]
        if imp["outcome"] != "ok" or "hours_in_use" not in out:
            return res
        if imp["hours_in_use"] != out["hours_in_use"]:
            res.append((CORRESPONDENCES[2], f"hours in use: impl {imp['hours_in_use']}, model {out['hours_in_use']}"))
        if fin(imp["average_load"]) and abs(imp["average_load"] - out["average_load"]) > 1e-3 * max(1.0, abs(out["average_load"])):
            res.append((CORRESPONDENCES[2], f"average load: impl {imp['average_load']}, model {out['average_load']}"))
        for k, v in imp["loads_avg"].items():
            mv = out["loads_avg"].get(k)
            if fin(v) and mv is not None and abs(v - mv) > 1e-3 * max(1.0, abs(mv)):
                res.append((CORRESPONDENCES[2], f"loads_avg of {k}: impl {v}, model {mv}"))
    return res[:4]


def _ordinal(d, m):
    return sum(DIM[:m - 1]) + d


def oracle(case):
    v = []
    op = case["op"]
    if op == "yeardays":
        sch = case["model"].get("schedules", {})
        weeks = {w["id"]: [i for i, c in w.get("values", []) for _ in range(c)] for w in sch.get("week", [])}
        years = {y["id"]: y for y in sch.get("year", [])}
        for i in case["impl"]["years"]:
            y = years[i["id"]]
            vals = y.get("values", [])
            ok_weeks = all(len(weeks.get(w, [])) >= 1 for w, _ in vals)
            if ok_weeks and len(i["days"]) != sum(c for _, c in vals):
                v.append({"what": f"yearly schedule expands to {len(i['days'])} days, its periods add up to {sum(c for _, c in vals)}", "key": {"class": "year-length"}})
            if ok_weeks and all(len(weeks[w]) == 7 for w, _ in vals):
                start = 0
                exp = []
                for w, c in vals:
                    exp += [weeks[w][(start + k) % 7] for k in range(c)]
                    start += c
                if exp != i["days"] and len(exp) == len(i["days"]):
                    k = next(k for k, (a, b) in enumerate(zip(exp, i["days"])) if a != b)
                    v.append({"what": f"day {k} of the year takes the wrong weekday slot (year starting on a Monday)", "key": {"class": "weekday-alignment"}})
    elif op == "enddates":
        imp = case["impl"]
        dates = case["dates"]
        ords = [_ordinal(d, m) for d, m in dates]
        want = [b - a for a, b in zip([0] + ords[:-1], ords)]
        if imp["outcome"] == "panic":
            v.append({"what": f"conversion of a project with yearly end dates {dates} crashes: {imp['msg'][:100]}", "key": {"class": "enddates-panic"}})
        elif imp["outcome"] == "ok" and imp["counts"] != want:
            v.append({"what": f"end dates {dates} (day, month) give periods {imp['counts']}, the calendar gives {want}", "key": {"class": "periods-partition"}})
        elif imp["outcome"] == "ok" and sum(imp["counts"]) != 365:
            v.append({"what": f"periods {imp['counts']} do not add up to 365", "key": {"class": "periods-sum"}})
    elif op == "weekruns":
        runs = case["impl"]["runs"]
        days = case["days"]
        if len(days) == 7:
            expanded = [r[0] for r in runs for _ in range(r[1])]
            if sum(r[1] for r in runs) != 7:
                v.append({"what": f"weekly schedule written {days} is converted into runs covering {sum(r[1] for r in runs)} days: {runs}", "key": {"class": "week-runs-cover"}})
            elif expanded != days:
                v.append({"what": f"weekly schedule written {days} is converted into runs that expand to {expanded}", "key": {"class": "week-runs-order"}})
    elif op == "occupancy":
        imp = case["impl"]
        if imp["outcome"] == "panic":
            v.append({"what": f"indicator computation crashes on a model with schedules: {imp['msg'][:100]}", "key": {"class": "occupancy-panic"}})
        elif imp["outcome"] == "ok" and "hours_in_use" in imp:
            want = hours_by_definition(case.get("model") or {})
            if want is not None:
                _stats["occupancy_checked_against_definition"] += 1
                if want != imp["hours_in_use"]:
                    v.append({"what": f"occupied time: implementation {imp['hours_in_use']} h, but {want} hours of the year have non-zero occupancy in some "
                                      "habitable space inside the envelope", "key": {"class": "hours-in-use-definition"}})
    return v[:3]


def hours_by_definition(model):
    """hours of the year in which at least one habitable space inside the envelope has non-zero occupancy, straight from the model JSON;
    None when the statement does not single out a number (occupancy schedules of different lengths, values too close to zero to call)"""
    sch = model.get("schedules", {})
    days = {d["id"]: d.get("values", []) for d in sch.get("day", [])}
    weeks = {w["id"]: [i for i, c in w.get("values", []) for _ in range(c)] for w in sch.get("week", [])}
    years = {y["id"]: y.get("values", []) for y in sch.get("year", [])}
    loads = {l["id"]: l for l in model.get("loads", [])}
    expanded = []
    for s in model.get("spaces", []):
        if s.get("kind", "CONDITIONED") == "UNINHABITED" or not s.get("inside_tenv", True) or s.get("loads") is None:
            continue
        ps = (loads.get(s["loads"]) or {}).get("people_schedule")
        if ps is None:
            continue            # no occupancy at all in this space
        if ps not in years:
            return None
        out, start = [], 0
        for w, c in years[ps]:
            wk = weeks.get(w, [])
            if wk:
                out += [wk[(start % 7 + k) % len(wk)] for k in range(c)]
            start += c
        expanded.append(out)
    if not expanded:
        return 0
    if len({len(e) for e in expanded}) != 1:
        return None
    total = 0
    for k in range(len(expanded[0])):
        ids = {e[k] for e in expanded}
        if any(i in days and len(days[i]) != 24 for i in ids):
            return None
        for h in range(24):
            vals = [days[i][h] for i in ids if i in days and h < len(days[i])]
            if any(0 < abs(x) <= 1e-4 for x in vals):
                return None
            if any(abs(x) > 1e-4 for x in vals):
                total += 1
    return total


def nontrivial(case):
    if case["op"] == "yeardays":
        return any(len(y["days"]) > 0 for y in case["impl"]["years"])
    if case["op"] == "enddates":
        return case["impl"]["outcome"] == "ok" and len(case["dates"]) > 1
    return case["impl"].get("hours_in_use", 0) > 0


def distinct_key(case):
    import framework
    return framework.case_hash([case["op"], case.get("dates"), case.get("model")])


def branch(case, out):
    return case["op"] + "/" + case["impl"].get("outcome", "ok")


def sample(case, out):
    if case["op"] == "enddates":
        return {"label": case["label"], "dates": case["dates"], "impl": case["impl"], "model": out}
    if case["op"] == "yeardays":
        y = case["impl"]["years"][0] if case["impl"]["years"] else {}
        return {"label": case["label"], "n_days": len(y.get("days", [])), "first_days": y.get("days", [])[:9]}
    return {"label": case["label"], "impl": {k: case["impl"].get(k) for k in ("hours_in_use", "average_load")}, "model": {k: (out or {}).get(k) for k in ("hours_in_use", "average_load")}}


def extra_coverage():
    return dict(_stats)
