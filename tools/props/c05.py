"""C05 — export and indicators are deterministic, reproducible and history-independent."""
import collections

PROP = "C05"
LEAN_MODS = ["Cte.Props.C05", "Cte.Props.C05Src"]
GENERATED_OBLIGATIONS = ["Cte/Gen/LockSites.lean regenerated from the sources of hulc, bemodel, climate, hulc2model (statics, lock sites, lock programs; "
                         "repo_shared_state, repo_no_guard_writes, repo_lock_progs_wf, indicatorsProg_matches_source re-checked)"]
HARNESS = "c05"
N = {"quick": 40, "thorough": 600}
import os
import subprocess
from framework import CACHE, ENV, Lock
from framework import HARNESS as HARNESS_DIR
CORRESPONDENCES = ["lock traces of indicator computations on 1, 2, 8 and 16 threads, recorded by the hook of /repo (--cfg cteenergymodel_verif: every "
                   "acquisition and release of the three tables, by thread), replayed on the process machine (Proc.replay): every event is the "
                   "thread's next lock action in indicatorsProg, every acquisition is granted by the machine, every thread finishes its program"]
HOOK_TARGET = os.path.join(CACHE, "target-harness-hook")
TRACEFILE = os.path.join(CACHE, "run", "locktrace.jsonl")
HARNESS_ARGS = {"quick": {"tracefile": TRACEFILE}, "thorough": {"tracefile": TRACEFILE}}
RULE = ("every shipped project (+ legacy files; all 56 in thorough) converted twice in the process, in a fresh process and on concurrent threads "
        "(byte identity of the JSON); the 6 shipped (project, reference model) pairs; a project with an unrelated definition added (ids of existing "
        "elements); indicators of real and generated models, each generated model followed by a twin with the same ids and other values, computed "
        "forwards, again, on 16 threads, and in a fresh process in reverse order; non-trivial = the project converts / the model computes; "
        "distinct = distinct label")
ASSUMPTIONS = ["reference models are compared with the converter output as JSON values (a float printed as 1e+30 or 1e30 is the same number)",
               "the machine's programs are tied to the Rust code by a syntactic translator (statics, .lock() sites, guard extents), which fails closed on a "
               "lock it cannot attribute; interior mutability hidden in a dependency, and the order of the two locking calls inside compute(), are "
               "validated behaviourally (results under threads), not by trace inclusion"]
TRUSTED = ["modelled: Cte/Model/Process.lean (tables never written, one lock at a time, poisoning); results are compared through a 64-bit hash of the JSON text"]
_stats = collections.Counter()


def generate(rundir, tier):
    import gen_lock_sites
    probs, _, _ = gen_lock_sites.main()
    # the harness built against /repo with the hook on, run for the lock traces
    if os.path.exists(TRACEFILE):
        os.remove(TRACEFILE)
    env = dict(ENV, CARGO_TARGET_DIR=HOOK_TARGET, RUSTFLAGS="--cfg cteenergymodel_verif")
    with Lock("cargo-hook"):
        p = subprocess.run(["cargo", "build", "--release", "--offline", "--quiet"], cwd=HARNESS_DIR, env=env, stdout=subprocess.PIPE, stderr=subprocess.STDOUT)
    if p.returncode != 0:
        probs.append("the harness does not build against /repo with the hook on (--cfg cteenergymodel_verif): " + p.stdout.decode(errors="replace")[-300:])
        return probs
    outdir = os.path.dirname(TRACEFILE)
    os.makedirs(outdir, exist_ok=True)
    p = subprocess.run([os.path.join(HOOK_TARGET, "release", "cteverif"), "c05trace", "--out", outdir, "--tier", tier,
                        "--seed", os.environ.get("VERIF_SEED", "1") or "1"], env=env, stdout=subprocess.PIPE, stderr=subprocess.STDOUT, timeout=1200)
    if p.returncode != 0 or not os.path.exists(TRACEFILE):
        probs.append("the hooked harness did not produce lock traces: " + p.stdout.decode(errors="replace")[-300:])
    return probs


def compare(case, out):
    if case.get("op") != "locktrace":
        return []
    i = case["impl"]
    _stats["lock_traces_replayed"] += 1
    _stats["lock_events_replayed"] += i["events"]
    res = []
    want = 6 * i["computations_finished"]
    if i["unknown_tables"]:
        res.append((CORRESPONDENCES[0], f"{case['label']}: {i['unknown_tables']} events on a mutex that is none of the three tables"))
    if i["computations_finished"] != case["threads"] * case["runs"]:
        res.append((CORRESPONDENCES[0], f"{case['label']}: {i['computations_finished']} of {case['threads'] * case['runs']} computations finished"))
    if not out.get("accepted"):
        k = out.get("first_rejected")
        ev = case["events"][k] if isinstance(k, int) and k < len(case["events"]) else None
        res.append((CORRESPONDENCES[0], f"{case['label']}: the machine cannot produce the recorded trace: event {k} {ev} is not the thread's next lock "
                    f"action, or the table is held by another thread ({out.get('why', '')})"))
    elif not out.get("finished"):
        res.append((CORRESPONDENCES[0], f"{case['label']}: the recorded trace ({i['events']} events, {want} expected) leaves a thread in the middle of its program"))
    return res


def oracle(case):
    v = []
    i = case["impl"]
    k = case["kind"]
    _stats[k] += 1
    if k == "convert" and i["converts"]:
        for f, what in (("same_twice", "twice in the same process"), ("same_threaded", "on concurrent threads"), ("same_fresh_process", "in a fresh process (which converts the projects in the reverse order)")):
            if i[f] is False:
                v.append({"what": f"{case['label']}: converting the same project {what} does not give byte-identical JSON", "key": {"class": "convert-" + f}})
    elif k == "reference":
        if not i["converted"] or not i["reference_loaded"]:
            v.append({"what": f"{case['label']}: reference project does not convert or reference model does not load", "key": {"class": "reference-missing"}})
        elif not i["equal_as_json_values"]:
            v.append({"what": f"{case['label']}: the shipped project does not convert to the reference model shipped next to it", "key": {"class": "reference-differs", "which": case["label"]}})
    elif k == "ids-local":
        if not i["converted"]:
            v.append({"what": "project with an unrelated definition added does not convert", "key": {"class": "ids-local-convert"}})
        elif i["changed_ids"]:
            v.append({"what": f"adding an unrelated definition changed the ids of {i['changed_ids']}", "key": {"class": "ids-not-local"}})
    elif k == "indicators":
        for f, what in (("same_again", "computed again in the same process"), ("same_16_threads", "computed concurrently on 16 threads"),
                        ("same_fresh_process_reverse_order", "computed in a fresh process after the models that follow it instead of those that precede it")):
            if i[f] is False:
                v.append({"what": f"{case['label']}: indicators differ when {what}", "key": {"class": "indicators-" + f}})
    return v


def nontrivial(case):
    i = case["impl"]
    return bool(i.get("converts", True)) and bool(i.get("converted", True))


def distinct_key(case):
    return case["label"]


def branch(case, out):
    return case["kind"]


def sample(case, out):
    return {"label": case["label"], "impl": case["impl"]}


def extra_coverage():
    return dict(_stats)
