"""Regeneration of lean/Cte/Gen/* from the running code (shared by C10, C20, C05)."""
import os
import subprocess
import sys
from framework import CACHE, HARNESS_BIN, ENV, VERIF, cargo_build, Lock

sys.path.insert(0, os.path.join(VERIF, "tools"))


def regenerate_tables():
    """returns a list of problems (empty when the generated files are up to date with /repo)"""
    ok, out = cargo_build()
    if not ok:
        return ["harness does not build; tables not regenerated"]
    gen = os.path.join(CACHE, "gen")
    os.makedirs(gen, exist_ok=True)
    with Lock("gen"):
        p = subprocess.run([HARNESS_BIN, "dump", "--out", gen], env=ENV, stdout=subprocess.PIPE, stderr=subprocess.STDOUT)
        if p.returncode != 0:
            return ["table dump failed: " + p.stdout.decode(errors="replace")[-300:]]
        import gen_tables
        return gen_tables.main(os.path.join(gen, "tables.json"))
