"""C13 — ray casting: accelerated queries equal exhaustive ones and match exact geometry."""
import collections
import math

PROP = "C13"
LEAN_MODS = ["Cte.Props.C13", "Cte.Props.C13Iter", "Cte.Props.C13Poly", "Cte.Props.C13Reveal"]
HARNESS = "c13"
N = {"quick": 150, "thorough": 3000}
CORRESPONDENCES = ["BVH answer per ray on sets of boxes (sizes 0..200, duplicates, coinciding centres, flat boxes; leaf sizes 1,2,8,30)",
                   "ray-polygon hit/miss and hit parameter (star-shaped polygons with 3..12 corners, random poses)",
                   "global corners of the reveal surfaces of a set-back window (shades_for_setback) = Place.reveals on the wall pose as (cos, sin) pairs",
                   "WallGeom::aabb = aabbOfPoints of the polygon's global corners (exactly: minima and maxima of the same numbers)"]
# the model's polygon test is proved to be the even-odd rule in exact arithmetic (pip_eq_evenodd, ray_hit_iff):
# a disagreement outside the exclusion zone is a failing input of the property itself
SPEC_FAMILIES = (CORRESPONDENCES[1],)
RULE = ("obstacle sets of 0..200 boxes (random, duplicated, identical, flat, same centre) x 24 rays (random and axis-parallel); "
        "polygons x poses x 16 rays aimed at the polygon's plane, plus exact grid probes level with polygon vertices; windows "
        "with setback on walls of several tilts; non-trivial = at least one ray hits; distinct = distinct input")
ASSUMPTIONS = ["hit/miss is compared only when the exact crossing point is >= 1 mm from the outline, the plane parameter >= 1 mm and "
               "the ray is not within the code's parallel threshold (the property's own exclusion)",
               "box tests are compared only on rays for which exact and f32 exhaustive answers agree (rays grazing a box face)"]
TRUSTED = ["modelled: Cte/Model/BvhIter.lean (the code's node list, id counter, the two id-keyed maps and the explicit-stack walk; proved equal to the "
           "recursive Cte/Model/Bvh.lean in Props/C13Iter), Box.lean (exact slab test), Ray.lean; the driver runs the code-shaped path",
           "the tree shape (pre-order: inner node / leaf size) of model and implementation is compared and reported as a statistic only: the partition "
           "uses an f32 mean in the code and an exact one in the model, so near-ties may legitimately fall on the other side",
           "the f32 slab test is tied to the exact one by comparison on the generated rays, not by proof"]
_stats = collections.Counter()


def compare(case, out):
    res = []
    op = case.get("op")
    if op == "bvh":
        if "bvh" not in out:
            return [(CORRESPONDENCES[0], f"model gave {str(out)[:200]}")]
        imp = case["impl"]
        if out["bvh"] != out["exhaustive"]:
            res.append((CORRESPONDENCES[0], "model: accelerated answer differs from exhaustive (contradicts bvh_eq_exhaustive)"))
        if "panic" in out["bvh"]:
            res.append((CORRESPONDENCES[0], "model: the code-shaped build reached an unwrap on None (contradicts reconstruct_generate)"))
        if imp["outcome"] == "ok" and "shape" in imp:
            ms = [(-1 if x < 0 else x) for x in out.get("shape", [])]
            _stats["tree_shapes_compared"] += 1
            if ms == imp["shape"]:
                _stats["tree_shapes_equal"] += 1
            if len(imp["shape"]) > 1:
                _stats["trees_with_inner_nodes"] += 1
        if imp["outcome"] == "ok":
            for i, (ib, ie, me) in enumerate(zip(imp["bvh"], imp["exhaustive"], out["exhaustive"])):
                _stats["box_rays"] += 1
                if ie != me:
                    _stats["box_rays_grazing"] += 1
                    continue
                if ib != out["bvh"][i]:
                    res.append((CORRESPONDENCES[0], f"ray {i}: impl BVH says {ib}, model says {out['bvh'][i]}"))
        return res[:3]
    if op == "raypoly":
        if "hits" not in out:
            return [(CORRESPONDENCES[1], f"model gave {str(out)[:200]}")]
        bb = out.get("aabb")
        if bb is not None and case["impl"].get("corners"):
            _stats["polygon_boxes_compared"] += 1
            if any(abs(a - b) > 1e-6 * max(1.0, abs(b)) for a, b in zip(case["impl"]["aabb"], bb)):
                res.append((CORRESPONDENCES[3], f"bounding box {case['impl']['aabb']}, box of the corners {bb}"))
        for i, (h, mh, cr) in enumerate(zip(case["impl"]["hits"], out["hits"], out["crossing"])):
            _stats["poly_rays"] += 1
            near = cr is None or cr["d2"] is None or cr["d2"] < 1e-6 or abs(cr["t"]) < 1e-3 or abs(abs(cr["denom"]) - 1e-5) < 5e-6
            if (h is None) != (mh is None):
                if near:
                    _stats["poly_rays_excluded"] += 1
                else:
                    res.append((CORRESPONDENCES[1], f"ray {i}: impl {'hit' if h is not None else 'miss'}, exact geometry {'hit' if mh is not None else 'miss'} (crossing {cr})"))
            elif h is not None:
                _stats["poly_hits"] += 1
                if abs(h - mh) > 1e-3 * max(1.0, abs(mh)):
                    res.append((CORRESPONDENCES[1], f"ray {i}: hit parameter impl={h} model={mh}"))
        return res[:3]
    if op == "reveals":
        got = case["impl"].get("reveals_global", [])
        want = out.get("reveals", [])
        _stats["reveal_models_compared"] += 1
        if len(got) != len(want):
            return [(CORRESPONDENCES[2], f"{len(got)} reveal surfaces generated, the model of shades_for_setback gives {len(want)}")]
        for k, (g, w) in enumerate(zip(got, want)):
            d = max(min(math.dist(p, q) for q in w) for p in g) if g and w else 1.0
            if d > 2e-3:
                return [(CORRESPONDENCES[2], f"reveal {k}: a corner of the generated surface is {d:.4f} m from the model's ({[round(c, 3) for c in g[0]]} vs {[round(c, 3) for c in w[0]]})")]
        return []
    return res


def _rect(points):
    return sorted((round(p[0], 2), round(p[1], 2), round(p[2], 2)) for p in points)


def _close_sets(a, b, tol=0.0101):
    if len(a) != len(b):
        return False
    b = list(b)
    for p in a:
        k = next((i for i, q in enumerate(b) if all(abs(x - y) <= tol for x, y in zip(p, q))), None)
        if k is None:
            return False
        b.pop(k)
    return True


def oracle(case):
    v = []
    op = case.get("op")
    if op == "bvh":
        imp = case["impl"]
        n, leaf = len(case["boxes"]), case["leaf"]
        if imp["outcome"] == "timeout":
            v.append({"what": f"building the acceleration structure for {n} obstacles (leaf size {leaf}) does not terminate",
                      "key": {"class": "bvh-build-does-not-terminate"}})
        elif imp["outcome"] != "ok":
            v.append({"what": f"building/querying the acceleration structure for {n} obstacles crashes: {imp.get('msg')}",
                      "key": {"class": "bvh-crash", "empty": n == 0}})
        elif imp["bvh"] != imp["exhaustive"]:
            k = next(i for i, (a, b) in enumerate(zip(imp["bvh"], imp["exhaustive"])) if a != b)
            v.append({"what": f"{n} obstacles, leaf size {leaf}: ray {k} blocked={imp['bvh'][k]} by the acceleration structure, {imp['exhaustive'][k]} testing every obstacle",
                      "key": {"class": "bvh-differs-from-exhaustive", "fits_in_leaf": n <= leaf}})
        if imp["outcome"] == "ok":
            # axis-parallel rays against exact geometry, decided with a margin of 1 mm on every face (a zero component may be written +0 or -0)
            for i, r in enumerate(case["rays"]):
                o, d = r[:3], r[3:]
                nz = [k for k in range(3) if d[k] != 0]
                if len(nz) != 1:
                    continue
                k = nz[0]
                others = [a for a in range(3) if a != k]
                m = 1e-3
                clear_hit = any(all(b[a] + m < o[a] < b[a + 3] - m for a in others) and ((d[k] > 0 and b[k + 3] > o[k] + m) or (d[k] < 0 and b[k] < o[k] - m)) for b in case["boxes"])
                clear_miss = all(any(o[a] < b[a] - m or o[a] > b[a + 3] + m for a in others) or ((d[k] > 0 and b[k + 3] < o[k] - m) or (d[k] < 0 and b[k] > o[k] + m)) for b in case["boxes"])
                _stats["axis_rays_decided_exactly"] += int(clear_hit or clear_miss)
                got = imp["exhaustive"][i]
                if (clear_hit and not got) or (clear_miss and got):
                    v.append({"what": f"{n} boxes: the axis-parallel ray {r} {'passes through a box' if clear_hit else 'passes clear of every box'} (1 mm margin) but testing every box says blocked={got}",
                              "key": {"class": "box-test-differs-from-exact", "negative_zero": any(str(c) == '-0.0' for c in d)}})
                    break
        return v
    if op == "raypoly":
        if not case["impl"]["aabb_contains_corners"]:
            v.append({"what": "bounding box of a polygon does not contain all its corners", "key": {"class": "aabb-corners"}})
        return v
    if case.get("kind") == "reveal":
        w = case["window"]
        x, y, ww, h, s = w["x"], w["y"], w["w"], w["h"], w["setback"]
        spec = {
            "top": [(x, y + h, 0), (x + ww, y + h, 0), (x + ww, y + h, -s), (x, y + h, -s)],
            "sill": [(x, y, 0), (x + ww, y, 0), (x + ww, y, -s), (x, y, -s)],
            "left": [(x, y, 0), (x, y + h, 0), (x, y + h, -s), (x, y, -s)],
            "right": [(x + ww, y, 0), (x + ww, y + h, 0), (x + ww, y + h, -s), (x + ww, y, -s)],
        }
        got = case["impl"]["reveals_wall_coords"]
        _stats["reveal_windows"] += 1
        if len(got) != 4:
            v.append({"what": f"{len(got)} reveal surfaces generated for a set-back window, expected 4", "key": {"class": "reveal-count"}})
            return v
        missing = [k for k, r in spec.items() if not any(_close_sets(r, [tuple(p) for p in g]) for g in got)]
        if missing:
            side_only = set(missing) <= {"left", "right"}
            v.append({"what": f"wall tilt {case['tilt']}: reveal surfaces {missing} do not span the gap between wall plane and window plane",
                      "key": {"class": "reveal-not-spanning-gap", "which": "side-fins" if side_only else "other",
                              "vertical_wall": abs(case["tilt"] - 90.0) < 1e-6}})
        return v
    return v


def nontrivial(case):
    op = case.get("op")
    if op == "bvh":
        return any(case["impl"].get("exhaustive", []))
    if op == "raypoly":
        return any(h is not None for h in case["impl"]["hits"])
    return case.get("kind") == "reveal"


def distinct_key(case):
    import framework
    return framework.case_hash({k: case.get(k) for k in ("boxes", "rays", "polygon", "inv_rot", "window", "tilt")})


def branch(case, out):
    if case.get("op") == "bvh":
        n, leaf = len(case["boxes"]), case["leaf"]
        return "bvh/" + ("empty" if n == 0 else "fits-leaf" if n <= leaf else "split") + "/" + case["impl"]["outcome"]
    if case.get("op") == "raypoly":
        return f"raypoly/tilt{case['tilt']}"
    return "reveal/" + ("vertical" if abs(case.get("tilt", 90) - 90) < 1e-6 else "tilted")


def sample(case, out):
    if case.get("op") == "bvh":
        return {"label": case["label"], "n": len(case["boxes"]), "first_ray": case["rays"][0], "impl": {k: (v[:6] if isinstance(v, list) else v) for k, v in case["impl"].items()}}
    if case.get("op") == "raypoly":
        return {"label": case["label"], "polygon": case["polygon"], "impl_hits": case["impl"]["hits"][:6], "model_hits": (out or {}).get("hits", [])[:6]}
    return {"label": case["label"], "window": case.get("window")}


def extra_coverage():
    return dict(_stats)
