"""C03 — conversion preserves the building's geometry and orientation conventions."""
import collections
import math

PROP = "C03"
LEAN_MODS = ["Cte.Props.C03", "Cte.Props.C03Win"]
HARNESS = "c03"
N = {"quick": 60, "thorough": 600}
CORRESPONDENCES = ["global corner points of every wall (wall_geometry + to_global_coords_matrix) = Placement model evaluated on the source values"]
SPEC_FAMILIES = (CORRESPONDENCES[0],)
RULE = ("the 12 shipped .ctehexml projects and the 56 legacy .cte files (those that convert), generated buildings (1..3 storeys x 1..3 spaces, "
        "rectangular / L / pentagonal outlines, spaces offset within the storey and, in a third of them, turned by 30 / 90 / 180 / 215.5 / 270 "
        "degrees, walls on outline edges, floors and ceilings from the outline, roofs by own polygon, windows with set-back, rectangular and "
        "vertex-defined shades, global deviation 0 or random in [0,360)); each also re-converted with its global deviation turned by one of "
        "90, 180, 37, 123.25, 271.5, 359 degrees; non-trivial = converts and has walls; distinct = distinct label")
ASSUMPTIONS = ["the source conventions are DOE-2's: a space outline is in the space's own frame, turned clockwise by the space AZIMUTH about the space "
               "origin, then offset by the space X,Y in building coordinates; the building is turned clockwise by the global deviation; a surface "
               "azimuth is the clockwise angle from north of its outward normal, its local x axis is to the right seen from outside, tilt 0 faces up. "
               "The shipped file 14_BloqueH5P.CTE (12 spaces turned by 180 degrees and offset) only tiles under this reading",
               "trigonometric functions are evaluated in double precision by this module; the Lean theorems are algebraic identities over (cos, sin) pairs"]
TRUSTED = ["modelled: Cte/Model/Placement.lean (wall_geometry position and polygon for edge / TOP / BOTTOM / own-polygon elements, "
           "orientation_bdl_to_52016, to_global_coords_matrix) over exact (cos, sin) pairs; libm's sin/cos/atan2 and f32 rounding are outside the model"]
_stats = collections.Counter()
TOL = 0.011   # 1 cm (+ f32 noise)


def rot(deg, x, y):
    c, s = math.cos(math.radians(deg)), math.sin(math.radians(deg))
    return (c * x - s * y, s * x + c * y)


def place(sp, g, p):
    """space coordinates -> global coordinates"""
    x, y = rot(-sp["angle"], p[0], p[1])
    x, y = x + sp["x"], y + sp["y"]
    x, y = rot(-g, x, y)
    return (x, y, p[2] + sp["z"])


def surface_axes(A, tilt):
    a, t = math.radians(A), math.radians(tilt)
    xh = (-math.cos(a), math.sin(a), 0.0)
    yh = (-math.cos(t) * math.sin(a), -math.cos(t) * math.cos(a), math.sin(t))
    return xh, yh


def cross(a, b):
    return (a[1] * b[2] - a[2] * b[1], a[2] * b[0] - a[0] * b[2], a[0] * b[1] - a[1] * b[0])


def newell(pts):
    n = [0.0, 0.0, 0.0]
    for i in range(len(pts)):
        p, q = pts[i], pts[(i + 1) % len(pts)]
        n[0] += (p[1] - q[1]) * (p[2] + q[2])
        n[1] += (p[2] - q[2]) * (p[0] + q[0])
        n[2] += (p[0] - q[0]) * (p[1] + q[1])
    l = math.sqrt(sum(c * c for c in n)) or 1.0
    return tuple(c / l for c in n)


def shoelace(pts):
    return abs(sum(pts[i][0] * pts[(i + 1) % len(pts)][1] - pts[(i + 1) % len(pts)][0] * pts[i][1] for i in range(len(pts)))) / 2


def dist(a, b):
    return math.sqrt(sum((x - y) ** 2 for x, y in zip(a, b)))


def set_dist(A, B):
    """largest distance from a point of one set to the nearest point of the other"""
    if not A or not B:
        return float("inf")
    return max(max(min(dist(a, b) for b in B) for a in A), max(min(dist(a, b) for a in A) for b in B))


def expected_wall(w, sp, g):
    """(expected global corners, expected outward normal in global coordinates, expected area)"""
    loc, pts = w["location"], w["pts"]
    P = sp["pts"]
    if loc not in (None, "TOP", "BOTTOM"):
        if not (loc.startswith("V") and loc[1:].isdigit() and 1 <= int(loc[1:]) <= len(P)):
            return None
        k = int(loc[1:]) - 1
        p1, p2 = P[k], P[(k + 1) % len(P)]
        b = (p1[0] + w["x"], p1[1] + w["y"])
        e = (b[0] + p2[0] - p1[0], b[1] + p2[1] - p1[1])
        h = sp["height"]
        cs = [place(sp, g, (b[0], b[1], w["z"])), place(sp, g, (e[0], e[1], w["z"])), place(sp, g, (e[0], e[1], w["z"] + h)), place(sp, g, (b[0], b[1], w["z"] + h))]
        d = (p2[0] - p1[0], p2[1] - p1[1])
        n = (d[1], -d[0])
        n = rot(-sp["angle"], *n)
        n = rot(-g, *n)
        ln = math.hypot(*n) or 1.0
        return cs, (n[0] / ln, n[1] / ln, 0.0), math.hypot(*d) * h
    if pts is None:
        z = w["z"] + (sp["height"] if loc == "TOP" else 0.0)
        cs = [place(sp, g, (p[0] + w["x"], p[1] + w["y"], z)) for p in P]
        return cs, (0.0, 0.0, 1.0 if loc == "TOP" else -1.0), shoelace(P)
    if loc == "BOTTOM":
        return None     # BOTTOM with own polygon: rejected by the conversion
    xh, yh = surface_axes(w["angle"], w["tilt"])
    cs = []
    for u, v in pts:
        q = (w["x"] + u * xh[0] + v * yh[0], w["y"] + u * xh[1] + v * yh[1], w["z"] + u * xh[2] + v * yh[2])
        cs.append(place(sp, g, q))
    n = cross(xh, yh)
    nx, ny = rot(-sp["angle"], n[0], n[1])
    nx, ny = rot(-g, nx, ny)
    return cs, (nx, ny, n[2]), shoelace(pts)


def check_model(case, obs, label):
    """violations of one converted project"""
    v = []
    src, mdl = obs["source"], obs["model"]
    g = src["global_deviation"]
    spaces = {s["name"]: s for s in src["spaces"]}
    mw = {w["name"]: w for w in mdl["walls"]}
    for w in src["walls"]:
        sp = spaces.get(w["space"])
        m = mw.get(w["name"])
        if sp is None or m is None:
            continue
        exp = expected_wall(w, sp, g)
        cs = m["geometry"]["corners"]
        if exp is None or cs is None:
            _stats["walls_without_expectation"] += 1
            continue
        ecs, en, earea = exp
        kind = "edge" if w["location"] not in (None, "TOP", "BOTTOM") else ("outline-" + w["location"].lower() if w["pts"] is None else "own-polygon")
        turned = abs(sp["angle"]) > 1e-6
        _stats["walls:" + kind + (":turned-space" if turned else "")] += 1
        d = set_dist(ecs, [tuple(c) for c in cs])
        key = {"class": "wall-corners", "kind": kind, "space_turned": turned, "space_offset": abs(sp["x"]) + abs(sp["y"]) > 1e-6}
        if d > TOL * (3 if max(abs(c) for p in ecs for c in p) > 100 else 1):
            v.append({"what": f"{label}: wall {w['name']} ({kind}, space {sp['name']} angle {sp['angle']} offset ({sp['x']},{sp['y']})): corner off by {d:.3f} m; "
                              f"expected {[tuple(round(c, 2) for c in p) for p in ecs[:2]]}.., converted {[tuple(round(c, 2) for c in p) for p in cs[:2]]}..", "key": key})
            continue
        n = newell([tuple(c) for c in cs])
        if sum(a * b for a, b in zip(n, en)) < 0.9:
            v.append({"what": f"{label}: wall {w['name']} ({kind}): normal {tuple(round(c, 2) for c in n)} does not point away from the space "
                              f"(expected {tuple(round(c, 2) for c in en)})", "key": dict(key, **{"class": "wall-normal"})})
        a = shoelace(m["geometry"]["polygon"])
        if abs(a - earea) > 0.02 + 0.002 * earea:
            v.append({"what": f"{label}: wall {w['name']} ({kind}): area {a:.3f} vs source {earea:.3f}", "key": dict(key, **{"class": "wall-area"})})
    mwin = {w["name"]: w for w in mdl["windows"]}
    for w in src["windows"]:
        m = mwin.get(w["name"])
        if m is None:
            continue
        _stats["windows"] += 1
        got = (m["position"] or [None, None]) + [m["width"], m["height"], m["setback"]]
        want = [w["x"], w["y"], w["w"], w["h"], w["setback"]]
        if m["wall"] != w["wall"] or any(a is None or abs(a - b) > TOL for a, b in zip(got, want)):
            v.append({"what": f"{label}: window {w['name']}: (x, y, width, height, setback) {got} in wall {m['wall']} vs source {want} in {w['wall']}", "key": {"class": "window-placement"}})
    msh = {s["name"]: s for s in mdl["shades"]}
    for s in src["shades"]:
        m = msh.get(s["name"])
        if m is None or m["geometry"]["corners"] is None:
            continue
        if s["rect"]:
            r = s["rect"]
            xh, yh = surface_axes(r["azimuth"], r["tilt"])
            pts = [(0, 0), (r["width"], 0), (r["width"], r["height"]), (0, r["height"])]
            ecs = []
            for u, vv in pts:
                q = (r["x"] + u * xh[0] + vv * yh[0], r["y"] + u * xh[1] + vv * yh[1], r["z"] + u * xh[2] + vv * yh[2])
                x, y = rot(-g, q[0], q[1])
                ecs.append((x, y, q[2]))
            kind = "rectangle"
        elif s["verts"] and len(s["verts"]) >= 3:
            ecs = [rot(-g, p[0], p[1]) + (p[2],) for p in s["verts"]]
            kind = "vertices"
        else:
            continue
        _stats["shades:" + kind] += 1
        d = set_dist(ecs, [tuple(c) for c in m["geometry"]["corners"]])
        if d > TOL:
            v.append({"what": f"{label}: shade {s['name']} ({kind}): corner off by {d:.3f} m; expected {[tuple(round(c, 2) for c in p) for p in ecs]}, "
                              f"converted {[tuple(round(c, 2) for c in p) for p in m['geometry']['corners']]}", "key": {"class": "shade-corners", "kind": kind}})
    return v


def seg_dist(p, a, b):
    ax, ay, bx, by = a[0], a[1], b[0], b[1]
    dx, dy = bx - ax, by - ay
    l2 = dx * dx + dy * dy
    t = 0.0 if l2 == 0 else max(0.0, min(1.0, ((p[0] - ax) * dx + (p[1] - ay) * dy) / l2))
    return math.hypot(p[0] - (ax + t * dx), p[1] - (ay + t * dy))


def check_fit(obs, label):
    """the building must fit together, whatever the conventions: a vertical interior wall of space A with NEXT-TO B lies on B's outline"""
    v = []
    src, mdl = obs["source"], obs["model"]
    g = src["global_deviation"]
    spaces = {s["name"]: s for s in src["spaces"]}
    mw = {w["name"]: w for w in mdl["walls"]}
    for w in src["walls"]:
        if not w["nextto"] or w["location"] in (None, "TOP", "BOTTOM") or w["nextto"] not in spaces or w["name"] not in mw:
            continue
        a, b = spaces.get(w["space"]), spaces[w["nextto"]]
        cs = mw[w["name"]]["geometry"]["corners"]
        if not cs or a is None or a["floor"] != b["floor"]:
            continue
        outline = [place(b, g, (p[0], p[1], 0.0)) for p in b["pts"]]
        zmin = min(c[2] for c in cs)
        foot = [c for c in cs if abs(c[2] - zmin) < 1e-3]
        d = max(min(seg_dist(c, outline[i], outline[(i + 1) % len(outline)]) for i in range(len(outline))) for c in foot)
        turned = abs(a["angle"]) > 1e-6 or abs(b["angle"]) > 1e-6
        _stats["fit:interior-walls" + (":turned" if turned else "")] += 1
        if d > 0.06:
            _stats["fit:misfits"] += 1
            v.append({"what": f"{label}: interior wall {w['name']} of {a['name']} (angle {a['angle']}) does not lie on the outline of the space it is next to, "
                              f"{b['name']} (angle {b['angle']}): {d:.2f} m away", "key": {"class": "building-does-not-fit", "turned": turned}})
    return v


def check_turn(case):
    v = []
    a, b, delta = case["impl"], case["turned"], case["delta"]
    if not b or b.get("outcome") != "ok":
        if b:
            v.append({"what": f"{case['label']}: converts, but not after turning the building by {delta}: {b.get('msg')}", "key": {"class": "turn-rejected"}})
        return v
    wa = {w["name"]: w for w in a["model"]["walls"]}
    for w in b["model"]["walls"]:
        o = wa.get(w["name"])
        if not o or o["geometry"]["corners"] is None or w["geometry"]["corners"] is None:
            continue
        exp = [rot(-delta, p[0], p[1]) + (p[2],) for p in o["geometry"]["corners"]]
        d = max(dist(p, q) for p, q in zip(exp, w["geometry"]["corners"]))
        scale = max(1.0, max(abs(c) for p in exp for c in p) / 50)
        if d > TOL * scale:
            v.append({"what": f"{case['label']}: turning the building by {delta} moves a corner of wall {w['name']} {d:.3f} m away from the turned position",
                      "key": {"class": "turn-positions"}})
            break
        da = ((o["geometry"]["azimuth"] - delta) - w["geometry"]["azimuth"]) % 360
        horizontal = abs(w["geometry"]["tilt"]) < 1e-3 or abs(w["geometry"]["tilt"] - 180) < 1e-3
        if min(da, 360 - da) > 0.02 and not horizontal:
            v.append({"what": f"{case['label']}: turning the building by {delta}: azimuth of wall {w['name']} goes from {o['geometry']['azimuth']} to "
                              f"{w['geometry']['azimuth']}", "key": {"class": "turn-azimuth"}})
            break
    ia, ib = a["model"]["indicators"], b["model"]["indicators"]
    if ia and ib:
        _stats["turns_with_indicators"] += 1
        for k in ("area_ref", "compactness", "vol_env_net", "vol_env_gross", "K", "n50"):
            x, y = ia.get(k), ib.get(k)
            if (x is None) != (y is None) or (x is not None and abs(x - y) > 0.011 + 1e-4 * abs(x)):
                v.append({"what": f"{case['label']}: turning the building by {delta} changes {k}: {x} -> {y}", "key": {"class": "turn-indicator", "which": k}})
        for k in ("wall_u", "wall_area_net"):
            for name, x in ia[k].items():
                y = ib[k].get(name)
                if (x is None) != (y is None) or (x is not None and abs(x - y) > 0.011 + 1e-4 * abs(x)):
                    v.append({"what": f"{case['label']}: turning the building by {delta} changes {k} of {name}: {x} -> {y}", "key": {"class": "turn-indicator", "which": k}})
                    break
    return v


def source_from_description(desc):
    """the source geometry read from the generator's own description of the project (not through the parser)"""
    spaces, walls, windows, shades = [], [], [], []
    for fl in desc["floors"]:
        for sp in fl["spaces"]:
            spaces.append({"name": sp["name"], "pts": sp["pts"], "x": sp["x"], "y": sp["y"], "z": fl["z"] + sp["z"], "height": fl["height"],
                           "angle": sp["azimuth"], "floor": fl["name"]})
            for w in sp["walls"]:
                loc = w["loc"]
                base = {"name": w["name"], "space": sp["name"], "x": 0.0, "y": 0.0, "z": 0.0, "pts": None, "nextto": w["next_to"]}
                if isinstance(loc, dict) and "Vertex" in loc:
                    k = loc["Vertex"] - 1
                    p1, p2 = sp["pts"][k], sp["pts"][(k + 1) % len(sp["pts"])]
                    n = (p2[1] - p1[1], -(p2[0] - p1[0]))
                    base.update({"location": f"V{k + 1}", "tilt": 90.0, "angle": math.degrees(math.atan2(n[0], n[1])) % 360})
                elif loc == "Top":
                    base.update({"location": "TOP", "tilt": 0.0, "angle": 0.0})
                elif isinstance(loc, dict) and "TopAz" in loc:
                    base.update({"location": "TOP", "tilt": 0.0, "angle": loc["TopAz"]})
                elif loc == "Bottom":
                    base.update({"location": "BOTTOM", "tilt": 180.0, "angle": 180.0})
                else:
                    p = loc["Poly"]
                    base.update({"location": None, "x": p["x"], "y": p["y"], "z": p["z"], "tilt": p["tilt"], "angle": p["azimuth"], "pts": p["pts"]})
                walls.append(base)
                for wn in w["windows"]:
                    windows.append({"name": wn["name"], "wall": w["name"], "x": wn["x"], "y": wn["y"], "w": wn["w"], "h": wn["h"], "setback": wn["setback"]})
    for sh in desc["shades"]:
        g = sh["geom"]
        if "Rect" in g:
            shades.append({"name": sh["name"], "rect": g["Rect"], "verts": None})
        else:
            shades.append({"name": sh["name"], "rect": None, "verts": g["Verts"]})
    return {"global_deviation": desc["azimuth"], "spaces": spaces, "walls": walls, "windows": windows, "shades": shades}


def compare(case, out):
    obs = case["impl"]
    if obs["outcome"] != "ok" or out.get("skip"):
        return []
    mw = {w["name"]: w for w in obs["model"]["walls"]}
    res = []
    for w in out.get("walls", []):
        m = mw.get(w["name"])
        if m is None:
            continue
        cs = m["geometry"]["corners"]
        if w["corners"] is None or cs is None:
            if (w["corners"] is None) != (cs is None):
                res.append((CORRESPONDENCES[0], f"wall {w['name']}: model {'has no' if w['corners'] is None else 'has'} geometry, implementation {'has none' if cs is None else 'has'}"))
            continue
        _stats["walls_compared_with_model"] += 1
        d = set_dist([tuple(c) for c in w["corners"]], [tuple(c) for c in cs])
        scale = max(1.0, max(abs(c) for p in cs for c in p) / 30)
        if d > TOL * scale:
            res.append((CORRESPONDENCES[0], f"wall {w['name']}: a corner of the converted wall is {d:.3f} m from the model's: model {[tuple(round(c, 2) for c in p) for p in w['corners'][:2]]}.., "
                        f"implementation {[tuple(round(c, 2) for c in p) for p in cs[:2]]}.."))
        if len(res) >= 3:
            break
    ms = {s["name"]: s for s in obs["model"]["shades"]}
    for sh in out.get("shades", []):
        m = ms.get(sh["name"])
        if m is None or m["geometry"]["corners"] is None:
            continue
        _stats["shades_compared_with_model"] += 1
        cs = m["geometry"]["corners"]
        d = set_dist([tuple(c) for c in sh["corners"]], [tuple(c) for c in cs])
        scale = max(1.0, max(abs(c) for p in cs for c in p) / 30)
        if d > TOL * scale:
            res.append((CORRESPONDENCES[0], f"shade {sh['name']}: a corner of the converted shade is {d:.3f} m from the model's: model {[tuple(round(c, 2) for c in p) for p in sh['corners']]}, "
                        f"implementation {[tuple(round(c, 2) for c in p) for p in cs]}"))
    return res[:4]


def oracle(case):
    obs = case["impl"]
    if obs["outcome"] in ("parse-panic", "panic"):
        return [{"what": f"{case['label']}: {obs['outcome']}: {obs.get('msg')}", "key": {"class": "panic"}}]
    if obs["outcome"] != "ok":
        _stats["not_converted"] += 1
        used = {mn for l in (case.get("description") or {}).get("layers", []) for mn in l.get("materials", [])}
        if case.get("description") and not any("  " in mn for mn in used):
            # printed from a well-formed description of a building: it has to convert (a material name with two blanks in a row is
            # squeezed by the parser and no longer matches the layers that name it: such a project is rejected by the unchanged code, a
            # behaviour recorded in DESIGN 10.3, not counted here)
            return [{"what": f"{case['label']}: a project printed from a well-formed description does not convert: {obs['outcome']}: {str(obs.get('msg'))[:120]}",
                     "key": {"class": "generated-project-rejected"}}]
        return []
    v = check_model(case, obs, case["label"])
    if case.get("description"):
        # generated projects: also against the generator's own description, so that a value lost or altered by the
        # parser (hulc::bdl::Data) shows up as a misplaced element
        _stats["projects_checked_against_description"] += 1
        v2 = check_model(case, dict(obs, source=source_from_description(case["description"])), case["label"] + " (from the description)")
        for x in v2:
            x["key"] = dict(x["key"], source="description")
        v += v2
    if case["kind"] == "real":
        check_fit(obs, case["label"])     # statistic only: shipped projects are not all self-consistent (ejemplo5.CTE has 4 misfits among unturned spaces)
    v += check_turn(case)
    # keep one violation per class
    seen, out = set(), []
    for x in v:
        k = tuple(sorted(x["key"].items()))
        if k not in seen:
            seen.add(k)
            out.append(x)
    return out[:6]


def nontrivial(case):
    return case["impl"]["outcome"] == "ok" and bool(case["impl"]["model"]["walls"])


def distinct_key(case):
    return case["label"]


def branch(case, out):
    o = case["impl"]
    if o["outcome"] != "ok":
        return case["kind"] + ":" + o["outcome"]
    turned = any(abs(s["angle"]) > 1e-6 for s in o["source"]["spaces"])
    return case["kind"] + (":turned-spaces" if turned else ":plain") + (":deviated" if abs(o["source"]["global_deviation"]) > 1e-6 else "")


def sample(case, out):
    o = case["impl"]
    return {"label": case["label"], "outcome": o["outcome"], "walls": len(o.get("model", {}).get("walls", [])), "delta": case["delta"]}


def extra_coverage():
    return dict(_stats)
