"""C15 — the model checker reports exactly the broken links."""
PROP = "C15"
LEAN_MODS = ["Cte.Props.C15"]
HARNESS = "c15"
N = {"quick": 600, "thorough": 30000}
CORRESPONDENCES = ["check-warnings (id, kind) list, in order", "indicator warnings = checker warnings"]
RULE = ("models: shipped files + converted projects (+ legacy files in thorough) + generated models with random "
        "subsets of links redirected to absent/nil ids and bridge lengths negated (0 becomes -0.0); "
        "non-trivial = at least one broken link or negative/zero-signed bridge; distinct = distinct model JSON")
ASSUMPTIONS = ["warning kind is recovered from the Spanish message prefix",
               "`&Model` guarantees non-modification; additionally the serialised model is compared before/after"]
TRUSTED = ["modelled: Cte/Model/Check.lean (hand-written, code-shaped), Cte/Model/Decode.lean (JSON decoder)"]


def _spec(model):
    """independent statement-level recomputation of the broken links (negative = l < 0)"""
    spaces = {s["id"] for s in model.get("spaces", [])}
    walls = {w["id"] for w in model.get("walls", [])}
    cons = model.get("cons", {})
    wallcons = {c["id"] for c in cons.get("wallcons", [])}
    wincons = {c["id"] for c in cons.get("wincons", [])}
    out = []
    for w in model.get("walls", []):
        if w["space"] not in spaces:
            out.append((w["id"], "wall-space"))
        if w["cons"] not in wallcons:
            out.append((w["id"], "wall-cons"))
        if w.get("next_to") is not None and w["next_to"] not in spaces:
            out.append((w["id"], "wall-nextto"))
    for w in model.get("windows", []):
        if w["wall"] not in walls:
            out.append((w["id"], "win-wall"))
        if w["cons"] not in wincons:
            out.append((w["id"], "win-cons"))
    for tb in model.get("thermal_bridges", []):
        if tb.get("l", 0.0) < 0:
            out.append((tb["id"], "tb-negative"))
    return out


def compare(case, out):
    res = []
    impl = [(w[0], w[1]) for w in case["impl"]["warnings"]]
    model = [tuple(w) for w in out.get("warnings", [])] if "warnings" in out else None
    if model is None:
        res.append((CORRESPONDENCES[0], f"model gave {out}"))
    elif impl != model:
        res.append((CORRESPONDENCES[0], f"impl={impl[:6]} model={model[:6]}"))
    return res


def oracle(case):
    v = []
    impl = sorted((w[0], w[1]) for w in case["impl"]["warnings"])
    spec = sorted(_spec(case["model"]))
    if impl != spec:
        extra = [x for x in impl if x not in spec]
        missing = [x for x in spec if x not in impl]
        kinds = sorted({k for _, k in extra + missing})
        negzero = False
        if extra and all(k == "tb-negative" for _, k in extra) and not missing:
            ls = {tb["id"]: tb.get("l", 0.0) for tb in case["model"].get("thermal_bridges", [])}
            import math
            negzero = all(ls.get(i, 1) == 0 and math.copysign(1, ls.get(i, 1)) < 0 for i, _ in extra)
        v.append({"what": f"checker warnings differ from the broken links: extra={extra[:4]} missing={missing[:4]}",
                  "key": {"class": "negative-zero-length-flagged" if negzero else "warnings-differ", "kinds": ",".join(kinds)}})
    if any(w[2] != "WARNING" for w in case["impl"]["warnings"]):
        v.append({"what": "warning level is not WARNING", "key": {"class": "level"}})
    if not case["impl"]["unmodified"]:
        v.append({"what": "check() modified the model", "key": {"class": "modified"}})
    iw = case["impl"].get("indicator_warnings")
    if isinstance(iw, list):
        if [(w[0], w[1]) for w in iw] != [(w[0], w[1]) for w in case["impl"]["warnings"]]:
            v.append({"what": "warnings returned with the indicators are not the checker's", "key": {"class": "indicator-warnings"}})
    return v


def nontrivial(case):
    return len(_spec(case["model"])) > 0 or any(tb.get("l", 1) == 0 for tb in case["model"].get("thermal_bridges", []))


def branch(case, out):
    kinds = sorted({w[1] for w in case["impl"]["warnings"]})
    return "+".join(kinds) if kinds else "closed"


def sample(case, out):
    return {"label": case["label"], "walls": len(case["model"].get("walls", [])),
            "windows": len(case["model"].get("windows", [])),
            "impl_warnings": case["impl"]["warnings"][:5], "model_warnings": (out or {}).get("warnings", [])[:5]}
