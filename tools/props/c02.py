"""C02 — converted models are referentially closed, or conversion fails with an error."""
import collections

PROP = "C02"
LEAN_MODS = ["Cte.Props.C02", "Cte.Props.C03Values", "Cte.Props.C17Conv"]
HARNESS = "c02"
N = {"quick": 60, "thorough": 600}
CORRESPONDENCES = ["Model::try_from accepts / rejects exactly when Conv.convert does (on the names and references of the parsed project)",
                   "ids and references of the converted model = Conv.convert's (ids read back as the names they derive from)",
                   "values of the converted spaces (level, height, envelope flag, multiplier, type, ventilation, illuminance), thermal bridges "
                   "(kind by name, length, psi), windows (offset, size, set-back), loads (gains per area), layer and window constructions, glazing and frames "
                   "= ConvValues on the typed elements of BdlData.dataNew(text)"]
SPEC_FAMILIES = ()
RULE = ("the BDL section of the 12 shipped .ctehexml files and the 56 legacy .cte files (catalogue merged in, as the tools do), generated projects "
        "(1..3 storeys x 1..3 spaces, rectangular / L / pentagonal outlines, interior walls with NEXT-TO, roofs by TOP or own polygon, ground "
        "floors, windows, materials / layers / glazing / frames / window constructions, day / week / year schedules, space and system "
        "conditions, shades, thermal bridges), and each of them with one referenced definition (SPACE, LAYERS, MATERIAL, GLASS-TYPE, "
        "NAME-FRAME, GAP, DAY / WEEK / year SCHEDULE, SPACE-CONDITIONS, SYSTEM-CONDITIONS, POLYGON, FLOOR) renamed in its header or removed; "
        "non-trivial = the project converts; distinct = distinct label")
ASSUMPTIONS = ["an id stands for the name it was derived from: uuid_from_obj is an md5 of the element's debug text, assumed collision free; the "
               "harness checks on every converted model that ids are unique within each collection (that part is observed, not assumed)",
               "db.materials / wallcons / wincons are keyed by the element's own name (Data::new and the catalogue insert them so); checked per case"]
TRUSTED = ["modelled: Cte/Model/Convert.lean — cons_from_bdl, spaces_from_bdl, walls_from_bdl (+ wall_geometry as accept/reject), "
           "windows_and_shades_from_bdl, schedules_from_bdl, loads_from_bdl, thermostats_from_bdl and IdMaps, references only (no values, no geometry)"]
_stats = collections.Counter()

COLLS = ["walls", "windows", "spaces", "wallcons", "wincons", "materials", "glasses", "frames", "years", "weeks", "days", "loads", "thermostats",
         "shades", "thermal_bridges"]
NIL = "00000000-0000-0000-0000-000000000000"


def closure_problems(m):
    """independent referential check of the implementation's model skeleton: unique ids, every reference resolves"""
    probs = []
    ids = {}
    for c in COLLS:
        seen = set()
        for e in m.get(c, []):
            if e["id"] in seen:
                probs.append(("duplicate-id", c, e.get("name")))
            if e["id"] == NIL:
                probs.append(("nil-id", c, e.get("name")))
            seen.add(e["id"])
        ids[c] = seen

    def ref(coll, owner, field, value, target, optional=False):
        if value is None:
            if not optional:
                probs.append(("missing-reference", coll + "." + field, owner))
            return
        if value == NIL:
            probs.append(("nil-reference", coll + "." + field, owner))
        elif value not in ids[target]:
            probs.append(("dangling-reference", coll + "." + field, owner))

    for w in m["walls"]:
        ref("wall", w["name"], "cons", w["cons"], "wallcons")
        ref("wall", w["name"], "space", w["space"], "spaces")
        ref("wall", w["name"], "next_to", w["next_to"], "spaces", optional=True)
    for w in m["windows"]:
        ref("window", w["name"], "cons", w["cons"], "wincons")
        ref("window", w["name"], "wall", w["wall"], "walls")
    for c in m["wallcons"]:
        for l in c["layers"]:
            ref("wallcons", c["name"], "layer", l, "materials")
    for c in m["wincons"]:
        ref("wincons", c["name"], "glass", c["glass"], "glasses")
        ref("wincons", c["name"], "frame", c["frame"], "frames")
    for s in m["spaces"]:
        ref("space", s["name"], "loads", s["loads"], "loads", optional=True)
        ref("space", s["name"], "thermostat", s["thermostat"], "thermostats", optional=True)
    for l in m["loads"]:
        for f in ("people_schedule", "equipment_schedule", "lighting_schedule"):
            ref("loads", l["name"], f, l[f], "years", optional=True)
    for t in m["thermostats"]:
        for f in ("temp_max", "temp_min"):
            ref("thermostat", t["name"], f, t[f], "years", optional=True)
    for y in m["years"]:
        for r in y["refs"]:
            ref("year", y["name"], "week", r, "weeks")
    for w in m["weeks"]:
        for r in w["refs"]:
            ref("week", w["name"], "day", r, "days")
    return probs


def names_view(m):
    """the implementation's skeleton with every id replaced by the name of the element that carries it"""
    n = {c: {e["id"]: e["name"] for e in m.get(c, [])} for c in COLLS}

    def nm(c, i):
        return None if i is None else n[c].get(i, "?" + str(i))
    return {
        "walls": sorted((w["name"], nm("wallcons", w["cons"]), nm("spaces", w["space"]), nm("spaces", w["next_to"])) for w in m["walls"]),
        "windows": sorted((w["name"], nm("wincons", w["cons"]), nm("walls", w["wall"])) for w in m["windows"]),
        "spaces": sorted((s["name"], nm("loads", s["loads"]), nm("thermostats", s["thermostat"])) for s in m["spaces"]),
        "wallcons": sorted((c["name"], tuple(nm("materials", l) for l in c["layers"])) for c in m["wallcons"]),
        "wincons": sorted((c["name"], nm("glasses", c["glass"]), nm("frames", c["frame"])) for c in m["wincons"]),
        "materials": sorted(e["name"] for e in m["materials"]), "glasses": sorted(e["name"] for e in m["glasses"]),
        "frames": sorted(e["name"] for e in m["frames"]),
        "years": sorted((y["name"], tuple(nm("weeks", r) for r in y["refs"])) for y in m["years"]),
        "weeks": sorted((w["name"], tuple(nm("days", r) for r in w["refs"])) for w in m["weeks"]),
        "days": sorted(e["name"] for e in m["days"]),
        "loads": sorted((l["name"], nm("years", l["people_schedule"]), nm("years", l["equipment_schedule"]), nm("years", l["lighting_schedule"])) for l in m["loads"]),
        "thermostats": sorted((t["name"], nm("years", t["temp_max"]), nm("years", t["temp_min"])) for t in m["thermostats"]),
    }


def model_view(o):
    return {
        "walls": sorted((w["id"], w["cons"], w["space"], w["next_to"]) for w in o["walls"]),
        "windows": sorted((w["id"], w["cons"], w["wall"]) for w in o["windows"]),
        "spaces": sorted((s["id"], s["loads"], s["thermostat"]) for s in o["spaces"]),
        "wallcons": sorted((c["id"], tuple(c["layers"])) for c in o["wallcons"]),
        "wincons": sorted((c["id"], c["glass"], c["frame"]) for c in o["wincons"]),
        "materials": sorted(o["materials"]), "glasses": sorted(o["glasses"]), "frames": sorted(o["frames"]),
        "years": sorted((y["id"], tuple(y["refs"])) for y in o["years"]),
        "weeks": sorted((y["id"], tuple(y["refs"])) for y in o["weeks"]),
        "days": sorted(o["days"]),
        "loads": sorted((l["id"], l["people"], l["equip"], l["light"]) for l in o["loads"]),
        "thermostats": sorted((t["id"], t["tmax"], t["tmin"]) for t in o["thermostats"]),
    }


def _veq(a, b, rounded=False):
    """implementation value (number / 'nonfinite' / None) vs model value (decimal string or number / 'nonfinite' / None)"""
    if a is None or b is None:
        return a is None and b is None
    if a == "nonfinite" or b == "nonfinite":
        return a == b
    a, b = float(a), float(b)
    return abs(a - b) <= (0.0101 if rounded else 1e-5 * max(1.0, abs(b)))


def compare_values(case, out):
    fam = CORRESPONDENCES[2]
    imp = case["impl"]
    if "ok" not in imp:
        if "spaces" in out and "panic" in imp:
            return [(fam, f"{case['label']}: conversion panics, the typed model is accepted")]
        return []
    if "spaces" not in out:
        return [(fam, f"{case['label']}: implementation converts, the typed model says {str(out)[:100]}")]
    iv = imp["ok"]
    res = []
    for coll, fields in (("spaces", (("z", False), ("height", True), ("multiplier", False), ("n_v", False), ("illuminance", True))),
                         ("tbs", (("l", True), ("psi", False))),
                         ("windows", (("x", False), ("y", False), ("width", False), ("height", False), ("setback", False)))):
        a, b = iv[coll], out[coll]
        if [x["name"] for x in a] != [x["name"] for x in b]:
            res.append((fam, f"{case['label']}: {coll}: implementation has {[x['name'] for x in a][:4]}.., model {[x['name'] for x in b][:4]}.."))
            continue
        for x, y in zip(a, b):
            _stats["values_compared_" + coll] += 1
            for f, rounded in fields:
                if not _veq(x.get(f), y.get(f), rounded):
                    res.append((fam, f"{case['label']}: {coll} {x['name']}: {f} implementation {x.get(f)}, model {y.get(f)}"))
            for f in ("kind", "inside_tenv"):
                if f in y and x.get(f) != y.get(f):
                    res.append((fam, f"{case['label']}: {coll} {x['name']}: {f} implementation {x.get(f)}, model {y.get(f)}"))
    # collections the conversion filters to what is in use: every converted item has the model's values under its name
    for coll, fields in (("loads", (("area_per_person", False), ("people_sensible", True), ("people_latent", True), ("equipment", False), ("lighting", False))),
                         ("wallcons", (("absorptance", False),)),
                         ("wincons", (("f_f", False), ("delta_u", False), ("g_glshwi", False), ("c_100", False))),
                         ("glasses", (("u_value", False), ("g_gln", False))),
                         ("frames", (("u_value", False), ("absorptivity", False)))):
        mb = {y["name"]: y for y in out.get(coll, [])}
        for x in iv.get(coll, []):
            y = mb.get(x["name"])
            if y is None or y.get("rejected"):
                res.append((fam, f"{case['label']}: {coll} {x['name']!r} is in the converted model, the typed model {'rejects it' if y else 'does not have it'}"))
                continue
            _stats["values_compared_" + coll] += 1
            for f, rounded in fields:
                if not _veq(x.get(f), y.get(f), rounded):
                    res.append((fam, f"{case['label']}: {coll} {x['name']}: {f} implementation {x.get(f)}, model {y.get(f)}"))
            if coll == "wallcons":
                a, b = x["thickness"], y["thickness"]
                if len(a) != len(b) or any(not _veq(p, q) for p, q in zip(a, b)):
                    res.append((fam, f"{case['label']}: wallcons {x['name']}: layer thicknesses implementation {a}, model {b}"))
    # schedules: every typed schedule converts (or the whole conversion would have failed); by kind and name
    ms = {}
    for sc in out.get("schedules", []):
        if sc.get("rejected"):
            res.append((fam, f"{case['label']}: the implementation converts, the model rejects one of the schedules"))
        else:
            ms[(sc["kind"], sc["name"])] = sc
    for kind, key in (("day", "values"), ("week", "runs"), ("year", "periods")):
        for x in iv.get("schedules", {}).get(kind, []):
            y = ms.get((kind, x["name"]))
            if y is None:
                continue      # names squeezed by the parser (double blanks): compared in C18
            _stats["values_compared_schedules_" + kind] += 1
            if kind == "day":
                a, b = x["values"], y["values"]
                if len(a) != len(b) or any(not _veq(p, q) for p, q in zip(a, b)):
                    res.append((fam, f"{case['label']}: daily schedule {x['name']}: implementation {len(a)} values {a[:3]}.., model {len(b)} values {b[:3]}.."))
            else:
                a, b = [tuple(p) for p in x[key]], [tuple(p) for p in y[key]]
                if a != b:
                    res.append((fam, f"{case['label']}: {kind} schedule {x['name']}: implementation {a[:5]}, model {b[:5]}"))
    return res[:4]


def compare(case, out):
    if case.get("op") == "convvalues":
        return compare_values(case, out)
    imp = case["impl"]
    if imp["parse"] != "ok" or out.get("skip"):
        _stats["not_parsed"] += 1
        return []
    if imp["convert"] == "panic":
        return [(CORRESPONDENCES[0], f"implementation panics ({imp.get('msg')}); model: {'ok' if 'ok' in out else 'err'}")]
    bdl = imp["bdl"]
    for coll in ("materials", "wallcons", "wincons", "loads", "thermostats"):
        for e in bdl[coll]:
            if coll == "materials" and e["key"] != e["name"]:
                return [(CORRESPONDENCES[1], f"db.materials key {e['key']!r} differs from the material's name {e['name']!r}: the model's assumption does not hold")]
    if (imp["convert"] == "ok") != ("ok" in out):
        return [(CORRESPONDENCES[0], f"implementation {'accepts' if imp['convert'] == 'ok' else 'rejects (' + str(imp.get('msg'))[:100] + ')'}, "
                 f"model {'accepts' if 'ok' in out else 'rejects (' + str(out.get('err'))[:100] + ')'}")]
    if imp["convert"] != "ok":
        _stats["rejected_by_both"] += 1
        return []
    _stats["accepted_by_both"] += 1
    a, b = names_view(imp["model"]), model_view(out["ok"])
    for k in a:
        if a[k] != b[k]:
            da = [x for x in a[k] if x not in b[k]][:2]
            db = [x for x in b[k] if x not in a[k]][:2]
            return [(CORRESPONDENCES[1], f"{k}: implementation has {da}, model has {db} ({len(a[k])} vs {len(b[k])} entries)")]
    return []


def oracle(case):
    v = []
    imp = case["impl"]
    if case.get("op") == "convvalues":
        return v
    if imp["parse"] == "panic" or imp.get("convert") == "panic":
        v.append({"what": f"{case['label']}: {'parsing' if imp['parse'] == 'panic' else 'conversion'} panics: {imp.get('msg')}",
                  "key": {"class": "panic", "stage": "parse" if imp["parse"] == "panic" else "convert"}})
        return v
    if imp.get("convert") != "ok":
        return v
    probs = closure_problems(imp["model"])
    _stats["models_checked_for_closure"] += 1
    if imp["model"]["check_warnings"]:
        v.append({"what": f"{case['label']}: the model checker reports {imp['model']['check_warnings']} warning(s) on a freshly converted model",
                  "key": {"class": "check-warnings"}})
    for cls, where, owner in probs[:3]:
        v.append({"what": f"{case['label']}: {cls} {where} in {owner!r}", "key": {"class": cls, "where": where}})
    # a link the intact project resolves must not silently disappear when its target definition is renamed / removed
    if case["kind"] == "mutant" and case["base"]["convert"] == "ok":
        before = {s["name"]: s for s in case["base"]["model_spaces"] or []}
        for s in imp["model"]["spaces"]:
            b = before.get(s["name"])
            if not b:
                continue
            for f in ("loads", "thermostat"):
                if b[f] is not None and s[f] is None:
                    v.append({"what": f"{case['label']}: space {s['name']!r} lost its {f} link: the {case['def_kind']} it names was "
                              f"{ {'rename': 'renamed', 'crossref': 'replaced in a reference by a schedule of another kind'}.get(case['how'], 'removed') } and the project is still converted, with the link dropped",
                              "key": {"class": "broken-reference-accepted", "link": "space." + f}})
                    break
    return v[:4]


def nontrivial(case):
    if case.get("op") == "convvalues":
        return "ok" in case["impl"]
    return case["impl"].get("convert") == "ok"


def distinct_key(case):
    return case["label"]


def branch(case, out):
    i = case["impl"]
    if case.get("op") == "convvalues":
        return "values:" + ("ok" if "ok" in i else "err")
    return f"{case['kind']}:{i['parse']}:{i.get('convert')}" + (":" + case["def_kind"] if case["kind"] == "mutant" else "")


def sample(case, out):
    if case.get("op") == "convvalues":
        return {"label": case["label"], "kind": "values"}
    return {"label": case["label"], "kind": case["kind"], "parse": case["impl"]["parse"], "convert": case["impl"].get("convert"), "msg": case["impl"].get("msg")}


def extra_coverage():
    return dict(_stats)
